import A2Verif.Drv.All
/-!
`a2drv`: line protocol driver.  One request per line: `<family> <op> <args…>` (blank separated);
one answer line per request.  Families are registered in `A2Verif/Drv/All.lean`.
-/
open A2Verif

partial def loop (h : IO.FS.Stream) (out : IO.FS.Stream) (st : Drv.State) : IO Unit := do
  let line ← h.getLine
  if line.isEmpty then
    out.flush
    return ()
  let toks := (line.trimAscii.toString.splitOn " ").filter (· ≠ "")
  let (st', ans) := Drv.dispatch st toks
  out.putStrLn ans
  out.flush
  loop h out st'

def main : IO Unit := do
  let stdin ← IO.getStdin
  let stdout ← IO.getStdout
  loop stdin stdout Drv.State.init
