import A2Verif.Drv.All
