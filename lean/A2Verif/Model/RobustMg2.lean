import A2Verif.Model.RobustWoz
/-!
# C12: `Dot2mg::from_bytes` (src/img/dot2mg.rs:164-252) with the size rules of the wrapped parsers
`DO::from_bytes` (src/img/dsk_do.rs:165-184), `PO::from_bytes` (src/img/dsk_po.rs:97-108), `Nib::from_bytes`
(src/img/nib.rs:152-190)

Only the 64 header bytes and the length of the file matter for the outcome class: the data, comment and
creator ranges are sliced out of the file after a length test, the wrapped DO/PO parsers look at the length only,
an invalid UTF-8 comment is replaced by an empty one.  Whether track 0 of wrapped nibble data can be solved is a
parameter (`nibSolves`).  A slice `data[a..b]` panics unless `a ≤ b ≤ data.len()`.
-/
namespace A2Verif.Model.Robust

def sliceOk (fileLen a b : Nat) : Bool := a ≤ b && b ≤ fileLen

def rd32 (h : List Nat) (i : Nat) : Outcome Nat :=
  match h[i]?, h[i + 1]?, h[i + 2]?, h[i + 3]? with
  | some a, some b, some c, some d => .ok (le32 a b c d)
  | _, _, _, _ => .panic

/-- `DO::from_bytes` / `PO::from_bytes` accept this many bytes -/
def doSizeOk (n : Nat) : Bool := n % 512 = 0 && n / 512 ≤ 65535 && 280 ≤ n / 512 && (n / 512) % 8 = 0
def poSizeOk (n : Nat) : Bool := n % 512 = 0 && n / 512 ≤ 65535 && 280 ≤ n / 512

/-- `Dot2mg::from_bytes`; `hdr` = the first 64 bytes of the file (fewer if the file is shorter) -/
def mg2FromBytes (hdr : List Nat) (fileLen : Nat) (nibSolves : Bool) : Outcome Unit :=
  if fileLen < 64 then .err
  else
    match rd32 hdr 0, rd32 hdr 12, rd32 hdr 20, rd32 hdr 24, rd32 hdr 28 with
    | .ok magic, .ok fmt, .ok blocks, .ok off, .ok len =>
      if magic ≠ le32 0x32 0x49 0x4D 0x47 then .err
      else if fmt > 2 then .err
      else if fileLen < off + len then .err
      else if !sliceOk fileLen off (off + len) then .panic          -- `&data[offset..offset+len]`
      else
        let rawOk : Bool :=
          if fmt = 0 then doSizeOk len
          else if fmt = 1 then poSizeOk len
          else (len = 35 * 6656 || len = 35 * 6384) && nibSolves
        if !rawOk then .err
        else
          match rd32 hdr 32, rd32 hdr 36, rd32 hdr 40, rd32 hdr 44 with
          | .ok coff, .ok clen, .ok roff, .ok rlen =>
            if ¬ fileLen < coff + clen ∧ !sliceOk fileLen coff (coff + clen) then .panic
            else if ¬ fileLen < roff + rlen ∧ !sliceOk fileLen roff (roff + rlen) then .panic
            else if fmt = 1 ∧ blocks * 512 ≠ len then .err
            else .ok ()
          | _, _, _, _ => .panic
    | _, _, _, _, _ => .panic

end A2Verif.Model.Robust
