import A2Verif.Model.Detok
/-!
# C14 — reference re-tokenizer for the canonical Applesoft listing language

`detokA` prints a *canonical* text: `<number> <items>\n` per line, where an item is a keyword
` KW ` (blank, upper-case spelling, blank), a string `"…"` (escaped payload, closing quote optional at
the end of the line), ` REM ` / ` DATA ` followed by an escaped payload, or a single code character.
`retokA` is a specification-level tokenizer for that language: it stands for (tree-sitter parser ∘
`Tokenizer::visit`) **on canonical text only** (the real tokenizer is a parser walk and is not modelled;
the harness compares `retokA` with the real `tokenize` on real listings).  Its payload handling is a
transcription of `parse_escaped_ascii(s,false,false)` (lib.rs:513-549): the regex
`\\x[0-9A-Fa-f][0-9A-Fa-f]`, leftmost non-overlapping matches, every other ASCII character verbatim.

`stripHeadA` is the one permitted difference of the property: blanks directly after REM / DATA tokens
are removed (and the link fields recomputed, since line lengths change).
-/
namespace A2Verif.Detok
open A2Verif.Gen.Tokens

/-- value of a hex digit (`hex::decode`) -/
def hexVal (c : Nat) : Nat :=
  if 48 ≤ c ∧ c ≤ 57 then c - 48 else if 65 ≤ c ∧ c ≤ 70 then c - 55 else c - 87

/-- `parse_escaped_ascii(s, false, false)` on ASCII text -/
def unescA : List Nat → List Nat
  | [] => []
  | c :: x :: h1 :: h2 :: rest' =>
    if c = 92 ∧ x = 120 ∧ isHex h1 ∧ isHex h2 then (16 * hexVal h1 + hexVal h2) :: unescA rest'
    else c :: unescA (x :: h1 :: h2 :: rest')
  | c :: rest => c :: unescA rest

/-! ## the listing of a payload, as a function of the payload alone -/

/-- text of one payload byte `b` followed by the payload bytes `rest` (look-ahead inside the payload) -/
def pieceP (b : Nat) (rest : List Nat) : List Nat :=
  if b = 92 then
    match rest with
    | x :: h1 :: h2 :: _ => if x = 120 ∧ isHex h1 ∧ isHex h2 then [92, 120, 53, 99] else [92]
    | _ => [92]
  else if aEscapes.contains b ∨ b > 126 then hexEsc b
  else [b]

/-- escaped text of a whole payload -/
def escP : List Nat → List Nat
  | [] => []
  | b :: rest => pieceP b rest ++ escP rest

/-- the break condition of `applesoft::bytes_to_escaped_string_ex` -/
def stopA (ctx : Ctx) (term : List Nat) (q b : Nat) : Bool :=
  (ctx = .data && b = 0) || (ctx = .data && q % 2 = 0 && term.contains b) || (ctx ≠ .data && term.contains b)

/-- split a token-stream suffix into the payload of the context and what follows it -/
def spanA (ctx : Ctx) (term : List Nat) : Nat → List Nat → List Nat × List Nat
  | _, [] => ([], [])
  | q, b :: rest =>
    if stopA ctx term q b then ([], b :: rest)
    else
      let r := spanA ctx term (if b = aQuote then q + 1 else q) rest
      (b :: r.1, r.2)

/-- the same split on listing text: a string ends at `"` or the end of the line, a REM payload at the
end of the line, a DATA payload at an unquoted `:` or the end of the line -/
def stopT (ctx : Ctx) (q c : Nat) : Bool :=
  c = 10 || (ctx = .str && c = 34) || (ctx = .data && q % 2 = 0 && c = 58)

def spanT (ctx : Ctx) : Nat → List Nat → List Nat × List Nat
  | _, [] => ([], [])
  | q, c :: rest =>
    if stopT ctx q c then ([], c :: rest)
    else
      let r := spanT ctx (if c = 34 then q + 1 else q) rest
      (c :: r.1, r.2)

/-! ## the re-tokenizer -/

/-- keyword lookup by upper-case spelling (inverse of `DETOK_MAP`) -/
def lookupKw (w : List Nat) : Option Nat :=
  (applesoftDetok.find? fun p => upper p.2 == w).map (·.1)

def dropBlanks : List Nat → List Nat
  | [] => []
  | c :: rest => if c = 32 then dropBlanks rest else c :: rest

/-- characters up to the next blank or end of line -/
def spanWord : List Nat → List Nat × List Nat
  | [] => ([], [])
  | c :: rest =>
    if c = 32 ∨ c = 10 then ([], c :: rest)
    else let r := spanWord rest; (c :: r.1, r.2)

/-- tokenize the rest of one canonical line (after the line number); returns the body and the text after
the end of the line -/
def codeA : Nat → List Nat → Outcome (List Nat × List Nat)
  | 0, _ => .panic
  | _ + 1, [] => .ok ([], [])
  | fuel + 1, c :: rest =>
    if c = 10 then .ok ([], rest)
    else if c = 34 then
      let sp := spanT .str 1 rest
      match sp.2 with
      | 34 :: r' => (codeA fuel r').map fun x => ([34] ++ unescA sp.1 ++ [34] ++ x.1, x.2)
      | r => (codeA fuel r).map fun x => ([34] ++ unescA sp.1 ++ x.1, x.2)
    else if c = 32 then
      let w := spanWord rest
      match w.2 with
      | 32 :: r' =>
        match lookupKw w.1 with
        | some tok =>
          if tok = aRemTok then
            let sp := spanT .rem 0 (dropBlanks r')
            (codeA fuel sp.2).map fun x => ([tok] ++ unescA sp.1 ++ x.1, x.2)
          else if tok = aDataTok then
            let sp := spanT .data 0 (dropBlanks r')
            (codeA fuel sp.2).map fun x => ([tok] ++ unescA sp.1 ++ x.1, x.2)
          else (codeA fuel r').map fun x => (tok :: x.1, x.2)
        | none => .err
      | _ => .err
    else (codeA fuel rest).map fun x => ((if 97 ≤ c ∧ c ≤ 122 then c - 32 else c) :: x.1, x.2)

/-- decimal line number at the head of a line: digits up to the first blank -/
def parseDec : List Nat → Nat → Option (Nat × List Nat)
  | [], _ => none
  | c :: rest, acc =>
    if c = 32 then some (acc, rest)
    else if 48 ≤ c ∧ c ≤ 57 then parseDec rest (10 * acc + (c - 48))
    else none

/-- all lines of a canonical listing -/
def retokLines : Nat → List Nat → Outcome (List Line)
  | 0, _ => .panic
  | _ + 1, [] => .ok []
  | fuel + 1, c :: rest =>
    match parseDec (c :: rest) 0 with
    | some (num, r) =>
      if 65535 < num then .err
      else
        (codeA (r.length + 1) r).bind fun x =>
          (retokLines fuel x.2).map fun ls => { num := num, body := x.1 } :: ls
    | none => .err

/-- reference tokenizer for canonical listings, load address `addr` -/
def retokA (addr : Nat) (text : List Nat) : Outcome (List Nat) :=
  (retokLines (text.length + 1) text).bind (assembleA addr)

/-! ## the permitted difference -/

/-- remove the blanks directly after the REM / DATA tokens of a line body.
`mode`: 0 code, 1 string, 2 REM payload, 3 DATA payload (even quotes), 4 DATA payload (odd quotes),
5 blanks after REM, 6 blanks after DATA -/
def stripBody : Nat → List Nat → List Nat
  | _, [] => []
  | mode, b :: rest =>
    if mode = 0 then
      if b = aQuote then b :: stripBody 1 rest
      else if b = aRemTok then b :: stripBody 5 rest
      else if b = aDataTok then b :: stripBody 6 rest
      else b :: stripBody 0 rest
    else if mode = 1 then
      if b = aQuote then b :: stripBody 0 rest else b :: stripBody 1 rest
    else if mode = 2 then b :: stripBody 2 rest
    else if mode = 3 then
      if b = 58 then b :: stripBody 0 rest
      else if b = aQuote then b :: stripBody 4 rest
      else b :: stripBody 3 rest
    else if mode = 4 then
      if b = aQuote then b :: stripBody 3 rest else b :: stripBody 4 rest
    else if mode = 5 then
      if b = 32 then stripBody 5 rest else b :: stripBody 2 rest
    else
      if b = 32 then stripBody 6 rest
      else if b = 58 then b :: stripBody 0 rest
      else if b = aQuote then b :: stripBody 4 rest
      else b :: stripBody 3 rest

def stripLine (l : Line) : Line := { num := l.num, body := stripBody 0 l.body }

/-- `stripHead t` for load address `addr`: strip every line, recompute the link fields -/
def stripHeadA (addr : Nat) (t : List Nat) : Outcome (List Nat) :=
  match scanA (t.length + 1) addr t with
  | some ls => assembleA addr (ls.map stripLine)
  | none => .err

/-! ## the class of token streams the model-level round trip is stated for -/

/-- a code character (outside strings, REM and DATA payloads) the canonical listing reproduces:
printable, not a blank, not a quote, not lower case -/
def codeCharOK (b : Nat) : Bool := 33 ≤ b && b ≤ 126 && b != 34 && !(97 ≤ b && b ≤ 122)

/-- class of a line body.  Code context: known tokens and `codeCharOK` characters.  String, REM and
DATA payloads: **any** bytes `< 256` (escapes included) — the terminators `00`, `"` (strings) and an
unquoted `:` (DATA) end the payload by construction.  `mode` as in `stripBody` (0,1,2,3,4). -/
def classBody : Nat → List Nat → Bool
  | _, [] => true
  | mode, b :: rest =>
    b < 256 && b != 0 &&
    (if mode = 0 then
      if b = aQuote then classBody 1 rest
      else if b = aRemTok then classBody 2 rest
      else if b = aDataTok then classBody 3 rest
      else if b > 127 then (applesoftDetok.lookup b).isSome && classBody 0 rest
      else codeCharOK b && classBody 0 rest
    else if mode = 1 then
      if b = aQuote then classBody 0 rest else classBody 1 rest
    else if mode = 2 then classBody 2 rest
    else if mode = 3 then
      if b = 58 then classBody 0 rest
      else if b = aQuote then classBody 4 rest
      else classBody 3 rest
    else
      if b = aQuote then classBody 3 rest else classBody 4 rest)

/-- class of a token stream: every line body in the class and shorter than the detokenizer's line cap,
at most `max_lines` lines, and the image small enough for the detokenizer's address cap -/
def classA (addr : Nat) (t : List Nat) : Bool :=
  match scanA (t.length + 1) addr t with
  | some ls => ls.all (fun l => classBody 0 l.body && l.body.length < aMaxLineLength) &&
      ls.length ≤ aMaxLines && t.length ≤ 65533
  | none => false

end A2Verif.Detok

/-! ## round 4: the Integer BASIC side of the escape codec -/
namespace A2Verif.Detok
open A2Verif.Gen.Tokens

/-- `char::to_uppercase` on one ASCII character -/
def upC (c : Nat) : Nat := if 97 ≤ c ∧ c ≤ 122 then c - 32 else c

/-- `parse_escaped_ascii(s, inverted = true, caps = true)` on ASCII text (lib.rs:517-552; what
`integer::Tokenizer::stringlike_node_to_bytes` applies to string and comment text): `\xHH` gives the byte `HH`
as written (escapes are NOT inverted), every other character is capitalised and gets the high bit -/
def unescI : List Nat → List Nat
  | [] => []
  | c :: x :: h1 :: h2 :: rest' =>
    if c = 92 ∧ x = 120 ∧ isHex h1 ∧ isHex h2 then (16 * hexVal h1 + hexVal h2) :: unescI rest'
    else (upC c + 128) :: unescI (x :: h1 :: h2 :: rest')
  | c :: rest => (upC c + 128) :: unescI rest

end A2Verif.Detok
