import A2Verif.Gen.C09Const
/-!
IMD (ImageDisk) container model for property C09 — src/img/imd.rs.

* `secBufSize`   ↔ `Track::get_sec_buf_size` (imd.rs:172-186); the per-code size class comes from the
                   GENERATED table `Gen.C09Const.IMD_CODE_KIND` (0: one byte, 1: `1+sec_size`, 2: two bytes);
                   an unknown code is a Rust `panic!`, here `none`.
* `compressGo`   ↔ `Track::compress` (imd.rs:188-216), `expandGo` ↔ `Track::expand` (imd.rs:218-248):
                   the loop `for isec in 0..self.sectors` with the running `ptr` is a recursion on the sector
                   count over the not yet consumed suffix of `track_buf`.  Every slice/index that would be out of
                   bounds in Rust (a panic) is `none`.
* `Track`, `trackToBytes`, `trackFromBytes` ↔ `impl DiskStruct for Track` (imd.rs:261-338).
* `Image`, `toBytes`, `fromBytes` ↔ `Imd::to_bytes` / `Imd::from_bytes` (imd.rs:584-680) without the
  disk-kind guess (a pure function of the parsed tracks) and without UTF-8 validation of the comment
  (bytes are kept as bytes).

Bytes are `Nat`; nothing here needs them to be `< 256` except the statement of well-formedness in
the theorems.
-/
namespace A2Verif.Model.C09Imd
open A2Verif.Gen.C09Const

/-- `SECTOR_SIZE_BASE << sector_shift` -/
def secSize (shift : Nat) : Nat := IMD_SECTOR_SIZE_BASE <<< shift

/-- `get_sec_buf_size`; `none` = `panic!("unexpected sector data type")` -/
def secBufSize (shift code : Nat) : Option Nat :=
  match IMD_CODE_KIND[code]? with
  | some 0 => some 1
  | some 1 => some (1 + secSize shift)
  | some 2 => some 2
  | _ => none

/-- `is_slice_uniform` (imd.rs:54-65) -/
def isUniform : List Nat → Bool
  | [] => true
  | x :: xs => xs.all (fun y => y == x)

/-- what `compress` emits for one sector record `slice` of buffer size `sz` -/
def compressOne (sz : Nat) (slice : List Nat) : List Nat :=
  if sz > 2 && isUniform (slice.drop 1) then
    match slice with
    | c :: d :: _ => [c + 1, d]
    | _ => slice
  else slice

/-- `Track::compress`: `n` sector records are still to be read from `buf` -/
def compressGo (shift : Nat) : Nat → List Nat → Option (List Nat)
  | 0, _ => some []
  | n + 1, buf =>
    match buf with
    | [] => none
    | code :: _ =>
      match secBufSize shift code with
      | none => none
      | some sz =>
        if buf.length < sz then none
        else
          match compressGo shift n (buf.drop sz) with
          | none => none
          | some rest => some (compressOne sz (buf.take sz) ++ rest)

/-- what `expand` emits for one record -/
def expandOne (shift sz : Nat) (slice : List Nat) : List Nat :=
  if sz = 2 then
    match slice with
    | c :: d :: _ => (c - 1) :: List.replicate ((1 <<< shift) * 128) d
    | _ => slice
  else slice

/-- `Track::expand` -/
def expandGo (shift : Nat) : Nat → List Nat → Option (List Nat)
  | 0, _ => some []
  | n + 1, buf =>
    match buf with
    | [] => none
    | code :: _ =>
      match secBufSize shift code with
      | none => none
      | some sz =>
        if buf.length < sz then none
        else
          match expandGo shift n (buf.drop sz) with
          | none => none
          | some rest => some (expandOne shift sz (buf.take sz) ++ rest)

/-- the part of `struct Track` that is stored in the file -/
structure Track where
  mode : Nat
  cylinder : Nat
  head : Nat
  sectors : Nat
  shift : Nat
  sectorMap : List Nat
  cylMap : List Nat
  headMap : List Nat
  buf : List Nat
deriving DecidableEq, Repr

def Track.compress (t : Track) : Option Track :=
  (compressGo t.shift t.sectors t.buf).map (fun b => { t with buf := b })

def Track.expand (t : Track) : Option Track :=
  (expandGo t.shift t.sectors t.buf).map (fun b => { t with buf := b })

/-- `Track::to_bytes` (imd.rs:280-288) -/
def trackToBytes (t : Track) : List Nat :=
  [t.mode, t.cylinder, t.head, t.sectors, t.shift] ++ t.sectorMap ++ t.cylMap ++ t.headMap ++ t.buf

/-- the sector-record loop of `update_from_bytes` (imd.rs:325-330): returns the copied records and the
rest; `none` = panic (unknown code / index past the end), `some none` = `Err(OutOfData)` -/
def readRecords (shift : Nat) : Nat → List Nat → Option (Option (List Nat × List Nat))
  | 0, bytes => some (some ([], bytes))
  | n + 1, bytes =>
    match bytes with
    | [] => none
    | code :: _ =>
      match secBufSize shift code with
      | none => none
      | some sz =>
        if bytes.length < sz then some none
        else
          match readRecords shift n (bytes.drop sz) with
          | some (some (recs, rest)) => some (some (bytes.take sz ++ recs, rest))
          | r => r

/-- `Track::update_from_bytes` + the pointer advance of `from_bytes_adv`: parsed track and the unread rest -/
def trackFromBytes (bytes : List Nat) : Option (Option (Track × List Nat)) :=
  match bytes with
  | mode :: cyl :: head :: secs :: shift :: r0 =>
    -- `sector_shift==0xff` (inhomogeneous sizes) and `sector_shift>6` are refused before anything else is read
    if shift > 6 then some none else
    if r0.length < secs then some none else
    let smap := r0.take secs
    let r1 := r0.drop secs
    let hasCyl := head &&& IMD_CYL_MAP_FLAG = IMD_CYL_MAP_FLAG
    let hasHead := head &&& IMD_HEAD_MAP_FLAG = IMD_HEAD_MAP_FLAG
    if hasCyl ∧ r1.length < secs then some none else
    let cmap := if hasCyl then r1.take secs else []
    let r2 := if hasCyl then r1.drop secs else r1
    if hasHead ∧ r2.length < secs then some none else
    let hmap := if hasHead then r2.take secs else []
    let r3 := if hasHead then r2.drop secs else r2
    match readRecords shift secs r3 with
    | none => none
    | some none => some none
    | some (some (recs, rest)) =>
      some (some ({ mode := mode, cylinder := cyl, head := head, sectors := secs, shift := shift,
                    sectorMap := smap, cylMap := cmap, headMap := hmap, buf := recs }, rest))
  | _ => some none

/-- the file-level image: 29 header bytes, comment bytes (no 0x1A inside), expanded tracks -/
structure Image where
  header : List Nat
  comment : List Nat
  tracks : List Track
deriving DecidableEq, Repr

def tracksToBytes : List Track → Option (List Nat)
  | [] => some []
  | t :: ts =>
    match t.compress, tracksToBytes ts with
    | some c, some r => some (trackToBytes c ++ r)
    | _, _ => none

/-- `Imd::to_bytes` (imd.rs:670-680); `none` = panic inside `compress` -/
def toBytes (x : Image) : Option (List Nat) :=
  (tracksToBytes x.tracks).map (fun r => x.header ++ x.comment ++ [0x1A] ++ r)

/-- the `while ptr<data.len()` loop of `from_bytes` (imd.rs:615-622); fuel = number of bytes -/
def readTracks : Nat → List Nat → Option (Option (List Track))
  | _, [] => some (some [])
  | 0, _ => some none
  | fuel + 1, bytes =>
    match trackFromBytes bytes with
    | none => none
    | some none => some none
    | some (some (c, rest)) =>
      if c.shift = 0xFF then some none else
      match c.expand with
      | none => none
      | some t =>
        match readTracks fuel rest with
        | some (some ts) => some (some (t :: ts))
        | r => r

/-- position of the first 0x1A at or after the start of `bs` -/
def findEof : List Nat → Option Nat
  | [] => none
  | b :: bs => if b = 0x1A then some 0 else (findEof bs).map (· + 1)

/-- `Imd::from_bytes` (imd.rs:584-657) on the byte level: `none` = panic, `some none` = `Err`.
The signature test accepts `IMD 0.` and `IMD 1.`; a missing 0x1A and an image without tracks are `Err`. -/
def fromBytes (data : List Nat) : Option (Option Image) :=
  if data.length < 29 then some none else
  let header := data.take 29
  if ¬ (header.take 4 = [73, 77, 68, 32] ∧ (header.drop 4).take 2 ∈ [[48, 46], [49, 46]]) then some none else
  match findEof (data.drop 29) with
  | none => some none  -- `ptr==0`: "IMD comment terminator not found", `Err(IllegalValue)`
  | some k =>
    let comment := (data.drop 29).take k
    match readTracks data.length (data.drop (29 + k + 1)) with
    | none => none
    | some none => some none
    | some (some ts) =>
      match ts with
      | [] => some none  -- "IMD has no tracks": `Err(UnexpectedSize)`
      | _ => some (some { header := header, comment := comment, tracks := ts })

/-- `Imd::from_bytes` with the outcome of `String::from_utf8` on the comment bytes as a parameter: a comment that is not
UTF-8 is `Err(IllegalValue)` before any track is looked at -/
def fromBytesV (valid : Bool) (data : List Nat) : Option (Option Image) :=
  if data.length < 29 then some none else
  let header := data.take 29
  if ¬ (header.take 4 = [73, 77, 68, 32] ∧ (header.drop 4).take 2 ∈ [[48, 46], [49, 46]]) then some none else
  match findEof (data.drop 29) with
  | none => some none
  | some _ => if valid then fromBytes data else some none

end A2Verif.Model.C09Imd
