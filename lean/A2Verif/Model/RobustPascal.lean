import A2Verif.Model.Robust
/-!
# C12: Pascal volume directory read path

`get_directory` (src/fs/pascal/mod.rs:27-58), the entry scans `for i in 0..num_files { directory.entries[i] }`
(`test_img` :132, `is_block_free` :183, `get_file_entry` :317), and the end-of-file computation of `read_file`
(:343-352).  The disk image is a parameter: `img b` = the 512-byte block `b`, or `none` if the image layer
returns an error (block outside the image).  Directory entries are 26 bytes and may straddle blocks, which is why
the code gathers blocks `2..end` into one buffer and then slices it.
-/
namespace A2Verif.Model.Robust

/-- `for iblock in beg..end { buf.append(img.read_block(iblock)?) }`; `none` = a read failed -/
def pasGather (img : Nat → Option (List Nat)) : Nat → Nat → Option (List Nat)
  | 0, _ => some []
  | k + 1, b =>
    match img b with
    | none => none
    | some v => (pasGather img k (b + 1)).map (v ++ ·)

def rd16 (xs : List Nat) (i : Nat) : Outcome Nat :=
  match xs[i]?, xs[i + 1]? with
  | some lo, some hi => .ok (lo + 256 * hi)
  | _, _ => .panic

structure PasDir where
  total : Nat
  numFiles : Nat
  /-- the gathered directory blocks -/
  buf : List Nat
  /-- `entries.len()` -/
  nEntries : Nat

/-- `get_directory` -/
def pasGetDirectory (img : Nat → Option (List Nat)) : Outcome PasDir :=
  match img 2 with
  | none => .err
  | some b2 =>
    if b2.length < 26 then .panic                     -- `&buf[0..ENTRY_SIZE]`
    else
      match rd16 b2 0, rd16 b2 2, rd16 b2 14, rd16 b2 16 with
      | .ok beg0, .ok endb, .ok total, .ok nfiles =>
        if beg0 ≠ 0 ∨ endb ≤ 2 ∨ endb > total then .err
        else
          match pasGather img (endb - 2) 2 with
          | none => .err
          | some buf =>
            if buf.length / 26 < 1 then .panic        -- `buf.len()/ENTRY_SIZE - 1` in `usize`
            else
              let maxN := buf.length / 26 - 1
              if 26 * (maxN + 1) > buf.length then .panic   -- last slice `buf[offset..offset+ENTRY_SIZE]`
              else if nfiles > maxN then .err
              else .ok ⟨total, nfiles, buf, maxN⟩
      | _, _, _, _ => .panic

/-- `for i in 0..num_files { let e = &directory.entries[i]; … begin_block, end_block … }`: entry `i` is bytes
`26*(i+1) ..` of the buffer; result = number of live entries -/
def pasScan (d : PasDir) : Nat → Nat → Outcome Nat
  | 0, _ => .ok 0
  | k + 1, i =>
    if i ≥ d.nEntries then .panic                     -- `entries[i]`
    else
      match rd16 d.buf (26 * (i + 1)), rd16 d.buf (26 * (i + 1) + 2) with
      | .ok beg, .ok en =>
        (match pasScan d k (i + 1) with
         | .ok n => .ok (n + (if beg > 0 ∧ en > beg ∧ en ≤ d.total then 1 else 0))
         | .err => .err
         | .panic => .panic)
      | _, _ => .panic

/-- the end-of-file field of `read_file`: `512*chunks - bytes_remaining` in `u32`, after the guard -/
def pasEof (chunks bytesRemaining : Nat) : Outcome Nat :=
  if bytesRemaining > 512 * chunks then .err
  else if 512 * chunks < bytesRemaining then .panic
  else .ok (512 * chunks - bytesRemaining)

/-- mount-time and listing-time use of the directory: load it, then scan the `num_files` entries -/
def pasReadDir (img : Nat → Option (List Nat)) : Outcome Nat :=
  match pasGetDirectory img with
  | .ok d => pasScan d d.numFiles 0
  | .err => .err
  | .panic => .panic

end A2Verif.Model.Robust
