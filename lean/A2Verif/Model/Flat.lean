import A2Verif.Gen.Skew
import A2Verif.Gen.C08Guards
/-!
# Model of the flat (already decoded) image formats: DO, PO, D13, IMG, 2MG(DO/PO payload)

Address arithmetic of `read_block / write_block / read_sector / write_sector` of
`src/img/dsk_do.rs`, `dsk_po.rs`, `dsk_d13.rs`, `dsk_img.rs`, `dot2mg.rs` as functions on a
`List Nat` buffer (bytes `< 256`), with an explicit three-way outcome: a Rust slice
`self.data[a..b]` / `copy_from_slice` outside the buffer and an array index outside a skew table
are `panic`, an `Err(..)` is `err` (the kind of error is not distinguished: the property only asks
for *refused*).

Every function takes a flag `g` saying whether the *bounds check on the address* is present in the
source for that arm.  The flags of the current working tree are extracted by the translator
(`translator/gen_c08.py` → `A2Verif.Gen.C08Guards`); on the tree this was written against they are
all `false` for block addresses (DESIGN §9 item 21).  Theorems are stated for both values.

| Rust                                                         | Lean |
|--------------------------------------------------------------|------|
| `img::quantize_block` mod.rs:489                             | `quantize` |
| `self.data[o..o+n].to_vec()` / `.copy_from_slice`            | `slice?`, `splice`, `readExts`, `writeExts` |
| `skew::ts_from_prodos_block` (5.25 arm) skew.rs:66-73        | `tsFromProdos` |
| `Block::get_lsecs` (CPM, FAT arms) fs/mod.rs:78-100          | `lsecsCpm`, `lsecsFat` |
| `skew::fat_blocking` skew.rs:150                             | `fatBlocking` |
| `DO::{read,write}_block`, `{read,write}_sector` dsk_do.rs:60-163 | `DOImg.*` |
| `PO::{read,write}_block` dsk_po.rs:60-78                     | `POImg.*` |
| `D13::{read,write}_block`, `_sector` dsk_d13.rs:50-92        | `D13Img.*` |
| `Img::{read,write}_sector`, `_block` dsk_img.rs:65-130       | `IbmImg.*` |
| `Dot2mg` delegation + write-protect flag dot2mg.rs:150-172   | `MgImg.*` |
-/
namespace A2Verif.Model.Flat
open A2Verif.Gen

/-- outcome of a read -/
inductive RRes
  | ok (d : List Nat)
  | err
  | panic
deriving DecidableEq, Repr

/-- outcome of a write: the new state, a refusal (carrying the state, which a refusal may have
changed if the code wrote part of the unit before failing), or a panic -/
inductive WRes (σ : Type)
  | ok (s : σ)
  | err (s : σ)
  | panic
deriving Repr

/-- `quantize_block`: exactly `q` bytes, source bytes first, zero padded, excess dropped -/
def quantize (src : List Nat) (q : Nat) : List Nat := (List.range q).map (fun i => src.getD i 0)

/-- `data[off..off+len].to_vec()`; `none` = slice out of range (panic) -/
def slice? (data : List Nat) (off len : Nat) : Option (List Nat) :=
  if off + len ≤ data.length then some ((data.drop off).take len) else none

/-- `data[off..off+src.len()].copy_from_slice(src)` (caller has checked the range) -/
def splice (data : List Nat) (off : Nat) (src : List Nat) : List Nat :=
  data.take off ++ src ++ data.drop (off + src.length)

/-- read the extents `(off, len)` for each `off` in order and concatenate; first bad slice panics -/
def readExts (data : List Nat) (offs : List Nat) (len : Nat) : RRes :=
  match offs with
  | [] => .ok []
  | o :: os =>
    match slice? data o len with
    | none => .panic
    | some x =>
      match readExts data os len with
      | .ok r => .ok (x ++ r)
      | e => e

/-- write consecutive `len`-byte chunks of `src` to the extents in order; first bad slice panics
(`none`) -/
def writeExts (data : List Nat) (offs : List Nat) (len : Nat) (src : List Nat) : Option (List Nat) :=
  match offs with
  | [] => some data
  | o :: os =>
    if o + len ≤ data.length then writeExts (splice data o (src.take len)) os len (src.drop len)
    else none

/-- file-system block addresses, `fs::Block` -/
inductive Block
  | d13 (t s : Nat)
  | dos (t s : Nat)
  | po (b : Nat)
  | cpm (b bsh off : Nat)
  | fat (sec1 secs : Nat)
deriving DecidableEq, Repr

/-- `ts_from_prodos_block` for a 5.25 inch 16 sector disk: two logical sectors on track `b/8` -/
def tsFromProdos (b : Nat) : List (Nat × Nat) :=
  [(b / 8, Skew.sector1.getD (b % 8) 0), (b / 8, Skew.sector2.getD (b % 8) 0)]

/-- `get_lsecs` for a FAT block: `[sec/spt, sec%spt]` for `sec1 ≤ sec < sec1+secs` -/
def lsecsFat (sec1 secs spt : Nat) : List (Nat × Nat) :=
  (List.range secs).map (fun k => ((sec1 + k) / spt, (sec1 + k) % spt))

/-- `fat_blocking` (heads ≥ 1 checked by the caller): `[cyl, head, 1+lsec]` -/
def fatBlocking (ts : List (Nat × Nat)) (heads : Nat) : List (Nat × Nat × Nat) :=
  ts.map (fun (t, l) => (t / heads, (if heads = 1 then 0 else t % heads), 1 + l))

/-! ## DO -/

structure DOImg where
  tracks : Nat
  sectors : Nat
  /-- `kind` is `A2_DOS33_KIND` (or `LogicalSectors(A2_DOS33)`): ProDOS blocks can be located -/
  dos33 : Bool
  data : List Nat
deriving Repr

namespace DOImg

def off (i : DOImg) (t s : Nat) : Nat := t * i.sectors * 256 + s * 256

def tsOk (i : DOImg) (ts : List (Nat × Nat)) : Bool :=
  ts.all (fun p => decide (p.1 < i.tracks) && decide (p.2 < i.sectors))

/-- offsets a block address touches, `none` = the image refuses this kind of block -/
def blockTs (i : DOImg) : Block → Option (List (Nat × Nat))
  | .dos t s => some [(t, s)]
  | .po b => if i.dos33 then some (tsFromProdos b) else none
  | _ => none

def blockLen : Block → Nat
  | .po _ => 512
  | _ => 256

/-- `read_block`, arms `Block::DO` and `Block::PO` (`Block::D13`, `Block::FAT` are refused;
`Block::CPM` is not modelled) -/
def readBlock (g : Bool) (i : DOImg) (a : Block) : RRes :=
  match i.blockTs a with
  | none => .err
  | some ts =>
    if g && !i.tsOk ts then .err
    else readExts i.data (ts.map (fun p => i.off p.1 p.2)) 256

def writeBlock (g : Bool) (i : DOImg) (a : Block) (dat : List Nat) : WRes DOImg :=
  match i.blockTs a with
  | none => .err i
  | some ts =>
    if g && !i.tsOk ts then .err i
    else match writeExts i.data (ts.map (fun p => i.off p.1 p.2)) 256 (quantize dat (blockLen a)) with
      | none => .panic
      | some d => .ok { i with data := d }

/-- the bounds check of `read_sector`/`write_sector` (always present) -/
def secRefused (i : DOImg) (cyl head sec : Nat) : Bool :=
  decide (cyl ≥ i.tracks) || decide (head > 0) || decide (sec ≥ i.sectors)

def secOff (i : DOImg) (cyl lsec : Nat) : Nat := (cyl * i.sectors + lsec) * 256

def readSector (i : DOImg) (cyl head sec : Nat) : RRes :=
  if i.secRefused cyl head sec then .err
  else match Skew.DOS_PSEC_TO_DOS_LSEC[sec]? with
    | none => .panic
    | some l => readExts i.data [i.secOff cyl l] 256

def writeSector (i : DOImg) (cyl head sec : Nat) (dat : List Nat) : WRes DOImg :=
  if i.secRefused cyl head sec then .err i
  else match Skew.DOS_PSEC_TO_DOS_LSEC[sec]? with
    | none => .panic
    | some l => match writeExts i.data [i.secOff cyl l] 256 (quantize dat 256) with
      | none => .panic
      | some d => .ok { i with data := d }

end DOImg

/-! ## PO -/

structure POImg where
  blocks : Nat
  data : List Nat
deriving Repr

namespace POImg

def readBlock (g : Bool) (i : POImg) : Block → RRes
  | .po b => if g && decide (b ≥ i.blocks) then .err else readExts i.data [b * 512] 512
  | _ => .err

def writeBlock (g : Bool) (i : POImg) (a : Block) (dat : List Nat) : WRes POImg :=
  match a with
  | .po b =>
    if g && decide (b ≥ i.blocks) then .err i
    else match writeExts i.data [b * 512] 512 (quantize dat 512) with
      | none => .panic
      | some d => .ok { i with data := d }
  | _ => .err i

/-- "logical disk cannot access sectors" -/
def readSector (_i : POImg) (_cyl _head _sec : Nat) : RRes := .err
def writeSector (i : POImg) (_cyl _head _sec : Nat) (_dat : List Nat) : WRes POImg := .err i

end POImg

/-! ## D13 -/

structure D13Img where
  tracks : Nat
  data : List Nat
deriving Repr

namespace D13Img

def off (t s : Nat) : Nat := t * (13 * 256) + s * 256

def readBlock (g : Bool) (i : D13Img) : Block → RRes
  | .d13 t s => if g && !(decide (t < i.tracks) && decide (s < 13)) then .err else readExts i.data [off t s] 256
  | _ => .err

def writeBlock (g : Bool) (i : D13Img) (a : Block) (dat : List Nat) : WRes D13Img :=
  match a with
  | .d13 t s =>
    if g && !(decide (t < i.tracks) && decide (s < 13)) then .err i
    else match writeExts i.data [off t s] 256 (quantize dat 256) with
      | none => .panic
      | some d => .ok { i with data := d }
  | _ => .err i

def secRefused (i : D13Img) (cyl head sec : Nat) : Bool :=
  decide (cyl ≥ i.tracks) || decide (head > 0) || decide (sec > 12)

def readSector (i : D13Img) (cyl head sec : Nat) : RRes :=
  if i.secRefused cyl head sec then .err else readExts i.data [off cyl sec] 256

def writeSector (i : D13Img) (cyl head sec : Nat) (dat : List Nat) : WRes D13Img :=
  if i.secRefused cyl head sec then .err i
  else match writeExts i.data [off cyl sec] 256 (quantize dat 256) with
    | none => .panic
    | some d => .ok { i with data := d }

end D13Img

/-! ## IMG -/

structure IbmImg where
  secSize : Nat
  cylinders : Nat
  heads : Nat
  sectors : Nat
  data : List Nat
deriving Repr

namespace IbmImg

/-- `track>=self.track_count() || sec<1 || sec>self.sectors`, with `track = cyl*heads + head`;
`g` = an additional check `head >= heads` is present -/
def secRefused (g : Bool) (i : IbmImg) (cyl head sec : Nat) : Bool :=
  (g && decide (head ≥ i.heads)) ||
  decide (cyl * i.heads + head ≥ i.cylinders * i.heads) || decide (sec < 1) || decide (sec > i.sectors)

def secOff (i : IbmImg) (cyl head sec : Nat) : Nat :=
  ((cyl * i.heads + head) * i.sectors + sec - 1) * i.secSize

def readSector (g : Bool) (i : IbmImg) (cyl head sec : Nat) : RRes :=
  if i.secRefused g cyl head sec then .err else readExts i.data [i.secOff cyl head sec] i.secSize

def writeSector (g : Bool) (i : IbmImg) (cyl head sec : Nat) (dat : List Nat) : WRes IbmImg :=
  if i.secRefused g cyl head sec then .err i
  else match writeExts i.data [i.secOff cyl head sec] i.secSize (quantize dat i.secSize) with
    | none => .panic
    | some d => .ok { i with data := d }

/-- the loop of `read_block` over the CHS list: first refused sector ends it -/
def readChs (g : Bool) (i : IbmImg) : List (Nat × Nat × Nat) → RRes
  | [] => .ok []
  | (c, h, s) :: rest =>
    match i.readSector g c h s with
    | .ok x => (match readChs g i rest with
      | .ok r => .ok (x ++ r)
      | e => e)
    | e => e

/-- the loop of `write_block`: sectors before the first refused one have been written -/
def writeChs (g : Bool) (i : IbmImg) (chs : List (Nat × Nat × Nat)) (src : List Nat) : WRes IbmImg :=
  match chs with
  | [] => .ok i
  | (c, h, s) :: rest =>
    match i.writeSector g c h s (src.take i.secSize) with
    | .ok i' => writeChs g i' rest (src.drop i.secSize)
    | e => e

def readBlock (g : Bool) (i : IbmImg) : Block → RRes
  | .fat sec1 secs =>
    if i.heads < 1 then .err
    else i.readChs g (fatBlocking (lsecsFat sec1 secs i.sectors) i.heads)
  | _ => .err

/-- `atomic` = the whole CHS list is validated before the first `write_sector` -/
def writeBlock (g atomic : Bool) (i : IbmImg) (a : Block) (dat : List Nat) : WRes IbmImg :=
  match a with
  | .fat sec1 secs =>
    if i.heads < 1 then .err i
    else
      let chs := fatBlocking (lsecsFat sec1 secs i.sectors) i.heads
      if atomic && chs.any (fun p => i.secRefused g p.1 p.2.1 p.2.2) then .err i
      else i.writeChs g chs (quantize dat (chs.length * i.secSize))
  | _ => .err i

end IbmImg

/-! ## 2MG: a header flag and a wrapped DO or PO image -/

inductive MgRaw
  | dos (i : DOImg)
  | po (i : POImg)
deriving Repr

structure MgImg where
  /-- `header.flags[3] > 127` -/
  writeProtected : Bool
  raw : MgRaw
deriving Repr

namespace MgImg

def readBlock (g : Bool) (m : MgImg) (a : Block) : RRes :=
  match m.raw with
  | .dos i => i.readBlock g a
  | .po i => i.readBlock g a

def liftW {σ} (m : MgImg) (f : σ → MgRaw) : WRes σ → WRes MgImg
  | .ok s => .ok { m with raw := f s }
  | .err s => .err { m with raw := f s }
  | .panic => .panic

def writeBlock (g : Bool) (m : MgImg) (a : Block) (dat : List Nat) : WRes MgImg :=
  if m.writeProtected then .err m
  else match m.raw with
    | .dos i => liftW m MgRaw.dos (i.writeBlock g a dat)
    | .po i => liftW m MgRaw.po (i.writeBlock g a dat)

def readSector (m : MgImg) (cyl head sec : Nat) : RRes :=
  match m.raw with
  | .dos i => i.readSector cyl head sec
  | .po i => i.readSector cyl head sec

def writeSector (m : MgImg) (cyl head sec : Nat) (dat : List Nat) : WRes MgImg :=
  if m.writeProtected then .err m
  else match m.raw with
    | .dos i => liftW m MgRaw.dos (i.writeSector cyl head sec dat)
    | .po i => liftW m MgRaw.po (i.writeSector cyl head sec dat)

end MgImg

end A2Verif.Model.Flat
