import A2Verif.Model.Srv
/-!
# The configuration and the analyzer object as parts of the protocol state (property C18)

`Model/Srv.lean` treats a job's result as given (`an id text`).  Here the two things a result
really depends on are explicit:

* the **settings**: the client answers the server's `workspace/configuration` request; the handler of
  that answer (`src/bin/server-*/response.rs`) stores the settings in `tools.config`, takes the shared
  analyzer's mutex (`tools.analyzer.lock()` — the main thread *waits* while an analysis holds it; a
  poisoned mutex is skipped) and calls `set_config`, releases the guard, and then launches one job
  per checkpoint with a new analyzer that was given the same settings.  `didChangeConfiguration`
  makes the server ask again (`notification.rs`), so every configuration change reaches the server
  as one such answer: the events `configLock c` (first half) and `config c live order` (second half);
* the **analyzer object** behind the mutex (`tools.analyzer : Arc<Mutex<Analyzer>>`), which every shared
  job mutates: a job's result is whatever `analyze` returns *in the state the previous holder of the
  mutex left the object in and with the settings the object holds at that moment*.

The main thread is sequential: between the two halves of the handler nothing else it does can happen
(`pending`), only threads move.  Core Lean only.
-/
namespace A2Verif.Srv

/-- `Settings::new()`: what the servers start with before the client has answered -/
def cfg0 : Cfg := 0

/-- `Analyzer::new()`, `set_config` and `analyze` + `get_diags` as they are: the result *and* the
successor state may depend on the state the object is in; `σ` = everything the object carries from one
call to the next except the settings -/
structure CAnalyzer (σ : Type) where
  fresh : σ
  /-- what `set_config` (plus, for Merlin, the workspace rescan under the same guard) does to the rest -/
  setCfg : Cfg → σ → σ
  run : Cfg → σ → Text → Option Diags × σ

/-- ghost: one completed analysis -/
structure Done where
  id : Nat
  cfg : Cfg
  text : Text
  res : Option Diags
deriving DecidableEq, Repr

structure CState (σ : Type) where
  srv : State
  /-- carried fields of the analyzer inside `tools.analyzer` -/
  shared : σ
  /-- its `config` field -/
  acfg : Cfg
  /-- `tools.config` -/
  tcfg : Cfg
  /-- the main thread is inside `handle_response`, between `set_config` and the relaunch loop -/
  pending : Option Cfg
  /-- settings given to the private analyzer of each job launched by the configuration handler -/
  pcfg : List (Nat × Cfg)
  /-- ghost: every completed analysis, in completion order -/
  fin : List Done
  /-- ghost: `nextId` at the moment the current settings arrived -/
  mark : Nat

def cinit {σ : Type} (A : CAnalyzer σ) : CState σ :=
  { srv := init, shared := A.fresh, acfg := cfg0, tcfg := cfg0, pending := none, pcfg := [], fin := [], mark := 0 }

def lookupCfg (l : List (Nat × Cfg)) (id : Nat) : Option Cfg := (l.find? (fun p => p.1 = id)).map (·.2)

/-- the analysis is irrelevant for every event but `finish` -/
def noAn : Nat → Text → Option Diags := fun _ _ => none

/-- One transition of the server with configuration and analyzer object.  `none` = not enabled. -/
def stepC {σ : Type} (A : CAnalyzer σ) (cs : CState σ) (e : Event) : Option (CState σ) :=
  match e with
  | .configLock c =>
    -- response.rs: `if let Ok(mut mutex) = tools.analyzer.lock() { mutex.set_config(config.clone()) }`
    if cs.pending.isSome then none
    else match cs.srv.lock with
      | .held _ => none                      -- the main thread waits for the analysis in progress
      | .free => some { cs with shared := A.setCfg c cs.shared, acfg := c, pending := some c, mark := cs.srv.nextId }
      | .poisoned => some { cs with pending := some c, mark := cs.srv.nextId }
  | .config c live order =>
    -- response.rs: `tools.config = config.clone()`; per checkpoint `Analyzer::new()` + `set_config(config.clone())`
    if cs.pending = some c then
      (step noAn cs.srv (.config c live order)).map (fun s' =>
        { cs with srv := s', tcfg := c, pending := none,
                  pcfg := cs.pcfg ++ (List.range' cs.srv.nextId (s'.nextId - cs.srv.nextId)).map (fun i => (i, c)) })
    else none
  | .finish id =>
    match findJob cs.srv.queue id with
    | none => none
    | some j =>
      match (if j.priv then lookupCfg cs.pcfg id else some cs.acfg) with
      | none => none
      | some cfg =>
        let a := if j.priv then A.setCfg cfg A.fresh else cs.shared
        let out := A.run cfg a j.doc.text
        (step (fun _ _ => out.1) cs.srv (.finish id)).map (fun s' =>
          { cs with srv := s', shared := if j.priv then cs.shared else out.2,
                    fin := cs.fin ++ [{ id := id, cfg := cfg, text := j.doc.text, res := out.1 }] })
  | .acquire id => (step noAn cs.srv (.acquire id)).map (fun s' => { cs with srv := s' })
  | .die id => (step noAn cs.srv (.die id)).map (fun s' => { cs with srv := s' })
  | e =>
    -- everything else is done by the main thread, which is busy while `pending`
    if cs.pending.isSome then none else (step noAn cs.srv e).map (fun s' => { cs with srv := s' })

def runC {σ : Type} (A : CAnalyzer σ) (cs : CState σ) : List Event → Option (CState σ)
  | [] => some cs
  | e :: rest =>
    match stepC A cs e with
    | none => none
    | some cs' => runC A cs' rest

/-- `analyze` starts by re-initialising whatever it keeps: its result does not depend on the state the
object is in (the successor state is unconstrained) -/
def CAnalyzer.resets {σ : Type} (A : CAnalyzer σ) : Prop := ∀ c a t, (A.run c a t).1 = (A.run c A.fresh t).1

/-- analysis of a text alone by a new analyzer with settings `c`: what the harness computes in-process -/
def CAnalyzer.alone {σ : Type} (A : CAnalyzer σ) (c : Cfg) (t : Text) : Option Diags := (A.run c A.fresh t).1

/-- specification side: the settings of the last configuration answer the client sent -/
def cfgAfter (c : Cfg) : Event → Cfg
  | .configLock c' => c'
  | _ => c

def lastCfg (evs : List Event) : Cfg := evs.foldl cfgAfter cfg0

/-- the result recorded for job `id` -/
def resOf (fin : List Done) (id : Nat) : Option Diags :=
  match fin.find? (fun f => f.id = id) with
  | some f => f.res
  | none => none

/-! ## The analyzer object as a record of fields

`F` = the fields of the Rust struct (generated from the source: `A2Verif.Gen.SrvState`).  `analyze`
first re-initialises the fields in its *reset set* (also generated: the assignments that `analyze`
executes unconditionally before it looks at the text) and then runs the passes, which can observe
the incoming value of the fields in the *read set* only. -/

abbrev Val := Nat

structure FieldAnalyzer (F : Type) where
  /-- `Analyzer::new()` -/
  init : F → Val
  /-- re-initialised at the start of every `analyze` -/
  reset : F → Bool
  /-- fields whose value at entry the passes can observe (if it is not re-initialised first) -/
  reads : F → Bool
  setCfg : Cfg → (F → Val) → (F → Val)
  /-- the passes -/
  body : Cfg → (F → Val) → Text → Option Diags × (F → Val)
  /-- the passes depend on nothing but the read set -/
  respects : ∀ c s s' t, (∀ f, reads f = true → s f = s' f) → (body c s t).1 = (body c s' t).1

def FieldAnalyzer.enter {F : Type} (A : FieldAnalyzer F) (s : F → Val) : F → Val :=
  fun f => if A.reset f then A.init f else s f

def FieldAnalyzer.toC {F : Type} (A : FieldAnalyzer F) : CAnalyzer (F → Val) :=
  { fresh := A.init, setCfg := A.setCfg, run := fun c s t => A.body c (A.enter s) t }

end A2Verif.Srv
