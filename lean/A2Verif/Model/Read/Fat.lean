import A2Verif.Model.Raw
/-!
Independent reader of a FAT12/FAT16 volume from its flat sector image (unit of the raw image = 512-byte
sector; allocation unit of the `Vol` = cluster number, first data cluster = 2).

Boot sector BPB: +11 bytes/sector(2) +13 sectors/cluster +14 reserved sectors(2) +16 FAT count
+17 root entries(2) +19 total sectors(2, or +32(4) if zero) +22 sectors per FAT(2).
FAT12 entry n: 12 bits at byte offset n + n/2 (odd n: high 12 bits of the 16-bit word).
0 = free, 0xFF8.. (0xFFF8..) = end of chain, 0xFF7 = bad.
Directory entry (32 bytes): +0 name(8) +8 ext(3) +11 attributes (1 read-only, 8 label, 0x10 directory,
0x0F long-name part) +26 first cluster(2) +28 size(4).  name[0] = 0 end of directory, 0xE5 deleted.
-/
namespace A2Verif.Read.Fat

structure Bpb where
  bps : Nat
  spc : Nat
  rsvd : Nat
  nfat : Nat
  rootEnts : Nat
  totSec : Nat
  fatSz : Nat

def parseBpb (s0 : Bytes) : Bpb :=
  let t16 := le16 s0 19
  { bps := le16 s0 11, spc := s0.getD 13 0, rsvd := le16 s0 14, nfat := s0.getD 16 0,
    rootEnts := le16 s0 17, totSec := if t16 ≠ 0 then t16 else le32 s0 32, fatSz := le16 s0 22 }

def rootSecs (b : Bpb) : Nat := (b.rootEnts * 32 + b.bps - 1) / b.bps
def firstData (b : Bpb) : Nat := b.rsvd + b.nfat * b.fatSz + rootSecs b
def clusterCount (b : Bpb) : Nat := (b.totSec - firstData b) / b.spc
def isFat16 (b : Bpb) : Bool := clusterCount b ≥ 4085

/-- bytes of `n` consecutive raw sectors starting at `s` -/
def secs (r : Raw) (s n : Nat) (who : String) : Except String Bytes := do
  let l ← (List.range n).mapM (fun k => r.unit (s + k) who)
  pure l.flatten

def fatEntry (fat : Array Nat) (f16 : Bool) (n : Nat) : Nat :=
  if f16 then fat.getD (2 * n) 0 + 256 * fat.getD (2 * n + 1) 0
  else
    let o := n + n / 2
    let w := fat.getD o 0 + 256 * fat.getD (o + 1) 0
    if n % 2 = 0 then w % 4096 else w / 16

def isEnd (f16 : Bool) (v : Nat) : Bool := if f16 then v ≥ 0xFFF8 else v ≥ 0xFF8

/-- cluster chain from `c`, with range and cycle check -/
def chain (fat : Array Nat) (f16 : Bool) (hi : Nat) : Nat → Nat → List Nat → Except String (List Nat)
  | 0, _, _ => .error "cluster-chain-too-long"
  | fuel + 1, c, seen =>
    if c < 2 ∨ c ≥ hi then .error "cluster-pointer-out-of-range"
    else if seen.contains c then .error "cluster-chain-cycle"
    else
      let nx := fatEntry fat f16 c
      if nx = 0 then .error "chain-enters-free-cluster"
      else if isEnd f16 nx then pure (c :: seen).reverse
      else chain fat f16 hi fuel nx (c :: seen)

def trimR (b : Bytes) : Bytes := (b.reverse.dropWhile (· == 32)).reverse

def entName (e : Bytes) : Bytes :=
  let n0 := slice e 0 8
  let n := trimR (if n0.head? = some 5 then 0xE5 :: n0.tail else n0)
  let x := trimR (slice e 8 3)
  if x.isEmpty then n else n ++ [46] ++ x

def clusterData (r : Raw) (b : Bpb) (c : Nat) : Except String Bytes :=
  secs r (firstData b + (c - 2) * b.spc) b.spc "cluster"

/-- active entries of a directory buffer: stops at the first 0 name byte -/
def activeEntries (buf : Bytes) : Nat → Nat → List Bytes
  | 0, _ => []
  | n + 1, off =>
    let e := slice buf off 32
    if e.getD 0 0 = 0 ∨ e.length < 32 then []
    else if e.getD 0 0 = 0xE5 ∨ e.getD 11 0 = 0x0F ∨ (e.getD 11 0 / 8) % 2 = 1 then activeEntries buf n (off + 32)
    else e :: activeEntries buf n (off + 32)

partial def readDir (r : Raw) (b : Bpb) (fat : Array Nat) (f16 : Bool) (hi : Nat) (buf : Bytes) (pfx : Bytes) (depth : Nat) :
    Except String (List FileRec) := do
  if depth > 32 then throw "directory-nesting-too-deep"
  let ents := (activeEntries buf (buf.length / 32) 0).filter (fun e => !(e.getD 0 0 = 46))
  let mut out : List FileRec := []
  for e in ents do
    let nm := entName e
    let path := if pfx.isEmpty then nm else pfx ++ [47] ++ nm
    let attr := e.getD 11 0
    let c1 := le16 e 26
    let size := le32 e 28
    if (attr / 16) % 2 = 1 then
      let cl ← chain fat f16 hi (hi + 1) c1 []
      let datas ← cl.mapM (clusterData r b)
      let sub ← readDir r b fat f16 hi datas.flatten path (depth + 1)
      out := out ++ ({ path := path, isDir := true, access := attr, owned := cl } : FileRec) :: sub
    else
      let cl ← if c1 = 0 then (if size = 0 then pure [] else throw "sized-file-without-cluster") else chain fat f16 hi (hi + 1) c1 []
      let datas ← cl.mapM (clusterData r b)
      if size > cl.length * b.spc * b.bps then throw "size-exceeds-cluster-chain"
      out := out ++ [({ path := path, access := attr, locked := attr % 2 = 1, eof := size,
                        chunks := datas.zipIdx.map (fun (d, i) => (i, d)), owned := cl } : FileRec)]
  pure out

def read (r : Raw) : Except String Vol := do
  let s0 ← r.unit 0 "boot-sector"
  let b := parseBpb s0
  if b.bps ≠ r.unitLen ∨ b.spc = 0 ∨ b.nfat = 0 ∨ b.fatSz = 0 then throw "bpb-fields"
  if firstData b ≥ b.totSec ∨ b.totSec > r.count then throw "bpb-sector-counts"
  let f16 := isFat16 b
  let fatBytes ← secs r b.rsvd b.fatSz "fat"
  let fat := fatBytes.toArray
  -- clusters the FAT can describe may be fewer than the data area holds
  let cap := if f16 then fatBytes.length / 2 else fatBytes.length * 2 / 3
  let count := min (clusterCount b) (cap - 2)
  let hi := 2 + count
  let rootBuf ← secs r (b.rsvd + b.nfat * b.fatSz) (rootSecs b) "root-directory"
  let files ← readDir r b fat f16 hi rootBuf [] 0
  let freeU := ((List.range count).map (· + 2)).filter (fun c => fatEntry fat f16 c = 0)
  pure { lo := 2, hi := hi, sys := [], files := files, freeUnits := freeU }

end A2Verif.Read.Fat
