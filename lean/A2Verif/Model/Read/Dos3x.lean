import A2Verif.Model.Raw
/-!
Independent reader of a DOS 3.2 / 3.3 volume (256-byte sectors, unit = `track*spt + sector`).

VTOC (track 17 sector 0): +1,+2 first catalog sector; +6 volume; +0x27 pairs per T/S list;
+0x34 tracks; +0x35 sectors per track; +0x38 free-sector bitmap, 4 bytes per track, big endian,
sector `s` free iff bit `s + 32 - spt` is set.
Catalog sector: +1,+2 next; 7 entries of 35 bytes from +0x0B: T/S-list track, sector, type
(bit 7 = locked), 30-byte name (negative ASCII, blank padded), sector count (2).
Track 0 = never used, track 0xFF = deleted.  T/S list sector: +1,+2 next; +5,+6 sector base;
pairs from +0x0C; pair (0,_) = hole.

`sysBase`: units that the freshly formatted volume marks used without any file leading to them
(boot tracks, the catalog track); the driver records them at the first reading.
-/
namespace A2Verif.Read.Dos3x

def vtocTrack : Nat := 17

structure Geo where
  tracks : Nat
  spt : Nat
  maxPairs : Nat

def unitOf (g : Geo) (t s : Nat) : Nat := t * g.spt + s

def sectorFree (vtoc : Bytes) (g : Geo) (t s : Nat) : Bool :=
  let i := 0x38 + 4 * t
  let map := ((vtoc.getD i 0 * 256 + vtoc.getD (i + 1) 0) * 256 + vtoc.getD (i + 2) 0) * 256 + vtoc.getD (i + 3) 0
  (map / 2 ^ (s + 32 - g.spt)) % 2 == 1

/-- walk the catalog chain; returns (catalog units, entries) -/
def catalog (r : Raw) (g : Geo) : Nat → Nat → Nat → List Nat → Except String (List Nat × List Bytes)
  | 0, _, _, _ => .error "catalog-chain-too-long"
  | fuel + 1, t, s, seen =>
    if t = 0 ∧ s = 0 then pure (seen.reverse, [])
    else if t ≥ g.tracks ∨ s ≥ g.spt then .error "catalog-pointer-out-of-range"
    else if seen.contains (unitOf g t s) then .error "catalog-chain-cycle"
    else do
      let sec ← r.unit (unitOf g t s) "catalog-sector"
      let ents := (List.range 7).map (fun k => slice sec (0x0B + 35 * k) 35)
      let (us, rest) ← catalog r g fuel (sec.getD 1 0) (sec.getD 2 0) (unitOf g t s :: seen)
      pure (us, ents ++ rest)

/-- walk a T/S list chain; returns (list sectors, chunk map, data units) -/
def tsWalk (r : Raw) (g : Geo) : Nat → Nat → Nat → Nat → List Nat → Except String (List Nat × List (Nat × Bytes) × List Nat)
  | 0, _, _, _, _ => .error "ts-list-chain-too-long"
  | fuel + 1, t, s, base, seen =>
    if t ≥ g.tracks ∨ s ≥ g.spt then .error "ts-list-pointer-out-of-range"
    else if seen.contains (unitOf g t s) then .error "ts-list-chain-cycle"
    else do
      let sec ← r.unit (unitOf g t s) "ts-list-sector"
      let pairs := (List.range g.maxPairs).map (fun k => (sec.getD (0x0C + 2 * k) 0, sec.getD (0x0D + 2 * k) 0))
      let here ← (pairs.zipIdx).filterMapM (fun (p, k) =>
        if p.1 = 0 then pure none
        else if p.1 ≥ g.tracks ∨ p.2 ≥ g.spt then .error "data-pointer-out-of-range"
        else do
          let d ← r.unit (unitOf g p.1 p.2) "data-sector"
          pure (some (base + k, d, unitOf g p.1 p.2)))
      let nt := sec.getD 1 0
      let ns := sec.getD 2 0
      let me := unitOf g t s
      if nt = 0 then pure ([me], here.map (fun x => (x.1, x.2.1)), here.map (·.2.2))
      else do
        let (ls, cs, ds) ← tsWalk r g fuel nt ns (base + g.maxPairs) (me :: seen)
        pure (me :: ls, here.map (fun x => (x.1, x.2.1)) ++ cs, here.map (·.2.2) ++ ds)

def trimName (n : Bytes) : Bytes :=
  (n.reverse.dropWhile (· == 0xA0)).reverse

def read (r : Raw) (sysBase : Option (List Nat)) : Except String Vol := do
  let probe ← r.unit 0 "sector-0"
  let _ := probe
  -- the VTOC position depends on sectors per track, which is in the VTOC: try 16 then 13
  let spt := if r.count = 35 * 13 ∨ r.count = 40 * 13 ∨ r.count = 50 * 13 then 13 else 16
  let vtoc ← r.unit (vtocTrack * spt) "vtoc"
  let g : Geo := { tracks := vtoc.getD 0x34 0, spt := vtoc.getD 0x35 0, maxPairs := vtoc.getD 0x27 0 }
  if g.spt ≠ spt then throw "vtoc-sectors-per-track"
  if g.tracks * g.spt > r.count ∨ g.tracks ≤ vtocTrack then throw "vtoc-track-count"
  if g.maxPairs = 0 ∨ g.maxPairs > 122 then throw "vtoc-max-pairs"
  let (catUnits, ents) ← catalog r g 100 (vtoc.getD 1 0) (vtoc.getD 2 0) []
  let live := ents.filter (fun e => e.getD 0 0 ≠ 0 ∧ e.getD 0 0 ≠ 255)
  let files ← live.mapM (fun e => do
    let (ls, cs, ds) ← tsWalk r g 1000 (e.getD 0 0) (e.getD 1 0) 0 []
    let ty := e.getD 2 0
    pure ({ path := (trimName (slice e 3 30)).map (· % 128), ftype := ty % 128, locked := ty ≥ 128, access := ty / 128,
            aux := le16 e 33, eof := 0, chunks := cs, owned := ls ++ ds } : FileRec))
  let total := g.tracks * g.spt
  let freeU := (List.range total).filter (fun u => sectorFree vtoc g (u / g.spt) (u % g.spt))
  let fixed := (vtocTrack * g.spt) :: catUnits
  let owned := files.flatMap (·.owned)
  let reach := owned ++ fixed
  let usedUnreach := (List.range total).filter (fun u => !freeU.contains u && !reach.contains u)
  let sysExtra := match sysBase with
    | none => usedUnreach
    | some b => b
  pure { lo := 0, hi := total, sys := fixed ++ sysExtra.filter (fun u => !fixed.contains u), files := files,
         freeUnits := freeU, label := [vtoc.getD 6 0] }

end A2Verif.Read.Dos3x
