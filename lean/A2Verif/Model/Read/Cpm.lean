import A2Verif.Model.Raw
/-!
Independent reader of a CP/M 2.2 / 3 data area (unit = allocation block of `128·2^bsh` bytes, block 0 is the
first directory block).  The disk parameter block is not on the disk: it is a parameter.

Directory: `drm+1` entries of 32 bytes in the blocks flagged by `al0`/`al1` (bit 7 of `al0` = block 0).
Entry: +0 user (0xE5 unused, 0–15 file, 0x20 label, 0x21 time stamps), +1 name(8), +9 type(3)
(bit 7 of type[0] = read-only, type[1] = system, type[2] = archive), +12 EX, +13 S1 (bytes in last
record, CP/M 3), +14 S2, +15 RC, +16 sixteen 8-bit or eight 16-bit block pointers (0 = hole).
Extent number = 32·(S2 mod 64) + (EX mod 32); one entry covers `exm+1` logical extents of 16K.
`eof` follows the convention of the entry with the highest extent number:
`ext·16384 + (RC=0 ? 0 : (min RC 128 − 1)·128 + (S1=0 ? 128 : S1))`.
-/
namespace A2Verif.Read.Cpm

structure Dpb where
  bsh : Nat
  exm : Nat
  dsm : Nat
  drm : Nat
  al0 : Nat
  al1 : Nat
  v3 : Bool

def blockSize (d : Dpb) : Nat := 128 * 2 ^ d.bsh
def ptr16 (d : Dpb) : Bool := d.dsm ≥ 256
def slots (d : Dpb) : Nat := if ptr16 d then 8 else 16

def dirBlocks (d : Dpb) : List Nat :=
  ((List.range 8).filter (fun k => (d.al0 / 2 ^ (7 - k)) % 2 == 1)) ++
  ((List.range 8).filter (fun k => (d.al1 / 2 ^ (7 - k)) % 2 == 1)).map (· + 8)

def entryPtrs (d : Dpb) (e : Bytes) : List Nat :=
  if ptr16 d then (List.range 8).map (fun k => le16 e (16 + 2 * k))
  else (List.range 16).map (fun k => e.getD (16 + k) 0)

def extNum (e : Bytes) : Nat := 32 * (e.getD 14 0 % 64) + e.getD 12 0 % 32

def fileKey (e : Bytes) : List Nat := e.getD 0 0 :: (slice e 1 11).map (· % 128)

def trimR (b : Bytes) : Bytes := (b.reverse.dropWhile (· == 32)).reverse

def pathOf (e : Bytes) : Bytes :=
  let u := e.getD 0 0
  let nm := trimR ((slice e 1 8).map (· % 128)) ++ [46] ++ trimR ((slice e 9 3).map (· % 128))
  if u = 0 then nm else (toString u).toList.map (·.toNat) ++ [58] ++ nm

def read (r : Raw) (d : Dpb) : Except String Vol := do
  let total := d.dsm + 1
  if total > r.count then throw "dsm-exceeds-image"
  let dblks := dirBlocks d
  let raws ← dblks.mapM (fun b => r.unit b "directory-block")
  let buf := raws.flatten
  if buf.length < 32 * (d.drm + 1) then throw "directory-shorter-than-drm"
  let ents := (List.range (d.drm + 1)).map (fun k => slice buf (32 * k) 32)
  let fents := ents.filter (fun e => e.getD 0 0 < 16)
  -- group by (user, name)
  let keys := (fents.map fileKey).eraseDups
  let files ← keys.mapM (fun k => do
    let es := fents.filter (fun e => fileKey e == k)
    let lxPer := d.exm + 1
    -- two entries of one file must not describe the same physical extent
    let phys := es.map (fun e => extNum e / lxPer)
    if phys.eraseDups.length ≠ phys.length then throw "duplicate-extent-number"
    let mut cs : List (Nat × Bytes) := []
    let mut own : List Nat := []
    for e in es do
      let x := extNum e / lxPer
      for (p, j) in (entryPtrs d e).zipIdx do
        if p ≠ 0 then
          if p ≥ total then throw "block-pointer-out-of-range"
          let data ← r.unit p "data-block"
          cs := cs ++ [(x * slots d + j, data)]
          own := own ++ [p]
    let last := es.foldl (fun (best : Bytes) e => if extNum e ≥ extNum best then e else best) (es.headD [])
    let rc := last.getD 15 0
    let s1 := last.getD 13 0
    let eof := extNum last * 16384 + (if rc = 0 then 0 else (min rc 128 - 1) * 128 + (if s1 = 0 then 128 else s1))
    let first := es.headD []
    let ro := first.getD 9 0 ≥ 128
    -- CP/M 3 password entry of this file: user + 16, same name and type
    let pw := ents.any (fun e => e.getD 0 0 = first.getD 0 0 + 16 ∧ (slice e 1 11).map (· % 128) == (slice first 1 11).map (· % 128))
    let sorted := cs.mergeSort (fun a b => a.1 ≤ b.1)
    pure ({ path := pathOf first, ftype := 0, access := (if ro then 1 else 0) + (if pw then 2 else 0), locked := ro, eof := eof,
            chunks := sorted, owned := own, aux := es.length } : FileRec))
  let used := files.flatMap (·.owned) ++ dblks
  let freeU := (List.range total).filter (fun u => !used.contains u)
  pure { lo := 0, hi := total, sys := dblks, files := files, freeUnits := freeU }

end A2Verif.Read.Cpm
