import A2Verif.Model.Read.Prodos
/-!
Total version of the independent ProDOS reader.

`Read.Prodos.read` walks the directory tree with a pair of `partial def`s, which the kernel treats as opaque
constants: no theorem can mention what it returns.  This file is the same reader written as total functions
(structural recursion on a nesting fuel that the depth cap of the original, 64, never exhausts; the `for`
loops as `mapM`): the same checks in the same order with the same messages, the same result.  The driver
family `fspd` compares the two readings of the mirrored real image after every operation
(`Drv/FsProdos.lean`, item `readers-agree`), so that theorems about `ProdosT.read` speak about the reading the
file-system group's tie uses.  The helpers that are not recursive (`dirChain`, `indexEntries`, `readData`,
`bitmapFree`, …) are shared.
-/
namespace A2Verif.Read.ProdosT
open A2Verif.Read.Prodos (entryAt dirChain idxPtr indexEntries readData trimName bitmapFree)

/-- the entries of one block of a directory chain (the header slot of the key block is skipped) -/
def blockEntries (r : Raw) (key epb elen b : Nat) : Except String (List Bytes) := do
  let blk ← r.unit b "directory-block"
  let ks := if b = key then (List.range epb).drop 1 else List.range epb
  pure (ks.map (fun k => entryAt blk k elen))

/-- chunks and owned blocks under one index block of a tree file -/
def treeIndex (r : Raw) (total : Nat) (kib : Nat × Nat) : Except String (List (Nat × Bytes) × List Nat) := do
  let (k, ib) := kib
  if ib ≥ total then throw "index-pointer-out-of-range"
  let blk ← r.unit ib "index-block"
  let ps := indexEntries blk (256 * k)
  let ds ← readData r total ps
  pure (ds, ib :: ps.map (·.2))

/-- one directory entry; `sub` reads the sub-directory with the given key block and path (one level deeper) -/
def readEntryWith (sub : Nat → Bytes → Except String (List FileRec × List Nat)) (r : Raw) (total : Nat) (e : Bytes) (pfx : Bytes) :
    Except String (List FileRec) := do
  let st := e.getD 0 0 / 16
  let name := trimName e
  let path := if pfx.isEmpty then name else pfx ++ [47] ++ name
  let key := le16 e 0x11
  let used := le16 e 0x13
  let acc := e.getD 0x1E 0
  let base : FileRec := { path := path, ftype := e.getD 0x10 0, aux := le16 e 0x1F, access := acc,
                          locked := (acc / 2) % 2 = 0 ∨ (acc / 64) % 2 = 0 ∨ (acc / 128) % 2 = 0, eof := le24 e 0x15 }
  if key = 0 ∨ key ≥ total then throw "key-pointer-out-of-range"
  if st = 1 then do
    let d ← r.unit key "data-block"
    if used ≠ 1 then throw "blocks-used-differs-from-reachable"
    pure [{ base with chunks := [(0, d)], owned := [key] }]
  else if st = 2 then do
    let ib ← r.unit key "index-block"
    let ps := indexEntries ib 0
    let cs ← readData r total ps
    if used ≠ 1 + ps.length then throw "blocks-used-differs-from-reachable"
    pure [{ base with chunks := cs, owned := key :: ps.map (·.2) }]
  else if st = 3 then do
    let mb ← r.unit key "master-index-block"
    let idxs := (List.range 128).filterMap (fun k => let p := idxPtr mb k; if p = 0 then none else some (k, p))
    let parts ← idxs.mapM (treeIndex r total)
    let cs := (parts.map (·.1)).flatten
    let own := key :: (parts.map (·.2)).flatten
    if used ≠ own.length then throw "blocks-used-differs-from-reachable"
    pure [{ base with chunks := cs, owned := own }]
  else if st = 0xD then do
    let (fs, chain) ← sub key path
    if used ≠ chain.length then throw "blocks-used-differs-from-reachable"
    pure ({ base with isDir := true, owned := chain, eof := 0, locked := false } :: fs)
  else throw "unknown-storage-type"

/-- files of the directory whose key block is `key`; `pfx` is the path so far; the first argument is the
nesting fuel -/
def readDir : Nat → Raw → Nat → Nat → Bytes → Nat → Except String (List FileRec × List Nat)
  | 0, _, _, _, _, _ => throw "directory-nesting-too-deep"
  | fuel + 1, r, total, key, pfx, depth => do
    if depth > 64 then throw "directory-nesting-too-deep"
    let chain ← dirChain r total 1000 key []
    let keyBlk ← r.unit key "directory-key-block"
    let elen := keyBlk.getD (4 + 0x1F) 0
    let epb := keyBlk.getD (4 + 0x20) 0
    if elen < 0x27 ∨ epb = 0 ∨ 4 + elen * epb > 512 then throw "directory-entry-geometry"
    let fileCount := le16 keyBlk (4 + 0x21)
    let ents ← chain.mapM (blockEntries r key epb elen)
    let active := ents.flatten.filter (fun e => e.getD 0 0 / 16 ≠ 0)
    if active.length ≠ fileCount then throw "file-count-differs-from-active-entries"
    let recs ← active.mapM (fun e => readEntryWith (fun k p => readDir fuel r total k p (depth + 1)) r total e pfx)
    pure (recs.flatten, chain)

/-- nesting fuel: the depth cap (64) stops the walk first -/
def nestingFuel : Nat := 70

def read (r : Raw) : Except String Vol := do
  let keyBlk ← r.unit 2 "volume-key-block"
  if keyBlk.getD 4 0 / 16 ≠ 0xF then throw "volume-header-storage-type"
  let bm := le16 keyBlk (4 + 0x23)
  let total := le16 keyBlk (4 + 0x25)
  if total > r.count ∨ total < 6 then throw "total-blocks-out-of-range"
  let nbm := (total + 4095) / 4096
  if bm < 3 ∨ bm + nbm > total then throw "bitmap-pointer-out-of-range"
  let (files, chain) ← readDir nestingFuel r total 2 [] 0
  let freeU ← bitmapFree r bm total
  let sys := [0, 1] ++ chain ++ (List.range nbm).map (· + bm)
  pure { lo := 0, hi := total, sys := sys, files := files, freeUnits := freeU,
         label := slice keyBlk 5 (keyBlk.getD 4 0 % 16) }

end A2Verif.Read.ProdosT
