import A2Verif.Model.Read.Prodos
/-!
Total version of the independent ProDOS reader.

`Read.Prodos.read` walks the directory tree with a pair of `partial def`s, which the kernel treats as opaque
constants: no theorem can mention what it returns.  This file is the same reader written as total functions
(structural recursion on a nesting fuel that the depth cap of the original, 64, never exhausts; the `for`
loops as `mapM`): the same checks in the same order with the same messages, the same result.  The driver
family `fspd` compares the two readings of the mirrored real image after every operation
(`Drv/FsProdos.lean`, item `readers`), so that theorems about `ProdosT.read` speak about the reading the
file-system group's tie uses.  The helpers that are not recursive (`dirChain`, `indexEntries`, `readData`,
`bitmapFree`, …) are shared.

The walk is *located*: with every record it returns the directory block and the slot (1-based, as a2kit's
`EntryLocation`) of the entry the record was made from; `read` forgets the locations.  Theorems use them to say
which record an operation on a given entry changes.
-/
namespace A2Verif.Read.ProdosT
open A2Verif.Read.Prodos (entryAt dirChain idxPtr indexEntries readData trimName bitmapFree)

/-- a record with the location (block, slot) of its directory entry -/
abbrev LRec := FileRec × Nat × Nat

/-- the entries of one block of a directory chain with their slots (the header slot of the key block is skipped) -/
def blockEntries (r : Raw) (key epb elen b : Nat) : Except String (List (Bytes × Nat × Nat)) :=
  match r.unit b "directory-block" with
  | .error e => .error e
  | .ok blk =>
    let ks := if b = key then (List.range epb).drop 1 else List.range epb
    .ok (ks.map (fun k => (entryAt blk k elen, b, k + 1)))

/-- chunks and owned blocks under one index block of a tree file -/
def treeIndex (r : Raw) (total : Nat) (kib : Nat × Nat) : Except String (List (Nat × Bytes) × List Nat) :=
  if kib.2 ≥ total then .error "index-pointer-out-of-range"
  else match r.unit kib.2 "index-block" with
    | .error e => .error e
    | .ok blk =>
      let ps := indexEntries blk (256 * kib.1)
      match readData r total ps with
      | .error e => .error e
      | .ok ds => .ok (ds, kib.2 :: ps.map (·.2))

/-- the part of a record that is read off the entry alone -/
def baseRec (e : Bytes) (pfx : Bytes) : FileRec :=
  let name := trimName e
  let acc := e.getD 0x1E 0
  { path := if pfx.isEmpty then name else pfx ++ [47] ++ name, ftype := e.getD 0x10 0, aux := le16 e 0x1F, access := acc,
    locked := (acc / 2) % 2 = 0 ∨ (acc / 64) % 2 = 0 ∨ (acc / 128) % 2 = 0, eof := le24 e 0x15 }

/-- a file entry (storage 1, 2, 3): chunks and owned blocks -/
def readFile (r : Raw) (total : Nat) (e : Bytes) (pfx : Bytes) : Except String FileRec :=
  let st := e.getD 0 0 / 16
  let key := le16 e 0x11
  let used := le16 e 0x13
  let base := baseRec e pfx
  if st = 1 then
    match r.unit key "data-block" with
    | .error x => .error x
    | .ok d => if used ≠ 1 then .error "blocks-used-differs-from-reachable" else .ok { base with chunks := [(0, d)], owned := [key] }
  else if st = 2 then
    match r.unit key "index-block" with
    | .error x => .error x
    | .ok ib =>
      let ps := indexEntries ib 0
      match readData r total ps with
      | .error x => .error x
      | .ok cs =>
        if used ≠ 1 + ps.length then .error "blocks-used-differs-from-reachable"
        else .ok { base with chunks := cs, owned := key :: ps.map (·.2) }
  else
    match r.unit key "master-index-block" with
    | .error x => .error x
    | .ok mb =>
      let idxs := (List.range 128).filterMap (fun k => let p := idxPtr mb k; if p = 0 then none else some (k, p))
      match idxs.mapM (treeIndex r total) with
      | .error x => .error x
      | .ok parts =>
        let cs := (parts.map (·.1)).flatten
        let own := key :: (parts.map (·.2)).flatten
        if used ≠ own.length then .error "blocks-used-differs-from-reachable" else .ok { base with chunks := cs, owned := own }

/-- one directory entry at location `(b, k)`; `sub` reads the sub-directory with the given key block and path (one
level deeper) -/
def readEntryWith (sub : Nat → Bytes → Except String (List LRec × List Nat)) (r : Raw) (total : Nat)
    (pfx : Bytes) (ebk : Bytes × Nat × Nat) : Except String (List LRec) :=
  let e := ebk.1
  let st := e.getD 0 0 / 16
  let key := le16 e 0x11
  if key = 0 ∨ key ≥ total then .error "key-pointer-out-of-range"
  else if st = 1 ∨ st = 2 ∨ st = 3 then
    match readFile r total e pfx with
    | .error x => .error x
    | .ok f => .ok [(f, ebk.2)]
  else if st = 0xD then
    match sub key (baseRec e pfx).path with
    | .error x => .error x
    | .ok (fs, chain) =>
      if le16 e 0x13 ≠ chain.length then .error "blocks-used-differs-from-reachable"
      else .ok (({ baseRec e pfx with isDir := true, owned := chain, eof := 0, locked := false }, ebk.2) :: fs)
  else .error "unknown-storage-type"

/-- files of the directory whose key block is `key`; `pfx` is the path so far; the first argument is the
nesting fuel -/
def readDir : Nat → Raw → Nat → Nat → Bytes → Nat → Except String (List LRec × List Nat)
  | 0, _, _, _, _, _ => .error "directory-nesting-too-deep"
  | fuel + 1, r, total, key, pfx, depth =>
    if depth > 64 then .error "directory-nesting-too-deep"
    else match dirChain r total 1000 key [] with
    | .error x => .error x
    | .ok chain =>
      match r.unit key "directory-key-block" with
      | .error x => .error x
      | .ok keyBlk =>
        let elen := keyBlk.getD (4 + 0x1F) 0
        let epb := keyBlk.getD (4 + 0x20) 0
        if elen < 0x27 ∨ epb = 0 ∨ 4 + elen * epb > 512 then .error "directory-entry-geometry"
        else match chain.mapM (blockEntries r key epb elen) with
        | .error x => .error x
        | .ok ents =>
          let active := ents.flatten.filter (fun e => e.1.getD 0 0 / 16 ≠ 0)
          if active.length ≠ le16 keyBlk (4 + 0x21) then .error "file-count-differs-from-active-entries"
          else match active.mapM (readEntryWith (fun k p => readDir fuel r total k p (depth + 1)) r total pfx) with
          | .error x => .error x
          | .ok recs => .ok (recs.flatten, chain)

/-- nesting fuel: the depth cap (64) stops the walk first -/
def nestingFuel : Nat := 70

/-- the located reading of the volume directory tree -/
def readTree (r : Raw) (total : Nat) : Except String (List LRec × List Nat) := readDir nestingFuel r total 2 [] 0

def read (r : Raw) : Except String Vol :=
  match r.unit 2 "volume-key-block" with
  | .error x => .error x
  | .ok keyBlk =>
    if keyBlk.getD 4 0 / 16 ≠ 0xF then .error "volume-header-storage-type"
    else
      let bm := le16 keyBlk (4 + 0x23)
      let total := le16 keyBlk (4 + 0x25)
      if total > r.count ∨ total < 6 then .error "total-blocks-out-of-range"
      else
        let nbm := (total + 4095) / 4096
        if bm < 3 ∨ bm + nbm > total then .error "bitmap-pointer-out-of-range"
        else match readTree r total with
        | .error x => .error x
        | .ok (files, chain) =>
          match bitmapFree r bm total with
          | .error x => .error x
          | .ok freeU =>
            .ok { lo := 0, hi := total, sys := [0, 1] ++ chain ++ (List.range nbm).map (· + bm), files := files.map (·.1),
                  freeUnits := freeU, label := slice keyBlk 5 (keyBlk.getD 4 0 % 16) }

end A2Verif.Read.ProdosT
