import A2Verif.Model.Raw
/-!
Independent reader of a ProDOS volume (512-byte blocks).

Directory block: +0 prev(2) +2 next(2), then entries of `entry_length` (39) bytes from +4,
`entries_per_block` (13) per block.  First entry of a key block is the header:
  +0 storage/name-length, +1 name(15), … +0x1F entry_length, +0x20 entries_per_block,
  +0x21 file_count(2), volume: +0x23 bitmap_pointer(2), +0x25 total_blocks(2).
File entry: +0 storage/name-length, +1 name(15), +0x10 type, +0x11 key_pointer(2),
  +0x13 blocks_used(2), +0x15 eof(3), +0x1E access, +0x1F aux(2), +0x25 header_pointer(2).
Storage: 1 seedling (key = data block), 2 sapling (key = index block), 3 tree (key = master index),
0xD subdirectory (key = its key block).  Index block: pointer k = byte k + 256·byte (256+k); 0 = hole.
Bitmap from `bitmap_pointer`: one bit per block, most significant bit first, 1 = free.

C03 counters: each directory's header `file_count` must equal its number of active entries, and an
entry's `blocks_used` must equal the number of blocks it leads to.
-/
namespace A2Verif.Read.Prodos

def entryAt (blk : Bytes) (k elen : Nat) : Bytes := slice blk (4 + k * elen) elen

/-- all blocks of a directory chain, with cycle and range check -/
def dirChain (r : Raw) (total : Nat) : Nat → Nat → List Nat → Except String (List Nat)
  | 0, _, _ => .error "directory-chain-too-long"
  | fuel + 1, b, seen =>
    if b = 0 then pure seen.reverse
    else if b ≥ total then .error "directory-pointer-out-of-range"
    else if seen.contains b then .error "directory-chain-cycle"
    else do
      let blk ← r.unit b "directory-block"
      dirChain r total fuel (le16 blk 2) (b :: seen)

def idxPtr (blk : Bytes) (k : Nat) : Nat := blk.getD k 0 + 256 * blk.getD (256 + k) 0

/-- data blocks under an index block: (chunk index, block) for non-zero pointers -/
def indexEntries (blk : Bytes) (base : Nat) : List (Nat × Nat) :=
  (List.range 256).filterMap (fun k => let p := idxPtr blk k; if p = 0 then none else some (base + k, p))

def readData (r : Raw) (total : Nat) (ps : List (Nat × Nat)) : Except String (List (Nat × Bytes)) :=
  ps.mapM (fun (i, b) => if b ≥ total then .error "data-pointer-out-of-range" else do
    let d ← r.unit b "data-block"
    pure (i, d))

def trimName (e : Bytes) : Bytes := slice e 1 (e.getD 0 0 % 16)

mutual
/-- files of the directory whose key block is `key`; `prefix` is the path so far -/
partial def readDir (r : Raw) (total : Nat) (key : Nat) (pfx : Bytes) (depth : Nat) : Except String (List FileRec × List Nat) := do
  if depth > 64 then throw "directory-nesting-too-deep"
  let chain ← dirChain r total 1000 key []
  let keyBlk ← r.unit key "directory-key-block"
  let elen := keyBlk.getD (4 + 0x1F) 0
  let epb := keyBlk.getD (4 + 0x20) 0
  if elen < 0x27 ∨ epb = 0 ∨ 4 + elen * epb > 512 then throw "directory-entry-geometry"
  let fileCount := le16 keyBlk (4 + 0x21)
  let mut ents : List Bytes := []
  for b in chain do
    let blk ← r.unit b "directory-block"
    let ks := if b = key then (List.range epb).drop 1 else List.range epb
    ents := ents ++ ks.map (fun k => entryAt blk k elen)
  let active := ents.filter (fun e => e.getD 0 0 / 16 ≠ 0)
  if active.length ≠ fileCount then throw "file-count-differs-from-active-entries"
  let mut out : List FileRec := []
  for e in active do
    let fs ← readEntry r total e pfx depth
    out := out ++ fs
  pure (out, chain)

partial def readEntry (r : Raw) (total : Nat) (e : Bytes) (pfx : Bytes) (depth : Nat) : Except String (List FileRec) := do
  let st := e.getD 0 0 / 16
  let name := trimName e
  let path := if pfx.isEmpty then name else pfx ++ [47] ++ name
  let key := le16 e 0x11
  let used := le16 e 0x13
  let acc := e.getD 0x1E 0
  let base : FileRec := { path := path, ftype := e.getD 0x10 0, aux := le16 e 0x1F, access := acc,
                          locked := (acc / 2) % 2 = 0 ∨ (acc / 64) % 2 = 0 ∨ (acc / 128) % 2 = 0, eof := le24 e 0x15 }
  if key = 0 ∨ key ≥ total then throw "key-pointer-out-of-range"
  if st = 1 then do
    let d ← r.unit key "data-block"
    if used ≠ 1 then throw "blocks-used-differs-from-reachable"
    pure [{ base with chunks := [(0, d)], owned := [key] }]
  else if st = 2 then do
    let ib ← r.unit key "index-block"
    let ps := indexEntries ib 0
    let cs ← readData r total ps
    if used ≠ 1 + ps.length then throw "blocks-used-differs-from-reachable"
    pure [{ base with chunks := cs, owned := key :: ps.map (·.2) }]
  else if st = 3 then do
    let mb ← r.unit key "master-index-block"
    let idxs := (List.range 128).filterMap (fun k => let p := idxPtr mb k; if p = 0 then none else some (k, p))
    let mut cs : List (Nat × Bytes) := []
    let mut own : List Nat := [key]
    for (k, ib) in idxs do
      if ib ≥ total then throw "index-pointer-out-of-range"
      let blk ← r.unit ib "index-block"
      let ps := indexEntries blk (256 * k)
      let ds ← readData r total ps
      cs := cs ++ ds
      own := own ++ (ib :: ps.map (·.2))
    if used ≠ own.length then throw "blocks-used-differs-from-reachable"
    pure [{ base with chunks := cs, owned := own }]
  else if st = 0xD then do
    let (fs, chain) ← readDir r total key path (depth + 1)
    if used ≠ chain.length then throw "blocks-used-differs-from-reachable"
    pure ({ base with isDir := true, owned := chain, eof := 0, locked := false } :: fs)
  else throw "unknown-storage-type"
end

def bitmapFree (r : Raw) (bm total : Nat) : Except String (List Nat) := do
  let nblk := (total + 4095) / 4096
  let blks ← (List.range nblk).mapM (fun k => r.unit (bm + k) "bitmap-block")
  let bytes := blks.flatten.toArray
  pure ((List.range total).filter (fun b => (bytes.getD (b / 8) 0 / 2 ^ (7 - b % 8)) % 2 == 1))

def read (r : Raw) : Except String Vol := do
  let keyBlk ← r.unit 2 "volume-key-block"
  if keyBlk.getD 4 0 / 16 ≠ 0xF then throw "volume-header-storage-type"
  let bm := le16 keyBlk (4 + 0x23)
  let total := le16 keyBlk (4 + 0x25)
  if total > r.count ∨ total < 6 then throw "total-blocks-out-of-range"
  let nbm := (total + 4095) / 4096
  if bm < 3 ∨ bm + nbm > total then throw "bitmap-pointer-out-of-range"
  let (files, chain) ← readDir r total 2 [] 0
  let freeU ← bitmapFree r bm total
  let sys := [0, 1] ++ chain ++ (List.range nbm).map (· + bm)
  pure { lo := 0, hi := total, sys := sys, files := files, freeUnits := freeU,
         label := slice keyBlk 5 (keyBlk.getD 4 0 % 16) }

end A2Verif.Read.Prodos
