import A2Verif.Model.Raw
/-!
Independent reader of an Apple Pascal volume (512-byte blocks).
Volume directory: blocks 2 ..< end (header's `end_block`, 6 on a2kit/Apple disks), read as one
contiguous buffer of 26-byte entries; entry 0 is the volume header.

header: begin(2) end(2) type(2) nameLen(1) name(7) totalBlocks(2) numFiles(2) lastAccess(2) setDate(2) pad(4)
entry : begin(2) end(2) type(2) nameLen(1) name(15) bytesRemaining(2) modDate(2)

Files occupy the contiguous run `begin ..< end`.  The first `numFiles` entries are the files; all
later entries must be unused (`begin = 0`), which is the header-counter check of C03.
`eof` follows a2kit's own convention `512·blocks − bytesRemaining` (what `get` reports), recorded in design/FS.md.
-/
namespace A2Verif.Read.Pascal

def entrySize : Nat := 26

def entries (buf : Bytes) : Nat → Nat → List Bytes
  | 0, _ => []
  | n + 1, off => slice buf off entrySize :: entries buf n (off + entrySize)

def read (r : Raw) : Except String Vol := do
  let hdrBlock ← r.unit 2 "volume-header"
  let beg0 := le16 hdrBlock 0
  let dirEnd := le16 hdrBlock 2
  let total := le16 hdrBlock 14
  let numFiles := le16 hdrBlock 16
  let nameLen := hdrBlock.getD 6 0
  if beg0 != 0 then throw "header-begin-not-zero"
  if dirEnd ≤ 2 ∨ dirEnd > total then throw "directory-end-out-of-range"
  if total > r.count then throw "total-blocks-exceeds-image"
  if nameLen = 0 ∨ nameLen > 7 then throw "volume-name-length"
  let blocks ← (List.range (dirEnd - 2)).mapM (fun i => r.unit (2 + i) "directory-block")
  let buf := blocks.flatten
  let maxEntries := buf.length / entrySize - 1
  if numFiles > maxEntries then throw "file-count-exceeds-directory"
  let ents := entries buf maxEntries entrySize
  let live := ents.take numFiles
  let dead := ents.drop numFiles
  if dead.any (fun e => le16 e 0 != 0) then throw "file-count-less-than-entries-in-use"
  let files ← live.mapM (fun e => do
    let b := le16 e 0
    let en := le16 e 2
    let nl := e.getD 6 0
    if b < dirEnd ∨ en ≤ b ∨ en > total then throw "entry-blocks-out-of-range"
    if nl = 0 ∨ nl > 15 then throw "entry-name-length"
    let data ← (List.range (en - b)).mapM (fun i => do
      let d ← r.unit (b + i) "file-block"
      pure (i, d))
    pure ({ path := slice e 7 nl, ftype := le16 e 4, eof := 512 * (en - b) - le16 e 22,
            chunks := data, owned := Vol.range b en } : FileRec))
  let sys := Vol.range 0 dirEnd
  let used := (files.flatMap (·.owned) ++ sys)
  let free := (Vol.range 0 total).filter (fun u => !used.contains u)
  pure { lo := 0, hi := total, sys := sys, files := files, freeUnits := free, label := slice hdrBlock 7 nameLen }

end A2Verif.Read.Pascal
