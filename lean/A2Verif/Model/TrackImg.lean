import A2Verif.Model.Track
import A2Verif.Gen.Skew
/-!
# Whole 5.25 inch nibble images: NIB, WOZ1, WOZ2 (`/repo/src/img/nib.rs`, `woz1.rs`, `woz2.rs`, `woz.rs`)

An image is ONE flat byte buffer holding every track buffer, plus the tables that say where a track lives:

| Rust                                                          | Lean                                   |
|---------------------------------------------------------------|----------------------------------------|
| `Nib.data[track*trk_cap..(track+1)*trk_cap]` nib.rs:58, `trk_cap` = 6656 (NIB) or 6384 (NB2) | `locate` arm `.nib`, field `trkCap` |
| `Nib::from_bytes` nib.rs:152 (35×6656 or 35×6384 bytes) | `nibFromBytes` |
| `TMap::create` woz1.rs:131 / woz2.rs:246 (5.25 arm)           | `tmapCreate`                           |
| `get_trk_idx` woz1.rs:266 / woz2.rs:557 (quarter track search)| `getTrkIdx`                            |
| `get_trk_ref` woz1.rs:284 / woz2.rs:591                       | `locate` (entry checks)                |
| WOZ1 `Trk.bits: [u8;6646]`, `bit_count` woz1.rs:58            | `locate` arm `.woz1` (entry `idx` is at `idx*6646` bytes) |
| WOZ2 `get_trk_bits_rng` woz2.rs:600 (`starting_block*512 - track_bits_offset`, `block_count`, `bit_count`) | `locate` arm `.woz2` |
| `new_rw_obj` nib.rs:67 / woz1.rs:303 / woz2.rs:624 (format by kind, carried `head_coords.bit_ptr`) | `fmtOf`, `startPtr` |
| `WozUnifier::read_sector/write_sector` (pointer saved only on success) | `readSector`, `writeSector` (inner part) |
| `woz::cyl_head_to_track` woz.rs:232, `woz::read_sector/write_sector` woz.rs:252-286 | `cylHeadToTrack`, `readSector`, `writeSector` |
| `Nib::create`, `Woz1::create`, `Woz2::create` (`Trks::create`) | `create`, `formatBuf`                  |

`head_coords.track` is only logged by the Rust and is not modelled.  A track buffer is unpacked into bits
(`unpack`: bit `p` of the track is bit `7 - p%8` of byte `p/8`, as in `TrackBits::next`/`write`) and handed to
the code of `Model.Track` through `TrackRep`: `load` = the first `bit_count` bits seen from the bit pointer,
`unload` = those bits in buffer order again; `pack` puts the bits back into bytes.  Instances: `Trk`
(theorems) and `ATrk` (driver).
-/
namespace A2Verif.Model.TrackImg
open A2Verif.Model.Track A2Verif.Model.Nibble

/-- outcome of an image level call: a value, `Err(..)` of the image layer, a `NibbleError`, or a panic -/
inductive IRes (α : Type)
  | ok (a : α)
  | err
  | nib (e : TErr)
  | panic
deriving Repr, DecidableEq

inductive ImgKind
  | nib
  | woz1
  | woz2
deriving DecidableEq, Repr

/-- bytes to bits, most significant bit first -/
def unpack (bs : List Nat) : List Bool := (bs.map (fun b => bitsOf b 8)).flatten

/-- bits to bytes (whole bytes only) -/
def pack : List Bool → List Nat
  | b0 :: b1 :: b2 :: b3 :: b4 :: b5 :: b6 :: b7 :: rest =>
    ([b0, b1, b2, b3, b4, b5, b6, b7].foldl (fun v b => v * 2 + (if b then 1 else 0)) 0) :: pack rest
  | _ => []

/-- `data[off..off+src.len()].copy_from_slice(src)` -/
def splice (data : List Nat) (off : Nat) (src : List Nat) : List Nat :=
  data.take off ++ src ++ data.drop (off + src.length)

/-- rotate a list to the left by `k` -/
def rot (k : Nat) (l : List Bool) : List Bool := l.drop k ++ l.take k

class TrackRep (σ : Type) extends Head σ where
  /-- the `bit_count` bits of a track buffer, bit pointer -/
  load : List Bool → Nat → σ
  /-- the bits in buffer order -/
  unload : σ → List Bool
  /-- `get_bit_ptr` -/
  ptr : σ → Nat

instance : TrackRep Trk where
  load a p := ⟨rot p a, p⟩
  unload t := rot (t.bits.length - t.pos) t.bits
  ptr t := t.pos

instance : TrackRep ATrk where
  load a p := ⟨a.toArray, p⟩
  unload t := t.buf.toList
  ptr t := t.pos

/-- one TRKS entry (`starting_block`, `block_count` are WOZ2 only) -/
structure Ent where
  start : Nat
  count : Nat
  bitCount : Nat
deriving DecidableEq, Repr

structure TrackImg where
  kind : ImgKind
  /-- `A2_DOS33_KIND` (16 sectors, 6&2) or `A2_DOS32_KIND` (13 sectors, 5&3) -/
  six : Bool
  /-- TMAP chunk (160 entries); unused for NIB -/
  tmap : List Nat
  /-- TRKS entries; unused for NIB -/
  ents : List Ent
  /-- WOZ2 `track_bits_offset` in bytes -/
  offset : Nat
  /-- `Nib.trk_cap`: bytes per track of a NIB (6656) or NB2 (6384) image; unused for WOZ -/
  trkCap : Nat
  /-- all track buffers: NIB `data`, WOZ1 the `bits` arrays of the TRKS entries one after the other,
  WOZ2 `trks.bits` -/
  bytes : List Nat
  /-- `head_coords.bit_ptr`; `none` = `usize::MAX` -/
  headPtr : Option Nat

def nibCap : Nat := 6656
def nb2Cap : Nat := 6384
def woz1Cap : Nat := 6646
def woz2Blocks : Nat := 13

/-- `get_trk_idx` (5.25 inch arm): the TMAP entry of the whole track, else of the quarter tracks next to it.
An index outside the map is a panic. -/
def getTrkIdx (m : List Nat) (track : Nat) : IRes Nat :=
  let key := track * 4
  match m[key]? with
  | none => .panic
  | some v =>
    if v ≠ 0xff then .ok v else
    match (if key ≠ 0 then m[key - 1]? else some 0xff) with
    | none => .panic
    | some w =>
      if w ≠ 0xff then .ok w else
      match (if key ≠ m.length then m[key + 1]? else some 0xff) with
      | none => .panic
      | some x => if x ≠ 0xff then .ok x else .nib .badTrack

/-- where a track lives: (byte offset of its buffer in `bytes`, length of the buffer in bytes, `bit_count`) -/
def locate (img : TrackImg) (track : Nat) : IRes (Nat × Nat × Nat) :=
  match img.kind with
  | .nib =>
    if (track + 1) * img.trkCap ≤ img.bytes.length then .ok (track * img.trkCap, img.trkCap, img.trkCap * 8) else .panic
  | .woz1 =>
    match getTrkIdx img.tmap track with
    | .ok idx =>
      match img.ents[idx]? with
      | none => .nib .badTrack
      | some e =>
        if e.bitCount ≠ 0 ∧ e.bitCount ≤ woz1Cap * 8 then
          (if (idx + 1) * woz1Cap ≤ img.bytes.length then .ok (idx * woz1Cap, woz1Cap, e.bitCount) else .panic)
        else .nib .badTrack
    | .err => .err
    | .nib e => .nib e
    | .panic => .panic
  | .woz2 =>
    match getTrkIdx img.tmap track with
    | .ok idx =>
      match img.ents[idx]? with
      | none => .nib .badTrack
      | some e =>
        if e.bitCount = 0 then .nib .badTrack else
        if e.start * 512 < img.offset then .nib .badTrack else
        let b := e.start * 512 - img.offset
        let en := b + e.count * 512
        if en > img.bytes.length ∨ e.bitCount > (en - b) * 8 then .nib .badTrack
        else .ok (b, e.count * 512, e.bitCount)
    | .err => .err
    | .nib e => .nib e
    | .panic => .panic

/-- `num_tracks()`: NIB 35, WOZ1 number of TRKS entries, WOZ2 number of the 160 entries with a bit count -/
def numTracks (img : TrackImg) : IRes Nat :=
  match img.kind with
  | .nib => .ok 35
  | .woz1 => .ok img.ents.length
  | .woz2 => if img.ents.length < 160 then .panic else .ok ((img.ents.take 160).filter (fun e => e.bitCount ≠ 0)).length

/-- `cyl_head_to_track` for the 5.25 inch kinds -/
def cylHeadToTrack (img : TrackImg) (cyl head : Nat) : IRes Nat :=
  if head ≥ 1 then .err else
  match numTracks img with
  | .ok n => if cyl ≥ n then .err else .ok cyl
  | .err => .err
  | .nib e => .nib e
  | .panic => .panic

/-- the track format `new_rw_obj` chooses; `bufBytes` = `bits.len()` of the buffer handed to the track code -/
def fmtOf (img : TrackImg) (bufBytes : Nat) : Fmt :=
  ⟨img.six, (match img.kind with | .nib => 8 | _ => if img.six then 10 else 9), bufBytes⟩

/-- `if self.head_coords.bit_ptr < bit_count { ans.set_bit_ptr(..) }` on a fresh object (pointer 0) -/
def startPtr (img : TrackImg) (n : Nat) : Nat :=
  match img.headPtr with
  | some p => if p < n then p else 0
  | none => 0

/-- `quantize_block(dat, 256)` -/
def quant (dat : List Nat) : List Nat := (dat ++ List.replicate 256 0).take 256

section ops
variable (σ : Type) [TrackRep σ]

/-- `DiskImage::read_sector(cyl, head, sector)` of Nib / Woz1 / Woz2 (5.25 inch kinds) -/
def readSector (img : TrackImg) (cyl head sec : Nat) : IRes (List Nat) × TrackImg :=
  match cylHeadToTrack img cyl head with
  | .err => (.err, img)
  | .nib e => (.nib e, img)
  | .panic => (.panic, img)
  | .ok trk =>
    if sec > 255 then (.err, img) else
    let track := trk % 256
    match locate img track with
    | .err => (.err, img)
    | .nib e => (.nib e, img)
    | .panic => (.panic, img)
    | .ok (off, blen, n) =>
      let buf := unpack ((img.bytes.drop off).take blen)
      let t : σ := TrackRep.load (buf.take n) (startPtr img n)
      let r := Track.readSector (fmtOf img blen) track sec t
      match r.1 with
      | .ok d => (.ok d, { img with headPtr := some (TrackRep.ptr r.2) })
      | .error e => (.nib e, img)

/-- `DiskImage::write_sector(cyl, head, sector, dat)` -/
def writeSector (img : TrackImg) (cyl head sec : Nat) (dat : List Nat) : IRes Unit × TrackImg :=
  match cylHeadToTrack img cyl head with
  | .err => (.err, img)
  | .nib e => (.nib e, img)
  | .panic => (.panic, img)
  | .ok trk =>
    if sec > 255 then (.err, img) else
    let track := trk % 256
    match locate img track with
    | .err => (.err, img)
    | .nib e => (.nib e, img)
    | .panic => (.panic, img)
    | .ok (off, blen, n) =>
      let buf := unpack ((img.bytes.drop off).take blen)
      let t : σ := TrackRep.load (buf.take n) (startPtr img n)
      let r := Track.writeSector (fmtOf img blen) (quant dat) track sec t
      match r.1 with
      | .ok _ =>
        (.ok (), { img with
          bytes := splice img.bytes off (pack (TrackRep.unload r.2 ++ buf.drop n)),
          headPtr := some (TrackRep.ptr r.2) })
      | .error e => (.nib e, img)

/-! ## `create` -/

/-- sector address written in iteration `i` of the formatter: `i`, or `DOS32_PHYSICAL[i]` for 13 sectors -/
def secIds (six : Bool) : List Nat := if six then List.range 16 else A2Verif.Gen.Skew.DOS32_PHYSICAL

/-- `disk525::format(vol, track, buf_len, ..)`: the buffer it returns (`bufBits = 8 * buf_len`).  Fill is
`00` for WOZ (`sync_bits > 8`), `FF` for NIB; only the first `bit_count` bits are written. -/
def formatBuf (f : Fmt) (vol trk bufBits : Nat) : List Nat :=
  let n := f.bitCount (secIds f.six).length
  let fill := decide (f.syncBits ≤ 8)
  let t : σ := TrackRep.load (List.replicate n fill) 0
  pack (TrackRep.unload (formatTrack f vol trk (secIds f.six) t) ++ List.replicate (bufBits - n) fill)

/-- `TMap::create` for the 5.25 inch kinds -/
def tmapCreate : List Nat :=
  (List.range 160).map fun i =>
    if i < 139 then (if i % 4 = 0 then i / 4 else if i % 4 = 1 then i / 4 else if i % 4 = 2 then 0xff else i / 4 + 1)
    else 0xff

def wozSync (six : Bool) : Nat := if six then 10 else 9

/-- `Nib::create`, `Woz1::create`, `Woz2::create` for `A2_DOS33_KIND` (`six`) / `A2_DOS32_KIND` -/
def create (kind : ImgKind) (six : Bool) (vol : Nat) : TrackImg :=
  match kind with
  | .nib =>
    { kind := kind, six := six, tmap := [], ents := [], offset := 0, trkCap := nibCap, headPtr := none,
      bytes := ((List.range 35).map fun t => formatBuf σ ⟨six, 8, nibCap⟩ vol t (nibCap * 8)).flatten }
  | .woz1 =>
    let f : Fmt := ⟨six, wozSync six, woz1Cap⟩
    { kind := kind, six := six, tmap := tmapCreate, offset := 0, trkCap := 0, headPtr := none,
      ents := (List.range 35).map fun _ => ⟨0, 0, f.bitCount (secIds six).length⟩,
      bytes := ((List.range 35).map fun t => formatBuf σ f vol t (woz1Cap * 8)).flatten }
  | .woz2 =>
    let f : Fmt := ⟨six, wozSync six, woz2Blocks * 512⟩
    { kind := kind, six := six, tmap := tmapCreate, offset := 1536, trkCap := 0, headPtr := none,
      ents := ((List.range 35).map fun t => ⟨3 + woz2Blocks * t, woz2Blocks, f.bitCount (secIds six).length⟩) ++
        List.replicate 125 ⟨0, 0, 0⟩,
      bytes := ((List.range 35).map fun t => formatBuf σ f vol t (woz2Blocks * 512 * 8)).flatten }

end ops

/-- `Nib::from_bytes`: 35 tracks of 6656 (NIB) or 6384 (NB2) bytes; anything else is refused.  The disk kind
the Rust finds by solving track 0 is the parameter `six`. -/
def nibFromBytes (six : Bool) (bytes : List Nat) : Option TrackImg :=
  if bytes.length = 35 * nibCap then
    some { kind := .nib, six := six, tmap := [], ents := [], offset := 0, trkCap := nibCap, bytes := bytes, headPtr := none }
  else if bytes.length = 35 * nb2Cap then
    some { kind := .nib, six := six, tmap := [], ents := [], offset := 0, trkCap := nb2Cap, bytes := bytes, headPtr := none }
  else none

/-- the bytes of an NB2 file made from a NIB file: every 6656-byte track cut to its first 6384 bytes (a
formatted track occupies at most 6328 of them, the rest is `FF` filler) -/
def nb2Bytes (bytes : List Nat) : List Nat :=
  ((List.range 35).map fun t => ((bytes.drop (t * nibCap)).take nibCap).take nb2Cap).flatten

end A2Verif.Model.TrackImg
