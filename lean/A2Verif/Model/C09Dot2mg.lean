import A2Verif.Model.C09Crc
import A2Verif.Gen.C09Const
/-!
2MG container model for property C09 — src/img/dot2mg.rs.

* `Header`, `Header.toBytes`, `Header.fromBytes` ↔ `#[derive(DiskStruct)] struct Header` (dot2mg.rs:36-52):
  fields in declaration order with the lengths of the GENERATED `Gen.C09Const.DOT2MG_FIELDS`.
* `Image.finalize` ↔ the recomputation of offsets and lengths at the top of `Dot2mg::to_bytes`
  (dot2mg.rs:264-273); `toBytes` ↔ `to_bytes` (dot2mg.rs:264-285) with the wrapped raw image as an opaque
  byte string `data` (DO/PO/NIB `to_bytes` is the identity on their buffer);
  `fromBytes` ↔ `from_bytes` (dot2mg.rs:164-251) without the construction of the wrapped image
  (its acceptance test depends only on `data.length`, see `rawOk`) and without UTF-8 validation.

Numbers in the header are 32-bit little endian; `u32` truncation (`as u32`) is modelled by `% 2^32`.
-/
namespace A2Verif.Model.C09Dot2mg
open A2Verif.Model.C09Crc A2Verif.Gen.C09Const

structure Header where
  magic : List Nat
  creatorId : List Nat
  headerLen : List Nat
  version : List Nat
  imgFmt : List Nat
  flags : List Nat
  blocks : List Nat
  dataOffset : List Nat
  dataLen : List Nat
  commentOffset : List Nat
  commentLen : List Nat
  creatorOffset : List Nat
  creatorLen : List Nat
  pad : List Nat
deriving DecidableEq, Repr

def Header.fields (h : Header) : List (List Nat) :=
  [h.magic, h.creatorId, h.headerLen, h.version, h.imgFmt, h.flags, h.blocks, h.dataOffset, h.dataLen,
   h.commentOffset, h.commentLen, h.creatorOffset, h.creatorLen, h.pad]

/-- every field has its declared length -/
def Header.wf (h : Header) : Prop := h.fields.map List.length = DOT2MG_FIELDS

instance (h : Header) : Decidable h.wf := by unfold Header.wf; exact inferInstance

def Header.toBytes (h : Header) : List Nat := h.fields.flatten

/-- cut `bs` into pieces of the given lengths -/
def splitBy : List Nat → List Nat → List (List Nat)
  | [], _ => []
  | n :: ns, bs => bs.take n :: splitBy ns (bs.drop n)

def Header.fromBytes (bs : List Nat) : Option Header :=
  if bs.length ≠ 64 then none else
  match splitBy DOT2MG_FIELDS bs with
  | [a, b, c, d, e, f, g, h, i, j, k, l, m, n] =>
    some { magic := a, creatorId := b, headerLen := c, version := d, imgFmt := e, flags := f, blocks := g,
           dataOffset := h, dataLen := i, commentOffset := j, commentLen := k, creatorOffset := l,
           creatorLen := m, pad := n }
  | _ => none

def rd32 (f : List Nat) : Nat :=
  match f with
  | [a, b, c, d] => unle32 a b c d
  | _ => 0

def w32 (n : Nat) : List Nat := le32 (n % 4294967296)

structure Image where
  header : Header
  /-- what the wrapped DO/PO/NIB image serialises to -/
  data : List Nat
  comment : List Nat
  creator : List Nat
deriving DecidableEq, Repr

/-- the header as `to_bytes` rewrites it (dot2mg.rs:266-273) -/
def Image.finalize (x : Image) : Header :=
  let bufLen := rd32 x.header.dataLen
  let rem := x.comment.length % 4294967296
  let cre := x.creator.length % 4294967296
  { x.header with
    dataOffset := w32 64
    commentOffset := w32 (if rem = 0 then 0 else 64 + bufLen)
    commentLen := w32 rem
    creatorOffset := w32 (if cre = 0 then 0 else 64 + bufLen + rem)
    creatorLen := w32 cre }

/-- `Dot2mg::to_bytes` -/
def toBytes (x : Image) : List Nat :=
  x.finalize.toBytes ++ x.data ++ x.comment ++ x.creator

/-- the size test of the wrapped image's `from_bytes` for format code `fmt` (0 DO, 1 PO, 2 NIB):
DO (dsk_do.rs:149-168), PO (dsk_po.rs:87-98), NIB/NB2 by exact size (the additional "track 0 must
decode" test of nib.rs is about the nibble payload and is not modelled: `rawOk` is necessary, not
sufficient, for format 2) -/
def rawOk (fmt len : Nat) : Bool :=
  if fmt = 0 then len % 512 = 0 && len / 512 ≤ 65535 && len / 512 ≥ 280 && (len / 512) % 8 = 0
  else if fmt = 1 then len % 512 = 0 && len / 512 ≤ 65535 && len / 512 ≥ 280
  else len = 35 * 6656 || len = 35 * 6384

/-- `Dot2mg::from_bytes`; `none` = `Err`.  A comment / creator range that runs past the end of the
file is ignored (empty string), as in the Rust. -/
def fromBytes (bs : List Nat) : Option Image :=
  if bs.length < 64 then none else
  match Header.fromBytes (bs.take 64) with
  | none => none
  | some h =>
    if h.magic ≠ [0x32, 0x49, 0x4D, 0x47] then none else
    let fmt := rd32 h.imgFmt
    if fmt > 2 then none else
    let off := rd32 h.dataOffset
    let len := rd32 h.dataLen
    if bs.length < off + len then none else
    let data := (bs.drop off).take len
    if ¬ rawOk fmt len then none else
    let coff := rd32 h.commentOffset
    let clen := rd32 h.commentLen
    let comment := if bs.length < coff + clen then [] else (bs.drop coff).take clen
    let roff := rd32 h.creatorOffset
    let rlen := rd32 h.creatorLen
    let creator := if bs.length < roff + rlen then [] else (bs.drop roff).take rlen
    if fmt = 1 ∧ rd32 h.blocks * 512 ≠ len then none else
    some { header := h, data := data, comment := comment, creator := creator }

/-- `to_bytes` of the repaired code also resets the header-length field to the 64 bytes it writes (`fixLen`); the code
as it was kept whatever a loaded file said there (proposed_fixes/c09-2mg-header-len.diff).  Which variant the tree being
checked has is probed on the real code by the harness. -/
def Image.finalizeF (fixLen : Bool) (x : Image) : Header :=
  let f := x.finalize
  if fixLen then { f with headerLen := [64, 0] } else f

def toBytesF (fixLen : Bool) (x : Image) : List Nat :=
  (x.finalizeF fixLen).toBytes ++ x.data ++ x.comment ++ x.creator

/-- `Dot2mg::from_bytes` of ANY byte string (a file written by another program), with the outcome of the two
`String::from_utf8` calls as parameters: `vc` / `vr` say whether the bytes of the comment / creator extent are valid
UTF-8.  An extent that runs past the end of the file, or is not UTF-8, is dropped (empty string) — the header fields that
described it stay in the header object until `to_bytes` recomputes them. -/
def fromBytesV (vc vr : Bool) (bs : List Nat) : Option Image :=
  if bs.length < 64 then none else
  match Header.fromBytes (bs.take 64) with
  | none => none
  | some h =>
    if h.magic ≠ [0x32, 0x49, 0x4D, 0x47] then none else
    let fmt := rd32 h.imgFmt
    if fmt > 2 then none else
    let off := rd32 h.dataOffset
    let len := rd32 h.dataLen
    if bs.length < off + len then none else
    let data := (bs.drop off).take len
    if ¬ rawOk fmt len then none else
    let coff := rd32 h.commentOffset
    let clen := rd32 h.commentLen
    let comment := if bs.length < coff + clen then [] else if vc then (bs.drop coff).take clen else []
    let roff := rd32 h.creatorOffset
    let rlen := rd32 h.creatorLen
    let creator := if bs.length < roff + rlen then [] else if vr then (bs.drop roff).take rlen else []
    if fmt = 1 ∧ rd32 h.blocks * 512 ≠ len then none else
    some { header := h, data := data, comment := comment, creator := creator }

end A2Verif.Model.C09Dot2mg
