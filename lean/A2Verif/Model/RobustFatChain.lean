import A2Verif.Model.Robust
/-!
# C12: FAT cluster-chain walks versus the size of the FAT buffer

`bios::fat::get_cluster` (src/bios/fat.rs:61-84), `is_damaged`/`is_last` (:130-152),
`BootSector::cluster_count_usable` (src/bios/bpb.rs:448-455), and in src/fs/fat/mod.rs: `clus_in_rng` (:216-218),
`next_cluster` (:449-469), `get_cluster_chain_data` (:484-511), `get_cluster_chain_length` (:513-534).

The FAT buffer is the concatenation of the `fat_secs` sectors of the first FAT (`open_fat_buffer`).  The only
thing that keeps `get_cluster(n, …)` inside that buffer is `clus_in_rng(n)`, i.e. `2 ≤ n < 2 + usable` with
`usable = min(data clusters, fat_secs*sec_size*8/typ - 2)`; on a 180K disk the data region has 353 clusters but
the one-sector FAT only 341 entries, so the second operand of the `min` is what matters there.
Reading the data of a cluster goes through the image layer and is a parameter (`readOk`).
-/
namespace A2Verif.Model.Robust

/-- `get_cluster(n,typ,buf)`: unguarded indexing -/
def fatGet (typ n : Nat) (fat : List Nat) : Outcome Nat :=
  if typ = 12 then
    match fat[n + n / 2]?, fat[n + n / 2 + 1]? with
    | some lo, some hi => let v := lo + 256 * hi; .ok (if n % 2 = 1 then v / 16 else v % 4096)
    | _, _ => .panic
  else if typ = 16 then
    match fat[2 * n]?, fat[2 * n + 1]? with
    | some lo, some hi => .ok (lo + 256 * hi)
    | _, _ => .panic
  else if typ = 32 then
    match fat[4 * n]?, fat[4 * n + 1]?, fat[4 * n + 2]?, fat[4 * n + 3]? with
    | some a, some b, some c, some d => .ok ((a + 256 * b + 65536 * c + 16777216 * d) % 268435456)
    | _, _, _, _ => .panic
  else .panic   -- `panic!("unexpected FAT type")`

def badMark (typ : Nat) : Nat := if typ = 12 then 0xff7 else if typ = 16 then 0xfff7 else 0xffffff7
def eocMin (typ : Nat) : Nat := if typ = 12 then 0xff8 else if typ = 16 then 0xfff8 else 0xffffff8

/-- `cluster_count_usable`: the subtraction of `FIRST_DATA_CLUSTER` is in `u64` -/
def usableClusters (dataClusters fatLen typ : Nat) : Outcome Nat :=
  if fatLen * 8 / typ < 2 then .panic else .ok (min dataClusters (fatLen * 8 / typ - 2))

def inRng (usable n : Nat) : Bool := 2 ≤ n && n < 2 + usable

/-- `next_cluster`: `err` = out of range or damaged, `ok none` = end of chain -/
def nextCluster (typ usable : Nat) (fat : List Nat) (n : Nat) : Outcome (Option Nat) :=
  if !inRng usable n then .err
  else
    match fatGet typ n fat with
    | .panic => .panic
    | .err => .err
    | .ok v =>
      if v = badMark typ then .err
      else if eocMin typ ≤ v then .ok none
      else .ok (some v)

/-- the `for _i in 0..max_clusters` loop of `get_cluster_chain_data` (`readOk` = the image layer delivered the
cluster) and, with `readOk = fun _ => true`, of `get_cluster_chain_length`; result = clusters visited -/
def chainLoop (typ usable : Nat) (fat : List Nat) (readOk : Nat → Bool) : Nat → Nat → Nat → Outcome Nat
  | 0, _, _ => .err
  | fuel + 1, curr, cnt =>
    if !inRng usable curr then .err
    else if !readOk curr then .err
    else
      match nextCluster typ usable fat curr with
      | .panic => .panic
      | .err => .err
      | .ok none => .ok (cnt + 1)
      | .ok (some nx) => chainLoop typ usable fat readOk fuel nx (cnt + 1)

/-- `get_cluster_chain_data(initial)` -/
def chainWalk (typ usable : Nat) (fat : List Nat) (readOk : Nat → Bool) (first : Nat) : Outcome Nat :=
  if first = 0 then .ok 0
  else if !inRng usable first then .err
  else chainLoop typ usable fat readOk usable first 0

/-- a file or directory is fetched on a mounted volume: usable count, then the walk -/
def fatFetch (dataClusters typ : Nat) (fat : List Nat) (readOk : Nat → Bool) (first : Nat) : Outcome Nat :=
  match usableClusters dataClusters fat.length typ with
  | .ok u => chainWalk typ u fat readOk first
  | .err => .err
  | .panic => .panic

end A2Verif.Model.Robust
