import A2Verif.Model.PackText
/-!
# C13 model, part 3: random-access records and the JSON forms

Transcription of
* `src/fs/recs.rs` : `Records::{update_fimg, from_fimg, to_json, from_json}`
* `src/fs/fimg.rs` : `FileImage::{to_json, from_json, version_tuple, parse_*}`
* `src/fs/dos3x/pack.rs`, `src/fs/prodos/pack.rs` : `pack_rec` / `unpack_rec`

The `json` crate is a parameter: the model produces and consumes an abstract JSON tree `J`
(assumed contract: `json::parse (json::stringify v) = v` for trees built by a2kit, object keys keep
insertion order, `obj[key]` returns the first entry with that key or `Null`).  The `hex` crate is
modelled (`encode_upper`, `decode`: even length, both cases accepted).
A `HashMap<usize,String>` is a list of `(key, utf-8 bytes)` pairs with distinct keys.
-/
namespace A2Verif.Packing

/-! ## chunk map operations -/

/-- `HashMap::insert` on the sorted association list -/
def insertChunk : List (Nat × Bytes) → Nat → Bytes → List (Nat × Bytes)
  | [], k, v => [(k, v)]
  | (k', v') :: r, k, v =>
    if k < k' then (k, v) :: (k', v') :: r
    else if k = k' then (k, v) :: r
    else (k', v') :: insertChunk r k v

def getBuf (cs : List (Nat × Bytes)) (k : Nat) : Bytes := (getChunk cs k).getD []

/-- `buf[offset] = x` / zero-extend and push -/
def writeAt (buf : Bytes) (offset x : Nat) : Bytes :=
  if offset ≥ buf.length then buf ++ List.replicate (offset - buf.length) 0 ++ [x]
  else buf.set offset x

structure RecW where
  chunks : List (Nat × Bytes)
  eof : Nat
  chunk : Nat
  offset : Nat
  buf : Bytes

/-- inner loop of `update_fimg` over the bytes of one record -/
def writeRecord (chunkLen : Nat) : Bytes → RecW → RecW
  | [], w => w
  | x :: rest, w =>
    let buf := writeAt w.buf w.offset x
    let offset := w.offset + 1
    if offset ≥ chunkLen ∨ rest = [] then
      let eof := max (w.chunk * chunkLen + buf.length) w.eof
      let chunks := insertChunk w.chunks w.chunk buf
      writeRecord chunkLen rest { chunks := chunks, eof := eof, chunk := w.chunk + 1, offset := 0, buf := getBuf chunks (w.chunk + 1) }
    else writeRecord chunkLen rest { w with buf := buf, offset := offset }

/-- loop over the records (in the iteration order of the map) -/
def writeRecords (recLen chunkLen : Nat) (conv : Bytes → Option Bytes) :
    List (Nat × Bytes) → List (Nat × Bytes) → Nat → Option (List (Nat × Bytes) × Nat)
  | [], cs, eof => some (cs, eof)
  | (num, fields) :: rest, cs, eof =>
    match conv fields with
    | none => none
    | some data =>
      let chunk := recLen * num / chunkLen
      let w := writeRecord chunkLen data
        { chunks := cs, eof := eof, chunk := chunk, offset := recLen * num % chunkLen, buf := getBuf cs chunk }
      writeRecords recLen chunkLen conv rest w.chunks w.eof

/-- `Records::update_fimg(ans, require_first, converter, clear)`; `set_eof` keeps the width of the eof field -/
def updateFimg (recLen : Nat) (recs : List (Nat × Bytes)) (f : FImg) (requireFirst : Bool)
    (conv : Bytes → Option Bytes) (clear : Bool) : Res FImg :=
  if recLen < 2 ∨ recLen > 0xffff then .err
  else if f.chunkLen = 0 then .panic                       -- division by zero
  else
    let cs0 := if clear then [] else f.chunks
    let cs1 := if requireFirst then insertChunk cs0 0 (List.replicate f.chunkLen 0) else cs0
    match writeRecords recLen f.chunkLen conv recs cs1 0 with
    | none => .err
    | some (cs, eof) => .ok { f with chunks := cs, eof := fixLe eof f.eof.length }

def ceilDiv (a b : Nat) : Nat := a / b + (if a % b > 0 then 1 else 0)

/-- the bytes of chunks `lo..hi` (exclusive) and whether all of them exist -/
def gather (cs : List (Nat × Bytes)) (lo : Nat) : Nat → Bytes × Bool
  | 0 => ([], true)
  | n+1 =>
    match getChunk cs lo with
    | some c => let (b, ok) := gather cs (lo+1) n; (c ++ b, ok)
    | none => let (b, _) := gather cs (lo+1) n; (b, false)

/-- which gathering `from_fimg` exhibits: `strict` is HEAD (every chunk the record could touch, and
the one after it, must exist; chunks are concatenated as they are); `zeroFill` is the repaired code
(only the chunk where the record starts must exist, holes and short chunks read as zeros),
`/verif/proposed_fixes/records-sparse-chunks.diff` -/
inductive RecGather where
  | strict | zeroFill
deriving DecidableEq, Repr

/-- the repaired gathering loop: `k` counts chunks from `start`, `acc` is `bytes` -/
def gatherZ (cs : List (Nat × Bytes)) (chunkLen start : Nat) : Nat → Nat → Bytes → Bool → Bytes × Bool
  | 0, _, acc, ok => (acc, ok)
  | n+1, k, acc, ok =>
    let (acc1, ok1) := match getChunk cs (start + k) with
      | some c => (acc ++ c, ok)
      | none => (acc, ok && k != 0)
    gatherZ cs chunkLen start n (k+1) (acc1 ++ List.replicate ((k+1) * chunkLen - acc1.length) 0) ok1

/-- one candidate record `r` of `from_fimg`: `some text` if it is complete and non-empty -/
def readRecord (gv : RecGather) (cs : List (Nat × Bytes)) (chunkLen recLen : Nat) (toUtf8 : Bytes → Bytes) (r : Nat) : Option Bytes :=
  let startChunk := r * recLen / chunkLen
  let endChunk := 1 + (r + 1) * recLen / chunkLen
  let startOffset := r * recLen % chunkLen
  let (bytes, complete) := match gv with
    | .strict => gather cs startChunk (endChunk - startChunk)
    | .zeroFill => gatherZ cs chunkLen startChunk (endChunk - startChunk) 0 [] true
  if complete ∧ startOffset < bytes.length then
    let actualEnd := min (startOffset + recLen) bytes.length
    let part := beforeFirst 0 (toUtf8 ((bytes.take actualEnd).drop startOffset))
    if part.length > 0 then some part else none
  else none

/-- `Records::from_fimg`: candidate records are those that start inside an existing chunk; the
result map is rendered sorted by key -/
def fromFimg (gv : RecGather) (f : FImg) (recLen : Nat) (toUtf8 : Bytes → Bytes) : Res (List (Nat × Bytes)) :=
  if recLen < 2 then .err
  else if f.chunkLen = 0 then .panic
  else
    let cands := f.chunks.flatMap (fun (p : Nat × Bytes) =>
      let s := ceilDiv (p.1 * f.chunkLen) recLen
      let e := ceilDiv ((p.1 + 1) * f.chunkLen) recLen
      (List.range (e - s)).map (· + s))
    .ok (cands.filterMap (fun r => (readRecord gv f.chunks f.chunkLen recLen toUtf8 r).map (fun t => (r, t))))

/-- `pack_rec` (DOS 3.x / ProDOS; the other three refuse) -/
def packRec (fs : Fs) (f : FImg) (recLen : Nat) (recs : List (Nat × Bytes)) : Res FImg :=
  match fs with
  | .dos => updateFimg recLen recs { f with fsType := [0] } false (dosFromUtf8 [0x8d]) true
  | .prodos =>
    if recLen ≥ 65536 then .err                      -- `u16::try_from(record_len)?`
    else updateFimg recLen recs { f with fsType := [4], aux := u16le recLen, access := [prodosAccess] } true
      (prodosFromUtf8 [0x0d]) true
  | _ => .err

/-- `unpack_rec(fimg, rec_len)` -/
def unpackRec (gv : RecGather) (fs : Fs) (f : FImg) (recLen : Option Nat) : Res (List (Nat × Bytes)) :=
  match fs with
  | .dos =>
    match recLen with
    | some l => if l > 0 ∧ l < 32768 then fromFimg gv f l dosToUtf8 else .err
    | none => .err
  | .prodos =>
    match recLen with
    | some l => if l > 0 ∧ l < 32768 then fromFimg gv f l prodosToUtf8 else .err
    | none => fromFimg gv f (getAux f) prodosToUtf8
  | _ => .err

/-! ## abstract JSON -/

inductive J where
  | null
  | str (s : List Nat)
  | num (n : Nat)
  | arr (xs : List J)
  | obj (kvs : List (List Nat × J))
deriving Repr

def jLookup (kvs : List (List Nat × J)) (k : List Nat) : J :=
  match kvs with
  | [] => .null
  | (k', v) :: r => if k' = k then v else jLookup r k

def J.get (j : J) (k : List Nat) : J := match j with | .obj kvs => jLookup kvs k | _ => .null
def J.asStr : J → Option (List Nat) | .str s => some s | _ => none
def J.asNum : J → Option Nat | .num n => some n | _ => none
def J.entries : J → List (List Nat × J) | .obj kvs => kvs | _ => []
def J.members : J → List J | .arr xs => xs | _ => []

/-! ### hex and decimal strings -/

def hexEncUp (b : Bytes) : List Nat := b.flatMap (fun x => [hexUp (x / 16), hexUp (x % 16)])

def hexDec : List Nat → Option Bytes
  | [] => some []
  | [_] => none
  | a :: b :: r =>
    match hexDig a, hexDig b, hexDec r with
    | some x, some y, some t => some ((16 * x + y) :: t)
    | _, _, _ => none

/-- decimal digits of `n` (most significant first), `fuel` ≥ number of digits -/
def decDigitsAux : Nat → Nat → List Nat → List Nat
  | 0, _, acc => acc
  | fuel+1, n, acc => if n < 10 then (48 + n) :: acc else decDigitsAux fuel (n / 10) ((48 + n % 10) :: acc)

/-- `usize::to_string` -/
def decStr (n : Nat) : List Nat := decDigitsAux (n + 1) n []

def parseDecAux : List Nat → Nat → Option Nat
  | [], acc => some acc
  | c :: r, acc => if 48 ≤ c ∧ c ≤ 57 then parseDecAux r (10 * acc + (c - 48)) else none

/-- `usize::from_str` (digits, optional leading `+`; empty is an error) -/
def parseDec (s : List Nat) : Option Nat :=
  match s with
  | [] => none
  | 43 :: r => if r = [] then none else parseDecAux r 0
  | _ => parseDecAux s 0

/-! ### `FileImage` ↔ JSON -/

/-- object keys as code points (explicit lists: string literals do not reduce in proofs) -/
def kFimgVersion : List Nat := [102,105,109,103,95,118,101,114,115,105,111,110]
def kFileSystem : List Nat := [102,105,108,101,95,115,121,115,116,101,109]
def kChunkLen : List Nat := [99,104,117,110,107,95,108,101,110]
def kEof : List Nat := [101,111,102]
def kFsType : List Nat := [102,115,95,116,121,112,101]
def kAux : List Nat := [97,117,120]
def kAccess : List Nat := [97,99,99,101,115,115]
def kAccessed : List Nat := [97,99,99,101,115,115,101,100]
def kCreated : List Nat := [99,114,101,97,116,101,100]
def kModified : List Nat := [109,111,100,105,102,105,101,100]
def kVersion : List Nat := [118,101,114,115,105,111,110]
def kMinVersion : List Nat := [109,105,110,95,118,101,114,115,105,111,110]
def kFullPath : List Nat := [102,117,108,108,95,112,97,116,104]
def kChunks : List Nat := [99,104,117,110,107,115]
def kFimgType : List Nat := [102,105,109,103,95,116,121,112,101]
def kRecordLength : List Nat := [114,101,99,111,114,100,95,108,101,110,103,116,104]
def kRecords : List Nat := [114,101,99,111,114,100,115]
def kRec : List Nat := [114,101,99]

/-- `FileImage::to_json` (chunks are written in ascending key order through a `BTreeMap`) -/
def fimgToJson (f : FImg) : J :=
  .obj [
    (kFimgVersion, .str f.fimgVersion),
    (kFileSystem, .str f.fileSystem),
    (kChunkLen, .num f.chunkLen),
    (kEof, .str (hexEncUp f.eof)),
    (kFsType, .str (hexEncUp f.fsType)),
    (kAux, .str (hexEncUp f.aux)),
    (kAccess, .str (hexEncUp f.access)),
    (kAccessed, .str (hexEncUp f.accessed)),
    (kCreated, .str (hexEncUp f.created)),
    (kModified, .str (hexEncUp f.modified)),
    (kVersion, .str (hexEncUp f.version)),
    (kMinVersion, .str (hexEncUp f.minVersion)),
    (kFullPath, .str f.fullPath),
    (kChunks, .obj (f.chunks.map (fun (p : Nat × Bytes) => (decStr p.1, J.str (hexEncUp p.2)))))]

/-- split at `.` -/
def splitDots : List Nat → List (List Nat)
  | [] => [[]]
  | c :: r =>
    match splitDots r with
    | [] => [[]]
    | h :: t => if c = 46 then [] :: h :: t else (c :: h) :: t

/-- `FileImage::version_tuple`: `none` = panic (`expect` on a non-number, or fewer than 3 parts) -/
def versionTuple (v : List Nat) : Option (Nat × Nat × Nat) :=
  match (splitDots v).mapM parseDec with
  | some (a :: b :: c :: _) => some (a, b, c)
  | _ => none

def verLt (a b : Nat × Nat × Nat) : Bool :=
  a.1 < b.1 || (a.1 = b.1 && (a.2.1 < b.2.1 || (a.2.1 = b.2.1 && a.2.2 < b.2.2)))

def parseHexField (j : J) (k : List Nat) : Option Bytes :=
  match (j.get k).asStr with
  | some s => hexDec s
  | none => none

/-- which `from_json` the code exhibits: `legacy` is the snapshot 27d20bf (`version_tuple` panics on a
malformed version, no range checks); `bounded` is the code after the C12 repairs
(`try_version_tuple` ⇒ error; `1 ≤ chunk_len ≤ 0x10000`; chunk index ≤ `0xffffff`) -/
inductive JsonChk where
  | legacy | bounded
deriving DecidableEq, Repr

def maxChunkLen : Nat := 0x10000
def maxChunkIndex : Nat := 0xffffff

/-- the loop over `chunks` entries: every entry must add a new key -/
def parseChunks (jc : JsonChk) : List (List Nat × J) → List (Nat × Bytes) → Option (List (Nat × Bytes))
  | [], acc => some acc
  | (k, v) :: r, acc =>
    match parseDec k, v.asStr with
    | some num, some hs =>
      if jc = .bounded ∧ maxChunkIndex < num then none
      else
      match hexDec hs with
      | some dat =>
        if (getChunk acc num).isSome then none            -- `chunks.len()==prev_len`
        else parseChunks jc r (insertChunk acc num dat)
      | none => none
    | _, _ => none

/-- `FileImage::from_json` given the parsed tree -/
def fimgFromJson (jc : JsonChk) (j : J) : Res FImg :=
  match (j.get kFimgVersion).asStr with
  | none => .err
  | some ver =>
    match versionTuple ver with
    | none => if jc = .bounded then .err else .panic
    | some vt =>
      if verLt vt (2,0,0) then .err
      else
        let new := !verLt vt (2,1,0)
        match (j.get kFileSystem).asStr, (j.get kChunkLen).asNum,
              parseHexField j kFsType, parseHexField j kAux, parseHexField j kEof, parseHexField j kAccess,
              parseHexField j kCreated, parseHexField j kModified, parseHexField j kVersion,
              parseHexField j kMinVersion with
        | some fs, some cl, some typ, some aux, some eof, some acc, some cr, some md, some vs, some mv =>
          if jc = .bounded ∧ (cl < 1 ∨ maxChunkLen < cl) then .err else
          match (if new then parseHexField j kAccessed else some []),
                (if new then (j.get kFullPath).asStr else some []) with
          | some accd, some path =>
            match parseChunks jc (j.get kChunks).entries [] with
            | some cs => .ok { fimgVersion := ver, fileSystem := fs, chunkLen := cl, eof := eof, fsType := typ,
                               aux := aux, access := acc, accessed := accd, created := cr, modified := md,
                               version := vs, minVersion := mv, fullPath := path, chunks := cs }
            | none => .err
          | _, _ => .err
        | _, _, _, _, _, _, _, _, _, _ => .err

/-! ### `Records` ↔ JSON -/

/-- `str::lines()`: split at `\n`, a final empty piece is dropped, a trailing `\r` of a line is dropped -/
def stripCr (l : Bytes) : Bytes :=
  match l.reverse with
  | 13 :: r => r.reverse
  | _ => l

def linesAux : Bytes → Bytes → List Bytes
  | [], cur => if cur = [] then [] else [stripCr cur.reverse]
  | c :: r, cur => if c = 10 then stripCr cur.reverse :: linesAux r [] else linesAux r (c :: cur)

def strLines (s : Bytes) : List Bytes := linesAux s []

/-- `Records::to_json` (entries in the iteration order of the map) -/
def recsToJson (recLen : Nat) (recs : List (Nat × Bytes)) : J :=
  .obj [
    (kFimgType, .str kRec),
    (kRecordLength, .num recLen),
    (kRecords, .obj (recs.map (fun (p : Nat × Bytes) => (decStr p.1, J.arr ((strLines p.2).map J.str)))))]

def joinLines : List J → Option Bytes
  | [] => some []
  | x :: r =>
    match x.asStr, joinLines r with
    | some l, some t => some (l ++ [10] ++ t)
    | _, _ => none

def parseRecs : List (List Nat × J) → List (Nat × Bytes) → Option (List (Nat × Bytes))
  | [], acc => some acc
  | (k, v) :: r, acc =>
    match parseDec k, joinLines v.members with
    | some num, some fields => parseRecs r (insertChunk acc num fields)
    | _, _ => none

/-- `Records::from_json` given the parsed tree: `(record_len, map sorted by key)` -/
def recsFromJson (j : J) : Res (Nat × List (Nat × Bytes)) :=
  match (j.get kFimgType).asStr, (j.get kRecordLength).asNum with
  | some typ, some len =>
    if typ = kRec then
      let ents := (j.get kRecords).entries
      if ents.length = 0 then .err
      else match parseRecs ents [] with
        | some m => .ok (len, m)
        | none => .err
    else .err
  | _, _ => .err

end A2Verif.Packing
