import A2Verif.Model.VolSpec
/-!
# Histories of checked steps

A *history* is the list of steps the harness has checked one after another with `stepOk`: each step
records the operation that was asked for, whether a2kit reported success, and the independent reading
of the image saved afterwards.  `validFrom P v0 tr` says that every step of `tr` satisfied the per-step
refinement condition, the first one starting from the reading `v0`, every later one from the reading
left by its predecessor.  The history-level theorems (`Props/C01…C06, C19`) are proved for every such
list, of any length.  Core Lean only.
-/
namespace A2Verif

structure Step where
  op : FsOp
  ok : Bool
  post : Vol

/-- every step satisfied `stepOk`, chained through the readings -/
def validFrom (P : FsParams) : Vol → List Step → Prop
  | _, [] => True
  | v, s :: rest => stepOk P v s.op s.ok s.post = true ∧ validFrom P s.post rest

/-- the reading after the last step (the initial reading for the empty history) -/
def finalVol (v0 : Vol) (tr : List Step) : Vol := (tr.getLast?.map (·.post)).getD v0

/-- the listing of a volume: the paths of its entries, in directory order -/
def Vol.paths (v : Vol) : List Bytes := v.files.map (·.path)

/-- the abstract effect of one step on the set of stored paths (C05): a successful `put`/`mkdir` adds
its path, a successful `delete` removes it, a successful `rename` replaces it, everything else — and
every refused operation — leaves the listing as it was -/
def applyPaths (l : List Bytes) (op : FsOp) (ok : Bool) : List Bytes :=
  match op, ok with
  | .put p _ _ _ _, true => p :: l
  | .mkdir p, true => p :: l
  | .delete p, true => l.filter (fun r => r != p)
  | .rename p q, true => q :: l.filter (fun r => r != p)
  | _, _ => l

/-- the listing a history leads to according to the abstract model -/
def foldPaths (l : List Bytes) (tr : List Step) : List Bytes :=
  tr.foldl (fun l s => applyPaths l s.op s.ok) l

/-- what a `get`/catalog line shows of one entry: path, kind, type, aux, length, protection, stored chunks -/
def entryObs (f : FileRec) : Bytes × Bool × Nat × Nat × Nat × Bool × List (Nat × Bytes) :=
  (f.path, f.isDir, f.ftype, f.aux, f.eof, f.locked, f.chunks)

/-- what the harness compares after save/reload (C06): the listing, every entry's observable fields in
listing order, the free count and the volume bounds -/
structure Obs where
  listing : List Bytes
  entries : List (Bytes × Bool × Nat × Nat × Nat × Bool × List (Nat × Bytes))
  free : Nat
  lo : Nat
  hi : Nat
  deriving Repr

def observe (v : Vol) : Obs :=
  { listing := v.paths, entries := v.files.map entryObs, free := v.free, lo := v.lo, hi := v.hi }

end A2Verif
