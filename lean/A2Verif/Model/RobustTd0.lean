import A2Verif.Model.Robust
/-!
# C12: `td0::Sector::unpack` (src/img/td0.rs:292-355)

The sector record is `len16 | encoding | payload`.  All reads go through the checked macros
`verified_get_byte!` / `verified_get_slice!` (:21-49), which return an error when the record is exhausted; the
only unchecked operation is `SECTOR_SIZE_BASE << sector_shift` (panics for a shift of 64 or more in `usize`),
which `Td0::from_bytes` now excludes by refusing size codes above 6.  Only the number of bytes produced
matters for the control flow, so the model tracks `ans.len()`, not the bytes.
Every loop iteration consumes at least one byte of the record: the loops recurse on the remaining bytes.
-/
namespace A2Verif.Model.Robust

/-- encoding 1, `while ans.len() < sector_size { count16, b0, b1 → push count pairs }` -/
def td0Repeated (size : Nat) : List Nat → Nat → Outcome Nat
  | c0 :: c1 :: _ :: _ :: rest, have_ =>
    if have_ < size then td0Repeated size rest (have_ + 2 * (c0 + 256 * c1)) else .ok have_
  | _, have_ => if have_ < size then .err else .ok have_

/-- encoding 2, run length: `2*n` literal bytes repeated `r` times, or (n = 0) `m` literal bytes -/
def td0RunLength (size : Nat) : Nat → List Nat → Nat → Outcome Nat
  | 0, _, have_ => if have_ < size then .err else .ok have_
  | fuel + 1, data, have_ =>
    if ¬ have_ < size then .ok have_
    else
      match data with
      | [] => .err
      | n :: rest =>
        if n = 0 then
          match rest with
          | [] => .err
          | m :: rest' => if rest'.length < m then .err else td0RunLength size fuel (rest'.drop m) (have_ + m)
        else
          match rest with
          | [] => .err
          | rep :: rest' => if rest'.length < 2 * n then .err else td0RunLength size fuel (rest'.drop (2 * n)) (have_ + rep * (2 * n))

/-- the decoded length for the three encodings (`Raw`, `Repeated`, `RunLength`); unknown encoding = error -/
def td0Payload (size enc : Nat) (rest : List Nat) : Outcome Nat :=
  if enc = 0 then (if rest.length < size then .err else .ok size)
  else if enc = 1 then td0Repeated size rest 0
  else if enc = 2 then td0RunLength size (rest.length + 1) rest 0
  else .err

/-- `Sector::unpack`: `ok` = the decoded length equals the sector size -/
def td0Unpack (shift flags : Nat) (data : List Nat) : Outcome Unit :=
  if shift ≥ 64 then .panic                                   -- `SECTOR_SIZE_BASE << self.header.sector_shift`
  else if flags &&& 0x30 > 0 then .err
  else
    match data with
    | _ :: _ :: enc :: rest =>
      (match td0Payload (128 * 2 ^ shift) enc rest with
       | .ok n => if n = 128 * 2 ^ shift then .ok () else .err
       | .err => .err
       | .panic => .panic)
    | _ => .err

end A2Verif.Model.Robust
