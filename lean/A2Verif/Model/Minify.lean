import A2Verif.Gen.MinifyGuards
/-!
Model of the Applesoft minifier's *program-level* decisions
(`/repo/src/lang/applesoft/minifier.rs`): which lines are deleted (REM lines at level ≥ 2), the
deleted-line map (`set_line_ref_map`), the retargeting pass (`visit_pass2`), and line combining
(`minify_stage3`) with its guards.  The tree-sitter parse is a parameter: a program is a list of
abstract lines carrying exactly what the three passes look at.

`Cfg` selects between the code as written at design time (`Cfg.asWritten`) and the three one-line
repairs proposed in `/verif/proposed_fixes/minifier-c17.diff` (`Cfg.fixed`):
* `remapRefs`   – stage 3 consults the reference set *after* it was pushed through the line map
                  (as written: the set collected in pass 1, `minifier.rs:165` vs `:441`);
* `keepLast`    – the last line of the program is never deleted
                  (as written: deleting it makes `set_line_ref_map` fail, `minifier.rs:123`);
* `dataForbids` – a `DATA` statement forbids combining the next line
                  (as written: `tok_data` is in `FORBIDS_COMBINING_NEXT` but the node is never
                  visited, because the enclosing `statement` node is copied wholesale, `:231`);
* `remTopOnly`  – only a `REM` that is the first statement *of the line* deletes the line
                  (as written: also a `REM` right after `THEN`, which has no previous `statement`
                  sibling either, so `10 A$="HI": IF X THEN REM` is deleted as a whole, `:214-224`).
Core Lean only.
-/
namespace A2Verif.Model.Minify

/-- which variant of the code is modelled -/
structure Cfg where
  remapRefs : Bool
  keepLast : Bool
  dataForbids : Bool
  remTopOnly : Bool
deriving DecidableEq, Repr

def Cfg.asWritten : Cfg := ⟨false, false, false, false⟩
def Cfg.fixed : Cfg := ⟨true, true, true, true⟩

/-- what the minifier's passes see of one program line -/
structure Line where
  /-- primary line number -/
  num : Nat
  /-- the first statement of the line is `REM` (`minifier.rs:213-224`): the line is deleted when
      `FLAG_DEL_LINES` is set -/
  rem : Bool
  /-- pass 1 reaches a `REM` statement that is not a child of the line and has no previous
      `statement` sibling (`IF … THEN REM`) -/
  remNested : Bool
  /-- secondary line numbers (`linenum` nodes whose parent is not `line`), in walk order -/
  refs : List Nat
  /-- pass 1 visits a node whose kind is in `FORBIDS_COMBINING_NEXT` (`:178`); `tok_data` is never
      visited and is therefore reported separately in `data` -/
  fnext : Bool
  /-- the line contains a `DATA` statement -/
  data : Bool
  /-- pass 1 visits `tok_del` or `tok_list` (`FORBIDS_COMBINING_ANY`, `:175`) -/
  fany : Bool
  /-- identities of the string literals and DATA payloads of the line, in order -/
  lits : List Nat
  /-- length in bytes of the line's text after stage 2 -/
  len : Nat
  /-- after stage 2 the line ends with a `str` node (pass 3, `:341-354`) -/
  endsStr : Bool
deriving DecidableEq, Repr

/-- `FLAG_DEL_LINES` is set from level 2 on (`set_level`, `:143`) -/
def delLines (level : Nat) : Bool := decide (2 ≤ level)
/-- `FLAG_COMBINE_LINES` is set from level 3 on (`:146`) -/
def combineLines (level : Nat) : Bool := decide (3 ≤ level)

/-- does pass 1 take the "delete line" branch on this line when `FLAG_DEL_LINES` is set? -/
def Line.dels (cfg : Cfg) (l : Line) : Bool := l.rem || (!cfg.remTopOnly && l.remNested)

/-- per line: is it deleted in stage 1 (`:221`)?  With `keepLast` the last line never is. -/
def delFlags (cfg : Cfg) (level : Nat) : List Line → List Bool
  | [] => []
  | [l] => [delLines level && l.dels cfg && !cfg.keepLast]
  | l :: l' :: ls => (delLines level && l.dels cfg) :: delFlags cfg level (l' :: ls)

/-- the lines of `p` whose flag is `keep` -/
def pick (keep : Bool) : List Line → List Bool → List Line
  | l :: ls, f :: fs => if f == keep then l :: pick keep ls fs else pick keep ls fs
  | _, _ => []

/-- `deleted_lines` after stage 1 -/
def deleted (cfg : Cfg) (level : Nat) (p : List Line) : List Nat :=
  (pick true p (delFlags cfg level p)).map (·.num)
/-- the lines that reach stage 2 -/
def surviving (cfg : Cfg) (level : Nat) (p : List Line) : List Line :=
  pick false p (delFlags cfg level p)

/-- the `while` loop of `set_line_ref_map` (`:121-127`) for one deleted line `d`; the state is the
suffix of `all_lines` starting at `curr_idx`; `none` is `Err(LineNumber)` (`:124`) -/
def advance (del : List Nat) (d : Nat) : List Nat → Option (Nat × List Nat)
  | [] => none
  | c :: rest => if decide (c ≤ d) || del.contains c then advance del d rest else some (c, rest)

/-- the `for deleted in &self.deleted_lines` loop of `set_line_ref_map` (`:120-129`) -/
def buildMap (del : List Nat) : List Nat → List Nat → Option (List (Nat × Nat))
  | [], _ => some []
  | d :: ds, s =>
    match advance del d s with
    | none => none
    | some (c, rest) =>
      match buildMap del ds (c :: rest) with
      | none => none
      | some m => some ((d, c) :: m)

/-- `line_map.get(&num)` (`:314`) -/
def lookup (m : List (Nat × Nat)) (r : Nat) : Option Nat :=
  match m with
  | [] => none
  | (d, c) :: m' => if d == r then some c else lookup m' r

/-- pass 2 on one reference (`:313-319`): replaced if it is in the map, else left alone -/
def retarget (m : List (Nat × Nat)) (r : Nat) : Nat :=
  match lookup m r with
  | some c => c
  | none => r

/-- outcome of `minify` -/
inductive Outcome (α : Type) where
  | ok : α → Outcome α
  | err : Outcome α
deriving DecidableEq, Repr

/-- an output line: a surviving line together with the lines appended to it in stage 3 -/
structure Group where
  num : Nat
  /-- line numbers of the lines appended to this one (their numbers no longer exist) -/
  absorbed : List Nat
  refs : List Nat
  lits : List Nat
  len : Nat
deriving DecidableEq, Repr

/-- number of decimal digits = what `line.find(|c| !c.is_digit(10))` returns on a stage-2 line -/
def ndigits (n : Nat) : Nat := (Nat.toDigits 10 n).length

def Group.single (l : Line) : Group := ⟨l.num, [], l.refs, l.lits, l.len⟩

/-- `partial_line += "\""? + ":" + &line[idx..]` (`:443-448`) -/
def Group.absorb (g : Group) (lastEnds : Bool) (l : Line) : Group :=
  ⟨g.num, g.absorbed ++ [l.num], g.refs ++ l.refs, g.lits ++ l.lits,
   g.len + (if lastEnds then 1 else 0) + 1 + (l.len - ndigits l.num)⟩

/-- the loop of `minify_stage3` (`:429-467`) after its first iteration: `cur` is `partial_line`,
`comb` is `combining`, `lastEnds` is `ends_with_str` of the previous line; `refset` is
`linenum_refs`, `fnext` is `forbids_combining_next` -/
def combine (refset fnext : List Nat) : Group → Bool → Bool → List Line → List Group
  | cur, _, _, [] => [cur]
  | cur, comb, lastEnds, l :: ls =>
    let still := decide (cur.len + l.len ≤ A2Verif.Gen.MinifyGuards.maxLen) && !refset.contains l.num
    if comb && still then
      combine refset fnext (cur.absorb lastEnds l) (!fnext.contains l.num) l.endsStr ls
    else
      cur :: combine refset fnext (Group.single l) (!fnext.contains l.num) l.endsStr ls

/-- `minify_stage3`; in the first iteration `combining` is false and `partial_line` is empty -/
def stage3 (refset fnext : List Nat) : List Line → List Group
  | [] => []
  | l :: ls => combine refset fnext (Group.single l) (!fnext.contains l.num) l.endsStr ls

/-- pass 2 applied to a line -/
def retargetLine (m : List (Nat × Nat)) (l : Line) : Line := { l with refs := l.refs.map (retarget m) }

/-- `forbids_combining_next` after pass 1 -/
def fnextSet (cfg : Cfg) (p : List Line) : List Nat :=
  (p.filter (fun l => l.fnext || (cfg.dataForbids && l.data))).map (·.num)

/-- `linenum_refs` as consulted by stage 3 -/
def refSet (cfg : Cfg) (m : List (Nat × Nat)) (p : List Line) : List Nat :=
  let r := p.flatMap (·.refs)
  if cfg.remapRefs then r.map (retarget m) else r

/-- `Minifier::minify` (`:474-490`) for levels ≥ 1 on the abstract program -/
def minify (cfg : Cfg) (level : Nat) (p : List Line) : Outcome (List Group) :=
  match buildMap (deleted cfg level p) (deleted cfg level p) (p.map (·.num)) with
  | none => .err
  | some m =>
    let s2 := (surviving cfg level p).map (retargetLine m)
    if combineLines level && !p.any (·.fany) then
      .ok (stage3 (refSet cfg m p) (fnextSet cfg p) s2)
    else
      .ok (s2.map Group.single)

end A2Verif.Model.Minify
