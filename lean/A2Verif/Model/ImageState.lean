import A2Verif.Gen.ToolState
/-!
A nibble image object as a STATE MACHINE: the incidental state is the head position.

`Woz1` / `Woz2` / `Nib` keep `head_coords.bit_ptr`; every sector read stores the position where it stopped
(`woz2.rs:667-670`), and `new_rw_obj` (`woz2.rs:624-656`) seeds the next track reader with it.  A read-only operation
is therefore `readOnlyOp : head → output × head`.  The model abstracts a track to the list of its sectors in physical
order (address field = key, data = value) and the head to an index into that list:

* `readSector` = `TrackBits::read_sector` (`disk525.rs`): search for the address field starting at the head, going around
  the whole track; the head is left behind the sector found;
* `trackSolution resets` = `TrackBits::chss_map` / `chs_map`: the address fields "in time order"; with `resets` the disk is
  first rotated to the reference bit (`self.reset()`), without it the list starts wherever the head is.  The image does
  not store the head back after a track solution (`get_track_solution`, `woz2.rs:841-886`);
* `trackDump resets` = `TrackBits::to_nibbles`: one revolution starting at the first address prolog at or after the head.

Which of the three functions reset first is read from the current source (`Gen.ToolState.trackBits525…Resets`).
Core Lean only.
-/
namespace A2Verif.ImageState

/-- a track: sectors in physical order, (address field, data) -/
abbrev Track := List (Nat × Nat)

/-- the track as it passes the head when the head is at index `h`: rotated left by `h` -/
def fromHead (t : Track) (h : Nat) : Track := t.drop h ++ t.take h

/-- position of the first sector with address `s` in a list -/
def indexOf (s : Nat) : Track → Option Nat
  | [] => none
  | x :: xs => if x.1 == s then some 0 else (indexOf s xs).map (· + 1)

/-- `read_sector`: the data of the first sector with address `s` that passes the head, and the new head position (behind
that sector); `none` (and the head where it was) if no such sector passes within one revolution -/
def readSector (t : Track) (h s : Nat) : Option Nat × Nat :=
  match (fromHead t h).find? (fun x => x.1 == s), indexOf s (fromHead t h) with
  | some x, some k => (some x.2, (h + k + 1) % t.length)
  | _, _ => (none, h)

/-- `chss_map` / `chs_map`: address fields in time order; `resets` = `self.reset()` first -/
def trackSolution (resets : Bool) (t : Track) (h : Nat) : List Nat :=
  (fromHead t (if resets then 0 else h)).map (·.1)

/-- `to_nibbles`: one revolution of the track from where the scan starts -/
def trackDump (resets : Bool) (t : Track) (h : Nat) : List (Nat × Nat) :=
  fromHead t (if resets then 0 else h)

/-- which of the output functions rotate to the reference bit first -/
structure Variant where
  solutionResets : Bool
  dumpResets : Bool
deriving DecidableEq, Repr

/-- the 5.25 inch and 3.5 inch track readers of the current source -/
def Variant.current525 : Variant :=
  ⟨A2Verif.Gen.ToolState.trackBits525ChssMapResets && A2Verif.Gen.ToolState.trackBits525ChsMapResets,
   A2Verif.Gen.ToolState.trackBits525ToNibblesResets⟩
def Variant.current35 : Variant :=
  ⟨A2Verif.Gen.ToolState.trackBits35ChssMapResets && A2Verif.Gen.ToolState.trackBits35ChsMapResets,
   A2Verif.Gen.ToolState.trackBits35ToNibblesResets⟩

/-- read-only operations on the image object -/
inductive Op where
  /-- sector read (catalog, get, read_block … are sequences of these) -/
  | read (s : Nat)
  /-- geometry export: the track solution -/
  | solution
  /-- track dump (`get_track_nibbles`) -/
  | dump
deriving DecidableEq, Repr

/-- what an operation returns -/
inductive Out where
  | data (d : Option Nat)
  | ids (l : List Nat)
  | nibbles (l : List (Nat × Nat))
deriving DecidableEq, Repr

/-- `readOnlyOp : State → Out × State` — the state is the head position -/
def readOnlyOp (v : Variant) (t : Track) (h : Nat) : Op → Out × Nat
  | .read s => let r := readSector t h s; (.data r.1, r.2)
  | .solution => (.ids (trackSolution v.solutionResets t h), h)
  | .dump => (.nibbles (trackDump v.dumpResets t h), h)

/-- the head after a history of operations -/
def runOps (v : Variant) (t : Track) : Nat → List Op → Nat
  | h, [] => h
  | h, o :: os => runOps v t (readOnlyOp v t h o).2 os

end A2Verif.ImageState
