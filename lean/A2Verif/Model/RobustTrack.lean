import A2Verif.Model.RobustWoz
/-!
# C12: the track bit cursor (`disk525::TrackBits`, src/img/disk525.rs:118-230) and the gates that create it
(`Woz1::get_trk_ref`/`new_rw_obj` src/img/woz1.rs:284-328, `Woz2::get_trk_ref`/`get_trk_bits_rng`/`new_rw_obj`
src/img/woz2.rs:590-655, `Nib::new_rw_obj` src/img/nib.rs:60-90), and `Woz1::from_bytes` (woz1.rs:393-427)

The cursor is `(bit_count, bit_ptr)`.  Every access to the bit buffer goes through one pattern: index
`bits[bit_ptr/8]`, then `shift_fwd(1)` (`next`, `read`, `write`; `read_latch`, `find_byte_pattern`, `decode_addr`,
`find_sector`, `chss_map` are bounded loops of `next`).  `shift_fwd`/`shift_rev` wrap with
`while ptr >= bit_count { ptr -= bit_count }`, which does not terminate for `bit_count = 0`.  What a higher level does
with the cursor is therefore an arbitrary finite list of `Op`s; the model runs such a list against a buffer of
`bitsLen` bytes and answers `panic` (index out of range), `hang` (the wrap loop with a zero bit count) or the cursor.

The gates decide which `(bit_count, buffer)` pairs reach the cursor; they are modelled with the guard as a parameter
(`Woz1Guard`), selected for "the code as it is now" by `Gen.C12Flags` (translator/gen_c12.py).
-/
namespace A2Verif.Model.Robust

/-- outcome of running the cursor -/
inductive TOut (α : Type) where
  | ok (a : α)
  /-- the gate refused the track (`NibbleError::BadTrack`) -/
  | err
  /-- `bits[i]` out of range -/
  | panic
  /-- `while ptr >= bit_count` with `bit_count = 0` -/
  | hang
  deriving DecidableEq, Repr

structure Cursor where
  bitCount : Nat
  bitPtr : Nat
  deriving DecidableEq, Repr

/-- what the levels above do with a cursor -/
inductive Op where
  /-- `next` / one step of `read` / `write`: `bits[bit_ptr/8]`, then `shift_fwd(1)` -/
  | next
  /-- `shift_fwd(n)` -/
  | fwd (n : Nat)
  /-- `shift_rev(n)` -/
  | rev (n : Nat)
  deriving DecidableEq, Repr

/-- `shift_fwd(n)`: `ptr += n; while ptr >= bit_count { ptr -= bit_count }` -/
def shiftFwd (c : Cursor) (n : Nat) : TOut Cursor :=
  if c.bitCount = 0 then .hang else .ok { c with bitPtr := (c.bitPtr + n) % c.bitCount }

/-- `shift_rev(n)` (in `i64`): `ptr -= n; while ptr < 0 { ptr += bit_count }` -/
def shiftRev (c : Cursor) (n : Nat) : TOut Cursor :=
  if n ≤ c.bitPtr then .ok { c with bitPtr := c.bitPtr - n }
  else if c.bitCount = 0 then .hang
  else .ok { c with bitPtr := c.bitCount - 1 - (n - c.bitPtr - 1) % c.bitCount }

def step (bitsLen : Nat) (c : Cursor) : Op → TOut Cursor
  | .next => if c.bitPtr / 8 < bitsLen then shiftFwd c 1 else .panic
  | .fwd n => shiftFwd c n
  | .rev n => shiftRev c n

def run (bitsLen : Nat) : List Op → Cursor → TOut Cursor
  | [], c => .ok c
  | op :: ops, c =>
    match step bitsLen c op with
    | .ok c' => run bitsLen ops c'
    | .err => .err
    | .panic => .panic
    | .hang => .hang

/-- `TrackBits::create(.., bit_count, ..)` followed by `if head_coords.bit_ptr < bit_count { set_bit_ptr(..) }` -/
def newCursor (bitCount head : Nat) : Cursor := { bitCount := bitCount, bitPtr := if head < bitCount then head else 0 }

/-! ## WOZ1 -/

/-- the test in `Woz1::get_trk_ref` after `bit_count != [0,0]` -/
inductive Woz1Guard where
  /-- `bit_count <= trk.bits.len()*8` (HEAD) -/
  | buffer
  /-- `bit_count <= bytes_used*8` — the other field of the same untrusted entry (seeded change C12-8) -/
  | bytesUsed
  /-- no upper bound (as before repair #25) -/
  | none
  deriving DecidableEq, Repr

def woz1Accepts (g : Woz1Guard) (bytesUsed bitCount bufLen : Nat) : Bool :=
  bitCount ≠ 0 && (match g with
    | .buffer => decide (bitCount ≤ bufLen * 8)
    | .bytesUsed => decide (bitCount ≤ bytesUsed * 8)
    | .none => true)

/-- any use of a WOZ1 track: `get_trk_ref`, `new_rw_obj`, then the operations on `&trk.bits` (`bufLen` = 6646) -/
def woz1TrackAccess (g : Woz1Guard) (bytesUsed bitCount bufLen head : Nat) (ops : List Op) : TOut Cursor :=
  if woz1Accepts g bytesUsed bitCount bufLen then run bufLen ops (newCursor bitCount head) else .err

/-- `Woz1::get_trk_idx(track)`: `key_idx = track*4` into the 160-byte TMAP; `map[k]` out of range panics -/
def woz1TrkIdx (map : List Nat) (track : Nat) : Outcome Nat :=
  let k := track * 4
  match map[k]? with
  | none => .panic
  | some v =>
    if v ≠ 0xff then .ok v
    else
      match (if k ≠ 0 then map[k - 1]? else some 0xff) with
      | none => .panic
      | some w =>
        if w ≠ 0xff then .ok w
        else if k ≠ map.length then
          (match map[k + 1]? with
           | none => .panic
           | some x => if x ≠ 0xff then .ok x else .err)
        else .err

/-! ## WOZ2 -/

/-- `Woz2::get_trk_ref` + `get_trk_bits_rng`: the slice handed to the cursor, or `none` = `BadTrack`.
`rangeGuard = false` drops the two tests of repair #24 (as at the pinned snapshot: the slice itself can panic). -/
def woz2Range (rangeGuard : Bool) (startBlock blockCount bitCount offset bitsLen : Nat) : Outcome (Nat × Nat) :=
  if bitCount = 0 then .err
  else if startBlock * 512 < offset then (if rangeGuard then .err else .panic)
  else
    let b := startBlock * 512 - offset
    let e := b + blockCount * 512
    if rangeGuard then (if e > bitsLen ∨ bitCount > (e - b) * 8 then .err else .ok (b, e))
    else (if e > bitsLen then .panic else .ok (b, e))

def woz2TrackAccess (rangeGuard : Bool) (startBlock blockCount bitCount offset bitsLen head : Nat) (ops : List Op) : TOut Cursor :=
  match woz2Range rangeGuard startBlock blockCount bitCount offset bitsLen with
  | .err => .err
  | .panic => .panic
  | .ok (b, e) => run (e - b) ops (newCursor bitCount head)

/-! ## NIB: `bit_count = trk_cap*8` over a slice of `trk_cap` bytes -/

def nibTrackAccess (trkCap head : Nat) (ops : List Op) : TOut Cursor := run trkCap ops (newCursor (trkCap * 8) head)

/-! ## `Woz1::from_bytes`

Header test, the chunk loop of `get_next_chunk` (shared with WOZ2; INFO is 68 and TMAP 168 bytes with their chunk
header, the derived `update_from_bytes` answers `OutOfData` on less; `Trks::update_from_bytes` slices
`bytes[off..off+6656]` for `size/6656` entries, inside the chunk), the final test, then `get_track_solution(0)`,
whose `Err` is only logged.  `ops0` = what `chss_map` does with the cursor of track 0. -/

structure Woz1State where
  infoAt : Option Nat := none
  tmapAt : Option Nat := none
  /-- offset and length of the last TRKS chunk -/
  trksAt : Option (Nat × Nat) := none

def woz1Chunk (st : Woz1State) (c : Chunk) : Outcome Woz1State :=
  match c.body with
  | none => .ok st
  | some (off, len) =>
    if c.id = infoId then (if len < 68 then .err else .ok { st with infoAt := some off })
    else if c.id = tmapId then (if len < 168 then .err else .ok { st with tmapAt := some off })
    else if c.id = trksId then .ok { st with trksAt := some (off, len) }
    else .ok st

def woz1Loop (buf : List Nat) (ptr : Nat) (st : Woz1State) : Outcome Woz1State :=
  if hp : ptr = 0 then .ok st
  else
    let c := getNextChunk ptr buf
    match woz1Chunk st c with
    | .err => .err
    | .panic => .panic
    | .ok st' =>
      if hn : c.next = 0 then .ok st'
      else
        have : buf.length - c.next < buf.length - ptr := by
          have h := getNextChunk_next ptr buf
          have hc : c = getNextChunk ptr buf := rfl
          rw [← hc] at h
          omega
        woz1Loop buf c.next st'
termination_by buf.length - ptr

/-- size of a WOZ1 `Trk` -/
def woz1TrkLen : Nat := 6656
def woz1BufLen : Nat := 6646

/-- the track-0 step at the end of `from_bytes`: `err` of the gate is swallowed (`if let Ok(Some(_)) … else warn!`) -/
def woz1Solve0 (g : Woz1Guard) (buf : List Nat) (tmapOff trksOff trksLen head : Nat) (ops0 : List Op) : TOut Unit :=
  -- `tmap.map: [u8;160]` (the chunk was at least 168 bytes; the padding is never reached)
  let m0 := (buf.drop (tmapOff + 8)).take 160
  let map := m0 ++ List.replicate (160 - m0.length) 0
  match woz1TrkIdx map 0 with
  | .panic => .panic
  | .err => .ok ()
  | .ok idx =>
    -- `self.trks.tracks.get(idx)`: `size/6656` entries
    if idx < (trksLen - 8) / woz1TrkLen then
      let e := trksOff + 8 + woz1TrkLen * idx
      let bytesUsed := buf.getD (e + 6646) 0 + 256 * buf.getD (e + 6647) 0
      let bitCount := buf.getD (e + 6648) 0 + 256 * buf.getD (e + 6649) 0
      match woz1TrackAccess g bytesUsed bitCount woz1BufLen head ops0 with
      | .panic => .panic
      | .hang => .hang
      | _ => .ok ()
    else .ok ()

/-- `Woz1::from_bytes` -/
def woz1FromBytes (g : Woz1Guard) (buf : List Nat) (ops0 : List Op) : TOut Unit :=
  if h : buf.length < 12 then .err
  else if ¬ (buf[0]'(by omega) = 0x57 ∧ buf[1]'(by omega) = 0x4f ∧ buf[2]'(by omega) = 0x5a ∧ buf[3]'(by omega) = 0x31) then .err
  else
    match woz1Loop buf 12 {} with
    | .err => .err
    | .panic => .panic
    | .ok st =>
      match st.infoAt, st.tmapAt, st.trksAt with
      | some io, some to, some (ko, kl) =>
        -- `info.disk_type == 1` (byte 1 of the INFO body)
        if buf.getD (io + 9) 0 = 1 then woz1Solve0 g buf to ko kl 0 ops0 else .err
      | _, _, _ => .err

/-- the guard of the current source -/
def woz1GuardNow : Woz1Guard :=
  if Gen.C12Flags.woz1BitCountVsBuffer then .buffer else if Gen.C12Flags.woz1BitCountVsBytesUsed then .bytesUsed else .none

end A2Verif.Model.Robust
