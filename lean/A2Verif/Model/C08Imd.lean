import A2Verif.Model.C09Imd
import A2Verif.Model.C08Ring
/-!
IMD sector access for property C08 — `read_sector` / `write_sector` of src/img/imd.rs on tracks whose
sector records have any mix of type codes.

While an image is in memory every track is *expanded* (`Track::expand` at load time): the track buffer is
the concatenation of the sector records in rotation order, a record being the type byte followed by
* nothing                       — type 0 "data unavailable" (`get_sec_buf_size` = 1),
* `128 << sector_shift` bytes   — types 1 normal, 3 deleted data, 5 data error, 7 deleted + error;
the even types 2/4/6/8 (compressed: type byte + fill byte) only exist in the file; `expand` turns them into
type-1 records.  So records have DIFFERENT sizes and the offset of record `i` is the sum of the sizes before it;
the track caches it (`buf_offset`) next to the head position (`head_pos`), both carried between accesses.

| Rust (imd.rs)                                   | here                         |
|---|---|
| `Track::adv_sector` :249-258                    | `advSector`                  |
| the `for _i in 0..sector_map.len()` search loop of `read_sector` :592-607 and `write_sector` :618-635 | `seek` |
| `Imd::read_sector` :587-611 on the selected track | `readTrack`                |
| `Imd::write_sector` :612-638 on the selected track | `writeTrack`              |
| `Imd::get_track_mut` :381-389                   | `findTrack`                  |
| `Imd::read_sector`, `write_sector`, `to_bytes`, `from_bytes` on the object | `Obj.readSector`, `Obj.writeSector`, `Obj.save`, `load` |

Every index or slice that would be out of range in Rust and an unknown type byte in `get_sec_buf_size` is
`panic`; every `Err(..)` is `err` (kinds not distinguished).
-/
namespace A2Verif.Model.C08Imd
open A2Verif.Model.C09Imd A2Verif.Model.C08Ring A2Verif.Gen.C09Const

/-- a track in memory: the stored fields plus the two "extensions (not part of IMD file)" -/
structure TrackSt where
  trk : Track
  headPos : Nat
  bufOffset : Nat
deriving DecidableEq, Repr

/-- `Track::adv_sector`; `none` = panic (`track_buf[buf_offset]` out of range, or unknown type byte) -/
def advSector (t : TrackSt) : Option TrackSt :=
  if t.headPos + 1 ≥ t.trk.sectorMap.length then some { t with headPos := 0, bufOffset := 0 }
  else
    match t.trk.buf[t.bufOffset]? with
    | none => none
    | some code =>
      match secBufSize t.trk.shift code with
      | none => none
      | some sz => some { t with headPos := t.headPos + 1, bufOffset := t.bufOffset + sz }

inductive Seek
  | found (t : TrackSt)
  | notFound (t : TrackSt)
  | panic
deriving DecidableEq, Repr

/-- the search loop shared by `read_sector` and `write_sector`: advance, then compare the id -/
def seek (sec : Nat) : Nat → TrackSt → Seek
  | 0, t => .notFound t
  | k + 1, t =>
    match advSector t with
    | none => .panic
    | some t' =>
      match t'.trk.sectorMap[t'.headPos]? with
      | none => .panic
      | some curr => if sec = curr then .found t' else seek sec k t'

/-- the type bytes with a data area: `Normal | NormalDeleted | Error | ErrorDeleted` -/
def hasData (code : Nat) : Bool := code == 1 || code == 3 || code == 5 || code == 7

/-- `read_sector` after `get_track_mut` -/
def readTrack (t : TrackSt) (sec : Nat) : Res (List Nat) × TrackSt :=
  let psec := secSize t.trk.shift
  match seek sec t.trk.sectorMap.length t with
  | .panic => (.panic, t)
  | .notFound t' => (.err, t')
  | .found t' =>
    match t'.trk.buf[t'.bufOffset]? with
    | none => (.panic, t')
    | some code =>
      if hasData code then
        if t'.bufOffset + 1 + psec ≤ t'.trk.buf.length then
          (.ok ((t'.trk.buf.drop (t'.bufOffset + 1)).take psec), t')
        else (.panic, t')
      else (.err, t')

/-- `read_sector`'s counterpart: `track_buf[buf_idx+1..buf_idx+1+psec_size].copy_from_slice(&padded)` -/
def writeTrack (t : TrackSt) (sec : Nat) (dat : List Nat) : Res Unit × TrackSt :=
  let psec := secSize t.trk.shift
  let padded := quantize dat psec
  match seek sec t.trk.sectorMap.length t with
  | .panic => (.panic, t)
  | .notFound t' => (.err, t')
  | .found t' =>
    match t'.trk.buf[t'.bufOffset]? with
    | none => (.panic, t')
    | some code =>
      if hasData code then
        if t'.bufOffset + 1 + psec ≤ t'.trk.buf.length then
          let buf' := t'.trk.buf.take (t'.bufOffset + 1) ++ padded ++ t'.trk.buf.drop (t'.bufOffset + 1 + psec)
          let trk' : Track := { t'.trk with buf := buf' }
          (Res.ok (), { t' with trk := trk' })
        else (.panic, t')
      else (.err, t')

/-- the image object -/
structure Obj where
  header : List Nat
  comment : List Nat
  tracks : List TrackSt
deriving DecidableEq, Repr

/-- `get_track_mut`: index of the first track with this cylinder and (masked) head -/
def findTrack : List TrackSt → Nat → Nat → Option Nat
  | [], _, _ => none
  | t :: ts, cyl, head =>
    if t.trk.cylinder = cyl ∧ t.trk.head &&& IMD_HEAD_MASK = head then some 0
    else (findTrack ts cyl head).map (· + 1)

def Obj.readSector (o : Obj) (cyl head sec : Nat) : Res (List Nat) × Obj :=
  match findTrack o.tracks cyl head with
  | none => (.err, o)
  | some i =>
    match o.tracks[i]? with
    | none => (.panic, o)
    | some t => let (r, t') := readTrack t sec; (r, { o with tracks := o.tracks.set i t' })

def Obj.writeSector (o : Obj) (cyl head sec : Nat) (dat : List Nat) : Res Unit × Obj :=
  match findTrack o.tracks cyl head with
  | none => (.err, o)
  | some i =>
    match o.tracks[i]? with
    | none => (.panic, o)
    | some t => let (r, t') := writeTrack t sec dat; (r, { o with tracks := o.tracks.set i t' })

def Obj.image (o : Obj) : Image := { header := o.header, comment := o.comment, tracks := o.tracks.map (·.trk) }

/-- `Imd::to_bytes` (the object is not changed: `compress` works on a copy); `none` = panic -/
def Obj.save (o : Obj) : Option (List Nat) := toBytes o.image

/-- `Imd::from_bytes`: every track starts with `head_pos = 0`, `buf_offset = 0` -/
def load (bytes : List Nat) : Option (Option Obj) :=
  match fromBytes bytes with
  | none => none
  | some none => some none
  | some (some x) => some (some { header := x.header, comment := x.comment,
                                  tracks := x.tracks.map (fun t => { trk := t, headPos := 0, bufOffset := 0 }) })

/-- `Imd::from_bytes` of a foreign file (`valid` = the comment bytes are UTF-8) -/
def loadV (valid : Bool) (bytes : List Nat) : Option (Option Obj) :=
  match fromBytesV valid bytes with
  | none => none
  | some none => some none
  | some (some x) => some (some { header := x.header, comment := x.comment,
                                  tracks := x.tracks.map (fun t => { trk := t, headPos := 0, bufOffset := 0 }) })

end A2Verif.Model.C08Imd
