import A2Verif.Model.Packing
import A2Verif.Model.PackText
import A2Verif.Model.PackRec
/-!
# C13 model, part 4: file images *as the file systems return them*

The packers are normally exercised on the images they build themselves.  A `FileImage` that comes back
from `DiskFS::get` differs from the one that was `put`:

* every chunk is a whole block (`read_file` of all five file systems inserts full blocks; FAT re-sequences the
  cluster chain) — the last chunk carries whatever follows the data in its block (`Deco.pad`);
* DOS 3.x returns the directory type byte verbatim, i.e. with the LOCK bit `0x80` (`dos3x/mod.rs read_file`:
  `ans.fs_type = vec![ftype]`); CP/M returns the three extension bytes with their attribute bits
  (read-only / system / archived, `cpm/mod.rs read_file`: `fx.get_name_and_flags()[8..11]`);
* `access` is the directory's (ProDOS access byte with lock / backup bits, FAT attribute byte, CP/M name and
  flags), `version`, `min_version`, the time stamps and the path are the directory's;
* the eof is the directory's: preserved by ProDOS / Pascal / FAT, rounded up to 128-byte records by
  CP/M 2 (`Extent::get_eof`), absent in DOS 3.x.

Transcribed here: `Packer::verify`, `get_load_address` in full (DOS 3.x: type mask, Integer / Applesoft /
Binary arms), the auto-selecting `unpack` of the five packers, and `decorate` = what a file system may lay
over a packed image.

Rust ↔ Lean
* `fs/<fs>/pack.rs verify`                                   ↔ `verify`
* `dos3x/pack.rs:76-102 get_load_address`                    ↔ `dosLoadAddr`
* `prodos/pack.rs get_load_address`, the three constant ones ↔ `loadAddrV`
* `unpack_bin/tok/raw/txt` *with* their `verify`             ↔ `unpackBinV`, `unpackTokV`, `unpackRawV`, `unpackTxtV`
* `fs/mod.rs:133 null_fraction` (as integer arithmetic)      ↔ `fewNulls` (`< 0.01`), `noNulls` (`== 0.0`)
* `unpack` (auto-selection by type) of the five packers      ↔ `unpackAuto`
-/
namespace A2Verif.Packing

/-- `Packer::verify`: the file-system name is what `FileImage::packer()` dispatched on; DOS 3.x, ProDOS and
Pascal refuse an image with an empty type field -/
def verify (fs : Fs) (f : FImg) : Bool :=
  match fs with
  | .dos | .prodos | .pascal => !f.fsType.isEmpty
  | .cpm | .fat => true

def guardV {α : Type} (fs : Fs) (f : FImg) (r : Res α) : Res α := if verify fs f then r else .err

/-- `dos3x::Packer::get_load_address`: `FileType::from_u8(fs_type[0] & 0x7f)` -/
def dosLoadAddr (f : FImg) : Nat :=
  match f.fsType with
  | [] => 0
  | t :: _ =>
    if t % 128 = 1 then 0                                   -- Integer
    else if t % 128 = 2 then                                -- Applesoft: `deduce_address(&chunk[2..])`
      match getChunk f.chunks 0 with
      | some c => if c.length > 2 then deduceAddressTotal (c.drop 2) else 0
      | none => 0
    else if t % 128 = 4 then                                -- Binary: first two bytes
      match getChunk f.chunks 0 with
      | some c => if c.length > 2 then c.getD 0 0 + 256 * c.getD 1 0 else 0
      | none => 0
    else 0

/-- `FileImage::get_load_address` -/
def loadAddrV (fs : Fs) (f : FImg) : Nat :=
  match fs with
  | .dos => dosLoadAddr f
  | .prodos => prodosLoadAddr f
  | _ => 0

/-- which Pascal text decoder the code exhibits: `panicking` is `src[i]-32` as first read (a DLE followed by a
byte below 32 underflows: a panic in the checked profile); `saturating` is the repaired decoder
(`/verif/proposed_fixes/pascal-text-indent-underflow.diff`: such a count gives no blanks) -/
inductive PasIndent where
  | panicking | saturating
deriving DecidableEq, Repr

/-- the repaired Pascal `TextConverter::to_utf8` (total) -/
def pasToLoopSat : Bool → Bytes → Bytes
  | _, [] => []
  | true, b :: r => List.replicate (b - 32) 0x20 ++ pasToLoopSat false r
  | false, b :: r =>
    if b = 0x0d then 0x0a :: pasToLoopSat false r
    else if b = 0x10 then pasToLoopSat true r
    else if b < 127 ∧ b > 0 then b :: pasToLoopSat false r
    else pasToLoopSat false r

def pascalUnpackTxtP (pv : PasIndent) (f : FImg) : Res Bytes :=
  match pv with
  | .panicking => pascalUnpackTxt f
  | .saturating =>
    let dat := sequenceLimited f (getEof f)
    if dat.length < textPage + 1 then .err else .ok (pasToLoopSat false (dat.drop textPage))

def unpackTxtP (pv : PasIndent) (fs : Fs) (f : FImg) : Res Bytes :=
  match fs with
  | .pascal => pascalUnpackTxtP pv f
  | _ => unpackTxt fs f

def unpackBinV (fs : Fs) (f : FImg) : Res Bytes := guardV fs f (unpackBin fs f)
def unpackTokV (fs : Fs) (f : FImg) : Res Bytes :=
  match fs with
  | .dos | .prodos => guardV fs f (unpackTok fs f)
  | _ => .err
def unpackRawV (fs : Fs) (f : FImg) (trunc : Bool) : Res Bytes := guardV fs f (unpackRaw fs f trunc)
def unpackTxtV (pv : PasIndent) (fs : Fs) (f : FImg) : Res Bytes := guardV fs f (unpackTxtP pv fs f)

/-! ## `unpack` -/

inductive Unpacked where
  | binary (b : Bytes)
  | text (t : Bytes)
  | records (m : List (Nat × Bytes))
deriving DecidableEq, Repr

def nullCount (s : Bytes) : Nat := (s.filter (· = 0)).length

/-- `null_fraction(s) < 0.01`: `nulls as f64 / len as f64 < 0.01`.  `0/0` is NaN (comparison false); for
`100·nulls = len` the quotient rounds to the literal; below it the quotient is smaller unless `len > 10^13`. -/
def fewNulls (s : Bytes) : Bool := decide (100 * nullCount s < s.length)

/-- `null_fraction(s) == 0.0` (false for the empty string: NaN) -/
def noNulls (s : Bytes) : Bool := s.length != 0 && nullCount s == 0

def Res.map {α β : Type} (g : α → β) : Res α → Res β
  | .ok a => .ok (g a)
  | .err => .err
  | .panic => .panic

/-- the common shape "try text, fall back to bytes" -/
def textOrBytes (txt : Res Bytes) (good : Bytes → Bool) (fallback : Res Bytes) : Res Unpacked :=
  match txt with
  | .ok s => if good s then .ok (.text s) else fallback.map .binary
  | .err => .err
  | .panic => .panic

/-- `String::from_utf8` succeeds -/
def validUtf8 : Bytes → Bool
  | [] => true
  | a :: r =>
    if a < 0x80 then validUtf8 r
    else if 0xC2 ≤ a ∧ a ≤ 0xDF then
      match r with
      | b :: r' => 0x80 ≤ b && b ≤ 0xBF && validUtf8 r'
      | _ => false
    else if 0xE0 ≤ a ∧ a ≤ 0xEF then
      match r with
      | b :: c :: r' =>
        (if a = 0xE0 then 0xA0 ≤ b && b ≤ 0xBF else if a = 0xED then 0x80 ≤ b && b ≤ 0x9F else 0x80 ≤ b && b ≤ 0xBF)
          && 0x80 ≤ c && c ≤ 0xBF && validUtf8 r'
      | _ => false
    else if 0xF0 ≤ a ∧ a ≤ 0xF4 then
      match r with
      | b :: c :: d :: r' =>
        (if a = 0xF0 then 0x90 ≤ b && b ≤ 0xBF else if a = 0xF4 then 0x80 ≤ b && b ≤ 0x8F else 0x80 ≤ b && b ≤ 0xBF)
          && 0x80 ≤ c && c ≤ 0xBF && 0x80 ≤ d && d ≤ 0xBF && validUtf8 r'
      | _ => false
    else false

/-- "TXT", "ASM", "SUB" (CP/M) -/
def cpmTextExts : List Bytes := [[84, 88, 84], [65, 83, 77], [83, 85, 66]]
/-- "TXT", "ASM", "BAT" (FAT) -/
def fatTextExts : List Bytes := [[84, 88, 84], [65, 83, 77], [66, 65, 84]]

/-- `FileImage::unpack`: automatically select an unpacking strategy from the metadata.  `gv` is the
`Records::from_fimg` variant (only reached for a ProDOS text file with a non-zero aux type). -/
def unpackAuto (gv : RecGather) (pv : PasIndent) (fs : Fs) (f : FImg) : Res Unpacked :=
  if !verify fs f then .err else
  match fs with
  | .dos =>
    let t := f.fsType.headD 0 % 128
    if t = 0 then textOrBytes (dosUnpackTxt f) fewNulls (.ok (beforeFirst 0 (sequence f)))
    else if t = 4 then (dosUnpackBin f).map .binary
    else if t = 2 ∨ t = 1 then (dosUnpackTok f).map .binary
    else .err
  | .prodos =>
    let t := f.fsType.headD 0
    if t = 4 then
      (if getAux f = 0 then textOrBytes (prodosUnpackTxt f) fewNulls (unpackRawEof f true)
       else (unpackRec gv .prodos f none).map .records)
    else if t = 6 ∨ t = 0xff then (unpackBin .prodos f).map .binary
    else if t = 0xfc ∨ t = 0xfa then (unpackTok .prodos f).map .binary
    else .err
  | .pascal =>
    if f.fsType.headD 0 = 3 then textOrBytes (pascalUnpackTxtP pv f) fewNulls (unpackRawEof f true)
    else (unpackBin .pascal f).map .binary
  | .cpm =>
    if cpmTextExts.contains (f.fsType.map (· % 128)) then
      textOrBytes (cpmUnpackTxt f) fewNulls (unpackRawEof f true)
    else textOrBytes (cpmUnpackTxt f) noNulls (unpackBin .cpm f)
  | .fat =>
    if !validUtf8 f.fsType then .err                      -- `String::from_utf8(fimg.fs_type.clone())?`
    else if fatTextExts.contains f.fsType then
      textOrBytes (cpmUnpackTxt f) fewNulls (unpackRawEof f true)
    else textOrBytes (cpmUnpackTxt f) noNulls (unpackBin .fat f)

/-! ## what a file system lays over a packed image -/

/-- everything a file system may change between `put` and `get` -/
structure Deco where
  /-- OR-ed bytewise onto `fs_type` (DOS 3.x: lock bit; CP/M: attribute bits of the extension) -/
  typeBits : Bytes
  /-- FAT and CP/M have no type beyond the extension of the directory name: `get` returns that extension
  (space padded), whatever `fs_type` the image had when it was put -/
  typeSet : Option Bytes
  /-- what follows the data in the last block -/
  pad : Bytes
  /-- the eof is rounded up to a multiple of this (CP/M 2: 128; otherwise 1) -/
  eofRound : Nat
  access : Bytes
  version : Bytes
  minVersion : Bytes
  created : Bytes
  modified : Bytes
  accessed : Bytes
  fullPath : List Nat
deriving DecidableEq, Repr

def orBits : Bytes → Bytes → Bytes
  | [], _ => []
  | t :: ts, [] => t :: ts
  | t :: ts, b :: bs => (t ||| b) :: orBits ts bs

/-- the last chunk is filled up to a whole block -/
def padLast (n : Nat) (pad : Bytes) : List (Nat × Bytes) → List (Nat × Bytes)
  | [] => []
  | [(k, c)] => [(k, c ++ pad.take (n - c.length))]
  | p :: q :: r => p :: padLast n pad (q :: r)

def roundUp (v r : Nat) : Nat := (v + r - 1) / r * r

/-- which bits each file system can set on top of the type: the DOS 3.x lock bit, the CP/M attribute bits;
the other three keep the type as it was put.  Only CP/M re-derives the eof from record counts. -/
def Deco.ok (fs : Fs) (dc : Deco) : Prop :=
  (match fs with
   | .dos | .cpm => ∀ b ∈ dc.typeBits, b = 0 ∨ b = 128
   | _ => ∀ b ∈ dc.typeBits, b = 0) ∧
  (match fs with
   | .cpm => dc.eofRound = 1 ∨ dc.eofRound = 128
   | _ => dc.eofRound = 1) ∧
  (match fs with
   | .cpm | .fat => True
   | _ => dc.typeSet = none)

instance (fs : Fs) (dc : Deco) : Decidable (Deco.ok fs dc) := by
  unfold Deco.ok; cases fs <;> infer_instance

/-- the image `get` returns for a packed image `g` that was `put` -/
def decorate (fs : Fs) (dc : Deco) (g : FImg) : FImg :=
  { g with
    chunks := padLast g.chunkLen dc.pad g.chunks
    fsType := orBits (dc.typeSet.getD g.fsType) dc.typeBits
    eof := (match fs with
      | .cpm => leBytes g.eof.length (roundUp (getEof g) dc.eofRound)
      | _ => g.eof)
    access := dc.access
    version := dc.version
    minVersion := dc.minVersion
    created := dc.created
    modified := dc.modified
    accessed := dc.accessed
    fullPath := dc.fullPath }

end A2Verif.Packing
