import A2Verif.Model.Raw
import A2Verif.Model.Read.Cpm
/-!
# Concrete model of a2kit's CP/M 2.2 / 3 file system (`/repo/src/fs/cpm/{mod,directory,pack,types}.rs`, `/repo/src/bios/dpb.rs`)

A transcription of the Rust **as written** into total functions on `Raw`.  A unit of the `Raw` is one CP/M
allocation block as `DiskFS::read_block` returns it (`img.read_block(Block::CPM((i,bsh,off)))`, block 0 = first
directory block), so the model does not depend on the container (`DO`, `IMD`, `TD0`, …): every container's
`write_block` pads the data with zeros to the block size (`img::quantize_block`) and stores it, `read_block`
returns the stored block.  Unlike `Model/Read/Cpm.lean` (an independent *reader* written from the disk format)
this file follows a2kit's own code paths: the same case splits in the same order, the same loops (as structural
recursions), first-fit search for a free block and a free directory entry, the same refusals.  Allocation is
deterministic, so the model is byte-exact: the harness compares the model's image with the real image block for
block after every operation (`Drv/FsCpm.lean`, `harness/src/fam/fs_cpm.rs`).

The disk parameter block is not on the disk: it is a parameter (`Read.Cpm.Dpb`, the same structure the
independent reader takes: `bsh exm dsm drm al0 al1` and `v3` = `cpm_vers[0] ≥ 3`).

Conventions
* bytes are `Nat < 256` (protocol invariant); `u8`/`u16` arithmetic that would overflow/underflow (the harness
  builds with overflow checks: panic), index errors, `unwrap`/`expect` on `None` answer `Err.panic`.
* `Extent`, `Label`, `Password`, `Timestamp` derive `DiskStruct`: `from_bytes`/`to_bytes` copy the 32 bytes field
  by field in declaration order, so an entry is modelled as its 32 bytes; field accessors read at the field
  offsets, field assignments `splice` the new bytes in.  `Directory` is the list of its `drm+1` entries.
* an operation returns `(result, image afterwards)`; every refusal that a2kit decides before writing returns
  the image unchanged *syntactically*; a failure in the middle of `write_file` returns the partially written
  image (data blocks written, directory not saved).
* names, passwords are ASCII byte strings (the harness generates nothing else; `to_uppercase`, `trim_end`,
  `is_ascii…` are modelled on ASCII).
* clock: `pack_date(None)` (the harness pins the clock) and `pack_date(time)` are parameters (4 bytes).
* the second pass of `build_files` (password data into `FileInfo`) has no effect on any operation modelled here
  and cannot fail; it is omitted.  `FileInfo` keeps the fields the operations use.
* `BTreeMap<String,FileInfo>` is kept in first-appearance order (lookups are by key; keys are distinct) and
  sorted by key where the Rust iterates over it (`catalog_to_vec`); `BTreeMap<Ptr,Ptr>` (`FileInfo::entries`) is
  an association list kept sorted by data pointer, an insertion replaces an equal key.
* `get_directory` checks `dpb.disk_capacity() == img.byte_capacity()` first: a property of the container,
  assumed (the harness formats the volume with the DPB of the disk kind).

Rust ↔ Lean: `dpb.rs::{block_size, ptr_size, extent_capacity, user_blocks, dir_entries, dir_blocks, reserved_blocks,
is_reserved}` ↔ `blockSize … isReserved`; `get_directory` ↔ `getDirectory`; `save_directory` ↔ `saveDirectory`;
`is_block_free` ↔ `isBlockFree`; `num_free_blocks` ↔ `numFreeBlocks`; `is_extent_free`/`num_free_extents` ↔
`isExtentFree`/`numFreeExtents`; `get_available_block` ↔ `getAvailableBlock`; `get_available_extent` ↔
`getAvailableExtent`; `open_extent`/`close_extent` ↔ `openExtent`/`closeExtent`; `write_file`+`put` ↔ `put`
(`slotLoop`, `extLoop`); `read_file` ↔ `get` (`readLoop`); `modify` ↔ `modify` (`rename`, `lock`, `unlock`, `retype`);
`delete` ↔ `delete`; `protect`/`unprotect` ↔ `protect`/`unprotect`; `format` ↔ `format` (`addTimestamps`);
`stat().free_blocks` ↔ `statFree`; `catalog_to_vec` ↔ `catalog`; `directory.rs::{get_type, get_entry, find_label,
build_files, get_file, Extent::*, Label::*, Timestamp::{get, maybe_set, maybe_set_create}, Password::create}` ↔
`getType`, `isExtent`…, `findLabel`, `buildFiles`, `getFile`, `Ext.*`, `Lab.*`, `tsGet`, `tsMaybeSet`, `tsMaybeSetCreate`,
`passwordCreate`; `pack.rs::{split_user_filename, is_name_valid, is_xname_valid, file_name_to_string,
file_name_to_split_string, string_to_file_name, is_password_valid, string_to_password}` ↔ the same names in camel case.
-/
namespace A2Verif.Fs.Cpm
open A2Verif.Read.Cpm (Dpb)

/-- `types.rs::Error` (the variants that occur) + image access error + panic -/
inductive Err where
  | badFormat | fileReadOnly | select | directoryFull | diskFull | readError | fileExists | fileNotFound
  /-- `img::Error`: block outside the image -/
  | imgErr
  /-- the Rust panics (index out of range, arithmetic overflow, `unwrap`/`expect`, explicit `panic!`) -/
  | panic
  deriving DecidableEq, Repr, Inhabited

def Err.token : Err → String
  | .badFormat => "badformat" | .fileReadOnly => "readonly" | .select => "select" | .directoryFull => "dirfull"
  | .diskFull => "diskfull" | .readError => "readerror" | .fileExists => "exists" | .fileNotFound => "notfound"
  | .imgErr => "imgerr" | .panic => "panic"

abbrev R := Except Err

/-- `types.rs` constants -/
abbrev DELETED : Nat := 0xe5
abbrev LABEL : Nat := 0x20
abbrev TIMESTAMP : Nat := 0x21
abbrev USER_END : Nat := 0x10
abbrev recordSize : Nat := 128
abbrev dirEntrySize : Nat := 32
abbrev logicalExtentSize : Nat := 16384
/-- `INVALID_CHARS = " <>.,;:=?*[]"` -/
def invalidChars : List Nat := [32, 60, 62, 46, 44, 59, 58, 61, 63, 42, 91, 93]

/-! ## bytes -/

def u16le (v : Nat) : Bytes := [v % 256, v / 256 % 256]

/-- overwrite `new.length` bytes of `e` at `off` (a field assignment of a `DiskStruct`) -/
def splice (e : Bytes) (off : Nat) (new : Bytes) : Bytes := e.take off ++ new ++ e.drop (off + new.length)

/-- bit `k` of `x` -/
def bit (x k : Nat) : Bool := x / 2 ^ k % 2 == 1
/-- `x | (1<<k)` -/
def setBit (x k : Nat) : Nat := if bit x k then x else x + 2 ^ k
/-- `x & !(1<<k)` -/
def clearBit (x k : Nat) : Nat := if bit x k then x - 2 ^ k else x
/-- `x & 0x80` on a byte -/
def hi (x : Nat) : Nat := x / 128 % 2 * 128
/-- `x & 0x7f` -/
def lo (x : Nat) : Nat := x % 128

/-! ## disk parameter block (`bios/dpb.rs`) -/

def blockSize (d : Dpb) : Nat := 128 * 2 ^ d.bsh
def ptrSize (d : Dpb) : Nat := if d.dsm < 256 then 1 else 2
def extentCapacity (d : Dpb) : Nat := (d.exm + 1) * logicalExtentSize
def userBlocks (d : Dpb) : Nat := d.dsm + 1
def dirEntries (d : Dpb) : Nat := d.drm + 1
def dirBlocks (d : Dpb) : Nat :=
  let full := dirEntries d * dirEntrySize / blockSize d
  if dirEntries d * dirEntrySize % blockSize d = 0 then full else 1 + full
def mask16 (d : Dpb) : Nat := d.al0 * 256 + d.al1

/-- the loop of `reserved_blocks`: `if mask16 & 0x8000 > 0 { ans += 1; mask16 <<= 1 }`, 16 times (the mask is
shifted only when its top bit is set: the count of leading ones) -/
def reservedLoop : Nat → Nat → Nat → Nat
  | 0, _, ans => ans
  | n + 1, m, ans => if m / 32768 % 2 = 1 then reservedLoop n (m * 2 % 65536) (ans + 1) else reservedLoop n m ans

def reservedBlocks (d : Dpb) : Nat := reservedLoop 16 (mask16 d) 0

/-- `is_reserved(block)` -/
def isReserved (d : Dpb) (block : Nat) : Bool :=
  if block > 15 then false else (mask16 d * 2 ^ block) % 65536 / 32768 % 2 == 1

/-! ## names and passwords (`pack.rs`) -/

def isAsciiControl (c : Nat) : Bool := c < 32 || c == 127
def upperByte (c : Nat) : Nat := if 97 ≤ c ∧ c ≤ 122 then c - 32 else c
/-- `str::to_uppercase` on ASCII -/
def upper (s : Bytes) : Bytes := s.map upperByte
def isAsciiSpace (c : Nat) : Bool := c == 32 || (9 ≤ c && c ≤ 13)
/-- `str::trim_end` on ASCII -/
def trimEnd (s : Bytes) : Bytes := (s.reverse.dropWhile isAsciiSpace).reverse

/-- `str::split(c)`: at least one part -/
def splitOn (c : Nat) : Bytes → List Bytes
  | [] => [[]]
  | x :: xs =>
    if x = c then [] :: splitOn c xs
    else match splitOn c xs with
      | [] => [[x]]
      | p :: ps => (x :: p) :: ps

def isDigit (c : Nat) : Bool := 48 ≤ c && c ≤ 57

/-- `u8::from_str`: optional `+`, at least one digit, value ≤ 255 -/
def parseU8 (s : Bytes) : Option Nat :=
  let t := match s with
    | 43 :: rest => rest
    | _ => s
  if t.isEmpty || !t.all isDigit then none
  else
    let v := t.foldl (fun acc c => acc * 10 + (c - 48)) 0
    if v ≤ 255 then some v else none

/-- decimal digits of a `u8` (`u8::to_string`) -/
def decDigits (u : Nat) : Bytes :=
  if u < 10 then [48 + u] else if u < 100 then [48 + u / 10, 48 + u % 10] else [48 + u / 100, 48 + u / 10 % 10, 48 + u % 10]

/-- `split_user_filename`: `2:USER2.TXT` ↦ `(2, USER2.TXT)`; no colon: user 0.  Only the canonical decimal
spelling of the user number is accepted (`parts[0]==user.to_string()`), and exactly one colon (`parts.len()==2`). -/
def splitUserFilename (xname : Bytes) : R (Nat × Bytes) :=
  match splitOn 58 xname with
  | [_] => .ok (0, xname)
  | p0 :: p1 :: rest =>
    match parseU8 p0 with
    | some user => if user < USER_END && rest.isEmpty && p0 == decDigits user then .ok (user, p1) else .error .badFormat
    | none => .error .badFormat
  | [] => .ok (0, xname)

def charOk (c : Nat) : Bool := c < 128 && !invalidChars.contains c && !isAsciiControl c

/-- `is_name_valid` -/
def isNameValid (name : Bytes) : Bool :=
  let it := splitOn 46 name
  if it.length > 2 then false else
  let base := it.headD []
  let ext := (it.drop 1).headD []
  (base ++ ext).all charOk && decide (base.length ≤ 8) && decide (ext.length ≤ 3)

/-- `is_xname_valid` -/
def isXnameValid (xname : Bytes) : Bool :=
  match splitUserFilename xname with
  | .ok (user, name) => isNameValid name && decide (user < 16)
  | .error _ => false

def padTo (n : Nat) (s : Bytes) : Bytes := s.take n ++ List.replicate (n - s.length) 32

/-- `string_to_file_name`: upper case, base = part before the first `.`, type = second part; blank padded,
truncated to 8 and 3 -/
def stringToFileName (s : Bytes) : Bytes × Bytes :=
  let it := splitOn 46 (upper s)
  (padTo 8 (it.headD []), padTo 3 ((it.drop 1).headD []))

/-- `file_name_to_split_string(name, typ)`: 7-bit, `trim_end` -/
def fileNameToSplitString (name typ : Bytes) : Bytes × Bytes := (trimEnd (name.map lo), trimEnd (typ.map lo))

/-- `file_name_to_string(name, typ)` -/
def fileNameToString (name typ : Bytes) : Bytes := trimEnd (name.map lo) ++ [46] ++ trimEnd (typ.map lo)

/-- `is_password_valid` -/
def isPasswordValid (s : Bytes) : Bool := s.all charOk && decide (s.length ≤ 8)

/-- `string_to_password`: `(decoder, encrypted)`; decoder = byte sum of the blank padded upper-case password,
encrypted = `decoder ^ byte` in reverse order -/
def stringToPassword (s : Bytes) : Nat × Bytes :=
  let dec := padTo 8 (upper s)
  let decoder := dec.foldl (fun acc b => (acc + b) % 256) 0
  (decoder, (dec.map (fun b => Nat.xor decoder b)).reverse)

/-! ## directory entries: 32 bytes, fields at fixed offsets (`directory.rs`) -/

inductive ExtentType where
  | file | label | password | timestamp | deleted | unknown
  deriving DecidableEq, Repr

/-- `Directory::get_type` on the status byte -/
def typeOfStatus (x : Nat) : ExtentType :=
  if x < USER_END then .file
  else if x < USER_END * 2 then .password
  else if x = LABEL then .label
  else if x = TIMESTAMP then .timestamp
  else if x = DELETED then .deleted
  else .unknown

def status (e : Bytes) : Nat := e.getD 0 0
def getType (e : Bytes) : ExtentType := typeOfStatus (status e)

/-- `get_entry::<Extent>`: status in `[0, USER_END)` -/
def isExtent (e : Bytes) : Bool := status e < USER_END
/-- `get_entry::<Label>`: status in `[0x20, 0x21)` -/
def isLabel (e : Bytes) : Bool := status e == LABEL
/-- `get_entry::<Password>`: status in `[USER_END, 2*USER_END-1)` (31 = password of user 15 is *not* accepted) -/
def isPassword (e : Bytes) : Bool := USER_END ≤ status e && status e < 2 * USER_END - 1
/-- `get_entry::<Timestamp>`: status in `[0x21, 0x22)` -/
def isTimestamp (e : Bytes) : Bool := status e == TIMESTAMP

namespace Ext
def user (e : Bytes) : Nat := e.getD 0 0
def name (e : Bytes) : Bytes := slice e 1 8
def typ (e : Bytes) : Bytes := slice e 9 3
def idxLow (e : Bytes) : Nat := e.getD 12 0
def lastBytes (e : Bytes) : Nat := e.getD 13 0
def idxHigh (e : Bytes) : Nat := e.getD 14 0
def lastRecords (e : Bytes) : Nat := e.getD 15 0
def blockListBytes (e : Bytes) : Bytes := slice e 16 16

/-- `Extent::new()`: all zero -/
def new : Bytes := List.replicate 32 0

/-- `set_name`: change the low 7 bits, keep the flags -/
def setName (e : Bytes) (nm ty : Bytes) : Bytes :=
  let n' := (List.range 8).map (fun i => lo (nm.getD i 0) + hi ((name e).getD i 0))
  let t' := (List.range 3).map (fun i => lo (ty.getD i 0) + hi ((typ e).getD i 0))
  splice (splice e 1 n') 9 t'

/-- `set_flags`: change the high bit, keep the name -/
def setFlags (e : Bytes) (f1 f2 : Bytes) : Bytes :=
  let n' := (List.range 8).map (fun i => hi (f1.getD i 0) + lo ((name e).getD i 0))
  let t' := (List.range 3).map (fun i => hi (f2.getD i 0) + lo ((typ e).getD i 0))
  splice (splice e 1 n') 9 t'

/-- `get_name_and_flags`: the 11 bytes -/
def nameAndFlags (e : Bytes) : Bytes := name e ++ typ e
/-- `get_flags` -/
def flags (e : Bytes) : Bytes := (nameAndFlags e).map hi
def getString (e : Bytes) : Bytes := fileNameToString (name e) (typ e)

/-- `get_data_ptr`: `idx_low as u16 + ((idx_high as u16) << 5)` (no overflow for bytes) -/
def dataPtr (e : Bytes) : Nat := idxLow e + idxHigh e * 32

/-- `set_data_ptr(ExtentData(i))` -/
def setDataPtr (e : Bytes) (i : Nat) : Bytes := splice (splice e 12 [i % 32]) 14 [i / 32 % 64]

/-- `get_eof` -/
def getEof (e : Bytes) : Nat :=
  let lx := dataPtr e
  let rc := lastRecords e
  if rc = 0 then lx * logicalExtentSize else
  let recIdx := if rc < 128 then rc - 1 else 127
  let bytes := if lastBytes e = 0 then recordSize else lastBytes e
  lx * logicalExtentSize + recIdx * recordSize + bytes

/-- `set_eof(x_bytes, vers)` -/
def setEof (e : Bytes) (xBytes : Nat) (v3 : Bool) : Bytes :=
  let lastB := xBytes % recordSize
  let total := xBytes / recordSize + (if lastB > 0 then 1 else 0)
  let recsPerLx := logicalExtentSize / recordSize
  let lr0 := total % recsPerLx
  let lr := if lr0 = 0 ∧ total > 0 then recsPerLx else lr0
  splice (splice e 13 [if v3 then lastB else 0]) 15 [lr % 256]

/-- `get_block_list(dpb)` -/
def blockList (d : Dpb) (e : Bytes) : List Nat :=
  if ptrSize d = 1 then blockListBytes e
  else (List.range 8).map (fun i => le16 e (16 + 2 * i))

/-- `set_block_ptr(slot, lx, iblock, dpb)`; an index beyond the 16 bytes panics -/
def setBlockPtr (d : Dpb) (e : Bytes) (slot lx iblock : Nat) : R Bytes :=
  let lxPerX := d.exm + 1
  if ptrSize d = 1 then
    let k := lx * 16 / lxPerX + slot
    if k < 16 then .ok (splice e (16 + k) [iblock % 256]) else .error .panic
  else
    let k := 2 * (lx * 8 / lxPerX + slot)
    if k + 1 < 16 then .ok (splice e (16 + k) (u16le iblock)) else .error .panic
end Ext

namespace Lab
def name (e : Bytes) : Bytes := slice e 1 8
def typ (e : Bytes) : Bytes := slice e 9 3
def mode (e : Bytes) : Nat := e.getD 12 0
def createTime (e : Bytes) : Bytes := slice e 24 4
def updateTime (e : Bytes) : Bytes := slice e 28 4
/-- `Label::create()`: status 0x20, mode `LABEL_EXISTS`, name `LABEL`, blank type -/
def create : Bytes := [LABEL] ++ [76, 65, 66, 69, 76, 32, 32, 32] ++ [32, 32, 32] ++ [1] ++ List.replicate 19 0
def set (e : Bytes) (nm ty : Bytes) : Bytes := splice (splice e 1 (nm.take 8)) 9 (ty.take 3)
def setMode (e : Bytes) (m : Nat) : Bytes := splice e 12 [m]
/-- mode bits: 0x80 protect, 0x40 access, 0x20 update, 0x10 create -/
def isProtected (e : Bytes) : Bool := bit (mode e) 7
def isTimestampedAccess (e : Bytes) : Bool := bit (mode e) 6
def isTimestampedUpdate (e : Bytes) : Bool := bit (mode e) 5
def isTimestampedCreation (e : Bytes) : Bool := bit (mode e) 4
def isTimestamped (e : Bytes) : Bool := isTimestampedAccess e || isTimestampedCreation e || isTimestampedUpdate e
/-- `protect(true)` -/
def protect (e : Bytes) : Bytes := setMode e (setBit (mode e) 7)
/-- `timestamp_creation(true)`: set CREATE, clear ACCESS -/
def timestampCreation (e : Bytes) : Bytes := setMode e (clearBit (setBit (mode e) 4) 6)
/-- `timestamp_update(true)` -/
def timestampUpdate (e : Bytes) : Bytes := setMode e (setBit (mode e) 5)
end Lab

/-- `Timestamp::create()` -/
def tsCreate : Bytes := [TIMESTAMP] ++ List.replicate 31 0
/-- offsets of `create_accessN` / `updateN` (N = 1, 2, 3) in a time-stamp entry -/
def tsCreateOff (sub : Nat) : Nat := 1 + 10 * (sub - 1)
def tsUpdateOff (sub : Nat) : Nat := 5 + 10 * (sub - 1)

/-- `Password::create(password, user, name_string, read, write, delete)` -/
def passwordCreate (password : Bytes) (user : Nat) (nameString : Bytes) (rd wr del : Bool) : Bytes :=
  let (nm, ty) := stringToFileName nameString
  let (decoder, enc) := stringToPassword password
  [user + 16] ++ nm ++ ty ++ [(if rd then 128 else 0) + (if wr then 64 else 0) + (if del then 32 else 0)] ++ [decoder] ++ [0, 0] ++ enc
    ++ List.replicate 8 0

abbrev Dir := List Bytes

/-- `Directory::find_label` -/
def findLabel (dir : Dir) : Option Bytes := dir.find? isLabel

/-! ## image access -/

/-- `img.read_block(Block::CPM(..))` -/
def readBlock (r : Raw) (i : Nat) : R Bytes :=
  match r.units[i]? with
  | some b => .ok b
  | none => .error .imgErr

/-- `img::quantize_block(dat, block_size)` -/
def quantize (bs : Nat) (dat : Bytes) : Bytes := dat.take bs ++ List.replicate (bs - dat.length) 0

/-- `img.write_block(Block::CPM(..), dat)` -/
def imgWrite (d : Dpb) (r : Raw) (i : Nat) (dat : Bytes) : R Raw :=
  if i < r.units.size then .ok { r with units := r.units.setIfInBounds i (quantize (blockSize d) dat) } else .error .imgErr

/-- `Disk::write_block(data, iblock, offset)` = `zap_block`: `data[offset..offset+min(len-offset, block_size)]` -/
def writeBlock (d : Dpb) (r : Raw) (data : Bytes) (iblock offset : Nat) : R Raw :=
  if data.length < offset then .error .panic
  else imgWrite d r iblock ((data.drop offset).take (blockSize d))

/-! ## `get_directory`, `save_directory` -/

def readBlocks (r : Raw) : List Nat → R (List Bytes)
  | [] => .ok []
  | i :: is =>
    match readBlock r i with
    | .error e => .error e
    | .ok b =>
      match readBlocks r is with
      | .error e => .error e
      | .ok bs => .ok (b :: bs)

/-- `Disk::get_directory`: `None` of the inner function is `expect("directory broken")` = panic -/
def getDirectory (d : Dpb) (r : Raw) : R Dir :=
  match readBlocks r (List.range (dirBlocks d)) with
  | .error _ => .error .panic
  | .ok blocks =>
    let buf := blocks.flatten
    let bufSize := dirEntries d * dirEntrySize
    if buf.length < bufSize then .error .panic
    else .ok ((List.range (dirEntries d)).map (fun k => slice buf (dirEntrySize * k) dirEntrySize))

/-- the loop of `save_directory`: block `k` receives `buf[bs·k .. bs·k + min(len − bs·k, bs)]` -/
def saveLoop (d : Dpb) (buf : Bytes) : Raw → List Nat → R Unit × Raw
  | r, [] => (.ok (), r)
  | r, k :: ks =>
    match writeBlock d r buf k (k * blockSize d) with
    | .error e => (.error e, r)
    | .ok r' => saveLoop d buf r' ks

def saveDirectory (d : Dpb) (r : Raw) (dir : Dir) : R Unit × Raw :=
  saveLoop d dir.flatten r (List.range (dirBlocks d))

/-! ## free space -/

/-- every block pointer of every file extent, in directory order -/
def usedPtrs (d : Dpb) (dir : Dir) : List Nat := dir.flatMap (fun e => if isExtent e then Ext.blockList d e else [])

/-- `is_block_free(iblock, directory)` -/
def isBlockFree (d : Dpb) (iblock : Nat) (dir : Dir) : Bool :=
  if isReserved d iblock || decide (iblock ≥ userBlocks d) then false
  else !(usedPtrs d dir).contains iblock

/-- `num_free_blocks`: `user_blocks as u16 − used as u16` (underflow panics); `fx.user < USER_END` holds for every `Extent` -/
def numFreeBlocks (d : Dpb) (dir : Dir) : R Nat :=
  let used := reservedBlocks d + ((usedPtrs d dir).filter (· > 0)).length
  if used % 65536 > userBlocks d % 65536 then .error .panic else .ok (userBlocks d % 65536 - used % 65536)

/-- `is_extent_free` -/
def isExtentFree (e : Bytes) : Bool :=
  match getType e with
  | .deleted | .unknown => true
  | _ => false

def numFreeExtents (dir : Dir) : Nat := (dir.filter isExtentFree).length

/-- `get_available_block`: first fit -/
def getAvailableBlock (d : Dpb) (dir : Dir) : Option Nat :=
  let used := usedPtrs d dir
  (List.range (userBlocks d)).find? (fun b => !isReserved d b && !used.contains b)

/-- `get_available_extent`: first entry of `0..dir_entries` that is deleted or unknown (`dir[i]` beyond the
directory would panic: `none` here as well, the caller unwraps) -/
def getAvailableExtent (d : Dpb) (dir : Dir) : Option Nat :=
  (List.range (dirEntries d)).find? (fun i => match dir[i]? with
    | some e => isExtentFree e
    | none => false)

/-! ## `build_files`, `get_file` -/

structure FileInfo where
  /-- the map key `user:NAME.TYP` -/
  key : Bytes
  user : Nat
  name : Bytes
  typ : Bytes
  updateTime : Option Bytes := none
  createTime : Option Bytes := none
  accessTime : Option Bytes := none
  blocksAllocated : Nat := 0
  /-- data pointer ↦ entry index, ascending data pointers -/
  entries : List (Nat × Nat) := []
  deriving Repr, Inhabited

/-- `BTreeMap::insert` on the sorted association list -/
def insertEntry (k v : Nat) : List (Nat × Nat) → List (Nat × Nat)
  | [] => [(k, v)]
  | (k', v') :: rest =>
    if k < k' then (k, v) :: (k', v') :: rest
    else if k = k' then (k, v) :: rest
    else (k', v') :: insertEntry k v rest

/-- `Timestamp::get(dir, lab, lx0, info)` -/
def tsGet (dir : Dir) (lab : Bytes) (lx0 : Nat) (info : FileInfo) : R FileInfo :=
  if !Lab.isTimestamped lab then .ok info else
  let expectedIdx := 4 * (1 + lx0 / 4) - 1
  let subIdx := lx0 % 4 + 1
  match dir[expectedIdx]? with
  | none => .error .panic
  | some ts =>
    if !isTimestamp ts then .error .badFormat else
    if subIdx > 3 then .error .badFormat else
    let update := slice ts (tsUpdateOff subIdx) 4
    let createAccess := slice ts (tsCreateOff subIdx) 4
    .ok { info with
      updateTime := if Lab.isTimestampedUpdate lab then some update else none
      createTime := if Lab.isTimestampedCreation lab then some createAccess else none
      accessTime := if Lab.isTimestampedAccess lab then some createAccess else none }

/-- update the record with key `k`, or append a new one (first-appearance order) -/
def upsert (k : Bytes) (mk : Unit → FileInfo) (f : FileInfo → R FileInfo) : List FileInfo → R (List FileInfo)
  | [] =>
    match f (mk ()) with
    | .error e => .error e
    | .ok fi => .ok [fi]
  | fi :: rest =>
    if fi.key = k then
      match f fi with
      | .error e => .error e
      | .ok fi' => .ok (fi' :: rest)
    else
      match upsert k mk f rest with
      | .error e => .error e
      | .ok rest' => .ok (fi :: rest')

/-- the first pass of `build_files` over entries `i, i+1, …`; state: bad name count, map so far -/
def buildLoop (d : Dpb) (v3 : Bool) (dir : Dir) (maybeLab : Option Bytes) : List Bytes → Nat → Nat → List FileInfo → R (List FileInfo)
  | [], _, _, ans => .ok ans
  | e :: rest, i, badNames, ans =>
    let xtype := getType e
    if xtype = .unknown then .error .badFormat else
    if !v3 && (xtype = .label || xtype = .timestamp || xtype = .password) then .error .badFormat else
    if isExtent e then
      let key := decDigits (Ext.user e) ++ [58] ++ Ext.getString e
      let (name, typ) := fileNameToSplitString (Ext.name e) (Ext.typ e)
      let flags := Ext.flags e
      if flags.getD 4 0 > 127 || flags.getD 5 0 > 127 || flags.getD 6 0 > 127 || flags.getD 7 0 > 127 then .error .badFormat else
      let badNames' := if !isNameValid (Ext.getString e) then badNames + 1 else badNames
      if badNames' > 2 then .error .badFormat else
      let step (fi : FileInfo) : R FileInfo :=
        let fi1 := { fi with entries := insertEntry (Ext.dataPtr e) i fi.entries,
                             blocksAllocated := fi.blocksAllocated + ((Ext.blockList d e).filter (· > 0)).length }
        if Ext.dataPtr e ≤ d.exm then
          match maybeLab with
          | some lab => if Lab.isTimestamped lab then tsGet dir lab i fi1 else .ok fi1
          | none => .ok fi1
        else .ok fi1
      match upsert key (fun _ => { key := key, user := Ext.user e, name := name, typ := typ }) step ans with
      | .error err => .error err
      | .ok ans' => buildLoop d v3 dir maybeLab rest (i + 1) badNames' ans'
    else buildLoop d v3 dir maybeLab rest (i + 1) badNames ans

/-- `Directory::build_files(dpb, cpm_vers)` (first-appearance order) -/
def buildFiles (d : Dpb) (v3 : Bool) (dir : Dir) : R (List FileInfo) :=
  buildLoop d v3 dir (findLabel dir) dir 0 0 []

def lookupKey (files : List FileInfo) (k : Bytes) : Option FileInfo := files.find? (fun fi => fi.key == k)

/-- `get_file(xname, files)`: the order of the attempts is significant -/
def getFile (xname : Bytes) (files : List FileInfo) : Option FileInfo :=
  let trimmed := if xname.contains 46 then trimEnd xname else trimEnd xname ++ [46]
  match lookupKey files trimmed with
  | some fi => some fi
  | none =>
    match lookupKey files (upper trimmed) with
    | some fi => some fi
    | none =>
      if trimmed.contains 58 then none else
      match lookupKey files ([48, 58] ++ trimmed) with
      | some fi => some fi
      | none => lookupKey files ([48, 58] ++ upper trimmed)

/-! ## `format` -/

/-- the main loop of `add_timestamps`: state `ans` (reversed), pending time-stamp entry -/
def addTsLoop : List Bytes → List Bytes → Bytes → R (List Bytes × Bytes)
  | [], ans, ts => .ok (ans, ts)
  | e :: rest, ans0, ts0 =>
    let (ans1, ts1) := if ans0.length % 4 = 3 then (ans0 ++ [ts0], tsCreate) else (ans0, ts0)
    if status e = TIMESTAMP then .error .badFormat else
    match (if status e = LABEL then
             (let sub := ans1.length % 4 + 1
              if sub > 3 then Except.error Err.badFormat
              else Except.ok (splice (splice ts1 (tsCreateOff sub) (Lab.createTime e)) (tsUpdateOff sub) (Lab.updateTime e)))
           else Except.ok ts1) with
    | .error err => .error err
    | .ok ts2 =>
      let ans2 := if status e ≠ DELETED then ans1 ++ [e] else ans1
      addTsLoop rest ans2 ts2

/-- the fill loop of `add_timestamps`: `n` more entries -/
def addTsFill : Nat → List Bytes → Bytes → List Bytes
  | 0, ans, _ => ans
  | n + 1, ans, ts =>
    if ans.length % 4 = 3 then addTsFill n (ans ++ [ts]) tsCreate
    else addTsFill n (ans ++ [[DELETED] ++ List.replicate 31 0]) ts

/-- `Directory::add_timestamps` -/
def addTimestamps (dir : Dir) : R Dir :=
  match addTsLoop dir [] tsCreate with
  | .error e => .error e
  | .ok (ans, ts) =>
    if ans.length > dir.length then .error .directoryFull
    else .ok (addTsFill (dir.length - ans.length) ans ts)

def fillLoop (d : Dpb) : Raw → List Nat → R Unit × Raw
  | r, [] => (.ok (), r)
  | r, i :: is =>
    match writeBlock d r (List.replicate (blockSize d) DELETED) i 0 with
    | .error e => (.error e, r)
    | .ok r' => fillLoop d r' is

/-- `Disk::format(vol_name, time)`; `time` = `pack_date(time)` when `time.is_some()` -/
def format (d : Dpb) (r : Raw) (volName : Bytes) (time : Option Bytes) : R Unit × Raw :=
  if d.v3 && decide (volName.length > 0) && !isNameValid volName then (.error .badFormat, r) else
  match fillLoop d r (List.range (userBlocks d)) with
  | (.error e, r1) => (.error e, r1)
  | (.ok _, r1) =>
    if !d.v3 then (.ok (), r1) else
    let lab0 := Lab.create
    let lab1 := if volName.length > 0 then (let (nm, ty) := stringToFileName volName; Lab.set lab0 nm ty) else lab0
    let lab2 := match time with
      | some t => Lab.timestampUpdate (Lab.timestampCreation (splice (splice lab1 24 (t.take 4)) 28 (t.take 4)))
      | none => lab1
    match getDirectory d r1 with
    | .error e => (.error e, r1)
    | .ok dir =>
      -- `set_entry(&Ptr::ExtentEntry(0), …)` on an empty directory would panic
      if dir.length = 0 then (.error .panic, r1) else
      let dir1 := if volName.length > 0 || time.isSome then dir.set 0 lab2 else dir
      match (if time.isSome then addTimestamps dir1 else Except.ok dir1) with
      | .error e => (.error e, r1)
      | .ok finalDir => saveDirectory d r1 finalDir

/-! ## `delete` -/

/-- every entry of the file gets user `DELETED`; a read-only extent refuses the whole operation -/
def deleteLoop (dir : Dir) : List (Nat × Nat) → R Dir
  | [] => .ok dir
  | (_, i) :: rest =>
    match dir[i]? with
    | none => .error .panic
    | some fx =>
      if !isExtent fx then deleteLoop dir rest else
      if (Ext.flags fx).getD 8 0 > 0 then .error .fileReadOnly
      else deleteLoop (dir.set i (splice fx 0 [DELETED])) rest

def delete (d : Dpb) (r : Raw) (xname : Bytes) : R Unit × Raw :=
  match getDirectory d r with
  | .error e => (.error e, r)
  | .ok dir =>
    match buildFiles d d.v3 dir with
    | .error e => (.error e, r)
    | .ok files =>
      match getFile xname files with
      | none => (.error .fileNotFound, r)
      | some finfo =>
        match deleteLoop dir finfo.entries with
        | .error e => (.error e, r)
        | .ok dir' => saveDirectory d r dir'

/-! ## `modify`: rename, lock, unlock, retype -/

def renameLoop (dir : Dir) (newUser : Nat) (newName : Bytes) : List (Nat × Nat) → R Dir
  | [] => .ok dir
  | (_, i) :: rest =>
    match dir[i]? with
    | none => .error .panic
    | some fx =>
      if !isExtent fx then renameLoop dir newUser newName rest else
      if (Ext.flags fx).getD 8 0 > 0 then .error .fileReadOnly else
      let (base, typ) := stringToFileName newName
      renameLoop (dir.set i (Ext.setName (splice fx 0 [newUser]) base typ)) newUser newName rest

/-- `access[i]`: negative = clear the high bit (`-1` here `2`), 0 = keep, positive = set -/
def newFlag (a curr : Nat) : Nat := if a = 2 then 0 else if a = 1 then 128 else curr

def accessLoop (dir : Dir) (access : List Nat) : List (Nat × Nat) → R Dir
  | [] => .ok dir
  | (_, i) :: rest =>
    match dir[i]? with
    | none => .error .panic
    | some fx =>
      if !isExtent fx then accessLoop dir access rest else
      let curr := Ext.flags fx
      let nf := (List.range 11).map (fun k => newFlag (access.getD k 0) (curr.getD k 0))
      accessLoop (dir.set i (Ext.setFlags fx (nf.take 8) (nf.drop 8))) access rest

/-- `modify(old_xname, maybe_new_xname, access)`; `access` codes: 0 keep, 1 set, 2 clear -/
def modify (d : Dpb) (r : Raw) (oldXname : Bytes) (maybeNew : Option Bytes) (access : List Nat) : R Unit × Raw :=
  match splitUserFilename oldXname with
  | .error e => (.error e, r)
  | .ok (_, oldName) =>
    if !isNameValid oldName then (.error .badFormat, r) else
    match getDirectory d r with
    | .error e => (.error e, r)
    | .ok dir =>
      match buildFiles d d.v3 dir with
      | .error e => (.error e, r)
      | .ok files =>
        match getFile oldXname files with
        | none => (.error .fileNotFound, r)
        | some finfo =>
          match (match maybeNew with
                 | none => Except.ok dir
                 | some newXname =>
                   match splitUserFilename newXname with
                   | .error e => Except.error e
                   | .ok (newUser, newName) =>
                     if !isNameValid newName then Except.error Err.badFormat else
                     if (getFile newXname files).isNone then renameLoop dir newUser newName finfo.entries
                     else Except.error Err.fileExists) with
          | .error e => (.error e, r)
          | .ok dir1 =>
            match accessLoop dir1 access finfo.entries with
            | .error e => (.error e, r)
            | .ok dir2 => saveDirectory d r dir2

def accessNone : List Nat := List.replicate 11 0
def lock (d : Dpb) (r : Raw) (xname : Bytes) : R Unit × Raw := modify d r xname none [0, 0, 0, 0, 0, 0, 0, 0, 1, 0, 0]
def unlock (d : Dpb) (r : Raw) (xname : Bytes) : R Unit × Raw := modify d r xname none [0, 0, 0, 0, 0, 0, 0, 0, 2, 0, 0]
def rename (d : Dpb) (r : Raw) (oldXname newXname : Bytes) : R Unit × Raw := modify d r oldXname (some newXname) accessNone
/-- `retype(xname, new_type, _)`: `sys` sets the system flag, `dir` clears it, anything else is refused -/
def retype (d : Dpb) (r : Raw) (xname : Bytes) (newType : Bytes) : R Unit × Raw :=
  if newType = [115, 121, 115] then modify d r xname none [0, 0, 0, 0, 0, 0, 0, 0, 0, 1, 0]
  else if newType = [100, 105, 114] then modify d r xname none [0, 0, 0, 0, 0, 0, 0, 0, 0, 2, 0]
  else (.error .select, r)

/-! ## `protect`, `unprotect` (CP/M 3 password entries) -/

/-- first loop of `protect`: replace an existing password entry of this file -/
def protectUpdate (user : Nat) (nm ty newPx : Bytes) : List Bytes → Option (List Bytes)
  | [] => none
  | e :: rest =>
    if isPassword e && status e == user + 16 && slice e 1 8 == nm && slice e 9 3 == ty then some (newPx :: rest)
    else (protectUpdate user nm ty newPx rest).map (e :: ·)

/-- second loop of `protect` over the entries from the current one on; `done` = entries already passed (changed).
`some dir` = `completion` reached 2 -/
def protectNew (newPx : Bytes) : List Bytes → List Bytes → Nat → Option (List Bytes)
  | [], _, _ => none
  | e :: rest, done, completion =>
    let (e1, c1) := if isLabel e then (Lab.protect e, completion + 1) else (e, completion)
    let (e2, c2) := if getType e1 = .deleted then (newPx, c1 + 1) else (e1, c1)
    if c2 = 2 then some (done ++ [e2] ++ rest) else protectNew newPx rest (done ++ [e2]) c2

def protect (d : Dpb) (r : Raw) (xname password : Bytes) (rd wr del : Bool) : R Unit × Raw :=
  if password.length = 0 || !isPasswordValid password then (.error .badFormat, r) else
  match getDirectory d r with
  | .error e => (.error e, r)
  | .ok dir =>
    if !rd && !wr && !del then (.error .badFormat, r) else
    if (findLabel dir).isNone then (.error .badFormat, r) else
    match buildFiles d d.v3 dir with
    | .error e => (.error e, r)
    | .ok files =>
      match getFile xname files with
      | none => (.error .fileNotFound, r)
      | some _ =>
        match splitUserFilename xname with
        | .error e => (.error e, r)
        | .ok (user, nameString) =>
          let (nm, ty) := stringToFileName nameString
          let newPx := passwordCreate password user nameString rd wr del
          match protectUpdate user nm ty newPx dir with
          | some dir' => saveDirectory d r dir'
          | none =>
            match protectNew newPx dir [] 0 with
            | some dir' => saveDirectory d r dir'
            | none => (.error .directoryFull, r)

def unprotect (d : Dpb) (r : Raw) (xname : Bytes) : R Unit × Raw :=
  match getDirectory d r with
  | .error e => (.error e, r)
  | .ok dir =>
    match splitUserFilename xname with
    | .error e => (.error e, r)
    | .ok (user, nameString) =>
      let (nm, ty) := stringToFileName nameString
      let hit (e : Bytes) : Bool := isPassword e && status e == user + 16 && slice e 1 8 == nm && slice e 9 3 == ty
      if dir.any hit then saveDirectory d r (dir.map (fun e => if hit e then splice e 0 [DELETED] else e))
      else (.error .fileNotFound, r)

/-! ## `put` / `write_file` -/

/-- what `put` uses of a `FileImage` -/
structure FImg where
  /-- `fimg.file_system == FS_NAME` -/
  fsOk : Bool := true
  chunkLen : Nat
  fullPath : Bytes
  /-- `fimg.fs_type`: only compared with the extension (a warning), but indexed `[0..3]` -/
  fsType : Bytes
  /-- the 11 flag bytes (any other length: ignored with a warning, flags 0) -/
  access : Bytes
  /-- `get_eof()` -/
  eof : Nat
  /-- the `HashMap<usize,Vec<u8>>` as an association list with distinct keys -/
  chunks : List (Nat × Bytes)
  /-- variant bit, not part of the file image: the tree has `proposed_fixes/cpm-put-interface-flags.diff` applied
  (`write_file` refuses an image that sets an interface attribute F5–F8).  Set by the driver; the theorems hold for both values. -/
  guardIface : Bool := false
  deriving Repr, Inhabited

/-- `fimg.access.len()==11 && fimg.access[4..8].iter().any(|b| *b>0x7f)`: the image sets one of the interface attributes F5–F8 -/
def FImg.ifaceFlags (f : FImg) : Bool := decide (f.access.length = 11) && ((f.access.drop 4).take 4).any (fun b => decide (b > 127))

/-- `FileImage::end()` -/
def FImg.end_ (f : FImg) : Nat := f.chunks.foldl (fun m c => max m (c.1 + 1)) 0

/-- `open_extent`: a fresh extent with name, flags and user; the entry it will occupy -/
def openExtent (d : Dpb) (name : Bytes) (user : Nat) (f : FImg) (dir : Dir) : R (Nat × Bytes) :=
  let (base, typ) := stringToFileName name
  -- `img_typ[0]`, `[1]`, `[2]`
  if f.fsType.length < 3 then .error .panic else
  let (f1, f2) := if f.access.length = 11 then (f.access.take 8, f.access.drop 8) else (List.replicate 8 0, List.replicate 3 0)
  let fx := splice (Ext.setFlags (Ext.setName Ext.new base typ) f1 f2) 0 [user]
  match getAvailableExtent d dir with
  | none => .error .panic
  | some idx => .ok (idx, fx)

/-- `close_extent`: extent index, record counts, save into the directory buffer -/
def closeExtent (d : Dpb) (ptr : Nat) (fx : Bytes) (dir : Dir) (lxCount : Nat) (isLast : Bool) (f : FImg) : R Dir :=
  if lxCount = 0 then .error .panic else
  let fx1 := Ext.setDataPtr fx (lxCount - 1)
  let rem0 := f.eof % extentCapacity d
  let rem := if (!isLast && decide (f.eof > 0)) || (decide (rem0 = 0) && decide (f.eof > 0)) then extentCapacity d else rem0
  if ptr < dir.length then .ok (dir.set ptr (Ext.setEof fx1 rem d.v3)) else .error .panic

structure WState where
  r : Raw
  dir : Dir
  fx : Option Bytes := none
  ptr : Nat := 0
  entry1 : Option Nat := none
  lxUsed : Nat := 0
  created : Nat := 0

/-- the two inner loops of `write_file` for physical extent `x`: over `(lx, loc_slot)` -/
def slotLoop (d : Dpb) (name : Bytes) (user : Nat) (f : FImg) (x spe spl : Nat) : WState → List (Nat × Nat) → R Unit × WState
  | s, [] => (.ok (), s)
  | s, (lx, loc) :: rest =>
    let glob := x * spe + lx * spl + loc
    match f.chunks.lookup glob with
    | none => slotLoop d name user f x spe spl s rest
    | some chunk =>
      match getAvailableBlock d s.dir with
      | none => (.error .panic, s)
      | some iblock =>
        match (match s.fx with
               | some fx => Except.ok (s.ptr, fx, s.entry1)
               | none =>
                 match openExtent d name user f s.dir with
                 | .error e => Except.error e
                 | .ok (idx, fx) => Except.ok (idx, fx, if s.entry1.isNone then some idx else s.entry1)) with
        | .error e => (.error e, s)
        | .ok (ptr, fx, entry1) =>
          match Ext.setBlockPtr d fx loc lx iblock with
          | .error e => (.error e, s)
          | .ok fx' =>
            if ¬ ptr < s.dir.length then (.error .panic, s) else
            let s1 : WState := { s with fx := some fx', ptr := ptr, entry1 := entry1, lxUsed := lx + 1, dir := s.dir.set ptr fx' }
            match writeBlock d s1.r chunk iblock 0 with
            | .error e => (.error e, s1)
            | .ok r' => slotLoop d name user f x spe spl { s1 with r := r' } rest

/-- the outer loop of `write_file` over the physical extents -/
def extLoop (d : Dpb) (name : Bytes) (user : Nat) (f : FImg) (maxX spe spl : Nat) : WState → List Nat → R Unit × WState
  | s, [] => (.ok (), s)
  | s, x :: xs =>
    let lxPerX := d.exm + 1
    let slots := (List.range lxPerX).flatMap (fun lx => (List.range spl).map (fun loc => (lx, loc)))
    match slotLoop d name user f x spe spl { s with lxUsed := 0 } slots with
    | (.error e, s1) => (.error e, s1)
    | (.ok _, s1) =>
      let lxUsed := if x + 1 < maxX then lxPerX else s1.lxUsed
      match s1.fx with
      | none => extLoop d name user f maxX spe spl s1 xs
      | some fx =>
        match closeExtent d s1.ptr fx s1.dir (x * lxPerX + lxUsed) (x + 1 == maxX) f with
        | .error e => (.error e, s1)
        | .ok dir' => extLoop d name user f maxX spe spl { s1 with dir := dir', fx := none, created := s1.created + 1 } xs

/-- `Timestamp::maybe_set(dir, lab, lx0, time, flags)`; `which`: 4 = CREATE, 5 = UPDATE (the bit numbers) -/
def tsMaybeSet (dir : Dir) (lab : Bytes) (lx0 : Nat) (now : Bytes) (which : Nat) : R Dir :=
  if which = 4 && !Lab.isTimestampedCreation lab && !Lab.isTimestampedAccess lab then .ok dir else
  if which = 5 && !Lab.isTimestampedUpdate lab then .ok dir else
  let expectedIdx := 4 * (1 + lx0 / 4) - 1
  let subIdx := lx0 % 4 + 1
  match dir[expectedIdx]? with
  | none => .error .panic
  | some ts =>
    if !isTimestamp ts then .error .badFormat else
    if subIdx > 3 then .error .badFormat else
    let off := if which = 4 then tsCreateOff subIdx else tsUpdateOff subIdx
    .ok (dir.set expectedIdx (splice ts off (now.take 4)))

/-- `Timestamp::maybe_set_create` -/
def tsMaybeSetCreate (dir : Dir) (lab : Bytes) (lx0 : Nat) (now : Bytes) : R Dir :=
  match tsMaybeSet dir lab lx0 now 4 with
  | .error e => .error e
  | .ok dir1 => tsMaybeSet dir1 lab lx0 now 5

/-- the number of extents `write_file` asks for: physical extents holding at least one chunk, at least 1 -/
def extentsNeeded (f : FImg) (maxX spe : Nat) : Nat :=
  let n := ((List.range maxX).filter (fun i => (List.range spe).any (fun k => (f.chunks.lookup (i * spe + k)).isSome))).length
  if n = 0 then 1 else n

/-- `put(fimg)` = checks + `write_file`; `now` is `pack_date(None)` -/
def put (d : Dpb) (r : Raw) (f : FImg) (now : Bytes) : R Unit × Raw :=
  if !f.fsOk then (.error .select, r) else
  if f.chunkLen ≠ blockSize d then (.error .select, r) else
  let xname := f.fullPath
  match splitUserFilename xname with
  | .error e => (.error e, r)
  | .ok (user, name) =>
    if !isNameValid name then (.error .badFormat, r) else
    -- repaired tree only: F5–F8 are never stored (`build_files` rejects a directory that has them)
    if f.guardIface && f.ifaceFlags then (.error .badFormat, r) else
    match getDirectory d r with
    | .error e => (.error e, r)
    | .ok dir =>
      match buildFiles d d.v3 dir with
      | .error e => (.error e, r)
      | .ok files =>
        if (getFile xname files).isSome then (.error .fileExists, r) else
        let dataBlocks := f.chunks.length
        let blockPtrSlots := f.end_
        let spe := extentCapacity d / blockSize d
        -- `block_ptr_slots / slots_per_extent`: division by zero panics
        if spe = 0 then (.error .panic, r) else
        let maxX := blockPtrSlots / spe + (if blockPtrSlots % spe > 0 then 1 else 0)
        let extents := extentsNeeded f maxX spe
        match numFreeBlocks d dir with
        | .error e => (.error e, r)
        | .ok nfb =>
          if nfb < dataBlocks then (.error .diskFull, r) else
          if numFreeExtents dir < extents then (.error .directoryFull, r) else
          let lxPerX := d.exm + 1
          let spl := spe / lxPerX
          match extLoop d name user f maxX spe spl { r := r, dir := dir } (List.range maxX) with
          | (.error e, s) => (.error e, s.r)
          | (.ok _, s) =>
            match (if s.created = 0 then
                     (match openExtent d name user f s.dir with
                      | .error e => Except.error e
                      | .ok (idx, fx) =>
                        match closeExtent d idx fx s.dir 1 true f with
                        | .error e => Except.error e
                        | .ok dir' => Except.ok (dir', if s.entry1.isNone then some idx else s.entry1))
                   else Except.ok (s.dir, s.entry1)) with
            | .error e => (.error e, s.r)
            | .ok (dir1, entry1) =>
              match (match findLabel dir1, entry1 with
                     | some lab, some lx0 => tsMaybeSetCreate dir1 lab lx0 now
                     | _, _ => Except.ok dir1) with
              | .error e => (.error e, s.r)
              | .ok dir2 => saveDirectory d s.r dir2

/-! ## `get` / `read_file`, `stat`, `catalog_to_vec` -/

structure Got where
  access : Bytes
  fsType : Bytes
  eof : Nat
  created : Bytes
  modified : Bytes
  chunks : List (Nat × Bytes)
  deriving Repr, Inhabited

/-- the pointers of one extent: a pointer ≥ `user_blocks` is `ReadError`, 0 is a hole -/
def readPtrs (d : Dpb) (r : Raw) : List Nat → Nat → List (Nat × Bytes) → R (Nat × List (Nat × Bytes))
  | [], bc, cs => .ok (bc, cs)
  | p :: ps, bc, cs =>
    if p ≥ userBlocks d then .error .readError else
    if p > 0 then
      match readBlock r p with
      | .error e => .error e
      | .ok buf => readPtrs d r ps (bc + 1) (cs ++ [(bc, buf.take (blockSize d))])
    else readPtrs d r ps (bc + 1) cs

/-- the loop of `read_file` over the entries of the file in data pointer order; state: block count, previous
logical extent count, result so far.  `absIdx`: variant bit — the tree has `proposed_fixes/cpm-get-partial-extent.diff` applied
(the block count restarts at every physical extent instead of adding the logical extents skipped since the previous entry) -/
def readLoop (absIdx : Bool) (d : Dpb) (r : Raw) (dir : Dir) (finfo : FileInfo) : List (Nat × Nat) → Nat → Nat → Got → R Got
  | [], _, _, g => .ok g
  | (_, i) :: rest, bc, prev, g =>
    match dir[i]? with
    | none => .error .panic
    | some fx =>
      if !isExtent fx then readLoop absIdx d r dir finfo rest bc prev g else
      let created := match finfo.createTime with
        | some t => t
        | none => match finfo.accessTime with
          | some t => t
          | none => g.created
      let modified := match finfo.updateTime with
        | some t => t
        | none => g.modified
      let g1 : Got := { g with fsType := (Ext.nameAndFlags fx).drop 8, access := Ext.nameAndFlags fx,
                               eof := Ext.getEof fx % 4294967296, created := created, modified := modified }
      let curr := Ext.dataPtr fx + 1
      if curr = prev then .error .badFormat else
      -- `(curr-1) & (usize::MAX ^ exm)`: exm = 2^n - 1
      let lower := (curr - 1) / (d.exm + 1) * (d.exm + 1)
      if lower < prev then .error .panic else
      -- `… / block_size`: division by zero cannot occur (block size ≥ 128)
      let bc1 := if absIdx then lower * logicalExtentSize / blockSize d else bc + (lower - prev) * logicalExtentSize / blockSize d
      match readPtrs d r (Ext.blockList d fx) bc1 g1.chunks with
      | .error e => .error e
      | .ok (bc2, cs) => readLoop absIdx d r dir finfo rest bc2 curr { g1 with chunks := cs }

/-- `std_access_and_typ(xname)` -/
def stdAccessAndTyp (xname : Bytes) : R (Bytes × Bytes) :=
  match splitUserFilename xname with
  | .error e => .error e
  | .ok (_, name) =>
    let (base, ext) := stringToFileName name
    .ok (base ++ ext, ext)

def get (d : Dpb) (r : Raw) (xname : Bytes) (absIdx : Bool := false) : R Got :=
  match getDirectory d r with
  | .error e => .error e
  | .ok dir =>
    match buildFiles d d.v3 dir with
    | .error e => .error e
    | .ok files =>
      match getFile xname files with
      | none => .error .fileNotFound
      | some finfo =>
        -- `new_fimg(block_size, false, xname)?`
        if !isXnameValid xname then .error .badFormat else
        match stdAccessAndTyp xname with
        | .error e => .error e
        | .ok (access, fsType) =>
          readLoop absIdx d r dir finfo finfo.entries 0 0
            { access := access, fsType := fsType, eof := 0, created := [], modified := [], chunks := [] }

/-- `stat().free_blocks` -/
def statFree (d : Dpb) (r : Raw) : R Nat :=
  match getDirectory d r with
  | .error e => .error e
  | .ok dir => numFreeBlocks d dir

/-- lexicographic order on byte strings (the order of `String` keys in a `BTreeMap`) -/
def bytesLt : Bytes → Bytes → Bool
  | [], [] => false
  | [], _ :: _ => true
  | _ :: _, [] => false
  | x :: xs, y :: ys => if x < y then true else if x > y then false else bytesLt xs ys

def insertByKey (fi : FileInfo) : List FileInfo → List FileInfo
  | [] => [fi]
  | g :: rest => if bytesLt fi.key g.key then fi :: g :: rest else g :: insertByKey fi rest

/-- the iteration order of the `BTreeMap<String,FileInfo>` -/
def sortByKey (files : List FileInfo) : List FileInfo := files.foldl (fun acc fi => insertByKey fi acc) []

/-- `catalog_to_vec("/")`: rows `(type, blocks, name)`; the name carries the user prefix when any file of another
user than 0 exists.  `build_files` is called with version 3 whatever the disk's version. -/
def catalog (d : Dpb) (r : Raw) : R (List (Bytes × Nat × Bytes)) :=
  match getDirectory d r with
  | .error e => .error e
  | .ok dir =>
    match buildFiles d true dir with
    | .error e => .error e
    | .ok files =>
      let multi := files.any (fun fi => fi.user ≠ 0)
      .ok ((sortByKey files).map (fun fi => (fi.typ, fi.blocksAllocated, if multi then fi.key else fi.name)))

end A2Verif.Fs.Cpm
