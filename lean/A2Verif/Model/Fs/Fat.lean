import A2Verif.Model.Raw
/-!
# Concrete model of a2kit's FAT file system (`/repo/src/fs/fat/{mod,directory,pack,types}.rs`,
`/repo/src/bios/{fat,bpb}.rs`)

A transcription of the Rust **as written** into total functions on `Raw` (512-byte units = the logical sectors
of a flat `IMG` image, `/repo/src/img/dsk_img.rs`).  Unlike `Model/Read/Fat.lean` (an independent *reader*
written from the disk format) this file follows a2kit's own code paths: the same case splits in the same order,
the same loops (as structural recursions with the Rust's iteration caps), the same first-free cluster search,
the same refusals.  Allocation is deterministic, so the model is byte-exact: the harness compares the model's
image with the real image unit for unit after every operation (`Drv/FsFat.lean`, `harness/src/fam/fs_fat.rs`).

The FAT is kept as the Rust keeps it: `Disk.fat` is the in-memory buffer `maybe_fat` (all sectors of the first
FAT, repaired against the backup copies when it is opened), changed by `set_cluster`/`mark_last`/`deallocate`
**only in memory**, and written back to *every* FAT copy by `get_img()` (`flush`).  Images are compared after
the flush the harness performs (`get_img().to_bytes()`).  The buffer is an `Array Nat` (the driver scans it once
per allocated cluster); everything else is `List Nat`.

Conventions
* bytes are `Nat < 256` (protocol invariant).  Index/slice errors, `u64` underflow in a debug build and explicit
  `panic!`s answer `Err.panic`.
* `Entry` derives `DiskStruct`: `from_bytes`/`to_bytes` copy the 32 bytes field by field in declaration order.
  An entry is modelled as its 32 bytes; field accessors read at the field offsets, assignments `splice`.
  `Directory` is the list of its 32-byte entries.
* operations are state transformers `M α = Disk → R α × Disk` on (image, BPB, FAT buffer): a failure in the middle
  of an operation returns the state reached so far (e.g. a `put` refused with `DiskFull` after its directory
  had to grow keeps the grown directory: the cluster is linked in the FAT buffer and zeroed on the image).
* names and paths are ASCII byte strings (the harness generates nothing else).  A stored name with a byte ≥ 128
  (`String::from_utf8` fails or yields a multi-byte character; a2kit then escapes it) is outside the model:
  `Err.unmodelled`.  FAT32 (`fat_type() = 32`) is outside the model as well.
* the BPB *foundation* is read from the boot sector (`Bpb.ofBoot`); the arithmetic on it is total `Nat`
  arithmetic.  Where the Rust would panic on it (`sec_per_clus = 0`, a data region of negative size, a FAT too
  small to hold two entries) no `Disk` can be built or used at all; these cases are excluded by `Bpb.ok`.
* the image geometry is the BPB's geometry (`Img::create(kind)` and `BootSector::create(kind)` agree): logical
  sector `n` is unit `n`; `get_chs` refuses `n / spt ≥ tracks`; the image refuses units beyond its end.
* timestamps come from the pinned clock and are parameters (`Stamp`); the volume id of `format` is taken from
  the real boot sector, which is a parameter of `format`.

Rust ↔ Lean: `bpb.rs` accessors ↔ `Bpb.*`; `bios/fat.rs::{get_cluster,set_cluster,is_free,is_last,is_damaged,
mark_last,deallocate,repair}` ↔ `getCluster`, `setCluster`, `isFree`, `isLast`, `isDamaged`, `markLast`, `deallocate`,
`repairLoop`; `get_chs` ↔ `getChs`; `open_fat_buffer`/`get_fat_buffer`/`writeback_fat_buffer` ↔ `openFatBuffer`,
`getFatBuffer`, `writebackFatBuffer` (`flush`); `clus_in_rng` ↔ `clusInRng`; `is_block_free`, `num_free_blocks`,
`get_available_block`, `deallocate_block` ↔ `isBlockFree`, `numFreeBlocks`, `getAvailableBlock`, `deallocateBlock`;
`read_block`, `write_block`, `zap_block` ↔ `readBlock`, `writeBlock`, `zapBlock`; `next_cluster`, `last_cluster`,
`get_cluster_chain_data`, `deallocate_cluster_chain_data` ↔ `nextCluster`, `lastCluster`, `getClusterChainData`,
`deallocateChain`; `get_root_dir`, `get_directory` ↔ `getRootDir`, `getDirectory`; `expand_directory`,
`writeback_directory_entry`, `get_available_entry` ↔ `expandDirectory`, `writebackDirectoryEntry`, `getAvailableEntry`;
`normalize_path`, `split_path`, `goto_path` ↔ `normalizePath`, `splitPath`, `gotoPath`; `Directory::build_files`,
`directory::get_file` ↔ `buildFiles`, `getFile`; `prepare_to_write`, `write_file`, `put` ↔ `prepareToWrite`, `writeFile`,
`put`; `ok_to_rename`, `modify`, `rename`, `lock`, `unlock`, `retype` ↔ same names; `delete` ↔ `delete`; `create` ↔
`mkdir`; `read_file`/`get` ↔ `get`; `stat().free_blocks` ↔ `statFree`; `catalog_to_vec` ↔ `catalog`; `format` ↔
`format`; `pack.rs::{is_name_valid,is_label_valid,string_to_file_name,string_to_label_name,file_name_to_string,
file_name_to_split_string}` ↔ `isNameValid`, `isLabelValid`, `stringToFileName`, `stringToLabelName`,
`fileNameToString`, `fileNameToSplit`.
-/
namespace A2Verif.Fs.Fat

/-- `types.rs::Error` + image access error + panic + "outside the model" -/
inductive Err where
  | general | readFault | sectorNotFound | writeFault | writeProtect | invalidSwitch | badFAT | fileNotFound
  | duplicateFile | diskFull | directoryFull | directoryNotEmpty | syntax | firstClusterInvalid | incorrectDOS
  /-- `img::Error::SectorAccess`: sector outside the image -/
  | imgErr
  /-- the Rust panics (index out of range, `u64` underflow in a debug build, explicit `panic!`) -/
  | panic
  /-- FAT32, non-ASCII stored names -/
  | unmodelled
  deriving DecidableEq, Repr, Inhabited

def Err.token : Err → String
  | .general => "general" | .readFault => "readfault" | .sectorNotFound => "sectornotfound" | .writeFault => "writefault"
  | .writeProtect => "writeprotect" | .invalidSwitch => "invalidswitch" | .badFAT => "badfat" | .fileNotFound => "filenotfound"
  | .duplicateFile => "duplicatefile" | .diskFull => "diskfull" | .directoryFull => "directoryfull"
  | .directoryNotEmpty => "directorynotempty" | .syntax => "syntax" | .firstClusterInvalid => "firstclusterinvalid"
  | .incorrectDOS => "incorrectdos" | .imgErr => "imgerr" | .panic => "panic" | .unmodelled => "unmodelled"

abbrev R := Except Err

/-- `directory::DIR_ENTRY_SIZE` -/
abbrev entrySize : Nat := 32
def READ_ONLY : Nat := 1
def HIDDEN : Nat := 2
def SYSTEM : Nat := 4
def VOLUME_ID : Nat := 8
def DIRECTORY : Nat := 16
def ARCHIVE : Nat := 32
def LONG_NAME : Nat := 15
/-- `fat::FIRST_DATA_CLUSTER` -/
abbrev firstDataCluster : Nat := 2

/-! ## bytes -/

def u16le (v : Nat) : Bytes := [v % 256, v / 256 % 256]
def u32le (v : Nat) : Bytes := [v % 256, v / 256 % 256, v / 65536 % 256, v / 16777216 % 256]

/-- overwrite `new.length` bytes of `e` at `off` (a field assignment of a `DiskStruct`) -/
def splice (e : Bytes) (off : Nat) (new : Bytes) : Bytes := e.take off ++ new ++ e.drop (off + new.length)

/-- `xs.take n`, without copying when nothing is cut off (`takeN_eq`) -/
def takeN (xs : Bytes) (n : Nat) : Bytes := if xs.length ≤ n then xs else xs.take n

/-- `a ++ b`, without copying `a` when `b` is empty (`app_eq`) -/
def app (a b : Bytes) : Bytes := if b.isEmpty then a else a ++ b

/-- `img::quantize_block(dat, q)` = `dat.take q ++ zeros (q - dat.length)` (`quantize_eq`; nothing is copied when the length fits) -/
def quantize (d : Bytes) (q : Nat) : Bytes := if d.length = q then d else d.take q ++ List.replicate (q - d.length) 0

def zeros (n : Nat) : Bytes := List.replicate n 0

/-- `str::split(sep)` on bytes -/
def splitOn (sep : Nat) : Bytes → List Bytes
  | [] => [[]]
  | c :: cs =>
    match splitOn sep cs with
    | [] => [[]]
    | p :: ps => if c = sep then [] :: p :: ps else (c :: p) :: ps

def upperByte (c : Nat) : Nat := if 97 ≤ c ∧ c ≤ 122 then c - 32 else c
/-- `str::to_uppercase` on ASCII -/
def upper (s : Bytes) : Bytes := s.map upperByte

def isAsciiSpace (c : Nat) : Bool := c == 32 || (9 ≤ c && c ≤ 13)
/-- `str::trim_end` on ASCII -/
def trimEnd (s : Bytes) : Bytes := (s.reverse.dropWhile isAsciiSpace).reverse

/-! ## the BIOS parameter block (`bios/bpb.rs`) -/

/-- `BPBFoundation` (+ `fat_size_32` of the FAT32 extension, read by `fat_secs()` when `fat_size_16 = 0`) -/
structure Bpb where
  bps : Nat
  spc : Nat
  rsvd : Nat
  nfat : Nat
  /-- the two bytes of `root_ent_cnt` -/
  rootEnt0 : Nat
  rootEnt1 : Nat
  tot16 : Nat
  media : Nat
  fat16 : Nat
  spt : Nat
  heads : Nat
  tot32 : Nat
  fat32 : Nat
  deriving Repr, Inhabited, DecidableEq

namespace Bpb

/-- `BootSector::from_bytes`: the foundation is `bytes[11..36]` -/
def ofBoot (b : Bytes) : Bpb :=
  { bps := le16 b 11, spc := b.getD 13 0, rsvd := le16 b 14, nfat := b.getD 16 0, rootEnt0 := b.getD 17 0, rootEnt1 := b.getD 18 0,
    tot16 := le16 b 19, media := b.getD 21 0, fat16 := le16 b 22, spt := le16 b 24, heads := le16 b 26,
    tot32 := le32 b 32, fat32 := le32 b 36 }

def secSize (b : Bpb) : Nat := b.bps
def blockSize (b : Bpb) : Nat := b.spc * b.bps
def totSec (b : Bpb) : Nat := if b.tot16 = 0 then b.tot32 else b.tot16
def resSecs (b : Bpb) : Nat := b.rsvd
def rootDirSecs (b : Bpb) : Nat :=
  let entries := b.rootEnt0 + 256 * b.rootEnt1
  if b.bps = 0 then 65535 else (entries * 32 + b.bps - 1) / b.bps
/-- `root_dir_entries()` — **`u16::from_be_bytes`** in the Rust (used only to size the directory buffer of `format`) -/
def rootDirEntries (b : Bpb) : Nat := 256 * b.rootEnt0 + b.rootEnt1
def fatSecs (b : Bpb) : Nat := if b.fat16 = 0 then b.fat32 else b.fat16
def rootBeg (b : Bpb) : Nat := b.rsvd + b.nfat * b.fatSecs
def firstDataSec (b : Bpb) : Nat := b.rsvd + b.nfat * b.fatSecs + b.rootDirSecs
def dataRgnSecs (b : Bpb) : Nat := b.totSec - b.firstDataSec
def clusterCountAbstract (b : Bpb) : Nat := b.dataRgnSecs / b.spc
def fatType (b : Bpb) : Nat :=
  if b.clusterCountAbstract < 4085 then 12 else if b.clusterCountAbstract < 65525 then 16 else 32
def clusterCountUsable (b : Bpb) : Nat :=
  min (b.dataRgnSecs / b.spc) (b.fatSecs * b.secSize * 8 / b.fatType - firstDataCluster)
/-- `first_cluster_sec(n)` for `n ≥ 2` -/
def firstClusterSec (b : Bpb) (n : Nat) : Nat := (n - 2) * b.spc + b.firstDataSec

/-- the cases in which the Rust's `u64` arithmetic on the BPB does not panic -/
def ok (b : Bpb) : Bool :=
  decide (b.spc ≠ 0) && decide (b.firstDataSec ≤ b.totSec) && decide (firstDataCluster ≤ b.fatSecs * b.secSize * 8 / b.fatType)

end Bpb

/-! ## the FAT (`bios/fat.rs`), buffer = `Array Nat` -/

/-- `get_cluster(n, typ, buf)` -/
def getCluster (typ : Nat) (buf : Array Nat) (n : Nat) : R Nat :=
  if typ = 12 then
    let o := n + n / 2
    match buf[o]?, buf[o + 1]? with
    | some a, some b =>
      let w := a + 256 * b
      .ok (if n % 2 = 1 then w / 16 else w % 4096)
    | _, _ => .error .panic
  else if typ = 16 then
    match buf[2 * n]?, buf[2 * n + 1]? with
    | some a, some b => .ok (a + 256 * b)
    | _, _ => .error .panic
  else .error .unmodelled

/-- `set_cluster(n, val, typ, buf)`; `val as u16` truncates, `<< 4` drops the high bits -/
def setCluster (typ : Nat) (buf : Array Nat) (n val : Nat) : R (Array Nat) :=
  if typ = 12 then
    let o := n + n / 2
    match buf[o]?, buf[o + 1]? with
    | some a, some b =>
      let w := a + 256 * b
      let v16 := if n % 2 = 1 then (val % 65536 * 16) % 65536 + w % 16 else val % 4096 + w / 4096 * 4096
      .ok ((buf.setIfInBounds o (v16 % 256)).setIfInBounds (o + 1) (v16 / 256))
    | _, _ => .error .panic
  else if typ = 16 then
    if 2 * n + 1 < buf.size then
      .ok ((buf.setIfInBounds (2 * n) (val % 256)).setIfInBounds (2 * n + 1) (val / 256 % 256))
    else .error .panic
  else .error .unmodelled

def eocMin (typ : Nat) : Nat := if typ = 12 then 0xff8 else 0xfff8
def eocSet (typ : Nat) : Nat := if typ = 12 then 0xfff else 0xffff
def badCluster (typ : Nat) : Nat := if typ = 12 then 0xff7 else 0xfff7

def isDamaged (typ : Nat) (buf : Array Nat) (n : Nat) : R Bool := (getCluster typ buf n).map (fun v => v == badCluster typ)
def isFree (typ : Nat) (buf : Array Nat) (n : Nat) : R Bool := (getCluster typ buf n).map (fun v => v == 0)
def isLast (typ : Nat) (buf : Array Nat) (n : Nat) : R Bool := (getCluster typ buf n).map (fun v => decide (eocMin typ ≤ v))
def deallocate (typ : Nat) (buf : Array Nat) (n : Nat) : R (Array Nat) := setCluster typ buf n 0
def markLast (typ : Nat) (buf : Array Nat) (n : Nat) : R (Array Nat) := setCluster typ buf n (eocSet typ)

/-- the loop of `repair(typ, working, bak, cluster_end)` -/
def repairLoop (typ : Nat) (bak : Array Nat) (clusterEnd : Nat) : List Nat → Array Nat → R (Array Nat)
  | [], w => .ok w
  | n :: ns, w => do
    let v1 ← getCluster typ w n
    let v2 ← getCluster typ bak n
    let dmg1 ← isDamaged typ w n
    let dmg2 ← isDamaged typ bak n
    let g1 := decide (firstDataCluster ≤ v1) && decide (v1 < clusterEnd) && !dmg1
    let g2 := decide (firstDataCluster ≤ v2) && decide (v2 < clusterEnd) && !dmg2
    let v := if !g1 && g2 then v2 else v1
    let w' ← setCluster typ w n v
    repairLoop typ bak clusterEnd ns w'

/-! ## the disk: image + boot sector buffer (its BPB foundation) + FAT buffer -/

structure Disk where
  raw : Raw
  /-- `self.boot_sector.foundation` -/
  bpb : Bpb
  /-- `self.typ`, computed once by `from_img` (`boot_sector.fat_type()`) -/
  typ : Nat
  /-- `self.maybe_fat` -/
  fat : Option (Array Nat) := none
  /-- variant bit (not a field of the Rust): `true` = `Directory::build_files` as written at the pinned HEAD, which
  puts the volume-label entry into the map of files, so that a path resolves to the label (`get` fetches it as an
  empty file, `delete` removes the label, `rename`/`lock` change it, `put` of that name is a duplicate);
  `false` = repaired (`proposed_fixes/fat-label-not-a-file.diff`): the label is skipped.  The tie probes the real code. -/
  labelFiles : Bool := true
  deriving Inhabited

/-- `Disk::from_img(img, Some(boot))` after the boot sector has been written -/
def Disk.ofImg (raw : Raw) (bpb : Bpb) (labelFiles : Bool := true) : Disk :=
  { raw := raw, bpb := bpb, typ := bpb.fatType, fat := none, labelFiles := labelFiles }

def M (α : Type) : Type := Disk → R α × Disk

namespace M
def pure {α : Type} (a : α) : M α := fun d => (.ok a, d)
def bind {α β : Type} (m : M α) (f : α → M β) : M β := fun d =>
  match m d with
  | (.ok a, d') => f a d'
  | (.error e, d') => (.error e, d')
def fail {α : Type} (e : Err) : M α := fun d => (.error e, d)
/-- a pure computation that may fail -/
def lift {α : Type} (x : R α) : M α := fun d => (x, d)
def get : M Disk := fun d => (.ok d, d)
def setRaw (r : Raw) : M Unit := fun d => (.ok (), { d with raw := r })
def setFat (f : Array Nat) : M Unit := fun d => (.ok (), { d with fat := some f })
/-- `self.maybe_fat = None` -/
def dropFat : M Unit := fun d => (.ok (), { d with fat := none })
end M

instance : Monad M where
  pure := M.pure
  bind := M.bind

open M in
/-- `get_chs`: the image geometry is the BPB's, so the answer is the unit number itself -/
def getChs (d : Disk) (lsec : Nat) : R Nat :=
  if d.bpb.spt = 0 ∨ d.bpb.heads = 0 then .error .sectorNotFound
  else if lsec / d.bpb.spt ≥ d.raw.count / d.bpb.spt then .error .sectorNotFound
  else .ok lsec

/-- `Img::read_sector` -/
def imgReadSector (r : Raw) (lsec : Nat) : R Bytes :=
  match r.units[lsec]? with
  | some b => .ok b
  | none => .error .imgErr

/-- `Img::write_sector` -/
def imgWriteSector (r : Raw) (lsec : Nat) (dat : Bytes) : R Raw :=
  if lsec < r.units.size then .ok { r with units := r.units.setIfInBounds lsec (quantize dat r.unitLen) } else .error .imgErr

def readSector (lsec : Nat) : M Bytes := do
  let d ← M.get
  let s ← M.lift (getChs d lsec)
  M.lift (imgReadSector d.raw s)

def writeSector (lsec : Nat) (dat : Bytes) : M Unit := do
  let d ← M.get
  let s ← M.lift (getChs d lsec)
  let r ← M.lift (imgWriteSector d.raw s dat)
  M.setRaw r

/-- `for isec in .. { buf.append(read_sector(isec)) }` -/
def readSectors : List Nat → M Bytes
  | [] => pure []
  | s :: ss => do
    let b ← readSector s
    let rest ← readSectors ss
    pure (b ++ rest)

/-- `export_clus(c)` + `Block::FAT::get_lsecs`: the logical sectors of cluster `c` (`c - 2` underflows for `c < 2`) -/
def clusSecs (b : Bpb) (c : Nat) : R (List Nat) :=
  if c < 2 then .error .panic else .ok (List.range' (b.firstClusterSec c) b.spc)

/-- `Img::read_block(Block::FAT)` -/
def imgReadBlock (r : Raw) : List Nat → R Bytes
  | [] => .ok []
  | s :: ss =>
    match r.units[s]? with
    | none => .error .imgErr
    | some b =>
      match imgReadBlock r ss with
      | .error e => .error e
      | .ok rest => .ok (app b rest)

def writeSecs (r : Raw) : List Nat → Bytes → Raw
  | [], _ => r
  | s :: ss, dat => writeSecs { r with units := r.units.setIfInBounds s (dat.take r.unitLen) } ss (dat.drop r.unitLen)

/-- `Img::write_block(Block::FAT, dat)`: the whole block is refused before any part is written -/
def imgWriteBlock (r : Raw) (secs : List Nat) (dat : Bytes) : R Raw :=
  if secs.all (fun s => decide (s < r.units.size)) then .ok (writeSecs r secs (quantize dat (secs.length * r.unitLen)))
  else .error .imgErr

/-- `read_block(data, iblock, 0)` into a fresh buffer of one block -/
def readBlock (c : Nat) : M Bytes := do
  let d ← M.get
  let secs ← M.lift (clusSecs d.bpb c)
  let buf ← M.lift (imgReadBlock d.raw secs)
  if buf.length < d.bpb.blockSize then M.fail .panic else pure (takeN buf d.bpb.blockSize)

/-- `zap_block(data, iblock, 0)` -/
def zapBlock (data : Bytes) (c : Nat) : M Unit := do
  let d ← M.get
  let secs ← M.lift (clusSecs d.bpb c)
  let r ← M.lift (imgWriteBlock d.raw secs (takeN data d.bpb.blockSize))
  M.setRaw r

/-! ## the FAT buffer -/

/-- `for fat in 1..num_fats { sec1 += fat_secs; bak = …; repair(typ, ans, bak, cluster_end) }` -/
def backupLoop : List Nat → Array Nat → M (Array Nat)
  | [], ans => pure ans
  | k :: ks, ans => do
    let d ← M.get
    let bak ← readSectors (List.range' (d.bpb.resSecs + k * d.bpb.fatSecs) d.bpb.fatSecs)
    let clusterEnd := firstDataCluster + d.bpb.clusterCountUsable
    let ans' ← M.lift (repairLoop d.typ bak.toArray clusterEnd (List.range' firstDataCluster d.bpb.clusterCountUsable) ans)
    backupLoop ks ans'

/-- `open_fat_buffer` -/
def openFatBuffer : M Unit := do
  let d ← M.get
  match d.fat with
  | some _ => pure ()
  | none =>
    let ans ← readSectors (List.range' d.bpb.resSecs d.bpb.fatSecs)
    let ans ← backupLoop (List.range' 1 (d.bpb.nfat - 1)) ans.toArray
    M.setFat ans

/-- `get_fat_buffer` -/
def getFatBuffer : M (Array Nat) := fun d =>
  match d.fat with
  | some f => (.ok f, d)
  | none =>
    match openFatBuffer d with
    | (.error e, d') => (.error e, d')
    | (.ok _, d') =>
      match d'.fat with
      | some f => (.ok f, d')
      | none => (.error .panic, d')

/-- the sector loop of `writeback_fat_buffer`: `write_sector(c,h,s,&buf[offset..])` (the image keeps one sector of it) -/
def wbLoop (buf : Array Nat) : List (Nat × Nat) → M Unit
  | [] => pure ()
  | (s, off) :: rest => do
    let d ← M.get
    let s' ← M.lift (getChs d s)
    if off > buf.size then M.fail .panic else
    let r ← M.lift (imgWriteSector d.raw s' (buf.extract off (off + d.raw.unitLen)).toList)
    M.setRaw r
    wbLoop buf rest

/-- `writeback_fat_buffer`: every FAT copy receives the buffer -/
def writebackFatBuffer : M Unit := do
  let d ← M.get
  match d.fat with
  | none => pure ()
  | some buf =>
    let b := d.bpb
    wbLoop buf ((List.range b.nfat).flatMap (fun k => (List.range b.fatSecs).map (fun j => (b.resSecs + k * b.fatSecs + j, j * b.secSize))))

/-- `get_img()`: what the harness (and every caller that wants the image) sees -/
def flush (d : Disk) : R Unit × Disk := writebackFatBuffer d

def clusInRng (b : Bpb) (c : Nat) : Bool := decide (firstDataCluster ≤ c) && decide (c < firstDataCluster + b.clusterCountUsable)

def isBlockFree (c : Nat) : M Bool := fun d =>
  match getFatBuffer d with
  | (.error e, d') => (.error e, d')
  | (.ok f, d') => (isFree d'.typ f c, d')

def freeLoop : List Nat → Nat → M Nat
  | [], free => pure free
  | c :: cs, free => do
    let b ← isBlockFree c
    freeLoop cs (if b then free + 1 else free)

/-- `num_free_blocks` -/
def numFreeBlocks : M Nat := do
  let d ← M.get
  freeLoop (List.range' firstDataCluster d.bpb.clusterCountUsable) 0

def availLoop : List Nat → M (Option Nat)
  | [] => pure none
  | c :: cs => do
    let b ← isBlockFree c
    if b then pure (some c) else availLoop cs

/-- `get_available_block`: first fit -/
def getAvailableBlock : M (Option Nat) := do
  let d ← M.get
  availLoop (List.range' firstDataCluster d.bpb.clusterCountUsable)

/-- `deallocate_block(n)`: free `n`, return the next cluster of its chain -/
def deallocateBlock (n : Nat) : M (Option Nat) := do
  let f ← getFatBuffer
  let d ← M.get
  let last ← M.lift (isLast d.typ f n)
  if last then
    let f' ← M.lift (deallocate d.typ f n)
    M.setFat f'
    pure none
  else
    let next ← M.lift (getCluster d.typ f n)
    let f' ← M.lift (deallocate d.typ f n)
    M.setFat f'
    pure (some next)

/-- `write_block(data, prev, curr, 0)`: data, then `prev → curr`, then `curr = EOC` -/
def writeBlock (data : Bytes) (prev curr : Nat) : M Unit := do
  zapBlock data curr
  let f ← getFatBuffer
  let d ← M.get
  let f1 ← if prev ≥ 2 then M.lift (setCluster d.typ f prev curr) else pure f
  let f2 ← M.lift (markLast d.typ f1 curr)
  M.setFat f2

/-- `next_cluster` -/
def nextCluster (n : Nat) : M (Option Nat) := do
  let d ← M.get
  if !clusInRng d.bpb n then M.fail .badFAT else
  let f ← getFatBuffer
  let dmg ← M.lift (isDamaged d.typ f n)
  if dmg then M.fail .badFAT else
  let last ← M.lift (isLast d.typ f n)
  if last then pure none else
  let v ← M.lift (getCluster d.typ f n)
  pure (some v)

def lastLoop : Nat → Nat → M Nat
  | 0, _ => M.fail .badFAT
  | fuel + 1, curr => do
    match ← nextCluster curr with
    | none => pure curr
    | some nx => lastLoop fuel nx

/-- `last_cluster` -/
def lastCluster (initial : Nat) : M Nat := do
  let d ← M.get
  lastLoop d.bpb.clusterCountUsable initial

def chainDataLoop : Nat → Nat → M Bytes
  | 0, _ => M.fail .badFAT
  | fuel + 1, curr => do
    let d ← M.get
    if !clusInRng d.bpb curr then M.fail .badFAT else
    let data ← readBlock curr
    match ← nextCluster curr with
    | none => pure data
    | some nx => do
      let rest ← chainDataLoop fuel nx
      pure (data ++ rest)

/-- `get_cluster_chain_data` -/
def getClusterChainData (initial : Nat) : M Bytes := do
  if initial = 0 then pure [] else
  let d ← M.get
  if !clusInRng d.bpb initial then M.fail .firstClusterInvalid else
  chainDataLoop d.bpb.clusterCountUsable initial

def deallocLoop : Nat → Nat → M Unit
  | 0, _ => M.fail .badFAT
  | fuel + 1, curr => do
    match ← deallocateBlock curr with
    | none => pure ()
    | some nx => deallocLoop fuel nx

/-- `deallocate_cluster_chain_data` -/
def deallocateChain (initial : Nat) : M Unit := do
  if initial = 0 then pure () else
  let d ← M.get
  if !clusInRng d.bpb initial then M.fail .firstClusterInvalid else
  deallocLoop d.bpb.clusterCountUsable initial

/-! ## names (`pack.rs`) -/

/-- `pack::INVALID_CHARS` = `"*+,./:;<=>?[\]|` -/
def invalidChars : List Nat := [34, 42, 43, 44, 46, 47, 58, 59, 60, 61, 62, 63, 91, 92, 93, 124]

def isAsciiControl (c : Nat) : Bool := c < 32 || c == 127

def charOk (c : Nat) : Bool := c < 128 && !invalidChars.contains c && !isAsciiControl c

/-- `is_name_valid` -/
def isNameValid (s : Bytes) : Bool :=
  let it := splitOn 46 s
  if it.length > 2 then false else
  let base := it.headD []
  let ext := (it.drop 1).headD []
  (base ++ ext).all charOk && decide (1 ≤ base.length) && decide (base.length ≤ 8) && decide (ext.length ≤ 3)

/-- `is_label_valid` -/
def isLabelValid (s : Bytes) : Bool := decide (1 ≤ s.length) && decide (s.length ≤ 11) && s.all charOk

def padTo (s : Bytes) (n : Nat) : Bytes := s.take n ++ List.replicate (n - s.length) 32

/-- `string_to_file_name` → the 11 bytes name ++ ext -/
def stringToFileName (s : Bytes) : Bytes :=
  if s = [46] then 46 :: List.replicate 10 32
  else if s = [46, 46] then 46 :: 46 :: List.replicate 9 32
  else
    let it := splitOn 46 (upper s)
    padTo (it.headD []) 8 ++ padTo (if it.length = 1 then [] else (it.drop 1).headD []) 3

/-- `string_to_label_name` → the 11 bytes -/
def stringToLabelName (s : Bytes) : Bytes := padTo (upper s) 11

def isDot (e : Bytes) : Bool := e.take 11 == 46 :: List.replicate 10 32
def isDotDot (e : Bytes) : Bool := e.take 11 == 46 :: 46 :: List.replicate 9 32

/-- `file_name_to_split_string(entry.name, entry.ext)`; `none` = a byte ≥ 128 (outside the model) -/
def fileNameToSplit (e : Bytes) : Option (Bytes × Bytes) :=
  if isDot e then some ([46], [])
  else if isDotDot e then some ([46, 46], [])
  else if (e.take 11).any (fun c => c ≥ 128) then none
  else some (trimEnd (e.take 8), trimEnd ((e.drop 8).take 3))

/-- `file_name_to_string` -/
def fileNameToString (e : Bytes) : Option Bytes :=
  if isDot e then some [46]
  else if isDotDot e then some [46, 46]
  else if (e.take 11).any (fun c => c ≥ 128) then none
  else some (trimEnd (e.take 8) ++ [46] ++ trimEnd ((e.drop 8).take 3))

/-! ## directory entries: 32 bytes, fields at fixed offsets (`directory.rs`) -/

namespace Entry
def attr (e : Bytes) : Nat := e.getD 11 0
def cluster1Low (e : Bytes) : Nat := le16 e 26
def fileSize (e : Bytes) : Nat := le32 e 28
def setAttrField (e : Bytes) (a : Nat) : Bytes := splice e 11 [a]
/-- `set_attr(mask)`: `attr |= mask` -/
def setAttr (e : Bytes) (mask : Nat) : Bytes := setAttrField e (attr e ||| mask)
/-- `clear_attr(mask)`: `attr &= !mask` -/
def clearAttr (e : Bytes) (mask : Nat) : Bytes := setAttrField e (attr e &&& (255 - mask))
def getAttr (e : Bytes) (mask : Nat) : Bool := (attr e &&& mask) > 0
/-- `set_cluster`: low word at 26, high word at 20 -/
def setCluster (e : Bytes) (c : Nat) : Bytes := splice (splice e 26 (u16le c)) 20 (u16le (c / 65536))
/-- `rename` -/
def rename (e : Bytes) (newName : Bytes) : Bytes := splice e 0 (stringToFileName newName)
/-- `erase(false)` -/
def erase (e : Bytes) : Bytes := splice e 0 [0xe5]
end Entry

/-- `pack_tenths`, `pack_time`, `pack_date` of the (pinned) clock -/
structure Stamp where
  tenths : Nat
  time : Bytes
  date : Bytes
  deriving Repr, Inhabited

/-- the 32 bytes of `Entry::create(name, now)` with attribute `attr` -/
def entryCreate (name11 : Bytes) (attr : Nat) (now : Stamp) : Bytes :=
  name11.take 11 ++ [attr, 0, now.tenths] ++ now.time.take 2 ++ now.date.take 2 ++ now.date.take 2 ++ [0, 0] ++
    now.time.take 2 ++ now.date.take 2 ++ [0, 0] ++ [0, 0, 0, 0]

inductive EntryType where
  | free | freeAndNoMore | file | directory | volumeLabel | longName
  deriving DecidableEq, Repr

/-- `Directory::get_type` on the 32 bytes of an entry -/
def entryType (e : Bytes) : EntryType :=
  let nm0 := e.getD 0 0
  let a := e.getD 11 0
  if nm0 = 0xe5 then .free
  else if nm0 = 0 then .freeAndNoMore
  else if a &&& LONG_NAME ≥ LONG_NAME then .longName
  else if a &&& VOLUME_ID > 0 then .volumeLabel
  else if a &&& DIRECTORY > 0 then .directory
  else .file

abbrev Directory := List Bytes

def chunkBy (q : Nat) : Nat → Bytes → List Bytes
  | 0, _ => []
  | n + 1, b => b.take q :: chunkBy q n (b.drop q)

/-- `Directory::from_bytes` -/
def dirOfBytes (buf : Bytes) : Directory := chunkBy entrySize (buf.length / entrySize) buf

/-- `dir.entries[i]` (panics out of range) -/
def dirEntry (dir : Directory) (i : Nat) : R Bytes :=
  match dir[i]? with
  | some e => .ok e
  | none => .error .panic

/-- `dir.set_entry(i, e)` -/
def dirSet (dir : Directory) (i : Nat) (e : Bytes) : R Directory :=
  if i < dir.length then .ok (dir.set i e) else .error .panic

/-- `FileInfo`, the fields the modelled operations read -/
structure FInfo where
  isRoot : Bool := false
  /-- `wildcard.len() > 0` -/
  wildcard : Bool := false
  idx : Nat := 0
  readOnly : Bool := false
  volumeId : Bool := false
  directory : Bool := false
  eof : Nat := 0
  cluster1 : Option Nat := none
  deriving Repr, Inhabited

def FInfo.root : FInfo := { isRoot := true, directory := true }
def FInfo.wild : FInfo := { wildcard := true, directory := true }

/-- the loop of `build_files`: state = (bad names so far, map so far as an association list in entry order) -/
def buildLoop (lf : Bool) : List Bytes → Nat → Nat → List (Bytes × FInfo) → R (List (Bytes × FInfo))
  | [], _, _, acc => .ok acc
  | e :: es, i, bad, acc =>
    match entryType e with
    | .free => buildLoop lf es (i + 1) bad acc
    | .freeAndNoMore => .ok acc
    | t =>
      -- repaired variant: `if etyp==EntryType::VolumeLabel { continue; }`
      if t = .volumeLabel && !lf then buildLoop lf es (i + 1) bad acc else
      if bad > 2 then .error .syntax else
      match fileNameToSplit e with
      | none => .error .unmodelled
      | some (name, typ) =>
        let key := name ++ [46] ++ typ
        if (acc.lookup key).isSome then .error .duplicateFile else
        let a := Entry.attr e
        let fi : FInfo := { idx := i, readOnly := (a &&& READ_ONLY) > 0, volumeId := (a &&& VOLUME_ID) > 0,
                            directory := (a &&& DIRECTORY) > 0, eof := Entry.fileSize e, cluster1 := some (Entry.cluster1Low e) }
        buildLoop lf es (i + 1) (if isNameValid key then bad else bad + 1) (acc ++ [(key, fi)])

/-- `Directory::build_files` (FAT12/16); `lf` = the variant bit `Disk.labelFiles` -/
def buildFiles (lf : Bool) (dir : Directory) : R (List (Bytes × FInfo)) := buildLoop lf dir 0 0 []

/-- `dir.build_files(self.typ)` in the state monad -/
def buildFilesM (dir : Directory) : M (List (Bytes × FInfo)) := fun d => (buildFiles d.labelFiles dir, d)

/-- `str::split_once(sep)` on bytes: the parts before and after the first `sep` -/
def splitOnce (sep : Nat) : Bytes → Option (Bytes × Bytes)
  | [] => none
  | c :: cs =>
    if c = sep then some ([], cs)
    else match splitOnce sep cs with
      | none => none
      | some (a, b) => some (c :: a, b)

/-- the key `get_file` looks up: base and extension trimmed separately (as the stored, blank padded fields are) -/
def lookupKey (name : Bytes) : Bytes :=
  match splitOnce 46 name with
  | some (base, ext) => trimEnd base ++ [46] ++ trimEnd ext
  | none => trimEnd name ++ [46]

/-- `directory::get_file` -/
def getFile (name : Bytes) (files : List (Bytes × FInfo)) : Option FInfo :=
  let trimmed := lookupKey name
  match files.lookup trimmed with
  | some f => some f
  | none => files.lookup (upper trimmed)

/-! ## directories on the disk -/

/-- `get_root_dir().1` (FAT12/16) -/
def getRootDir : M Directory := do
  let d ← M.get
  let buf ← readSectors (List.range' d.bpb.rootBeg d.bpb.rootDirSecs)
  pure (dirOfBytes buf)

/-- `get_directory(cluster1)` -/
def getDirectory (cluster1 : Option Nat) : M Directory :=
  match cluster1 with
  | some c => do
    let buf ← getClusterChainData c
    pure (dirOfBytes buf)
  | none => getRootDir

/-- `expand_directory(dir, cluster1)` -/
def expandDirectory (dir : Directory) (cluster1 : Nat) : M Directory := do
  match ← getAvailableBlock with
  | none => M.fail .diskFull
  | some newCluster =>
    let d ← M.get
    let newEntries := d.bpb.blockSize / entrySize
    let last ← lastCluster cluster1
    let f ← getFatBuffer
    let f1 ← M.lift (setCluster d.typ f last newCluster)
    let f2 ← M.lift (markLast d.typ f1 newCluster)
    M.setFat f2
    zapBlock (zeros d.bpb.blockSize) newCluster
    pure (dir ++ List.replicate newEntries (zeros entrySize))

def hopLoop : Nat → Nat → M Nat
  | 0, c => pure c
  | n + 1, c => do
    let f ← getFatBuffer
    let d ← M.get
    let c' ← M.lift (getCluster d.typ f c)
    hopLoop n c'

/-- `for i in beg..beg+n { data.append(dir.get_raw_entry(i)) }` -/
def rawEntries (dir : Directory) (beg n : Nat) : R Bytes :=
  if beg + n ≤ dir.length then .ok ((dir.drop beg).take n).flatten
  else .error .panic

/-- `writeback_directory_entry(loc, entry)` with `loc = (cluster1, idx, dir)` -/
def writebackDirectoryEntry (cluster1 : Option Nat) (idx : Nat) (dir : Directory) (entry : Bytes) : M Unit := do
  let d ← M.get
  let epc := d.bpb.blockSize / entrySize
  let eps := d.bpb.secSize / entrySize
  let dir' ← M.lift (dirSet dir idx entry)
  match cluster1 with
  | some c1 =>
    -- `idx / epc` with `epc = 0` panics
    if epc = 0 then M.fail .panic else
    let hops := idx / epc
    let cluster ← hopLoop hops c1
    let data ← M.lift (rawEntries dir' (hops * epc) epc)
    zapBlock data cluster
  | none =>
    if eps = 0 then M.fail .panic else
    let lsec := d.bpb.rootBeg + idx / eps
    let data ← M.lift (rawEntries dir' ((lsec - d.bpb.rootBeg) * eps) eps)
    writeSector lsec data

/-- first entry of type `Free` or `FreeAndNoMore` -/
def firstFreeEntry : List Bytes → Nat → Option Nat
  | [], _ => none
  | e :: es, i =>
    match entryType e with
    | .free | .freeAndNoMore => some i
    | _ => firstFreeEntry es (i + 1)

/-- `get_available_entry(dir, maybe_cluster1)` → (entry index, directory buffer, possibly grown) -/
def getAvailableEntry (dir : Directory) (cluster1 : Option Nat) : M (Nat × Directory) :=
  match firstFreeEntry dir 0 with
  | some i => pure (i, dir)
  | none =>
    match cluster1 with
    | some c1 => do
      let dir' ← expandDirectory dir c1
      pure (dir.length, dir')
    | none => M.fail .directoryFull

/-! ## paths -/

/-- `normalize_path` -/
def normalizePath (path : Bytes) : R (List Bytes) :=
  let n0 := if path.isEmpty then [47] else path
  let n1 := if n0.head? ≠ some 47 then 47 :: n0 else n0
  if n1.length > 63 then .error .syntax else
  let nodes := (splitOn 47 n1).map upper
  if (nodes.zipIdx.any (fun (s, i) => decide (1 ≤ i) && s.isEmpty && decide (i ≠ nodes.length - 1))) then .error .syntax
  else .ok (nodes.drop 1)

/-- `split_path` → (parent path, name) -/
def splitPath (path : Bytes) : R (Bytes × Bytes) := do
  let nodes ← normalizePath path
  if nodes.length = 0 then .error .fileNotFound else
  let nodes := if (nodes.getLast?.getD []).isEmpty then nodes.dropLast else nodes
  -- `path_nodes[path_nodes.len()-1]` on an empty vector
  match nodes.getLast? with
  | none => .error .panic
  | some name => .ok ((nodes.dropLast.map (fun s => 47 :: s)).flatten, name)

/-- the level loop of `goto_path`; `rest` = the nodes from `level` on, `n - level` = `rest.length` -/
def gotoLoop : List Bytes → List (Bytes × FInfo) → FInfo → M (Option FInfo × FInfo)
  | [], _, _ => M.fail .fileNotFound
  | subdir :: rest, files, parent => do
    let terminus := rest.isEmpty
    let nullTerminus := decide (rest.length = 1) && (rest.getLast?.getD []).isEmpty
    if terminus && (subdir.contains 42 || subdir.contains 63) then pure (some parent, FInfo.wild) else
    match getFile subdir files with
    | none => M.fail .fileNotFound
    | some curr =>
      if terminus || nullTerminus then pure (some parent, curr) else
      -- a path does not lead through a file (fix 18164ab)
      if !curr.directory then M.fail .fileNotFound else do
      let newDir ← getDirectory curr.cluster1
      let files' ← buildFilesM newDir
      gotoLoop rest files' curr

/-- `goto_path` → (maybe parent, file) -/
def gotoPath (path : Bytes) : M (Option FInfo × FInfo) := do
  let root ← getRootDir
  let nodes ← M.lift (normalizePath path)
  if nodes = [[]] then pure (none, FInfo.root) else
  let files ← buildFilesM root
  gotoLoop nodes files FInfo.root

/-- run `m`; any error becomes `none` (the Rust's `if let Ok(..) = …`); state changes are kept -/
def tryM {α : Type} (m : M α) : M (Option α) := fun d =>
  match m d with
  | (.ok a, d') => (.ok (some a), d')
  | (.error _, d') => (.ok none, d')

/-- `prepare_to_write(path)` → (name, cluster1 of the directory, entry index, directory buffer) -/
def prepareToWrite (path : Bytes) : M (Bytes × Option Nat × Nat × Directory) := do
  let (parentPath, newName) ← M.lift (splitPath path)
  if !isNameValid newName then M.fail .syntax else
  match ← tryM (gotoPath parentPath) with
  | none => M.fail .fileNotFound
  | some (_, parent) =>
    -- the parent of a new file or directory has to be a directory (fix 18164ab)
    if !parent.directory then M.fail .fileNotFound else
    let searchDir ← getDirectory parent.cluster1
    let files ← buildFilesM searchDir
    match getFile newName files with
    | some _ => M.fail .duplicateFile
    | none =>
      let (i, dir') ← getAvailableEntry searchDir parent.cluster1
      pure (newName, parent.cluster1, i, dir')

/-! ## `put` / `write_file` -/

/-- what `put` uses of a `FileImage` -/
structure FImg where
  /-- `fimg.file_system == FS_NAME` -/
  fsOk : Bool := true
  chunkLen : Nat
  fullPath : Bytes
  /-- the vectors `eof`, `access`, `created`, `modified` -/
  eof : Bytes
  access : Bytes
  created : Bytes
  modified : Bytes
  /-- the `HashMap<usize,Vec<u8>>` as an association list with distinct keys -/
  chunks : List (Nat × Bytes)
  deriving Repr, Inhabited

/-- `fimg.end()` -/
def FImg.end (f : FImg) : Nat := f.chunks.foldl (fun m c => max m (c.1 + 1)) 0

/-- `fimg.access.len()>0 && fimg.access[0] & (VOLUME_ID | DIRECTORY) != 0`: the file image carries the volume label or
directory attribute (`put` refuses it) -/
def FImg.dirOrLabel (f : FImg) : Bool :=
  match f.access.head? with
  | some a => decide (a &&& (VOLUME_ID ||| DIRECTORY) ≠ 0)
  | none => false

/-- what `put` checks of the file image before it touches anything (fix 7da7b06): every chunk `0 ..< end` is present and no
longer than `chunk_len`, and the four size bytes (if there are four) do not exceed `end · chunk_len` -/
def FImg.storable (f : FImg) : Bool :=
  (List.range f.end).all (fun k => match f.chunks.lookup k with
    | some data => decide (data.length ≤ f.chunkLen)
    | none => false) &&
  (decide (f.eof.length < 4) || decide (le32 f.eof 0 ≤ f.end * f.chunkLen))

/-- `fimg_to_metadata(fimg, true)`: the slices panic when the vectors are too short -/
def fimgToMetadata (e : Bytes) (f : FImg) : R Bytes :=
  if f.eof.length < 4 ∨ f.access.length < 1 ∨ f.created.length < 5 ∨ f.modified.length < 4 then .error .panic else
  .ok (splice (splice (splice (splice (splice (splice (splice (splice e 28 (f.eof.take 4)) 11 (f.access.take 1)) 13 (f.created.take 1))
    14 ((f.created.drop 1).take 2)) 16 ((f.created.drop 3).take 2)) 22 (f.modified.take 2)) 24 ((f.modified.drop 2).take 2))
    18 ((f.modified.drop 2).take 2))

/-- the cluster loop of `write_file`: state = (entry, prev) -/
def writeLoop (chunks : List (Nat × Bytes)) : List Nat → Bytes → Nat → M Bytes
  | [], entry, _ => pure entry
  | count :: rest, entry, prev =>
    match chunks.lookup count with
    | none => M.fail .writeFault
    | some data => do
      match ← getAvailableBlock with
      | none => M.fail .panic
      | some curr =>
        writeBlock data prev curr
        writeLoop chunks rest (if count = 0 then Entry.setCluster entry curr else entry) curr

/-- `write_file(loc, fimg)` -/
def writeFile (cluster1 : Option Nat) (idx : Nat) (dir : Directory) (f : FImg) : M Nat := do
  let entry ← M.lift (dirEntry dir idx)
  let free ← numFreeBlocks
  if free < f.end then M.fail .diskFull else
  let entry ← writeLoop f.chunks (List.range f.end) entry 0
  let entry := Entry.setAttr entry ARCHIVE
  writebackDirectoryEntry cluster1 idx dir entry
  pure (Entry.fileSize entry)

/-- `put(fimg)`; `now` is the clock of `Entry::create(name, None)` (every field it sets is overwritten from the file image) -/
def put (f : FImg) (now : Stamp) : M Nat := do
  if !f.fsOk then M.fail .writeFault else
  let d ← M.get
  if f.chunkLen ≠ d.bpb.blockSize then M.fail .incorrectDOS else
  -- `fimg.access.len()>0 && fimg.access[0] & (VOLUME_ID | DIRECTORY) != 0`
  if f.dirOrLabel then M.fail .writeFault else
  if !f.storable then M.fail .writeFault else
  let (name, cluster1, idx, dir) ← prepareToWrite f.fullPath
  let entry ← M.lift (fimgToMetadata (entryCreate (stringToFileName name) 0 now) f)
  let dir' ← M.lift (dirSet dir idx entry)
  writeFile cluster1 idx dir' f

/-! ## `modify`, `rename`, `lock`, `unlock`, `retype` -/

/-- `modify(loc, maybe_set, maybe_clear, maybe_new_name)` -/
def modify (cluster1 : Option Nat) (idx : Nat) (dir : Directory) (set clear : Option Nat) (newName : Option Bytes) : M Unit := do
  let entry ← M.lift (dirEntry dir idx)
  if Entry.getAttr entry READ_ONLY && newName.isSome then M.fail .writeProtect else
  let entry := match set with | some m => Entry.setAttr entry m | none => entry
  let entry := match clear with | some m => Entry.clearAttr entry m | none => entry
  match (match newName with
         | none => Except.ok entry
         | some nn => if isNameValid nn then Except.ok (Entry.rename entry nn) else Except.error Err.syntax) with
  | .error e => M.fail e
  | .ok entry =>
    writebackDirectoryEntry cluster1 idx dir (Entry.setAttr entry ARCHIVE)

/-- `ok_to_rename(old_path, new_name)` -/
def okToRename (oldPath newName : Bytes) : M Unit := do
  if !isNameValid newName then M.fail .syntax else
  match ← tryM (gotoPath oldPath) with
  | none => M.fail .fileNotFound
  | some (none, _) => M.fail .general
  | some (some parent, _) =>
    let searchDir ← getDirectory parent.cluster1
    let files ← buildFilesM searchDir
    match getFile newName files with
    | some _ => M.fail .duplicateFile
    | none => pure ()

/-- the common shape of `lock`/`unlock`/`rename`/`retype` after `goto_path` -/
def modifyAt (parent : Option FInfo) (fi : FInfo) (set clear : Option Nat) (newName : Option Bytes) : M Unit :=
  match parent with
  | none => M.fail .general
  | some p => do
    let dir ← getDirectory p.cluster1
    modify p.cluster1 fi.idx dir set clear newName

def rename (path name : Bytes) : M Unit := do
  okToRename path name
  let (parent, fi) ← gotoPath path
  modifyAt parent fi none none (some name)

def lock (path : Bytes) : M Unit := do
  let (parent, fi) ← gotoPath path
  modifyAt parent fi (some READ_ONLY) none none

def unlock (path : Bytes) : M Unit := do
  let (parent, fi) ← gotoPath path
  modifyAt parent fi none (some READ_ONLY) none

inductive NewType where
  | sys | reg | hid | vis | other
  deriving DecidableEq, Repr

/-- `retype(path, new_type, _)` -/
def retype (path : Bytes) (t : NewType) : M Unit := do
  let (parent, fi) ← gotoPath path
  if fi.directory then M.fail .general else
  match parent with
  | none => M.fail .general
  | some p =>
    let dir ← getDirectory p.cluster1
    match t with
    | .sys => modify p.cluster1 fi.idx dir (some SYSTEM) none none
    | .reg => modify p.cluster1 fi.idx dir none (some SYSTEM) none
    | .hid => modify p.cluster1 fi.idx dir (some HIDDEN) none none
    | .vis => modify p.cluster1 fi.idx dir none (some HIDDEN) none
    | .other => M.fail .general

/-! ## `delete`, `create` -/

/-- `delete(path)` -/
def delete (path : Bytes) : M Unit := do
  let (parent, fi) ← gotoPath path
  if fi.wildcard then M.fail .syntax else
  if fi.readOnly then M.fail .writeProtect else
  (if fi.directory then do
      -- `is_root` (FAT12/16): no first cluster
      if fi.cluster1.isNone then M.fail .writeProtect else
      let dir ← getDirectory fi.cluster1
      let files ← buildFilesM dir
      if files.length > 2 then M.fail .directoryNotEmpty else pure ()
    else pure ())
  match parent with
  | none => M.fail .panic
  | some p =>
    let dir ← getDirectory p.cluster1
    let entry ← M.lift (dirEntry dir fi.idx)
    writebackDirectoryEntry p.cluster1 fi.idx dir (Entry.erase entry)
    match fi.cluster1 with
    | some c => deallocateChain c
    | none => pure ()

/-- `Entry::create_subdir(name, parent_cluster, new_cluster, block_size, None)` → (entry for the parent, cluster data) -/
def createSubdir (name : Bytes) (parentCluster newCluster blockSize : Nat) (now : Stamp) : R (Bytes × Bytes) :=
  let dot := Entry.setCluster (entryCreate (stringToFileName [46]) DIRECTORY now) newCluster
  let dotdot := Entry.setCluster (entryCreate (stringToFileName [46, 46]) DIRECTORY now) parentCluster
  if blockSize / entrySize < 2 then .error .panic else
  .ok (Entry.rename dot name, dot ++ dotdot ++ zeros ((blockSize / entrySize - 2) * entrySize))

/-- `create(path)` (mkdir) -/
def mkdir (path : Bytes) (now : Stamp) : M Unit := do
  let (name, cluster1, idx, dir) ← prepareToWrite path
  match ← getAvailableBlock with
  | none => M.fail .diskFull
  | some newCluster =>
    let d ← M.get
    let (entry, dirData) ← M.lift (createSubdir name (cluster1.getD 0) newCluster d.bpb.blockSize now)
    writeBlock dirData 0 newCluster
    writebackDirectoryEntry cluster1 idx dir entry

/-! ## `get` / `read_file`, `stat`, `catalog_to_vec` -/

structure Got where
  /-- `fs_type` = the extension bytes -/
  ext : Bytes
  attr : Nat
  eof : Nat
  chunks : List (Nat × Bytes)
  created : Bytes
  modified : Bytes
  deriving Repr, Inhabited

/-- `get(path)` -/
def get (path : Bytes) : M Got := do
  let (parent, fi) ← gotoPath path
  match parent with
  | none => M.fail .readFault
  | some p =>
    let d ← M.get
    let dir ← getDirectory p.cluster1
    let entry ← M.lift (dirEntry dir fi.idx)
    -- `finfo.cluster1.unwrap()`
    match fi.cluster1 with
    | none => M.fail .panic
    | some c =>
      let all ← getClusterChainData c
      let bs := d.bpb.blockSize
      -- `desequence`: chunks of `chunk_len = block_size` (`chunk_len = 0` never terminates: outside the model)
      let n := if bs = 0 then 0 else (all.length + bs - 1) / bs
      pure { ext := (entry.drop 8).take 3, attr := Entry.attr entry, eof := Entry.fileSize entry,
             chunks := (List.range n).zip (chunkBy bs n all),
             created := (entry.drop 13).take 5, modified := (entry.drop 22).take 4 }

/-- `stat().free_blocks` -/
def statFree : M Nat := do
  let _ ← getRootDir
  numFreeBlocks

/-- one row of `catalog_to_vec`: (type, blocks, name) -/
def catalogLoop (bs : Nat) : List Bytes → R (List (Bytes × Nat × Bytes))
  | [] => .ok []
  | e :: es =>
    match entryType e with
    | .freeAndNoMore => .ok []
    | .volumeLabel | .free => catalogLoop bs es
    | t =>
      match fileNameToString e with
      | none => .error .unmodelled
      | some nameAndExt =>
        let split := splitOn 46 nameAndExt
        let s0 := split.headD []
        let s1 := (split.drop 1).headD []
        let (typ, name) := if t = .directory then (if s1.isEmpty then ([68, 73, 82], s0) else ([68, 73, 82], nameAndExt)) else (s1, s0)
        -- `1 + (eof as i64 - 1) / block_size as i64` (truncating division)
        let eof := Entry.fileSize e
        if bs = 0 then .error .panic else
        let blocks := if eof = 0 then 1 else 1 + (eof - 1) / bs
        match catalogLoop bs es with
        | .error er => .error er
        | .ok rows => .ok ((typ, blocks, name) :: rows)

/-- `catalog_to_vec(path)` -/
def catalog (path : Bytes) : M (List (Bytes × Nat × Bytes)) := do
  let (_, fi) ← gotoPath path
  if !fi.directory then M.fail .fileNotFound else
  let d ← M.get
  let dir ← getDirectory fi.cluster1
  M.lift (catalogLoop d.bpb.blockSize dir)

/-! ## `format` -/

/-- `for lsec in 0..tot_sec { write_sector(zeroes | f6) }` -/
def fillLoop (firstData secSize : Nat) : List Nat → M Unit
  | [] => pure ()
  | s :: ss => do
    writeSector s (List.replicate secSize (if s < firstData then 0 else 0xf6))
    fillLoop firstData secSize ss

/-- `format(vol_name, None)`.  `boot` = `self.boot_sector.to_bytes()` after `create_tail` (jump, OEM name, BPB
foundation, tail with the volume id drawn from the clock, remainder with the signature): a parameter, taken from
the real image by the tie.  `now` stamps the label entry. -/
def format (volName : Bytes) (boot : Bytes) (now : Stamp) : M Unit := do
  if !isLabelValid volName && volName.length > 0 then M.fail .syntax else
  let d ← M.get
  let b := d.bpb
  fillLoop b.firstDataSec b.secSize (List.range b.totSec)
  -- `self.img.write_sector(0,0,1,…)`: no `get_chs`
  let d ← M.get
  let r ← M.lift (imgWriteSector d.raw 0 boot)
  M.setRaw r
  -- every sector has just been overwritten: a FAT buffer opened earlier describes the old volume (fix 55a0597)
  M.dropFat
  let f ← getFatBuffer
  let d ← M.get
  let f1 ← M.lift (setCluster d.typ f 0 (b.media + 0xf00))
  let f2 ← M.lift (markLast d.typ f1 1)
  M.setFat f2
  if d.typ = 32 then M.fail .unmodelled else
  (if volName.length > 0 then do
      let dir : Directory := List.replicate b.rootDirEntries (zeros entrySize)
      let label := Entry.setAttr (entryCreate (stringToLabelName volName) VOLUME_ID now) (VOLUME_ID ||| ARCHIVE)
      writebackDirectoryEntry none 0 dir label
    else pure ())
  writebackFatBuffer

/-- an operation as the harness observes it: run, then flush (`get_img()`) -/
def runFlush {α : Type} (m : M α) (d : Disk) : R α × Disk :=
  match m d with
  | (res, d') => (res, (flush d').2)

end A2Verif.Fs.Fat
