import A2Verif.Model.Raw
/-!
# Concrete model of a2kit's DOS 3.x file system (`/repo/src/fs/dos3x/{mod,directory,pack,types}.rs`)

A transcription of the Rust **as written** into total functions on `Raw` (256-byte units = the sectors of a
flat `DO` / `D13` image in DOS logical order, `/repo/src/img/dsk_do.rs`, `dsk_d13.rs`: unit = `track*spt + sector`).
Unlike `Model/Read/Dos3x.lean` (an independent *reader* written from the disk format) this file follows
a2kit's own code paths: the same case splits in the same order, the same loops (as structural recursions
with the Rust's iteration caps), the same free-sector search (`get_next_free_sector`: track order from
`last_track`, `prefer_jump`, sectors descending), the same refusals.  Allocation is deterministic, so the model
is byte-exact: the harness compares the model's image with the real image unit for unit after every operation
(`Drv/FsDos.lean`, `harness/src/fam/fs.rs`).

The VTOC is kept as the Rust keeps it: `Disk.vtoc` is the in-memory buffer `maybe_vtoc` (the 196 bytes of
`struct VTOC`), opened on first use from track 17 sector 0, changed by `allocate_sector`/`deallocate_sector`/
`update_last_track` **only in memory**, and written back to the image by `get_img()` (`Disk.flush`).  Images
are compared after the flush the harness performs (`get_img().to_bytes()`).

Conventions
* bytes are `Nat < 256` (protocol invariant); `u8` arithmetic that would overflow/underflow (debug build:
  panic) and slice/index errors answer `Err.panic`.
* the `DiskStruct`s (`VTOC` 196 bytes, `DirectorySector` 256, `TrackSectorList` 256, `DirectoryEntry` 35) copy their
  bytes field by field in declaration order, so `from_bytes`/`to_bytes` of a full sector is the identity; a
  structure is modelled as its bytes, field accessors read at the field offsets, assignments `splice`.
* operations are state transformers `M α = W → R α × W` on the working state `W` (image + open VTOC buffer):
  a failure in the middle of an operation returns the state reached so far (e.g. a `put` refused because the
  catalog is full keeps the T/S list sector it had already reserved in the VTOC buffer).
* names are ASCII byte strings **without hex escapes** (no `\xHH`; the harness generates none):
  `string_to_file_name` is then upper-casing, setting bit 7, blank padding to 30.
* two pieces exist as written and as repaired (`Repairs`, an argument of `put`/`writeFile`): the order of reserving
  the T/S list sector and searching the directory slot, and the refusal of over-long chunks.
* `init` is modelled for what the harness uses: 35 tracks, `last_track_written = 17`, not bootable (the boot
  tracks are not touched by a non-bootable `init`).

Rust ↔ Lean: `open_vtoc_buffer` ↔ `openVtoc`; `writeback_vtoc_buffer`/`get_img` ↔ `Disk.flush`; `get_track_map`,
`save_track_map` ↔ `trackMap`, `saveTrackMap`; `allocate_sector`, `deallocate_sector`, `is_sector_free` ↔ `allocate`,
`deallocate`, `isFree`; `update_last_track` ↔ `updateLastTrack`; `read_sector`, `write_sector`, `zap_sector` ↔
`readSector`, `writeSectorM`, `zapM`; `num_free_sectors` ↔ `numFree`; `get_next_free_sector` ↔ `searchTracks` +
`firstFree` = `nextFree`; `get_next_directory_slot` ↔ `slotLoop`; `get_tslist_sector` ↔ `findLoop`; `read_file` ↔
`get`; `write_file`+`put` ↔ `put` (`putLoop`); `modify` ↔ `modify` (`lock`, `unlock`, `rename`, `retype`);
`delete` ↔ `delete` (`freeLoop`); `init` ↔ `init`; `stat().free_blocks` ↔ `statFree`; `catalog_to_vec` ↔ `catalog`;
`pack.rs::is_name_valid`, `string_to_file_name`, `file_name_to_string` ↔ `isNameValid`, `stringToFileName`,
`fileNameToString`.
-/
namespace A2Verif.Fs.Dos3x

/-- `types.rs::Error` + image access error + `DiskStructError` + panic -/
inductive Err where
  | range | endOfData | fileNotFound | volumeMismatch | ioError | diskFull | fileLocked | fileTypeMismatch
  | writeProtected | syntaxError
  /-- `img::Error::SectorAccess`: sector outside the image -/
  | imgErr
  /-- the Rust panics (index out of range, `u8` overflow in a debug build, explicit `panic!`) -/
  | panic
  deriving DecidableEq, Repr, Inhabited

def Err.token : Err → String
  | .range => "range" | .endOfData => "endofdata" | .fileNotFound => "filenotfound" | .volumeMismatch => "volumemismatch"
  | .ioError => "ioerror" | .diskFull => "diskfull" | .fileLocked => "filelocked" | .fileTypeMismatch => "filetypemismatch"
  | .writeProtected => "writeprotected" | .syntaxError => "syntaxerror" | .imgErr => "imgerr" | .panic => "panic"

abbrev R := Except Err

def vtocTrack : Nat := 17
def maxDirectoryReps : Nat := 100
def maxTslistReps : Nat := 1000
/-- `VTOC::len()` -/
def vtocLen : Nat := 196
def sectorSize : Nat := 256

/-! ## bytes -/

def u16le (v : Nat) : Bytes := [v % 256, v / 256 % 256]

/-- overwrite `new.length` bytes of `e` at `off` (a field assignment of a `DiskStruct`) -/
def splice (e : Bytes) (off : Nat) (new : Bytes) : Bytes := e.take off ++ new ++ e.drop (off + new.length)

/-- `img::quantize_block(dat, 256)` -/
def quantize (d : Bytes) : Bytes := d.take sectorSize ++ List.replicate (sectorSize - d.length) 0

def zeros (n : Nat) : Bytes := List.replicate n 0

/-! ## names (`pack.rs`, `lib.rs::parse_escaped_ascii` without escapes) -/

/-- `is_name_valid` -/
def isNameValid (s : Bytes) : Bool := s.all (fun c => c < 128) && decide (1 ≤ s.length) && decide (s.length ≤ 30)

def upperByte (c : Nat) : Nat := if 97 ≤ c ∧ c ≤ 122 then c - 32 else c

/-- `escaped_ascii_to_bytes(s, true)` for a string without escapes: non-ASCII characters are dropped, the
rest is upper-cased and gets bit 7 -/
def nameBytes (s : Bytes) : Bytes := (s.filter (fun c => c < 128)).map (fun c => upperByte c + 128)

/-- `string_to_file_name`: panics beyond 30 bytes, pads with negative blanks -/
def stringToFileName (s : Bytes) : R Bytes :=
  let u := nameBytes s
  if u.length > 30 then .error .panic else .ok (u ++ List.replicate (30 - u.length) 0xA0)

def hexDigit (n : Nat) : Nat := if n < 10 then 48 + n else 55 + n

/-- `file_name_to_string`: `escaped_ascii_from_bytes(fname, true, true)` then `trim_end` -/
def fileNameToString (fname : Bytes) : Bytes :=
  let s := fname.flatMap (fun b =>
    if 0xA0 ≤ b ∧ b ≤ 0xFE ∧ b ≠ 0xDC then [b - 0x80] else [92, 120, hexDigit (b / 16 % 16), hexDigit (b % 16)])
  (s.reverse.dropWhile (· == 32)).reverse

/-! ## the VTOC buffer: 196 bytes, fields at fixed offsets (`directory.rs::VTOC`) -/

namespace Vtoc
def track1 (v : Bytes) : Nat := v.getD 1 0
def sector1 (v : Bytes) : Nat := v.getD 2 0
def vol (v : Bytes) : Nat := v.getD 6 0
def maxPairs (v : Bytes) : Nat := v.getD 0x27 0
def lastTrack (v : Bytes) : Nat := v.getD 0x30 0
def lastDirection (v : Bytes) : Nat := v.getD 0x31 0
def tracks (v : Bytes) : Nat := v.getD 0x34 0
def sectors (v : Bytes) : Nat := v.getD 0x35 0
/-- `u16::from_le_bytes(vtoc.bytes)` -/
def bytesPerSector (v : Bytes) : Nat := le16 v 0x36
/-- offset of `bitmap` -/
def bitmapOff : Nat := 0x38
end Vtoc

/-- `get_track_map`: `(track*4) as usize` is `u8` arithmetic (panics from track 64), the index panics from
track 35 (`bitmap: [u8;140]`) -/
def trackMap (v : Bytes) (t : Nat) : R Nat :=
  if t ≥ 35 then .error .panic
  else
    let i := Vtoc.bitmapOff + 4 * t
    .ok (((v.getD i 0 * 256 + v.getD (i + 1) 0) * 256 + v.getD (i + 2) 0) * 256 + v.getD (i + 3) 0)

/-- `u32::to_be_bytes` -/
def be32 (m : Nat) : Bytes := [m / 16777216 % 256, m / 65536 % 256, m / 256 % 256, m % 256]

/-- `save_track_map` (the caller has read the map of the same track before: `t < 35`) -/
def saveTrackMap (v : Bytes) (t : Nat) (map : Nat) : Bytes := splice v (Vtoc.bitmapOff + 4 * t) (be32 map)

/-- `(sector + 32 - vtoc.sectors) as u32` in `u8` arithmetic; the shift `1 << eff_sec` panics from 32 -/
def effSec (v : Bytes) (s : Nat) : R Nat :=
  if s + 32 > 255 ∨ s + 32 < Vtoc.sectors v ∨ s + 32 - Vtoc.sectors v ≥ 32 then .error .panic
  else .ok (s + 32 - Vtoc.sectors v)

def u32Max : Nat := 4294967295

/-- `allocate_sector`: clear the bit -/
def allocate (v : Bytes) (t s : Nat) : R Bytes :=
  match trackMap v t with
  | .error e => .error e
  | .ok map =>
    match effSec v s with
    | .error e => .error e
    | .ok e => .ok (saveTrackMap v t (map &&& ((1 <<< e) ^^^ u32Max)))

/-- `deallocate_sector`: set the bit -/
def deallocate (v : Bytes) (t s : Nat) : R Bytes :=
  match trackMap v t with
  | .error e => .error e
  | .ok map =>
    match effSec v s with
    | .error e => .error e
    | .ok e => .ok (saveTrackMap v t (map ||| (1 <<< e)))

/-- `is_sector_free` -/
def isFree (v : Bytes) (t s : Nat) : R Bool :=
  match trackMap v t with
  | .error e => .error e
  | .ok map =>
    match effSec v s with
    | .error e => .error e
    | .ok e => .ok (decide ((map &&& (1 <<< e)) > 0))

/-- `update_last_track` -/
def updateLastTrack (v : Bytes) (t : Nat) : Bytes :=
  if t < vtocTrack then splice v 0x30 [t, 255]
  else if t > vtocTrack then splice v 0x30 [t, 1]
  else v

/-- `(a..b)` -/
def rng (a b : Nat) : List Nat := List.range' a (b - a)

/-- the inner loop of `num_free_sectors` / of the search: sectors of one track -/
def countTrack (v : Bytes) (t : Nat) : List Nat → R Nat
  | [] => .ok 0
  | s :: ss =>
    match isFree v t s with
    | .error e => .error e
    | .ok b =>
      match countTrack v t ss with
      | .error e => .error e
      | .ok n => .ok (n + if b then 1 else 0)

def countTracks (v : Bytes) : List Nat → R Nat
  | [] => .ok 0
  | t :: ts =>
    match countTrack v t (rng 0 (Vtoc.sectors v)) with
    | .error e => .error e
    | .ok a =>
      match countTracks v ts with
      | .error e => .error e
      | .ok n => .ok (a + n)

/-- `num_free_sectors` -/
def numFree (v : Bytes) : R Nat := countTracks v (rng 0 (Vtoc.tracks v))

/-- the track search order of `get_next_free_sector` -/
def searchTracks (v : Bytes) (preferJump : Bool) : R (List Nat) :=
  let tvtoc := Vtoc.track1 v
  let lt := Vtoc.lastTrack v
  let tend := Vtoc.tracks v
  let tstartR : R Nat :=
    if lt ≥ tend then (if tvtoc = 0 then .error .panic else .ok (tvtoc - 1))
    else if lt > tvtoc ∧ preferJump then .ok (lt + 1)
    else if lt < tvtoc ∧ preferJump then (if lt = 0 then .error .panic else .ok (lt - 1))
    else .ok lt
  match tstartR with
  | .error e => .error e
  | .ok tstart =>
    -- `tvtoc+1` on `u8`
    if tvtoc = 255 then .error .panic
    else if tstart < tvtoc then
      .ok ((rng 1 (tstart + 1)).reverse ++ rng (tvtoc + 1) tend ++ (rng (tstart + 1) tvtoc).reverse)
    else
      .ok (rng tstart tend ++ (rng 1 tvtoc).reverse ++ rng (tvtoc + 1) tstart)

/-- `for sector in (0..vtoc.sectors).rev()` of one track -/
def firstFreeInTrack (v : Bytes) (t : Nat) : List Nat → R (Option Nat)
  | [] => .ok none
  | s :: ss =>
    match isFree v t s with
    | .error e => .error e
    | .ok true => .ok (some s)
    | .ok false => firstFreeInTrack v t ss

def firstFree (v : Bytes) : List Nat → R (Option (Nat × Nat))
  | [] => .ok none
  | t :: ts =>
    match firstFreeInTrack v t (rng 0 (Vtoc.sectors v)).reverse with
    | .error e => .error e
    | .ok (some s) => .ok (some (t, s))
    | .ok none => firstFree v ts

/-- `get_next_free_sector` -/
def nextFree (v : Bytes) (preferJump : Bool) : R (Nat × Nat) :=
  match searchTracks v preferJump with
  | .error e => .error e
  | .ok ts =>
    match firstFree v ts with
    | .error e => .error e
    | .ok none => .error .diskFull
    | .ok (some ts) => .ok ts

/-! ## image access (`dsk_do.rs`, `dsk_d13.rs`; `c` = sectors per track of the container, 16 or 13) -/

def imgTracks (c : Nat) (r : Raw) : Nat := r.units.size / c

/-- `img.read_block(Block::DO([t,s]))` / `Block::D13` -/
def imgRead (c : Nat) (r : Raw) (t s : Nat) : R Bytes :=
  if t ≥ imgTracks c r ∨ s ≥ c then .error .imgErr
  else match r.units[t * c + s]? with
    | some b => .ok b
    | none => .error .imgErr

/-- `img.write_block(..)`: the data is padded with zeros to a full sector -/
def imgWrite (c : Nat) (r : Raw) (t s : Nat) (d : Bytes) : R Raw :=
  if t ≥ imgTracks c r ∨ s ≥ c then .error .imgErr
  else if t * c + s < r.units.size then .ok { r with units := r.units.setIfInBounds (t * c + s) (quantize d) }
  else .error .imgErr

/-- the file system object: image, container geometry, `maybe_vtoc` -/
structure Disk where
  raw : Raw
  /-- sectors per track of the container: 16 (`DO`) or 13 (`D13`) -/
  c : Nat
  vtoc : Option Bytes
  deriving Inhabited

/-- `open_vtoc_buffer`: the buffer to work with (the existing one, or read from track 17 sector 0 —
physical sector 0 is logical sector 0 in both orders) -/
def openVtoc (d : Disk) : R Bytes :=
  match d.vtoc with
  | some v => .ok v
  | none =>
    match imgRead d.c d.raw vtocTrack 0 with
    | .error e => .error e
    | .ok buf =>
      -- `VTOC::from_bytes`: `DiskStructError::OutOfData` for a short buffer (cannot happen: sectors are 256 bytes)
      if buf.length < vtocLen then .error .panic
      else
        let v := buf.take vtocLen
        if Vtoc.maxPairs v < 1 ∨ Vtoc.maxPairs v > 122 then .error .range else .ok v

/-- `writeback_vtoc_buffer` as `get_img` performs it (`expect`: a failure panics).  The 196 bytes are padded
with zeros to the sector. -/
def Disk.flush (d : Disk) : R Raw :=
  match d.vtoc with
  | none => .ok d.raw
  | some v =>
    match imgWrite d.c d.raw vtocTrack 0 v with
    | .error _ => .error .panic
    | .ok r => .ok r

/-! ## working state and its monad -/

/-- image + the open VTOC buffer -/
structure W where
  c : Nat
  raw : Raw
  v : Bytes
  deriving Inhabited

def W.toDisk (w : W) : Disk := { raw := w.raw, c := w.c, vtoc := some w.v }

def M (α : Type) : Type := W → R α × W

namespace M
def pure {α : Type} (a : α) : M α := fun w => (.ok a, w)
def bind {α β : Type} (m : M α) (f : α → M β) : M β := fun w =>
  match m w with
  | (.ok a, w') => f a w'
  | (.error e, w') => (.error e, w')
def fail {α : Type} (e : Err) : M α := fun w => (.error e, w)
/-- a computation that does not change the state -/
def lift {α : Type} (x : R α) : M α := fun w => (x, w)
def getV : M Bytes := fun w => (.ok w.v, w)
/-- a fallible update of the VTOC buffer -/
def modV (f : Bytes → R Bytes) : M Unit := fun w =>
  match f w.v with
  | .ok v => (.ok (), { w with v := v })
  | .error e => (.error e, w)
end M

instance : Monad M where
  pure := M.pure
  bind := M.bind

def verifyTs (v : Bytes) (t s : Nat) : R Unit :=
  if t ≥ Vtoc.tracks v ∨ s ≥ Vtoc.sectors v then .error .range else .ok ()

/-- `read_sector(data, ts, 0)`: the first `min(data.len, bytes_per_sector)` bytes of `data` are replaced -/
def readSector (w : W) (data : Bytes) (t s : Nat) : R Bytes :=
  let actual := min data.length (Vtoc.bytesPerSector w.v)
  match (if t = vtocTrack ∧ s = 0 then .ok (quantize w.v) else imgRead w.c w.raw t s) with
  | .error e => .error e
  | .ok buf => if buf.length < actual then .error .panic else .ok (buf.take actual ++ data.drop actual)

def readSectorM (data : Bytes) (t s : Nat) : M Bytes := fun w => (readSector w data t s, w)

/-- `zap_sector(data, ts, 0, bytes_per_sector)` for `ts ≠ [17,0]` -/
def zapM (data : Bytes) (t s : Nat) (bps : Nat) : M Unit := fun w =>
  match imgWrite w.c w.raw t s (data.take (min data.length bps)) with
  | .ok r => (.ok (), { w with raw := r })
  | .error e => (.error e, w)

def allocM (t s : Nat) : M Unit := M.modV (fun v => allocate v t s)
def deallocM (t s : Nat) : M Unit := M.modV (fun v => deallocate v t s)
def updateLastTrackM (t : Nat) : M Unit := M.modV (fun v => .ok (updateLastTrack v t))
def nextFreeM (preferJump : Bool) : M (Nat × Nat) := fun w => (nextFree w.v preferJump, w)

/-- `write_sector(data, ts, 0)`: zap, then mark the sector used -/
def writeSectorM (data : Bytes) (t s : Nat) : M Unit := do
  if t = vtocTrack ∧ s = 0 then M.fail .panic
  let v ← M.getV
  zapM data t s (Vtoc.bytesPerSector v)
  allocM t s

/-! ## directory and T/S list sectors (`directory.rs`) -/

def entryOff (k : Nat) : Nat := 11 + 35 * k
def Dir.nextTrack (b : Bytes) : Nat := b.getD 1 0
def Dir.nextSector (b : Bytes) : Nat := b.getD 2 0
def Dir.tslTrack (b : Bytes) (k : Nat) : Nat := b.getD (entryOff k) 0
def Dir.tslSector (b : Bytes) (k : Nat) : Nat := b.getD (entryOff k + 1) 0
def Dir.fileType (b : Bytes) (k : Nat) : Nat := b.getD (entryOff k + 2) 0
def Dir.name (b : Bytes) (k : Nat) : Bytes := slice b (entryOff k + 3) 30
def Dir.sectors (b : Bytes) (k : Nat) : Nat := le16 b (entryOff k + 33)

def Tsl.nextTrack (b : Bytes) : Nat := b.getD 1 0
def Tsl.nextSector (b : Bytes) : Nat := b.getD 2 0
def Tsl.pairTrack (b : Bytes) (p : Nat) : Nat := b.getD (12 + 2 * p) 0
def Tsl.pairSector (b : Bytes) (p : Nat) : Nat := b.getD (13 + 2 * p) 0

/-- `DirectorySector::from_bytes` / `TrackSectorList::from_bytes` need the whole sector (slices panic otherwise;
cannot happen: `read_sector` keeps the buffer at 256 bytes) -/
def fullSector (b : Bytes) : R Unit := if b.length < sectorSize then .error .panic else .ok ()

/-- `for e in 0..7 { if tsl_track==0 || tsl_track==255 { return e } }` -/
def freeEntry (b : Bytes) : Option Nat := (List.range 7).find? (fun k => Dir.tslTrack b k = 0 ∨ Dir.tslTrack b k = 255)

/-- first entry of the sector holding a live file of that name -/
def matchEntry (b : Bytes) (fname : Bytes) : Option Nat :=
  (List.range 7).find? (fun k => fname = Dir.name b k ∧ Dir.tslTrack b k > 0 ∧ Dir.tslTrack b k < 255)

/-- `get_next_directory_slot` → (track, sector, entry index) -/
def slotLoop : Nat → Nat → Nat → Bytes → M (Nat × Nat × Nat)
  | 0, _, _, _ => M.fail .endOfData
  | fuel + 1, t, s, buf => do
    let v ← M.getV
    M.lift (verifyTs v t s)
    let buf ← readSectorM buf t s
    M.lift (fullSector buf)
    match freeEntry buf with
    | some e => pure (t, s, e)
    | none =>
      if Dir.nextTrack buf = 0 ∧ Dir.nextSector buf = 0 then M.fail .diskFull
      else slotLoop fuel (Dir.nextTrack buf) (Dir.nextSector buf) buf

def nextDirectorySlot : M (Nat × Nat × Nat) := do
  let v ← M.getV
  slotLoop maxDirectoryReps (Vtoc.track1 v) (Vtoc.sector1 v) (zeros 256)

/-- the directory walk shared by `get_tslist_sector`, `modify`, `delete`: the sector (position and content) and
entry index of the first live entry with that name; `none` at the end of the chain -/
def findLoop (fname : Bytes) : Nat → Nat → Nat → Bytes → M (Option (Nat × Nat × Bytes × Nat))
  | 0, _, _, _ => M.fail .endOfData
  | fuel + 1, t, s, buf => do
    let v ← M.getV
    M.lift (verifyTs v t s)
    let buf ← readSectorM buf t s
    M.lift (fullSector buf)
    match matchEntry buf fname with
    | some k => pure (some (t, s, buf, k))
    | none =>
      if Dir.nextTrack buf = 0 ∧ Dir.nextSector buf = 0 then pure none
      else findLoop fname fuel (Dir.nextTrack buf) (Dir.nextSector buf) buf

def findEntry (fname : Bytes) : M (Option (Nat × Nat × Bytes × Nat)) := do
  let v ← M.getV
  findLoop fname maxDirectoryReps (Vtoc.track1 v) (Vtoc.sector1 v) (zeros 256)

/-- `get_tslist_sector(name)` → `(tsl track, tsl sector, file type)` -/
def getTslistSector (name : Bytes) : M (Option (Nat × Nat × Nat)) := do
  let fname ← M.lift (stringToFileName name)
  match ← findEntry fname with
  | none => pure none
  | some (_, _, buf, k) => pure (some (Dir.tslTrack buf k, Dir.tslSector buf k, Dir.fileType buf k))

/-! ## running an operation on a `Disk` -/

/-- open the VTOC buffer, run, and keep the state reached (also on failure) -/
def Disk.run {α : Type} (d : Disk) (m : M α) : R α × Disk :=
  match openVtoc d with
  | .error e => (.error e, d)
  | .ok v =>
    let (res, w) := m { c := d.c, raw := d.raw, v := v }
    (res, w.toDisk)

/-! ## `put` / `write_file` -/

/-- what `put` uses of a `FileImage` -/
structure FImg where
  /-- `fimg.file_system == FS_NAME` -/
  fsOk : Bool := true
  chunkLen : Nat := 256
  fullPath : Bytes
  /-- `fs_type` (a vector; `put` uses its first byte and refuses an empty one) -/
  fsType : Bytes
  /-- the `HashMap<usize,Vec<u8>>` as an association list with distinct keys -/
  chunks : List (Nat × Bytes)
  deriving Repr, Inhabited

/-- `FileImage::end()` -/
def FImg.endIdx (f : FImg) : Nat := f.chunks.foldl (fun m c => max m (c.1 + 1)) 0

/-- loop state of `write_file`: the T/S list being filled, its position, pairs written, `sec_base` -/
structure LoopSt where
  tsl : Bytes
  tt : Nat
  tsec : Nat
  p : Nat
  secBase : Nat
  deriving Inhabited

/-- `for s in 0..fimg.end()` of `write_file` -/
def putLoop (chunks : List (Nat × Bytes)) (maxPairs endIdx : Nat) : List Nat → LoopSt → M Unit
  | [], _ => pure ()
  | s :: rest, st => do
    let tsl1 ← (match chunks.lookup s with
      | some chunk => do
        let (dt, ds) ← nextFreeM false
        let tsl1 := splice st.tsl (12 + 2 * st.p) [dt, ds]
        writeSectorM tsl1 st.tt st.tsec
        writeSectorM chunk dt ds
        updateLastTrackM dt
        pure tsl1
      | none => do
        let tsl1 := splice st.tsl (12 + 2 * st.p) [0, 0]
        writeSectorM tsl1 st.tt st.tsec
        pure tsl1)
    let p := st.p + 1
    if p = maxPairs ∧ s + 1 ≠ endIdx then do
      -- the T/S list spills over to another sector, reserved before the next data sector is chosen
      let (nt, ns) ← nextFreeM false
      allocM nt ns
      let tsl2 := splice tsl1 1 [nt, ns]
      writeSectorM tsl2 st.tt st.tsec
      updateLastTrackM st.tt
      let sb := st.secBase + maxPairs
      putLoop chunks maxPairs endIdx rest
        { tsl := splice (zeros 256) 5 (u16le (sb % 65536)), tt := nt, tsec := ns, p := 0, secBase := sb }
    else putLoop chunks maxPairs endIdx rest { st with tsl := tsl1, p := p }

/-- which of the proposed repairs the modelled source contains (the harness probes the real code and tells the driver,
`fsd variant`, so that the byte-exact tie holds before and after a repair is applied); the default is the source as
written at the pinned commit -/
structure Repairs where
  /-- `write_file` searches the directory slot and checks for an empty `fs_type` **before** it reserves the T/S list
  sector (`proposed_fixes/dos-put-catalog-full-leak.diff`); as written it reserves first, and a refusal for a full
  catalog or a missing type leaves that sector marked used -/
  slotFirst : Bool := false
  /-- `put` refuses a file image with a chunk longer than 256 bytes with RANGE ERROR
  (`proposed_fixes/dos-put-oversize-chunk.diff`); as written `write_sector` silently drops the excess -/
  chunkGuard : Bool := false
  deriving Repr, Inhabited, DecidableEq

/-- the source with both repairs -/
def Repairs.repaired : Repairs := { slotFirst := true, chunkGuard := true }

/-- the end of `write_file`: the directory entry, then the loop (the T/S list sector `(tt,tsec)` is reserved, the
slot `(dt,ds,e)` found, `dir` is the directory sector, `ty` the type byte) -/
def writeTail (f : FImg) (v : Bytes) (tt tsec dt ds e : Nat) (dir : Bytes) (ty : Nat) : M Nat := do
  let dataSectors := f.chunks.length
  let tslistSectors := 1 + (f.endIdx - 1) / Vtoc.maxPairs v
  let fname ← M.lift (stringToFileName f.fullPath)
  let dir1 := splice dir (entryOff e) [tt, tsec, ty]
  let dir2 := splice dir1 (entryOff e + 3) fname
  let dir3 := splice dir2 (entryOff e + 33) (u16le ((tslistSectors + dataSectors) % 65536))
  writeSectorM dir3 dt ds
  putLoop f.chunks (Vtoc.maxPairs v) f.endIdx (List.range f.endIdx)
    { tsl := zeros 256, tt := tt, tsec := tsec, p := 0, secBase := 0 }
  pure (dataSectors + tslistSectors)

/-- `write_file` after the VTOC buffer is open -/
def writeFile (f : FImg) (rp : Repairs := {}) : M Nat := do
  let name := f.fullPath
  let v ← M.getV
  if f.chunks.length = 0 then M.fail .endOfData
  match ← getTslistSector name with
  | some _ => M.fail .writeProtected
  | none =>
    let dataSectors := f.chunks.length
    let tslistSectors := 1 + (f.endIdx - 1) / Vtoc.maxPairs v
    let free ← M.lift (numFree v)
    if dataSectors + tslistSectors > free then M.fail .diskFull
    let (tt, tsec) ← nextFreeM true
    if rp.slotFirst then do
      -- repaired: everything that can still refuse the file comes before the sector is reserved
      let (dt, ds, e) ← nextDirectorySlot
      match f.fsType with
      | [] => M.fail .range
      | ty :: _ =>
        allocM tt tsec
        updateLastTrackM tt
        let dir ← readSectorM (zeros 256) dt ds
        M.lift (fullSector dir)
        writeTail f v tt tsec dt ds e dir ty
    else do
      -- as written: the sector is reserved first
      allocM tt tsec
      updateLastTrackM tt
      let (dt, ds, e) ← nextDirectorySlot
      let dir ← readSectorM (zeros 256) dt ds
      M.lift (fullSector dir)
      match f.fsType with
      | [] => M.fail .range
      | ty :: _ => writeTail f v tt tsec dt ds e dir ty

/-- `put(fimg)` -/
def put (d : Disk) (f : FImg) (rp : Repairs := {}) : R Nat × Disk :=
  if !f.fsOk then (.error .ioError, d) else
  if f.chunkLen ≠ 256 then (.error .range, d) else
  if rp.chunkGuard && f.chunks.any (fun c => decide (c.2.length > 256)) then (.error .range, d) else
  if !isNameValid f.fullPath then (.error .syntaxError, d) else
  d.run (writeFile f rp)

/-! ## `modify`: `lock`, `unlock`, `rename`, `retype` -/

def modifyM (name : Bytes) (lock : Option Bool) (newName : Option Bytes) (ftype : Option (Option Nat)) : M Unit := do
  let fname ← M.lift (stringToFileName name)
  match ← findEntry fname with
  | none => M.fail .fileNotFound
  | some (dt, ds, dir, k) =>
    let ty0 := Dir.fileType dir k
    if ty0 > 127 ∧ newName.isSome then M.fail .fileLocked
    let ty1 := match lock with
      | some true => ty0 ||| 0x80
      | some false => ty0 &&& 0x7f
      | none => ty0
    let nm ← (match newName with
      | some nn => M.lift (stringToFileName nn)
      | none => pure (Dir.name dir k))
    match (match ftype with
           | none => Except.ok ty1
           | some none => Except.error Err.fileTypeMismatch
           | some (some t) => Except.ok t) with
    | .error e => M.fail e
    | .ok ty2 =>
      let dir1 := splice dir (entryOff k + 2) [ty2]
      let dir2 := splice dir1 (entryOff k + 3) nm
      writeSectorM dir2 dt ds

def modify (d : Disk) (name : Bytes) (lock : Option Bool) (newName : Option Bytes) (ftype : Option (Option Nat)) : R Unit × Disk :=
  if !isNameValid name then (.error .syntaxError, d) else d.run (modifyM name lock newName ftype)

def lock (d : Disk) (name : Bytes) : R Unit × Disk := modify d name (some true) none none
def unlock (d : Disk) (name : Bytes) : R Unit × Disk := modify d name (some false) none none

/-- `retype(name, new_type, _)`: `newType` is what `FileType::from_str(new_type)` yields as `u8`
(`txt`→0, `itok`→1, `atok`→2, `bin`→4, a decimal `n` with `n & 0x7f ∈ {0,1,2,4}` → `n & 0x7f`, else `none`) -/
def retype (d : Disk) (name : Bytes) (newType : Option Nat) : R Unit × Disk := modify d name none none (some newType)

/-- `rename` = `ok_to_rename(new)?; modify(old, None, Some(new), None)` -/
def rename (d : Disk) (oldName newName : Bytes) : R Unit × Disk :=
  if !isNameValid newName then (.error .syntaxError, d) else
  match d.run (getTslistSector newName) with
  | (.error e, d') => (.error e, d')
  | (.ok (some _), d') => (.error .fileLocked, d')
  | (.ok none, d') => modify d' oldName none (some newName) none

/-! ## `delete` -/

/-- `for p in 0..max_pairs { if pairs[2p] in 1..=254 { deallocate_sector(pairs[2p], pairs[2p+1]) } }` -/
def freePairs (tsl : Bytes) : List Nat → M Unit
  | [] => pure ()
  | p :: ps => do
    if Tsl.pairTrack tsl p > 0 ∧ Tsl.pairTrack tsl p < 255 then deallocM (Tsl.pairTrack tsl p) (Tsl.pairSector tsl p) else pure ()
    freePairs tsl ps

/-- the T/S list loop of `delete`; `true` = the chain ended (`next == [0,0]`) within the cap -/
def freeLoop (maxPairs : Nat) : Nat → Nat → Nat → Bytes → M Bool
  | 0, _, _, _ => pure false
  | fuel + 1, t, s, buf => do
    let buf ← readSectorM buf t s
    M.lift (fullSector buf)
    freePairs buf (List.range maxPairs)
    deallocM t s
    if Tsl.nextTrack buf = 0 ∧ Tsl.nextSector buf = 0 then pure true
    else freeLoop maxPairs fuel (Tsl.nextTrack buf) (Tsl.nextSector buf) buf

def deleteM (name : Bytes) : M Unit := do
  let v ← M.getV
  let fname ← M.lift (stringToFileName name)
  match ← findEntry fname with
  | none => M.fail .fileNotFound
  | some (dt, ds, dir, k) =>
    if Dir.fileType dir k > 127 then M.fail .writeProtected
    -- the T/S lists are read into the buffer the directory sector was parsed from
    if ← freeLoop (Vtoc.maxPairs v) maxTslistReps (Dir.tslTrack dir k) (Dir.tslSector dir k) dir then
      let dir1 := splice dir (entryOff k + 3 + 29) [Dir.tslTrack dir k]
      let dir2 := splice dir1 (entryOff k) [255]
      writeSectorM dir2 dt ds
    else M.fail .endOfData

def delete (d : Disk) (name : Bytes) : R Unit × Disk := d.run (deleteM name)

/-! ## `get` / `read_file`, `stat`, `catalog_to_vec` -/

structure Got where
  fsType : Nat
  chunks : List (Nat × Bytes)
  deriving Repr, Inhabited

/-- the pairs of one T/S list: chunk `count + p` for every pair with a non-zero track -/
def readPairs (tsl : Bytes) (count : Nat) : List Nat → M (List (Nat × Bytes))
  | [] => pure []
  | p :: ps => do
    if Tsl.pairTrack tsl p > 0 then
      let d ← readSectorM (zeros 256) (Tsl.pairTrack tsl p) (Tsl.pairSector tsl p)
      let rest ← readPairs tsl count ps
      pure ((count + p, d) :: rest)
    else readPairs tsl count ps

def readLoop (maxPairs : Nat) : Nat → Nat → Nat → Nat → Bytes → M (List (Nat × Bytes))
  | 0, _, _, _, _ => M.fail .endOfData
  | fuel + 1, t, s, count, buf => do
    let buf ← readSectorM buf t s
    M.lift (fullSector buf)
    let here ← readPairs buf count (List.range maxPairs)
    if Tsl.nextTrack buf = 0 then pure here
    else do
      let rest ← readLoop maxPairs fuel (Tsl.nextTrack buf) (Tsl.nextSector buf) (count + maxPairs) buf
      pure (here ++ rest)

def getM (name : Bytes) : M Got := do
  let v ← M.getV
  match ← getTslistSector name with
  | none => M.fail .fileNotFound
  | some (tt, tsec, ty) =>
    -- `new_fimg(256, name)?`
    if !isNameValid name then M.fail .syntaxError
    let cs ← readLoop (Vtoc.maxPairs v) maxTslistReps tt tsec 0 (zeros 256)
    pure { fsType := ty, chunks := cs }

def get (d : Disk) (name : Bytes) : R Got × Disk :=
  if (nameBytes name).length > 30 then (.error .syntaxError, d) else d.run (getM name)

/-- `stat().free_blocks` -/
def statFree (d : Disk) : R Nat × Disk := d.run (do let v ← M.getV; M.lift (numFree v))

/-- one row of `catalog_to_vec`: name as a2kit prints it, sector count, type byte -/
def catalogLoop : Nat → Nat → Nat → Bytes → M (List (Bytes × Nat × Nat))
  | 0, _, _, _ => M.fail .ioError
  | fuel + 1, t, s, buf => do
    let v ← M.getV
    M.lift (verifyTs v t s)
    let buf ← readSectorM buf t s
    M.lift (fullSector buf)
    let rows := (List.range 7).filterMap (fun k =>
      if Dir.tslTrack buf k > 0 ∧ Dir.tslTrack buf k < 255 then
        some (fileNameToString (Dir.name buf k), Dir.sectors buf k, Dir.fileType buf k)
      else none)
    if Dir.nextTrack buf = 0 ∧ Dir.nextSector buf = 0 then pure rows
    else do
      let rest ← catalogLoop fuel (Dir.nextTrack buf) (Dir.nextSector buf) buf
      pure (rows ++ rest)

def catalog (d : Disk) : R (List (Bytes × Nat × Nat)) × Disk :=
  d.run (do let v ← M.getV; catalogLoop maxDirectoryReps (Vtoc.track1 v) (Vtoc.sector1 v) (zeros 256))

/-! ## `init` -/

/-- the VTOC `init(vol, false, 17, 35, sectors)` builds -/
def initVtoc (vol sectors : Nat) : Bytes :=
  let allFree : Bytes := if sectors = 13 then [0xff, 0xf8, 0, 0] else if sectors = 16 then [0xff, 0xff, 0, 0] else [0xff, 0xff, 0xff, 0xff]
  [if sectors = 13 then 2 else 4, vtocTrack, sectors - 1, if sectors = 13 then 2 else 3, 0, 0, vol] ++ zeros 32 ++ [0x7a] ++ zeros 8 ++
  [17, 1, 0, 0, 35, sectors, 0, 1] ++
  (List.range 35).flatMap (fun t => if t = 0 ∨ t = vtocTrack then [0, 0, 0, 0] else allFree)

/-- the catalog sectors `2 ..< sectors`, each pointing to its predecessor -/
def initDirs : List Nat → M Unit
  | [] => pure ()
  | sec :: rest => do
    writeSectorM (splice (zeros 256) 1 [vtocTrack, sec - 1]) vtocTrack sec
    initDirs rest

/-- `init(vol, false, 17, 35, sectors)` (`init33` = 16 sectors, `init32` = 13): the VTOC is zapped into the image
(closing the buffer), then the catalog sectors are written through `write_sector`, which reopens it -/
def init (d : Disk) (vol sectors : Nat) : R Unit × Disk :=
  if ¬ (vol > 0 ∧ vol < 255) ∨ ¬ (sectors = 13 ∨ sectors = 16 ∨ sectors = 32) then (.error .panic, d) else
  match imgWrite d.c d.raw vtocTrack 0 (initVtoc vol sectors) with
  | .error e => (.error e, { d with vtoc := none })
  | .ok r =>
    let d1 : Disk := { d with raw := r, vtoc := none }
    d1.run (do
      writeSectorM (zeros 256) vtocTrack 1
      initDirs (rng 2 sectors))

end A2Verif.Fs.Dos3x
