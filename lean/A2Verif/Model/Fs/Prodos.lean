import A2Verif.Model.Raw
/-!
# Concrete model of a2kit's ProDOS file system (`/repo/src/fs/prodos/{mod,directory,pack,types}.rs`)

A transcription of the Rust **as written** into total functions on `Raw` (512-byte units = the blocks of a
flat `PO` image, `/repo/src/img/dsk_po.rs`).  Unlike `Model/Read/Prodos.lean` (an independent *reader* written
from the disk format) this file follows a2kit's own code paths: the same case splits in the same order, the
same loops (as structural recursions with the Rust's iteration caps), first-free block allocation
(`get_available_block`), the seedling → sapling → tree growth of `write_file` block by block, the same
refusals.  Allocation is deterministic, so the model is byte-exact: the harness compares the model's image
with the real image unit for unit after every operation (`Drv/FsProdos.lean`, `harness/src/fam/fs_prodos.rs`).

The volume bitmap is kept as the Rust keeps it: `Disk.bitmap` is the in-memory buffer `maybe_bitmap` (all
bitmap blocks concatenated), `Disk.bitmapBlocks` the list `bitmap_blocks`.  The buffer is opened on first use
from the block the volume header names, changed by `allocate_block`/`deallocate_block` **only in memory**, read
instead of the image by `read_block` for a bitmap block, dropped by `zap_block` on a bitmap block, and written
back by `get_img()` (`writeback`).  Images are compared after the write-back the harness performs
(`get_img().to_bytes()`).

Conventions
* bytes are `Nat < 256` (protocol invariant), every unit of the `Raw` has 512 bytes (a `PO` image has no
  other blocks); `u16`/`u8` arithmetic that would overflow/underflow (debug build: panic), slice/index errors
  and explicit `panic!`/`expect` answer `Err.panic`.
* the `DiskStruct`s copy their bytes field by field in declaration order (`a2kit_macro_derive`), and both
  `KeyBlock<_>` (4 + 39 + 12·39) and `EntryBlock` (4 + 13·39) are 511 bytes: `from_bytes` then `to_bytes` of a
  block is the identity on its first 511 bytes whatever the kind.  A directory block object is therefore
  modelled as its kind (volume key / sub-directory key / entry block, decided as `get_directory` decides) and
  its 511 bytes; an entry as its 39 bytes; field accessors read at the field offsets, assignments `splice`.
  Entry `idx` (1-based, as in `EntryLocation`) lives at byte `4 + 39·(idx−1)` in every kind; `idx` outside
  `2‥13` (key block) / `1‥13` (entry block) is the Rust's index panic.
* operations are state transformers `M α = Disk → R α × Disk`: a failure in the middle of an operation returns
  the state reached so far (e.g. a `put` refused for lack of room after its directory had to grow keeps the
  new directory block).
* names and paths are ASCII byte strings (the harness generates nothing else; `is_name_valid` refuses the
  rest; `to_uppercase`/`to_lowercase` are the ASCII maps).
* `pack_time(None)` (the clock) and the boot block are parameters.

Rust ↔ Lean: `open_bitmap_buffer`/`get_bitmap_buffer` ↔ `openBitmap`/`getBitmap`; `writeback_bitmap_buffer` +
`get_img` ↔ `writeback`/`Disk.flush`; `allocate_block`, `deallocate_block`, `is_block_free`, `num_free_blocks`,
`get_available_block` ↔ `allocate`, `deallocate`, `isBlockFree`, `numFreeBlocks`, `getAvailableBlock`;
`read_block`, `write_block`, `zap_block` ↔ `readBlock`, `writeBlock`, `zapBlock`; `format` ↔ `format`;
`get_vol_header`, `get_directory`, `get_key_directory`, `read_entry`, `write_entry` ↔ `getVolHeader`,
`getDirectory`, `getKeyDirectory`, `readEntry`, `writeEntry`; `expand_directory`, `get_available_entry`,
`search_entries` ↔ `expandDirectory`, `getAvailableEntry`, `searchEntries`; `normalize_path`, `split_path`,
`search_volume`, `find_file`, `find_dir_key_block` ↔ `normalizePath`, `splitPath`, `searchVolume`, `findFile`,
`findDirKeyBlock`; `read_index_block`, `read_file`, `get` ↔ `readIndexBlock`, `readFile`, `get`;
`deallocate_index_block`, `deallocate_file_blocks`, `delete` ↔ `deallocIndexBlock`, `deallocFileBlocks`,
`delete`; `ok_to_rename`, `modify`, `rename`, `lock`, `unlock`, `retype` ↔ same names; `prepare_to_write`,
`blocks_needed`, `write_data_block_or_not`, `write_file`, `put` ↔ `prepareToWrite`, `blocksNeeded`,
`writeDataBlockOrNot`, `writeFile` (`wfStep`), `put`; `create` ↔ `mkdir`; `stat().free_blocks` ↔ `statFree`;
`catalog_to_vec` ↔ `catalog`; `pack.rs::is_name_valid`, `string_to_file_name`, `file_name_to_string` ↔
`isNameValid`, `nibsOf`/`nameField`, `Ent.nameStr`; `directory.rs::is_file_match`, `Entry::create_file`,
`Entry::create_subdir`, `SubDirHeader::create`, `VolDirHeader::format` ↔ `isFileMatch`, `createFile`,
`createSubdir`, `subDirHeader`, `volDirHeader`.
-/
namespace A2Verif.Fs.Prodos

/-- `types.rs::Error` (the variants that occur) + image access error + `ParseIntError` + panic -/
inductive Err where
  | range | writeProtected | endOfData | pathNotFound | ioError | diskFull | fileTypeMismatch | syntax
  | directoryFull | duplicateFilename
  /-- `img::Error::SectorAccess`: block outside the image -/
  | imgErr
  /-- `u16::from_str(sub_type)` failed -/
  | parseInt
  /-- the Rust panics -/
  | panic
  deriving DecidableEq, Repr, Inhabited

def Err.token : Err → String
  | .range => "range" | .writeProtected => "writeprotected" | .endOfData => "endofdata" | .pathNotFound => "pathnotfound"
  | .ioError => "ioerror" | .diskFull => "diskfull" | .fileTypeMismatch => "filetypemismatch" | .syntax => "syntax"
  | .directoryFull => "directoryfull" | .duplicateFilename => "duplicate" | .imgErr => "imgerr" | .parseInt => "parseint"
  | .panic => "panic"

abbrev R := Except Err

abbrev blockSize : Nat := 512
abbrev volKeyBlock : Nat := 2
abbrev entryLen : Nat := 39
/-- `KeyBlock::len()`, `EntryBlock::len()` -/
abbrev dirLen : Nat := 511
def stdAccess : Nat := 0xC3
def didChange : Nat := 0x20

/-- storage types (`types.rs::StorageType`) -/
def stSeedling : Nat := 1
def stSapling : Nat := 2
def stTree : Nat := 3
def stSubDirEntry : Nat := 0xD
def stSubDirHeader : Nat := 0xE
def stVolDirHeader : Nat := 0xF

/-! ## bytes -/

def u16le (v : Nat) : Bytes := [v % 256, v / 256 % 256]
def zeros (n : Nat) : Bytes := List.replicate n 0

/-- overwrite `new.length` bytes of `e` at `off` (a field assignment of a `DiskStruct`) -/
def splice (e : Bytes) (off : Nat) (new : Bytes) : Bytes := e.take off ++ new ++ e.drop (off + new.length)

/-- `img::quantize_block(dat, 512)` -/
def quantize (d : Bytes) : Bytes := d.take blockSize ++ List.replicate (blockSize - d.length) 0

/-- compiled form of `quantize`: a full block is returned as it is (no new list cells) -/
def quantizeFast (d : Bytes) : Bytes := if d.length = blockSize then d else d.take blockSize ++ List.replicate (blockSize - d.length) 0

@[csimp] theorem quantize_eq_fast : @quantize = @quantizeFast := by
  funext d
  unfold quantize quantizeFast
  split
  · next h => simp [h, List.take_of_length_le]
  · rfl

/-- `&data[offset..offset+actual_len]` of `zap_block`, `actual_len = min(len - offset, 512)` -/
def blockSlice (data : Bytes) (offset : Nat) : Bytes := (data.drop offset).take blockSize

/-- compiled form of `blockSlice`: the common case (offset 0, at most one block) allocates nothing -/
def blockSliceFast (data : Bytes) (offset : Nat) : Bytes :=
  if offset = 0 ∧ data.length ≤ blockSize then data else (data.drop offset).take blockSize

@[csimp] theorem blockSlice_eq_fast : @blockSlice = @blockSliceFast := by
  funext data offset
  unfold blockSlice blockSliceFast
  split
  · next h => obtain ⟨h0, h1⟩ := h; subst h0; simp [List.take_of_length_le h1]
  · rfl

/-- `(a..b)` -/
def rng (a b : Nat) : List Nat := List.range' a (b - a)

/-! ## names and paths (`pack.rs`, `mod.rs::normalize_path`, `split_path`) -/

def upperByte (c : Nat) : Nat := if 97 ≤ c ∧ c ≤ 122 then c - 32 else c
def lowerByte (c : Nat) : Nat := if 65 ≤ c ∧ c ≤ 90 then c + 32 else c
def upper (s : Bytes) : Bytes := s.map upperByte
def lower (s : Bytes) : Bytes := s.map lowerByte

def isUpperAlpha (c : Nat) : Bool := 65 ≤ c && c ≤ 90
def isNameChar (c : Nat) : Bool := isUpperAlpha c || (48 ≤ c && c ≤ 57) || c == 46

/-- `is_name_valid`: `^[A-Z][A-Z0-9.]{0,14}$` on the upper-cased string -/
def isNameValid (s : Bytes) : Bool :=
  match upper s with
  | [] => false
  | c :: rest => isUpperAlpha c && rest.all isNameChar && decide (rest.length ≤ 14)

/-- the `stor_len_nibs` byte `string_to_file_name(stype, s)` yields: `((stype as u8) << 4) + s.len() as u8` -/
def nibsOf (stype : Nat) (s : Bytes) : Nat := (stype * 16 + s.length) % 256

/-- the 15 name bytes `string_to_file_name` yields (the caller has checked validity; the Rust panics otherwise) -/
def nameField (s : Bytes) : Bytes := upper s ++ zeros (15 - s.length)

/-- Rust's `str::split("/")` -/
def splitSlash : Bytes → List Bytes
  | [] => [[]]
  | c :: cs =>
    let r := splitSlash cs
    if c == 47 then [] :: r
    else match r with
      | h :: t => (c :: h) :: t
      | [] => [[c]]

/-- the prefix / relative-path length accounting of `normalize_path`: state `(prefix_len, rel_path_len)` -/
def pathLens : List Bytes → Nat × Nat → Nat × Nat
  | [], s => s
  | n :: ns, (pre, rel) =>
    if rel > 0 then pathLens ns (pre, rel + 1 + n.length)
    else if pre + 1 + n.length > 64 then pathLens ns (pre, rel + 1 + n.length)
    else pathLens ns (pre + 1 + n.length, rel)

/-- `normalize_path(vol_name, path)`; `&path[0..1]` panics for the empty path -/
def normalizePath (volName path : Bytes) : R (List Bytes) :=
  match path with
  | [] => .error .panic
  | c :: _ =>
    let nodes0 := (splitSlash path).map upper
    let nodes := if c ≠ 47 then volName :: nodes0 else nodes0.drop 1
    if (pathLens nodes (0, 0)).2 > 64 then .error .range else .ok nodes

/-- `split_path`: `(parent_path, name)` -/
def splitPath (volName path : Bytes) : R (Bytes × Bytes) :=
  match normalizePath volName path with
  | .error e => .error e
  | .ok nodes =>
    -- `path_nodes[path_nodes.len()-1]`: `normalize_path` never returns an empty list
    let nodes1 := if (nodes.getLastD []).length = 0 then nodes.dropLast else nodes
    match nodes1.getLast? with
    | none => .error .panic
    | some name =>
      if nodes1.length < 2 then .error .pathNotFound
      else .ok ((nodes1.dropLast.map (fun s => 47 :: s)).flatten, name)

/-! ## directory entries: 39 bytes, fields at fixed offsets (`directory.rs::Entry`) -/

namespace Ent
def storLen (e : Bytes) : Nat := e.getD 0 0
def isActive (e : Bytes) : Bool := storLen e > 0
/-- `storage_type()`: `StorageType::from_u8(nibs >> 4)`, unknown values are `Inactive` -/
def storageType (e : Bytes) : Nat :=
  let t := storLen e / 16
  if t = 0 ∨ t = 1 ∨ t = 2 ∨ t = 3 ∨ t = 4 ∨ t = 0xD ∨ t = 0xE ∨ t = 0xF then t else 0
def name (e : Bytes) : Bytes := slice e 1 15
/-- `name()` = `file_name_to_string(nibs, name)` (valid UTF-8: ASCII) -/
def nameStr (e : Bytes) : Bytes := (name e).take (storLen e % 16)
def fileType (e : Bytes) : Nat := e.getD 16 0
def keyPtr (e : Bytes) : Nat := le16 e 17
def blocksUsed (e : Bytes) : Nat := le16 e 19
def eof (e : Bytes) : Nat := le24 e 21
def createTime (e : Bytes) : Bytes := slice e 24 4
def access (e : Bytes) : Nat := e.getD 30 0
def aux (e : Bytes) : Nat := le16 e 31
def lastMod (e : Bytes) : Bytes := slice e 33 4
def headerPtr (e : Bytes) : Nat := le16 e 37

def setStorLen (e : Bytes) (v : Nat) : Bytes := splice e 0 [v]
/-- `change_storage_type` -/
def changeStorageType (e : Bytes) (st : Nat) : Bytes := setStorLen e ((storLen e % 16) ||| (st * 16 % 256))
def setPtr (e : Bytes) (p : Nat) : Bytes := splice e 17 (u16le p)
/-- `set_eof`: `bytes as u32`, low three bytes -/
def setEof (e : Bytes) (n : Nat) : Bytes := splice e 21 [n % 256, n / 256 % 256, n / 65536 % 256]
/-- `delta_blocks(1)`: `(blocks_used as i32 + 1) as u16` -/
def incBlocks (e : Bytes) : Bytes := splice e 19 (u16le ((blocksUsed e + 1) % 65536))
def setAccess (e : Bytes) (a : Nat) : Bytes := splice e 30 [a]
def setFtype (e : Bytes) (t : Nat) : Bytes := splice e 16 [t]
def setAux (e : Bytes) (a : Nat) : Bytes := splice e 31 (u16le a)
/-- `rename`: `string_to_file_name(self.storage_type(), name)` -/
def rename (e : Bytes) (nm : Bytes) : Bytes := splice (setStorLen e (nibsOf (storageType e) nm)) 1 (nameField nm)
end Ent

/-- `is_file_match(valid_types, name, entry)` -/
def isFileMatch (types : List Nat) (nm : Bytes) (e : Bytes) : Bool :=
  types.any (fun t =>
    let nibs := nibsOf t nm
    let l := nibs % 16
    nibs == Ent.storLen e && (nameField nm).take l == (Ent.name e).take l)

/-- `Entry::create_file` after the field-length checks -/
def createFileEntry (nm : Bytes) (ftype keyPtr vers minVers access aux0 aux1 headerPtr : Nat) (time : Bytes) : Bytes :=
  [nibsOf stSeedling nm] ++ nameField nm ++ [ftype] ++ u16le keyPtr ++ [0, 0] ++ [0, 0, 0] ++ time.take 4 ++
    [vers, minVers, access] ++ [aux0, aux1] ++ time.take 4 ++ u16le headerPtr

/-- `Entry::create_subdir` followed by `delta_blocks(1); set_eof(512)` -/
def createSubdir (nm : Bytes) (keyPtr headerPtr : Nat) (time : Bytes) : Bytes :=
  Ent.setEof (Ent.incBlocks (
    [nibsOf stSubDirEntry nm] ++ nameField nm ++ [0x0F] ++ u16le keyPtr ++ [0, 0] ++ [0, 0, 0] ++ time.take 4 ++
      [0, 0, stdAccess ||| didChange] ++ u16le 0 ++ time.take 4 ++ u16le headerPtr)) 512

/-- `SubDirHeader::create` on a fresh header -/
def subDirHeader (nm : Bytes) (parentPtr parentEntryNum : Nat) (time : Bytes) : Bytes :=
  [nibsOf stSubDirHeader nm] ++ nameField nm ++ [0x75, 0, 0, 0, 0, 0, 0, 0] ++ time.take 4 ++
    [0, 0, stdAccess, 0x27, 13] ++ [0, 0] ++ u16le parentPtr ++ [parentEntryNum % 256, 0x27]

/-- `VolDirHeader::format` on a fresh header -/
def volDirHeader (blocks : Nat) (nm : Bytes) (time : Bytes) : Bytes :=
  [nibsOf stVolDirHeader nm] ++ nameField nm ++ zeros 8 ++ time.take 4 ++
    [0, 0, stdAccess, 0x27, 13] ++ [0, 0] ++ [6, 0] ++ u16le blocks

/-! ## directory blocks -/

inductive DKind where
  | volKey | subKey | entry
  deriving DecidableEq, Repr, Inhabited

/-- a `Box<dyn Directory>`: the kind `get_directory` chose and the 511 bytes `to_bytes` returns -/
structure Dir where
  kind : DKind
  bytes : Bytes
  deriving Repr, Inhabited

/-- `EntryLocation` -/
structure Loc where
  block : Nat
  idx : Nat
  deriving DecidableEq, Repr, Inhabited

namespace Dir
def prev (d : Dir) : Nat := le16 d.bytes 0
def next (d : Dir) : Nat := le16 d.bytes 2
def idxOk (d : Dir) (idx : Nat) : Bool :=
  match d.kind with
  | .entry => decide (1 ≤ idx) && decide (idx ≤ 13)
  | _ => decide (2 ≤ idx) && decide (idx ≤ 13)
/-- `entry_locations(iblock)`: the `idx` values -/
def entryIdxs (d : Dir) : List Nat :=
  match d.kind with
  | .entry => rng 1 14
  | _ => rng 2 14
def entryOff (idx : Nat) : Nat := 4 + entryLen * (idx - 1)
/-- `get_entry(loc)`; `none` = index panic -/
def getEntry (d : Dir) (idx : Nat) : Option Bytes := if d.idxOk idx then some (slice d.bytes (entryOff idx) entryLen) else none
def setEntry (d : Dir) (idx : Nat) (e : Bytes) : Option Dir :=
  if d.idxOk idx then some { d with bytes := splice d.bytes (entryOff idx) (e.take entryLen) } else none
/-- `delete_entry(loc)`: `stor_len_nibs = 0` -/
def deleteEntry (d : Dir) (idx : Nat) : Option Dir :=
  if d.idxOk idx then some { d with bytes := splice d.bytes (entryOff idx) [0] } else none
/-- `set_links(prev, next)` -/
def setLinks (d : Dir) (p n : Option Nat) : Dir :=
  let b1 := match p with | some v => splice d.bytes 0 (u16le v) | none => d.bytes
  let b2 := match n with | some v => splice b1 2 (u16le v) | none => b1
  { d with bytes := b2 }
/-- the header (first "entry" of a key block) -/
def header (d : Dir) : Bytes := slice d.bytes 4 entryLen
/-- `file_count()`; an `EntryBlock` panics -/
def fileCount (d : Dir) : Option Nat := match d.kind with | .entry => none | _ => some (le16 d.bytes (4 + 33))
/-- `inc_file_count()`: `u16 + 1` -/
def incFileCount (d : Dir) : Option Dir :=
  match d.fileCount with
  | none => none
  | some n => if n + 1 > 65535 then none else some { d with bytes := splice d.bytes (4 + 33) (u16le (n + 1)) }
/-- `dec_file_count()`: `u16 - 1` -/
def decFileCount (d : Dir) : Option Dir :=
  match d.fileCount with
  | none => none
  | some n => if n = 0 then none else some { d with bytes := splice d.bytes (4 + 33) (u16le (n - 1)) }
/-- `parent_entry_loc()`: `Ok none` for the volume directory, panic for an entry block -/
def parentEntryLoc (d : Dir) : Option (Option Loc) :=
  match d.kind with
  | .volKey => some none
  | .subKey => some (some { block := le16 d.bytes (4 + 35), idx := d.bytes.getD (4 + 37) 0 })
  | .entry => none
/-- `delete()`: header `stor_len_nibs = 0`; only a sub-directory key block -/
def delete (d : Dir) : Option Dir :=
  match d.kind with
  | .subKey => some { d with bytes := splice d.bytes 4 [0] }
  | _ => none
/-- `EntryBlock::new()` with `set_links(Some(prev), Some(next))` -/
def newEntryBlock (p n : Nat) : Dir := { kind := .entry, bytes := u16le p ++ u16le n ++ zeros (13 * entryLen) }
end Dir

/-! ## the file system object and its monad -/

/-- which of the proposed repairs the modelled source contains (the harness probes the real code and tells the driver,
so that the tie is exact before and after a repair is applied) -/
structure Repairs where
  /-- `delete` of a directory follows the chain of its blocks -/
  dirDelete : Bool := false
  /-- `put` refuses a file image beyond 128 index blocks or with an end of file beyond 24 bits -/
  putLimits : Bool := false
  /-- the number of bitmap blocks is `⌈total/4096⌉` (as ProDOS lays a volume out) instead of `1 + total/4096`
  (`proposed_fixes/prodos-bitmap-block-count.diff`) -/
  bitmapCeil : Bool := false
  /-- `write_file` stores a hole in slot 0 of the index block when the file image has no chunk 0, instead of the
  entry's provisional key pointer (`proposed_fixes/prodos-put-first-chunk-hole.diff`) -/
  firstHole : Bool := false
  /-- `put` checks the lengths of the file image's `fs_type`, `version`, `min_version`, `aux` and `access` fields before it
  touches the directory, instead of `Entry::create_file` refusing (or `access[0]` panicking) after the file count of the
  directory has been raised (`proposed_fixes/prodos-put-field-lengths.diff`) -/
  fieldsFirst : Bool := false
  deriving Repr, Inhabited, DecidableEq

/-- `struct Disk`: image, `total_blocks` (fixed by `from_img`), `maybe_bitmap`, `bitmap_blocks`; `src` is not state of
the Rust object but says which variant of the source is modelled where the variant is not passed as an argument
(`bitmapCeil`, `firstHole`) -/
structure Disk where
  raw : Raw
  total : Nat
  bitmap : Option (Array Nat)
  bitmapBlocks : List Nat
  src : Repairs := {}
  deriving Inhabited

def M (α : Type) : Type := Disk → R α × Disk

namespace M
def pure {α : Type} (a : α) : M α := fun d => (.ok a, d)
def bind {α β : Type} (m : M α) (f : α → M β) : M β := fun d =>
  match m d with
  | (.ok a, d') => f a d'
  | (.error e, d') => (.error e, d')
def fail {α : Type} (e : Err) : M α := fun d => (.error e, d)
/-- a computation that does not touch the state -/
def lift {α : Type} (x : R α) : M α := fun d => (x, d)
def get : M Disk := fun d => (.ok d, d)
def set (d' : Disk) : M Unit := fun _ => (.ok (), d')
/-- `none` = the Rust panics -/
def ofOption {α : Type} (x : Option α) : M α := fun d => match x with | some a => (.ok a, d) | none => (.error .panic, d)
/-- `if let Ok(x) = …`: an error is turned into a value, the state reached is kept; a panic is not caught -/
def attempt {α : Type} (m : M α) : M (Option α) := fun d =>
  match m d with
  | (.ok a, d') => (.ok (some a), d')
  | (.error .panic, d') => (.error .panic, d')
  | (.error _, d') => (.ok none, d')
end M

instance : Monad M where
  pure := M.pure
  bind := M.bind

/-- run `f` on every element in order, stop at the first failure -/
def forEach {α : Type} (f : α → M Unit) : List α → M Unit
  | [] => M.pure ()
  | a :: as => M.bind (f a) (fun _ => forEach f as)

/-! ## image access (`dsk_po.rs`) -/

/-- `img.read_block(Block::PO(i))` -/
def imgRead (r : Raw) (i : Nat) : R Bytes :=
  match r.units[i]? with
  | some b => .ok b
  | none => .error .imgErr

/-- `PO::write_block` -/
def imgWrite (r : Raw) (i : Nat) (d : Bytes) : R Raw :=
  if i < r.units.size then .ok { r with units := r.units.setIfInBounds i (quantize d) } else .error .imgErr

/-! ## the bitmap buffer -/

/-- the loop of `open_bitmap_buffer`: blocks read so far are appended to the buffer and pushed to
`bitmap_blocks`; a failing read leaves the blocks pushed so far.  (Inside `open_bitmap_buffer` every
`read_block` goes to the image: `bitmap_blocks` was emptied first and holds only smaller block numbers.) -/
def openLoop (r : Raw) : List Nat → Array Nat → List Nat → R (Array Nat) × List Nat
  | [], acc, pushed => (.ok acc, pushed)
  | i :: is, acc, pushed =>
    match imgRead r i with
    | .error e => (.error e, pushed)
    | .ok b => openLoop r is (acc ++ b.toArray) (pushed ++ [i])

/-- `1 + self.total_blocks / 4096` (as written up to aadfbdc) -/
def bitmapBlockCount (total : Nat) : Nat := 1 + total / 4096

/-- `bitmap_block_count` of `open_bitmap_buffer`, `writeback_bitmap_buffer` and `format`, as written or as repaired -/
def Disk.bmCount (d : Disk) : Nat := if d.src.bitmapCeil then (d.total + 4095) / 4096 else bitmapBlockCount d.total

/-- `open_bitmap_buffer` -/
def openBitmap : M Unit := fun d =>
  match d.bitmap with
  | some _ => (.ok (), d)
  | none =>
    let d0 := { d with bitmapBlocks := [] }
    -- `get_vol_header()` → `read_block(2)` with an empty `bitmap_blocks`
    match imgRead d0.raw volKeyBlock with
    | .error e => (.error e, d0)
    | .ok kb =>
      let bptr := le16 kb (4 + 35)
      match openLoop d0.raw (List.range' bptr d.bmCount) #[] [] with
      | (.error e, pushed) => (.error e, { d0 with bitmapBlocks := pushed })
      | (.ok buf, pushed) => (.ok (), { d0 with bitmap := some buf, bitmapBlocks := pushed })

/-- `get_bitmap_buffer` -/
def getBitmap : M (Array Nat) :=
  M.bind openBitmap (fun _ => M.bind M.get (fun d => M.ofOption d.bitmap))

def setBitmap (buf : Array Nat) : M Unit := fun d => (.ok (), { d with bitmap := some buf })

/-- `1 << bit` with `bit = 7 - iblock % 8`, as a table (`bitMask_eq`: the compiled shift goes through GMP) -/
def bitMask (i : Nat) : Nat :=
  match i % 8 with
  | 0 => 128 | 1 => 64 | 2 => 32 | 3 => 16 | 4 => 8 | 5 => 4 | 6 => 2 | _ => 1

theorem bitMask_eq (i : Nat) : bitMask i = 1 <<< (7 - i % 8) := by
  have h : i % 8 < 8 := Nat.mod_lt _ (by decide)
  unfold bitMask
  generalize i % 8 = k at h
  match k, h with
  | 0, _ | 1, _ | 2, _ | 3, _ | 4, _ | 5, _ | 6, _ | 7, _ => rfl

/-- `allocate_block`: clear the bit (`buf[byte] &= (1 << bit) ^ u8::MAX`) -/
def allocate (i : Nat) : M Unit := do
  let buf ← getBitmap
  match buf[i / 8]? with
  | none => M.fail .panic
  | some b => setBitmap (buf.setIfInBounds (i / 8) (b &&& (bitMask i ^^^ 255)))

/-- `deallocate_block`: set the bit -/
def deallocate (i : Nat) : M Unit := do
  let buf ← getBitmap
  match buf[i / 8]? with
  | none => M.fail .panic
  | some b => setBitmap (buf.setIfInBounds (i / 8) (b ||| bitMask i))

def bitFree (b i : Nat) : Bool := decide ((b &&& bitMask i) > 0)

/-- `is_block_free` -/
def isBlockFree (i : Nat) : M Bool := do
  let buf ← getBitmap
  match buf[i / 8]? with
  | none => M.fail .panic
  | some b => pure (bitFree b i)

/-- `is_block_free` on the open buffer -/
def isFreeIn (buf : Array Nat) (i : Nat) : R Bool :=
  match buf[i / 8]? with
  | none => .error .panic
  | some b => .ok (bitFree b i)

/-- `for i in i..i+n { if is_block_free(i)? { free += 1 } }` on the open buffer -/
def countFreeFrom (buf : Array Nat) : Nat → Nat → Nat → R Nat
  | 0, _, acc => .ok acc
  | n + 1, i, acc =>
    match isFreeIn buf i with
    | .error e => .error e
    | .ok f => countFreeFrom buf n (i + 1) (if f then acc + 1 else acc)

/-- `num_free_blocks` (`free: u16`; at most 65535 blocks).  Every `is_block_free` calls `get_bitmap_buffer`,
which changes the state only the first time (it opens the buffer): the buffer is fetched once here. -/
def numFreeBlocks : M Nat := do
  let d ← M.get
  if d.total = 0 then pure 0
  else do
    let buf ← getBitmap
    M.lift (countFreeFrom buf d.total 0 0)

/-- `for block in i..i+n { if is_block_free(block)? { return Some(block as u16) } }` on the open buffer -/
def firstFreeFrom (buf : Array Nat) : Nat → Nat → R (Option Nat)
  | 0, _ => .ok none
  | n + 1, i =>
    match isFreeIn buf i with
    | .error e => .error e
    | .ok f => if f then .ok (some (i % 65536)) else firstFreeFrom buf n (i + 1)

/-- `get_available_block`: the first free block (`block as u16`) -/
def getAvailableBlock : M (Option Nat) := do
  let d ← M.get
  if d.total = 0 then pure none
  else do
    let buf ← getBitmap
    M.lift (firstFreeFrom buf d.total 0)

/-! ## block access -/

/-- `read_block(&mut buf, iblock, 0)` with a 512-byte `buf`: a bitmap block comes from the buffer -/
def readBlock (i : Nat) : M Bytes := do
  let d ← M.get
  if d.bitmapBlocks.contains i then
    let first := d.bitmapBlocks.headD 0
    let buf ← getBitmap
    -- `buf[(iblock-first)*512 + i]`
    if i < first ∨ (i - first) * blockSize + blockSize > buf.size then M.fail .panic
    else pure ((buf.extract ((i - first) * blockSize) ((i - first) * blockSize + blockSize)).toList)
  else M.lift (imgRead d.raw i)

/-- `zap_block(data, iblock, offset)` -/
def zapBlock (data : Bytes) (i offset : Nat) : M Unit := fun d =>
  if data.length < offset then (.error .panic, d) else
  let d1 := if d.bitmapBlocks.contains i then { d with bitmap := none } else d
  match imgWrite d1.raw i (blockSlice data offset) with
  | .error e => (.error e, d1)
  | .ok r => (.ok (), { d1 with raw := r })

/-- `write_block(data, iblock, offset)`: zap and allocate; a bitmap block panics -/
def writeBlock (data : Bytes) (i offset : Nat) : M Unit := do
  let d ← M.get
  if d.bitmapBlocks.contains i then M.fail .panic
  else do
    zapBlock data i offset
    allocate i

/-- `writeback_bitmap_buffer` -/
def writeback : M Unit := do
  let d ← M.get
  match d.bitmap with
  | none => pure ()
  | some buf =>
    match d.bitmapBlocks with
    | [] => pure ()
    | first :: _ =>
      let data := buf.toList
      forEach (fun i => zapBlock data i ((i - first) * blockSize)) (List.range' first d.bmCount)

/-- the image `get_img()` hands out: `writeback_bitmap_buffer().expect(..)` -/
def Disk.flush (d : Disk) : R Unit × Disk :=
  match writeback d with
  | (.ok _, d') => (.ok (), d')
  | (.error _, d') => (.error .panic, d')

/-! ## `format` -/

/-- `format(vol_name, floppy, time)`; `boot0` is `boot::FLOPPY_BLOCK0` / `HD_BLOCK0` as chosen by `floppy`,
`time` is `pack_time(time)` -/
def format (volName : Bytes) (boot0 time : Bytes) : M Unit := do
  if !isNameValid volName then M.fail .syntax
  else do
    let d ← M.get
    forEach (fun i => zapBlock (zeros blockSize) i 0) (rng 0 d.total)
    -- `KeyBlock::<VolDirHeader>::new()`, `set_links(Some(0), Some(3))`, `header.format(total as u16, ..)`
    let key : Bytes := u16le 0 ++ u16le (volKeyBlock + 1) ++ volDirHeader (d.total % 65536) volName time ++ zeros (12 * entryLen)
    let first := 6
    zapBlock key volKeyBlock 0
    forEach deallocate (rng 0 d.total)
    allocate volKeyBlock
    forEach allocate (rng first (first + d.bmCount))
    writeBlock boot0 0 0
    writeBlock (zeros blockSize) 1 0
    forEach (fun b => writeBlock (Dir.newEntryBlock (b - 1) (if b = 5 then 0 else b + 1)).bytes b 0) [3, 4, 5]

/-! ## directories -/

/-- `get_vol_header()`: the 39 header bytes of block 2 -/
def getVolHeader : M Bytes := do
  let buf ← readBlock volKeyBlock
  pure (slice buf 4 entryLen)

/-- `VolDirHeader::name()` -/
def volName (h : Bytes) : Bytes := Ent.nameStr h

/-- `get_directory(iblock)` -/
def getDirectory (i : Nat) : M Dir := do
  let buf ← readBlock i
  let z := buf.getD 0 0 == 0 && buf.getD 1 0 == 0
  let kind := if i = volKeyBlock then DKind.volKey else if z then DKind.subKey else DKind.entry
  pure { kind := kind, bytes := buf.take dirLen }

def keyDirLoop : Nat → Nat → M (Nat × Dir)
  | 0, _ => M.fail .endOfData
  | fuel + 1, curr => do
    let dir ← getDirectory curr
    if dir.prev = 0 then pure (curr, dir) else keyDirLoop fuel dir.prev

/-- `get_key_directory(ptr)` -/
def getKeyDirectory (ptr : Nat) : M (Nat × Dir) := keyDirLoop 100 ptr

/-- `read_entry(loc)` -/
def readEntry (loc : Loc) : M Bytes := do
  let dir ← getDirectory loc.block
  M.ofOption (dir.getEntry loc.idx)

/-- `write_entry(loc, entry)` -/
def writeEntry (loc : Loc) (e : Bytes) : M Unit := do
  let dir ← getDirectory loc.block
  let dir' ← M.ofOption (dir.setEntry loc.idx e)
  writeBlock dir'.bytes loc.block 0

def expandLoop (parentLoc : Loc) (entry : Bytes) : Nat → Nat → M Loc
  | 0, _ => M.fail .endOfData
  | fuel + 1, curr => do
    let dir ← getDirectory curr
    if dir.next = 0 then do
      match ← getAvailableBlock with
      | some avail => do
        let entry' := Ent.incBlocks (Ent.setEof entry (Ent.eof entry + 512))
        writeEntry parentLoc entry'
        writeBlock (dir.setLinks none (some avail)).bytes curr 0
        writeBlock (Dir.newEntryBlock curr 0).bytes avail 0
        pure { block := avail, idx := 1 }
      | none => M.fail .diskFull
    else expandLoop parentLoc entry fuel dir.next

/-- `expand_directory(parent_loc)` -/
def expandDirectory (parentLoc : Loc) : M Loc := do
  let entry ← readEntry parentLoc
  if Ent.storageType entry ≠ stSubDirEntry then M.fail .fileTypeMismatch
  else expandLoop parentLoc entry 100 (Ent.keyPtr entry)

/-- first inactive entry of one block -/
def firstInactive (dir : Dir) : List Nat → Option Nat
  | [] => none
  | idx :: rest =>
    match dir.getEntry idx with
    | some e => if !Ent.isActive e then some idx else firstInactive dir rest
    | none => firstInactive dir rest

def availEntryLoop (keyBlock : Nat) : Nat → Nat → M Loc
  | 0, _ => M.fail .endOfData
  | fuel + 1, curr => do
    let dir ← getDirectory curr
    match firstInactive dir dir.entryIdxs with
    | some idx => pure { block := curr, idx := idx }
    | none =>
      if dir.next = 0 then do
        let kd ← getDirectory keyBlock
        match ← M.ofOption kd.parentEntryLoc with
        | some parentLoc => expandDirectory parentLoc
        | none => M.fail .directoryFull
      else availEntryLoop keyBlock fuel dir.next

/-- `get_available_entry(key_block)` -/
def getAvailableEntry (keyBlock : Nat) : M Loc := availEntryLoop keyBlock 100 keyBlock

/-- first active entry of one block matching `(types, name)` -/
def firstMatch (types : List Nat) (nm : Bytes) (dir : Dir) : List Nat → Option Nat
  | [] => none
  | idx :: rest =>
    match dir.getEntry idx with
    | some e => if Ent.isActive e && isFileMatch types nm e then some idx else firstMatch types nm dir rest
    | none => firstMatch types nm dir rest

def searchLoop (types : List Nat) (nm : Bytes) : Nat → Nat → M (Option Loc)
  | 0, _ => M.fail .endOfData
  | fuel + 1, curr => do
    let dir ← getDirectory curr
    match firstMatch types nm dir dir.entryIdxs with
    | some idx => pure (some { block := curr, idx := idx })
    | none => if dir.next = 0 then pure none else searchLoop types nm fuel dir.next

/-- `search_entries(stype, name, key_block)` -/
def searchEntries (types : List Nat) (nm : Bytes) (keyBlock : Nat) : M (Option Loc) :=
  if !isNameValid nm then M.fail .syntax else searchLoop types nm 100 keyBlock

/-- the walk of `search_volume` over levels `level, level+1, … < n` -/
def walkLoop (types : List Nat) (nodes : List Bytes) (n : Nat) : List Nat → Nat → M Loc
  | [], _ => M.fail .pathNotFound
  | level :: levels, curr => do
    let subdir := nodes.getD level []
    let typesNow := if level = n - 1 then types else [stSubDirEntry]
    match ← searchEntries typesNow subdir curr with
    | some loc =>
      if level = n - 1 ∨ (level + 2 = n ∧ nodes.getD (n - 1) [] = [] ∧ types.contains stSubDirEntry) then pure loc
      else do
        let entry ← readEntry loc
        walkLoop types nodes n levels (Ent.keyPtr entry)
    | none => M.fail .pathNotFound

/-- `search_volume(file_types, path)` -/
def searchVolume (types : List Nat) (path : Bytes) : M Loc := do
  let vhdr ← getVolHeader
  let nodes ← M.lift (normalizePath (volName vhdr) path)
  if nodes.getD 0 [] ≠ volName vhdr then M.fail .pathNotFound
  else
    let n := nodes.length
    if n < 3 ∧ nodes.getD (n - 1) [] = [] then M.fail .pathNotFound
    else walkLoop types nodes n (rng 1 n) volKeyBlock

def fileTypes : List Nat := [stSeedling, stSapling, stTree]
def allTypes : List Nat := [stSeedling, stSapling, stTree, stSubDirEntry]

/-- `find_file(path)` -/
def findFile (path : Bytes) : M Loc := searchVolume fileTypes path

/-- `find_dir_key_block(path)` -/
def findDirKeyBlock (path : Bytes) : M Nat := do
  let vhdr ← getVolHeader
  let vname := 47 :: lower (volName vhdr)
  if path = [47] ∨ path = [] ∨ lower path = vname ∨ lower path = vname ++ [47] then pure volKeyBlock
  else
    match ← M.attempt (searchVolume [stSubDirEntry] path) with
    | some loc => do
      let entry ← readEntry loc
      pure (Ent.keyPtr entry)
    | none => M.fail .pathNotFound

/-! ## `get` / `read_file` -/

/-- `read_index_block`: the data blocks under one index block, chunk numbers from `base` -/
def readIndexLoop (ib : Bytes) (base : Nat) : List Nat → M (List (Nat × Bytes))
  | [] => pure []
  | idx :: rest => do
    let ptr := ib.getD idx 0 + 256 * ib.getD (idx + 256) 0
    if ptr > 0 then do
      let blk ← readBlock ptr
      let more ← readIndexLoop ib base rest
      pure ((base + idx, blk) :: more)
    else readIndexLoop ib base rest

def readIndexBlock (indexPtr base : Nat) : M (List (Nat × Bytes)) := do
  let ib ← readBlock indexPtr
  readIndexLoop ib base (rng 0 256)

def readMasterLoop (mb : Bytes) : List Nat → M (List (Nat × Bytes))
  | [] => pure []
  | idx :: rest => do
    let ptr := mb.getD idx 0 + 256 * mb.getD (idx + 256) 0
    if ptr > 0 then do
      let cs ← readIndexBlock ptr (256 * idx)
      let more ← readMasterLoop mb rest
      pure (cs ++ more)
    else readMasterLoop mb rest

/-- what `get` returns of a file (`metadata_to_fimg` + chunks) -/
structure Got where
  fsType : Nat
  aux : Nat
  eof : Nat
  access : Nat
  created : Bytes
  modified : Bytes
  chunks : List (Nat × Bytes)
  deriving Repr, Inhabited

/-- `read_file(entry)` -/
def readFile (e : Bytes) : M Got := do
  let st := Ent.storageType e
  let md : Got := { fsType := Ent.fileType e, aux := Ent.aux e, eof := Ent.eof e, access := Ent.access e,
                      created := Ent.createTime e, modified := Ent.lastMod e, chunks := [] }
  if st = stSeedling then do
    let blk ← readBlock (Ent.keyPtr e)
    pure { md with chunks := [(0, blk)] }
  else if st = stSapling then do
    let cs ← readIndexBlock (Ent.keyPtr e) 0
    pure { md with chunks := cs }
  else if st = stTree then do
    let mb ← readBlock (Ent.keyPtr e)
    let cs ← readMasterLoop mb (rng 0 256)
    pure { md with chunks := cs }
  else M.fail .fileTypeMismatch

/-- `get(path)` -/
def get (path : Bytes) : M Got := do
  let loc ← findFile path
  let e ← readEntry loc
  readFile e

/-! ## `delete` -/

def deallocPtrs (blk : Bytes) : List Nat → M Unit
  | [] => pure ()
  | idx :: rest => do
    let ptr := blk.getD idx 0 + 256 * blk.getD (idx + 256) 0
    if ptr > 0 then do
      deallocate ptr
      deallocPtrs blk rest
    else deallocPtrs blk rest

/-- `deallocate_index_block`: free the data blocks, write the index block back with its halves swapped, free it -/
def deallocIndexBlock (indexPtr : Nat) : M Unit := do
  let ib ← readBlock indexPtr
  deallocPtrs ib (rng 0 256)
  writeBlock (slice ib 256 256 ++ slice ib 0 256) indexPtr 0
  deallocate indexPtr

def deallocMasterLoop (mb : Bytes) : List Nat → M Unit
  | [] => pure ()
  | idx :: rest => do
    let ptr := mb.getD idx 0 + 256 * mb.getD (idx + 256) 0
    if ptr > 0 then do
      deallocIndexBlock ptr
      deallocMasterLoop mb rest
    else deallocMasterLoop mb rest

/-- `deallocate_file_blocks(entry)` -/
def deallocFileBlocks (e : Bytes) : M Unit := do
  let st := Ent.storageType e
  let p := Ent.keyPtr e
  if st = stSeedling then deallocate p
  else if st = stSapling then deallocIndexBlock p
  else if st = stTree then do
    let mb ← readBlock p
    deallocMasterLoop mb (rng 0 256)
    writeBlock (slice mb 256 256 ++ slice mb 0 256) p 0
    deallocate p
  else M.fail .panic

/-- the loop of the directory branch of `delete`, **as written**: `dir` is never re-read, so `dir.next()` is
the key block's link in every round.  A directory that has grown beyond its key block is therefore never
finished: its key block and second block are marked free, the parent entry stays, the answer is `EndOfData`
(finding `prodos/delete/grown-directory`, `proposed_fixes/prodos-delete-grown-directory.diff`). -/
def dirDeleteLoop (dirNext : Nat) (finish : M Unit) : Nat → Nat → M Unit
  | 0, _ => M.fail .endOfData
  | fuel + 1, next => do
    deallocate next
    if dirNext = 0 then finish else dirDeleteLoop dirNext finish fuel dirNext

/-- the same loop **as repaired**: the chain is followed (`link` is the `next` field of the block just released) -/
def dirDeleteLoopFixed (finish : M Unit) : Nat → Nat → Nat → M Unit
  | 0, _, _ => M.fail .endOfData
  | fuel + 1, next, link => do
    deallocate next
    if link ≠ 0 then do
      let d ← getDirectory link
      dirDeleteLoopFixed finish fuel link d.next
    else finish

/-- `delete(path)` -/
def delete (path : Bytes) (rp : Repairs := {}) : M Unit := do
  match ← M.attempt (findFile path) with
  | some loc => do
    let entry ← readEntry loc
    if Ent.access entry &&& 0x80 = 0 then M.fail .writeProtected
    else do
      deallocFileBlocks entry
      let dir ← getDirectory loc.block
      let dir' ← M.ofOption (dir.deleteEntry loc.idx)
      writeBlock dir'.bytes loc.block 0
      let (keyPtr, keyDir) ← getKeyDirectory loc.block
      let keyDir' ← M.ofOption keyDir.decFileCount
      writeBlock keyDir'.bytes keyPtr 0
  | none =>
    match ← M.attempt (findDirKeyBlock path) with
    | some ptr => do
      let dir ← getDirectory ptr
      match ← M.ofOption dir.parentEntryLoc with
      | some parentLoc => do
        let parentDir ← getDirectory parentLoc.block
        let fc ← M.ofOption dir.fileCount
        if fc > 0 then M.fail .writeProtected
        else do
          let dir' ← M.ofOption dir.delete
          writeBlock dir'.bytes ptr 0
          let finish : M Unit := do
            let parentDir' ← M.ofOption (parentDir.deleteEntry parentLoc.idx)
            writeBlock parentDir'.bytes parentLoc.block 0
            let (keyPtr, keyDir) ← getKeyDirectory parentLoc.block
            let keyDir' ← M.ofOption keyDir.decFileCount
            writeBlock keyDir'.bytes keyPtr 0
          if rp.dirDelete then dirDeleteLoopFixed finish 100 ptr dir'.next
          else dirDeleteLoop dir'.next finish 100 ptr
      | none => M.fail .writeProtected
    | none => M.fail .pathNotFound

/-! ## `modify`: lock, unlock, rename, retype -/

/-- `modify(loc, maybe_lock, maybe_new_name, maybe_new_type, maybe_new_aux)`; `newType = some none` is a type
string `FileType::from_str` refuses -/
def modify (loc : Loc) (lock : Option Bool) (newName : Option Bytes) (newType : Option (Option Nat)) (newAux : Option Nat) : M Unit := do
  let dir ← getDirectory loc.block
  let e0 ← M.ofOption (dir.getEntry loc.idx)
  if Ent.access e0 &&& 0x40 = 0 ∧ newName.isSome then M.fail .writeProtected
  else do
    let e1 := match lock with
      | some true => Ent.setAccess e0 (((Ent.access e0 &&& (255 ^^^ 0x80)) &&& (255 ^^^ 0x40)) &&& (255 ^^^ 0x02))
      | some false => Ent.setAccess e0 ((((Ent.access e0 ||| 0x01) ||| 0x80) ||| 0x40) ||| 0x02)
      | none => e0
    let e2 := match newName with
      | some nm => Ent.rename e1 nm
      | none => e1
    match newType with
    | some none => M.fail .fileTypeMismatch
    | _ =>
      let e3 := match newType with
        | some (some t) => Ent.setFtype e2 t
        | _ => e2
      let e4 := match newAux with
        | some a => Ent.setAux e3 a
        | none => e3
      writeEntry loc e4

/-- `ok_to_rename(path, new_name)` -/
def okToRename (path newName : Bytes) : M Unit := do
  if !isNameValid newName then M.fail .syntax
  else do
    let vhdr ← getVolHeader
    let (parentPath, _) ← M.lift (splitPath (volName vhdr) path)
    match ← M.attempt (findDirKeyBlock parentPath) with
    | some keyBlock =>
      match ← searchEntries allTypes newName keyBlock with
      | some _ => M.fail .duplicateFilename
      | none => pure ()
    | none => pure ()

/-- `rename(path, name)` -/
def rename (path newName : Bytes) : M Unit := do
  okToRename path newName
  match ← M.attempt (findFile path) with
  | some loc => modify loc none (some newName) none none
  | none =>
    match ← M.attempt (findDirKeyBlock path) with
    | some ptr => do
      let dir ← getDirectory ptr
      match ← M.ofOption dir.parentEntryLoc with
      | some parentLoc => modify parentLoc none (some newName) none none
      | none => M.fail .pathNotFound
    | none => M.fail .pathNotFound

/-- `lock(path)` -/
def lock (path : Bytes) : M Unit := do
  let loc ← findFile path
  modify loc (some true) none none none

/-- `unlock(path)` -/
def unlock (path : Bytes) : M Unit := do
  let loc ← findFile path
  modify loc (some false) none none none

/-- `retype(path, new_type, sub_type)`: `aux = none` is a `sub_type` that `u16::from_str` refuses, `newType` is
what `FileType::from_str(new_type)` yields (`none` = `FileTypeMismatch`) -/
def retype (path : Bytes) (newType : Option Nat) (aux : Option Nat) : M Unit :=
  match aux with
  | none => M.fail .parseInt
  | some a => do
    let loc ← findFile path
    modify loc none none (some newType) (some a)

/-! ## `put` / `write_file`, `create` -/

/-- what `put` uses of a `FileImage` -/
structure FImg where
  /-- `fimg.file_system == FS_NAME` -/
  fsOk : Bool := true
  chunkLen : Nat := 512
  fullPath : Bytes
  fsType : Bytes
  aux : Bytes
  access : Bytes
  version : Bytes := [0]
  minVersion : Bytes := [0]
  /-- `get_eof()` -/
  eof : Nat
  /-- the `HashMap<usize,Vec<u8>>` as an association list with distinct keys -/
  chunks : List (Nat × Bytes)
  deriving Repr, Inhabited

/-- `FileImage::end()`: largest chunk index + 1 -/
def FImg.end_ (f : FImg) : Nat := f.chunks.foldl (fun m c => max m (c.1 + 1)) 0

/-- number of distinct elements -/
def distinctCount (xs : List Nat) : Nat := xs.eraseDups.length

/-- `blocks_needed(fimg)` -/
def blocksNeeded (f : FImg) : Nat :=
  let e := f.end_
  let a0 := f.chunks.length
  let a1 := if e > 1 then a0 + 1 else a0
  if e > 256 then a1 + 1 + distinctCount ((f.chunks.filter (fun c => c.1 ≥ 256)).map (fun c => c.1 / 256)) else a1

/-- `prepare_to_write(path)` → `(name, key_block, loc, new_block)` -/
def prepareToWrite (path : Bytes) : M (Bytes × Nat × Loc × Nat) := do
  let vhdr ← getVolHeader
  let (parentPath, nm) ← M.lift (splitPath (volName vhdr) path)
  if !isNameValid nm then M.fail .syntax
  else
    match ← M.attempt (findDirKeyBlock parentPath) with
    | some keyBlock =>
      match ← searchEntries allTypes nm keyBlock with
      | some _ => M.fail .duplicateFilename
      | none => do
        let loc ← getAvailableEntry keyBlock
        match ← getAvailableBlock with
        | some newBlock => pure (nm, keyBlock, loc, newBlock)
        | none => M.fail .diskFull
    | none => M.fail .pathNotFound

/-- `pack_index_ptr(buf, ptr, idx)`; `none` = index panic -/
def packIndexPtr (buf : Bytes) (ptr idx : Nat) : Option Bytes :=
  if idx + 256 < buf.length then some (splice (splice buf idx [ptr % 256]) (idx + 256) [ptr / 256 % 256]) else none

theorem splice_one (b : Bytes) (i v : Nat) (h : i < b.length) : splice b i [v] = b.set i v := by
  simp [splice, List.set_eq_take_append_cons_drop, h]

/-- compiled form of `packIndexPtr`: two `List.set` -/
def packIndexPtrFast (buf : Bytes) (ptr idx : Nat) : Option Bytes :=
  if idx + 256 < buf.length then some ((buf.set idx (ptr % 256)).set (idx + 256) (ptr / 256 % 256)) else none

@[csimp] theorem packIndexPtr_eq_fast : @packIndexPtr = @packIndexPtrFast := by
  funext buf ptr idx
  unfold packIndexPtr packIndexPtrFast
  split
  · next h =>
    rw [splice_one buf idx _ (by omega), splice_one _ (idx + 256) _ (by simpa using h)]
  · rfl

/-- the local variables of `write_file` -/
structure WS where
  storage : Nat
  masterBuf : Bytes
  masterPtr : Nat
  masterCount : Nat
  indexBuf : Bytes
  indexPtr : Nat
  indexCount : Nat
  entry : Bytes
  deriving Repr, Inhabited

/-- `write_data_block_or_not(count, end, ent, buf_maybe)` → `(block or 0, ent)` -/
def writeDataBlockOrNot (count end_ : Nat) (ent : Bytes) (bufMaybe : Option Bytes) : M (Nat × Bytes) :=
  match bufMaybe with
  | some buf => do
    match ← getAvailableBlock with
    | some dataBlock => do
      writeBlock buf dataBlock 0
      let eof := Ent.eof ent + (if count + 1 < end_ then 512 else buf.length)
      pure (dataBlock, Ent.setEof (Ent.incBlocks ent) eof)
    | none => M.fail .diskFull
  | none => pure (0, Ent.setEof ent (Ent.eof ent + 512))

/-- `get_available_block().expect("unreachable").unwrap()` -/
def availOrPanic : M Nat := do
  match ← getAvailableBlock with
  | some b => pure b
  | none => M.fail .panic

/-- one round of the loop of `write_file` -/
def wfStep (f : FImg) (end_ count : Nat) (s : WS) : M WS := do
  let bufMaybe := f.chunks.lookup count
  if s.masterCount > 127 then M.fail .diskFull
  else do
    let needed : Nat :=
      if s.storage = stSeedling then (if count = 0 then 1 else if bufMaybe.isNone then 1 else 2)
      else if s.storage = stSapling then
        (if s.indexCount < 256 then (if bufMaybe.isNone then 0 else 1) else (if bufMaybe.isNone then 1 else 3))
      else (if bufMaybe.isNone then 0 else if s.indexCount < 256 ∧ s.indexPtr > 0 then 1 else 2)
    let free ← numFreeBlocks
    if needed > free then M.fail .diskFull
    else if s.storage = stSeedling then
      if count > 0 then do
        let e1 := Ent.changeStorageType s.entry stSapling
        let indexPtr ← availOrPanic
        allocate indexPtr
        let e2 := Ent.incBlocks e1
        -- as repaired: slot 0 is a hole when the file image has no chunk 0
        let d ← M.get
        let first := if d.src.firstHole ∧ (f.chunks.lookup 0).isNone then 0 else Ent.keyPtr e2
        let ib1 ← M.ofOption (packIndexPtr s.indexBuf first 0)
        let e3 := Ent.setPtr e2 indexPtr
        let (curr, e4) ← writeDataBlockOrNot count end_ e3 bufMaybe
        let ib2 ← M.ofOption (packIndexPtr ib1 curr (s.indexCount + 1))
        writeBlock ib2 indexPtr 0
        pure { s with storage := stSapling, entry := e4, indexPtr := indexPtr, indexBuf := ib2, indexCount := s.indexCount + 2 }
      else do
        let (_, e1) ← writeDataBlockOrNot count end_ s.entry bufMaybe
        pure { s with entry := e1 }
    else if s.storage = stSapling then
      if s.indexCount > 255 then do
        let e1 := Ent.changeStorageType s.entry stTree
        let masterPtr ← availOrPanic
        allocate masterPtr
        let e2 := Ent.incBlocks (Ent.setPtr e1 masterPtr)
        let mb1 ← M.ofOption (packIndexPtr s.masterBuf s.indexPtr 0)
        let masterCount := s.masterCount + 1
        let ib0 := zeros blockSize
        if bufMaybe.isSome then do
          let indexPtr ← availOrPanic
          allocate indexPtr
          let e3 := Ent.incBlocks e2
          let (curr, e4) ← writeDataBlockOrNot count end_ e3 bufMaybe
          let ib1 ← M.ofOption (packIndexPtr ib0 curr 0)
          writeBlock ib1 indexPtr 0
          let mb2 ← M.ofOption (packIndexPtr mb1 indexPtr masterCount)
          writeBlock mb2 masterPtr 0
          pure { storage := stTree, masterBuf := mb2, masterPtr := masterPtr, masterCount := masterCount,
                 indexBuf := ib1, indexPtr := indexPtr, indexCount := 1, entry := e4 }
        else do
          let (_, e4) ← writeDataBlockOrNot count end_ e2 bufMaybe
          let mb2 ← M.ofOption (packIndexPtr mb1 0 masterCount)
          writeBlock mb2 masterPtr 0
          pure { storage := stTree, masterBuf := mb2, masterPtr := masterPtr, masterCount := masterCount,
                 indexBuf := ib0, indexPtr := 0, indexCount := 1, entry := e4 }
      else do
        let (curr, e1) ← writeDataBlockOrNot count end_ s.entry bufMaybe
        let ib1 ← M.ofOption (packIndexPtr s.indexBuf curr s.indexCount)
        writeBlock ib1 s.indexPtr 0
        pure { s with entry := e1, indexBuf := ib1, indexCount := s.indexCount + 1 }
    else do
      let s1 : WS := if s.indexCount > 255 then { s with masterCount := s.masterCount + 1, indexPtr := 0, indexCount := 0, indexBuf := zeros blockSize } else s
      let (indexPtr, e1) ← (if s1.indexPtr = 0 ∧ bufMaybe.isSome then do
          let p ← availOrPanic
          allocate p
          pure (p, Ent.incBlocks s1.entry)
        else pure (s1.indexPtr, s1.entry) : M (Nat × Bytes))
      let (curr, e2) ← writeDataBlockOrNot count end_ e1 bufMaybe
      let ib1 ← M.ofOption (packIndexPtr s1.indexBuf curr s1.indexCount)
      if indexPtr > 0 then writeBlock ib1 indexPtr 0 else pure ()
      let mb1 ← M.ofOption (packIndexPtr s1.masterBuf indexPtr s1.masterCount)
      writeBlock mb1 s1.masterPtr 0
      pure { s1 with entry := e2, indexPtr := indexPtr, indexBuf := ib1, masterBuf := mb1, indexCount := s1.indexCount + 1 }

def wfLoop (f : FImg) (end_ : Nat) : List Nat → WS → M WS
  | [], s => pure s
  | c :: cs, s => do
    let s' ← wfStep f end_ c s
    wfLoop f end_ cs s'

/-- `write_file(loc, fimg)` -/
def writeFile (loc : Loc) (f : FImg) : M Nat := do
  if f.chunks.length = 0 then M.fail .endOfData
  else do
    let dir ← getDirectory loc.block
    let e0 ← M.ofOption (dir.getEntry loc.idx)
    let s0 : WS := { storage := stSeedling, masterBuf := zeros blockSize, masterPtr := 0, masterCount := 0,
                     indexBuf := zeros blockSize, indexPtr := 0, indexCount := 0, entry := Ent.setEof e0 0 }
    let s ← wfLoop f f.end_ (rng 0 f.end_) s0
    let e1 := if f.eof > 0 then Ent.setEof s.entry f.eof else s.entry
    let acc ← M.ofOption f.access[0]?
    writeEntry loc (Ent.setAccess e1 acc)
    pure f.eof

/-- `put(fimg)`; `time` is `pack_time(None)` -/
def put (f : FImg) (time : Bytes) (rp : Repairs := {}) : M Nat := do
  if !f.fsOk then M.fail .ioError
  else if f.chunkLen ≠ blockSize then M.fail .range
  else if f.chunks.length = 0 then M.fail .endOfData
  -- repaired source only: the fields the entry needs are checked before anything is written
  else if rp.fieldsFirst ∧ (f.fsType.length < 1 ∨ f.version.length < 1 ∨ f.minVersion.length < 1 ∨ f.aux.length < 2 ∨ f.access.length < 1) then
    M.fail .range
  -- repaired source only: at most 128 index blocks of 256 blocks, 24-bit end of file
  else if rp.putLimits ∧ (f.end_ > 128 * 256 ∨ f.eof > 0xffffff) then M.fail .range
  else do
    let (nm, dirKeyBlock, loc, newKeyBlock) ← prepareToWrite f.fullPath
    let free ← numFreeBlocks
    if blocksNeeded f > free then M.fail .diskFull
    else do
      let dir ← getDirectory dirKeyBlock
      let dir' ← M.ofOption dir.incFileCount
      writeBlock dir'.bytes dirKeyBlock 0
      -- `Entry::create_file`
      if f.fsType.length < 1 ∨ f.version.length < 1 ∨ f.minVersion.length < 1 ∨ f.aux.length < 2 then M.fail .range
      else do
        let acc ← M.ofOption f.access[0]?
        let entry := createFileEntry nm (f.fsType.getD 0 0) newKeyBlock (f.version.getD 0 0) (f.minVersion.getD 0 0) acc
          (f.aux.getD 0 0) (f.aux.getD 1 0) dirKeyBlock time
        writeEntry loc entry
        writeFile loc f

/-- `create(path)` (make a directory) -/
def mkdir (path : Bytes) (time : Bytes) : M Unit := do
  let (nm, keyBlock, loc, newBlock) ← prepareToWrite path
  let dir ← getDirectory keyBlock
  let dir' ← M.ofOption dir.incFileCount
  writeBlock dir'.bytes keyBlock 0
  writeEntry loc (createSubdir nm newBlock keyBlock time)
  -- `KeyBlock::<SubDirHeader>::new()` with `header.create(name, loc.block, loc.idx as u8, None)`
  writeBlock (u16le 0 ++ u16le 0 ++ subDirHeader nm loc.block loc.idx time ++ zeros (12 * entryLen)) newBlock 0

/-! ## `stat`, `catalog_to_vec` -/

/-- `stat().free_blocks` -/
def statFree : M Nat := do
  let _ ← getVolHeader
  numFreeBlocks

/-- rows of one directory block: name, `blocks_used`, type -/
def catalogRows (dir : Dir) : List Nat → List (Bytes × Nat × Nat)
  | [] => []
  | idx :: rest =>
    match dir.getEntry idx with
    | some e => if Ent.isActive e then (Ent.nameStr e, Ent.blocksUsed e, Ent.fileType e) :: catalogRows dir rest else catalogRows dir rest
    | none => catalogRows dir rest

/-- `while curr>0 { reps += 1; if reps > 100 {EndOfData} … }` -/
def catalogLoop : Nat → Nat → M (List (Bytes × Nat × Nat))
  | 0, curr => if curr = 0 then pure [] else M.fail .endOfData
  | fuel + 1, curr =>
    if curr = 0 then pure []
    else do
      let dir ← getDirectory curr
      let more ← catalogLoop fuel dir.next
      pure (catalogRows dir dir.entryIdxs ++ more)

/-- `catalog_to_vec(path)` -/
def catalog (path : Bytes) : M (List (Bytes × Nat × Nat)) := do
  let key ← findDirKeyBlock path
  catalogLoop 100 key

end A2Verif.Fs.Prodos
