import A2Verif.Model.Read.Fat
/-!
# A total version of the independent FAT reader's directory walk

`Read.Fat.readDir` is a `partial def` (its recursion into sub-directories is bounded by the test `depth > 32`,
which the termination checker does not see), so nothing can be proved about `Read.Fat.read`.  `readDirT` is the
same function with the bound made structural: `fuel = 33 - depth`, the test `depth > 32` becomes `fuel = 0`, and
the `for … out := out ++ …` loop is the `mapM` of the per-entry reading followed by `flatten` (same order, same
first error).  `readT` is `Read.Fat.read` with `readDirT 33` in place of `readDir … 0`.  The theorems of
`Props/FsFat.lean` are about `readT`; the tie compares the two readers' answers on the mirrored real images
(driver request `fsf readt`), and `design/FsFat.md` gives the replacement for `Model/Read/Fat.lean` that makes them
one function.
-/
namespace A2Verif.Read.FatT
open A2Verif.Read.Fat

/-- the cluster chain of a file entry: no cluster is legal only for an empty file -/
def fileChain (fat : Array Nat) (f16 : Bool) (hi : Nat) (c1 size : Nat) : Except String (List Nat) :=
  if c1 = 0 then (if size = 0 then .ok [] else .error "sized-file-without-cluster") else chain fat f16 hi (hi + 1) c1 []

/-- the reading of one non-directory entry (the `else` branch of the loop of `Read.Fat.readDir`, written with explicit
matches instead of `do`) -/
def fileRec (r : Raw) (b : Bpb) (fat : Array Nat) (f16 : Bool) (hi : Nat) (path : Bytes) (e : Bytes) : Except String FileRec :=
  let attr := e.getD 11 0
  let size := le32 e 28
  match fileChain fat f16 hi (le16 e 26) size with
  | .error er => .error er
  | .ok cl =>
    match cl.mapM (clusterData r b) with
    | .error er => .error er
    | .ok datas =>
      if size > cl.length * b.spc * b.bps then .error "size-exceeds-cluster-chain"
      else .ok ({ path := path, access := attr, locked := attr % 2 = 1, eof := size,
                  chunks := datas.zipIdx.map (fun (d, i) => (i, d)), owned := cl } : FileRec)

def entPath (pfx : Bytes) (e : Bytes) : Bytes :=
  let nm := entName e
  if pfx.isEmpty then nm else pfx ++ [47] ++ nm

/-- the entries of a directory buffer the reader looks at -/
def dirEnts (buf : Bytes) : List Bytes :=
  (activeEntries buf (buf.length / 32) 0).filter (fun e => !(e.getD 0 0 = 46))

def readDirT (r : Raw) (b : Bpb) (fat : Array Nat) (f16 : Bool) (hi : Nat) : Nat → Bytes → Bytes → Except String (List FileRec)
  | 0, _, _ => throw "directory-nesting-too-deep"
  | fuel + 1, buf, pfx => do
    let recs ← (dirEnts buf).mapM (fun e =>
      let path := entPath pfx e
      let attr := e.getD 11 0
      if (attr / 16) % 2 = 1 then do
        let cl ← chain fat f16 hi (hi + 1) (le16 e 26) []
        let datas ← cl.mapM (clusterData r b)
        let sub ← readDirT r b fat f16 hi fuel datas.flatten path
        pure (({ path := path, isDir := true, access := attr, owned := cl } : FileRec) :: sub)
      else do
        let f ← fileRec r b fat f16 hi path e
        pure [f])
    pure recs.flatten

def readT (r : Raw) : Except String Vol := do
  let s0 ← r.unit 0 "boot-sector"
  let b := parseBpb s0
  if b.bps ≠ r.unitLen ∨ b.spc = 0 ∨ b.nfat = 0 ∨ b.fatSz = 0 then throw "bpb-fields"
  if firstData b ≥ b.totSec ∨ b.totSec > r.count then throw "bpb-sector-counts"
  let f16 := isFat16 b
  let fatBytes ← secs r b.rsvd b.fatSz "fat"
  let fat := fatBytes.toArray
  let cap := if f16 then fatBytes.length / 2 else fatBytes.length * 2 / 3
  let count := min (clusterCount b) (cap - 2)
  let hi := 2 + count
  let rootBuf ← secs r (b.rsvd + b.nfat * b.fatSz) (rootSecs b) "root-directory"
  let files ← readDirT r b fat f16 hi 33 rootBuf []
  let freeU := ((List.range count).map (· + 2)).filter (fun c => fatEntry fat f16 c = 0)
  pure { lo := 2, hi := hi, sys := [], files := files, freeUnits := freeU }

end A2Verif.Read.FatT
