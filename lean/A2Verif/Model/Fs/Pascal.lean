import A2Verif.Model.Raw
/-!
# Concrete model of a2kit's Apple Pascal file system (`/repo/src/fs/pascal/{mod,directory,pack,types}.rs`)

A transcription of the Rust **as written** into total functions on `Raw` (512-byte units = the blocks of
a flat `PO` image, `/repo/src/img/dsk_po.rs`).  Unlike `Model/Read/Pascal.lean` (an independent *reader*
written from the disk format) this file follows a2kit's own code paths: the same case splits in the same
order, the same loops (as structural recursions), first-fit allocation, the same refusals.  Allocation is
deterministic in this file system, so the model is byte-exact: the harness compares the model's image
with the real image unit for unit after every operation (`Drv/FsPascal.lean`, `harness/src/fam/fs.rs`).

Conventions
* bytes are `Nat < 256` (protocol invariant); `u16` values are `Nat`; `u16::to_le_bytes v` is `u16le v`;
  where the Rust would overflow/underflow (debug build: panic) the model answers `Err.panic`.
* `DirectoryEntry`/`VolDirHeader` derive `DiskStruct`: `from_bytes`/`to_bytes` copy the 26 bytes field by
  field in declaration order.  An entry is therefore modelled as its 26 bytes; field accessors read at the
  field offsets, field assignments `splice` the new bytes in.
* an operation returns `(result, image afterwards)`; every refusal that a2kit decides before writing
  returns the image unchanged *syntactically*; a failure in the middle of a write loop returns the
  partially written image.
* names are ASCII byte strings (the harness generates nothing else; `is_name_valid` refuses the rest.
  `delete` does not validate its argument: a non-ASCII argument is outside the model).

Rust ↔ Lean: `get_directory` ↔ `getDirectory`; `save_directory` ↔ `saveDirectory`; `is_block_free` ↔
`isBlockFree`; `num_free_blocks` ↔ `numFreeBlocks`; `get_available_blocks` ↔ `getAvailableBlocks`;
`get_file_entry` ↔ `getFileEntry`; `format` ↔ `format`; `write_file`+`put` ↔ `put`; `delete` ↔ `delete`;
`ok_to_rename`+`modify` ↔ `rename`; `modify` ↔ `retype`; `read_file` ↔ `get`; `stat` ↔ `statFree`;
`catalog_to_vec` ↔ `catalog`; `pack.rs::is_name_valid`, `string_to_file_name`, `file_name_to_string` ↔
`isNameValid`, `stringToFileName`, `fileNameToString`.
-/
namespace A2Verif.Fs.Pascal

/-- `types.rs::Error` (the variants that occur) + image access error + panic -/
inductive Err where
  | noFile | badFormat | badTitle | duplicate | badMode | noRoom | devErr | noDev
  /-- `img::Error::SectorAccess`: block outside the image -/
  | imgErr
  /-- the Rust panics (slice out of range, arithmetic overflow in a debug build, bad UTF-8) -/
  | panic
  deriving DecidableEq, Repr, Inhabited

def Err.token : Err → String
  | .noFile => "nofile" | .badFormat => "badformat" | .badTitle => "badtitle" | .duplicate => "duplicate"
  | .badMode => "badmode" | .noRoom => "noroom" | .devErr => "deverr" | .noDev => "nodev"
  | .imgErr => "imgerr" | .panic => "panic"

abbrev R := Except Err

abbrev blockSize : Nat := 512
abbrev volHeaderBlock : Nat := 2
abbrev entrySize : Nat := 26
/-- `types.rs::INVALID_CHARS = " $=?,[#:"` -/
def invalidChars : List Nat := [32, 36, 61, 63, 44, 91, 35, 58]

/-! ## bytes -/

def u16le (v : Nat) : Bytes := [v % 256, v / 256 % 256]

/-- overwrite `new.length` bytes of `e` at `off` (a field assignment of a `DiskStruct`) -/
def splice (e : Bytes) (off : Nat) (new : Bytes) : Bytes := e.take off ++ new ++ e.drop (off + new.length)

/-! ## names (`pack.rs`) -/

def isAsciiControl (c : Nat) : Bool := c < 32 || c == 127

/-- `is_name_valid(s, is_vol)` -/
def isNameValid (s : Bytes) (isVol : Bool) : Bool :=
  s.all (fun c => c < 128 && !invalidChars.contains c && !isAsciiControl c) &&
  decide (1 ≤ s.length) && !(decide (s.length > 7) && isVol) && !(decide (s.length > 15) && !isVol)

def upperByte (c : Nat) : Nat := if 97 ≤ c ∧ c ≤ 122 then c - 32 else c
/-- `str::to_uppercase` on ASCII -/
def upper (s : Bytes) : Bytes := s.map upperByte

/-- `string_to_file_name` (the caller has checked validity; the Rust panics otherwise) -/
def stringToFileName (s : Bytes) : Bytes := upper s ++ List.replicate (15 - s.length) 0
def stringToVolName (s : Bytes) : Bytes := upper s ++ List.replicate (7 - s.length) 0

def isAsciiSpace (c : Nat) : Bool := c == 32 || (9 ≤ c && c ≤ 13)
/-- `str::trim_end` on ASCII -/
def trimEnd (s : Bytes) : Bytes := (s.reverse.dropWhile isAsciiSpace).reverse

/-! ## directory entries: 26 bytes, fields at fixed offsets (`directory.rs`) -/

def Entry.beginBlock (e : Bytes) : Nat := le16 e 0
def Entry.endBlock (e : Bytes) : Nat := le16 e 2
def Entry.fileType (e : Bytes) : Nat := le16 e 4
def Entry.nameLen (e : Bytes) : Nat := e.getD 6 0
/-- the 15 name bytes -/
def Entry.name (e : Bytes) : Bytes := slice e 7 15
def Entry.bytesRemaining (e : Bytes) : Nat := le16 e 22
def Entry.modDate (e : Bytes) : Bytes := slice e 24 2

def Hdr.beginBlock (h : Bytes) : Nat := le16 h 0
def Hdr.endBlock (h : Bytes) : Nat := le16 h 2
def Hdr.nameLen (h : Bytes) : Nat := h.getD 6 0
def Hdr.totalBlocks (h : Bytes) : Nat := le16 h 14
def Hdr.numFiles (h : Bytes) : Nat := le16 h 16

/-- `file_name_to_string(entry.name, entry.name_len)`: `fname[0..len]` panics for `len > 15`, bad UTF-8
panics (modelled: any byte ≥ 128 — an approximation that only matters for foreign disks), then `trim_end` -/
def fileNameToString (e : Bytes) : Option Bytes :=
  if Entry.nameLen e > 15 then none
  else
    let s := (Entry.name e).take (Entry.nameLen e)
    if s.any (fun c => c ≥ 128) then none else some (trimEnd s)

structure Dir where
  header : Bytes
  entries : List Bytes
  deriving Repr, Inhabited

def Dir.totalBlocks (d : Dir) : Nat := Hdr.totalBlocks d.header
def Dir.numFiles (d : Dir) : Nat := Hdr.numFiles d.header
/-- `Directory::to_bytes` -/
def Dir.toBytes (d : Dir) : Bytes := d.header ++ d.entries.flatten

/-! ## image access (`dsk_po.rs`, `Disk::read_block/write_block/zap_block`) -/

/-- `img.read_block(Block::PO(i))` -/
def readBlock (r : Raw) (i : Nat) : R Bytes :=
  match r.units[i]? with
  | some b => .ok b
  | none => .error .imgErr

/-- `img::quantize_block(dat, 512)` -/
def quantize (d : Bytes) : Bytes := d.take blockSize ++ List.replicate (blockSize - d.length) 0

/-- `PO::write_block` -/
def imgWrite (r : Raw) (i : Nat) (d : Bytes) : R Raw :=
  if i < r.units.size then .ok { r with units := r.units.setIfInBounds i (quantize d) } else .error .imgErr

/-- `Disk::write_block(data, iblock, offset)` = `zap_block`: `data[offset..offset+min(len-offset,512)]` -/
def writeBlock (r : Raw) (data : Bytes) (iblock offset : Nat) : R Raw :=
  if data.length < offset then .error .panic
  else imgWrite r iblock ((data.drop offset).take blockSize)

/-! ## `get_directory`, `save_directory` -/

/-- `for _i in 0..max { entries.push(from_bytes(&buf[offset..offset+26])); offset += 26 }` -/
def entriesFrom (buf : Bytes) : Nat → Nat → List Bytes
  | 0, _ => []
  | n + 1, off => slice buf off entrySize :: entriesFrom buf n (off + entrySize)

def readBlocks (r : Raw) : List Nat → R (List Bytes)
  | [] => .ok []
  | i :: is =>
    match readBlock r i with
    | .error e => .error e
    | .ok b =>
      match readBlocks r is with
      | .error e => .error e
      | .ok bs => .ok (b :: bs)

def getDirectory (r : Raw) : R Dir :=
  match readBlock r volHeaderBlock with
  | .error e => .error e
  | .ok buf0 =>
    -- `&buf[0..ENTRY_SIZE]`
    if buf0.length < entrySize then .error .panic else
    let header := buf0.take entrySize
    let beg0 := Hdr.beginBlock header
    let end_ := Hdr.endBlock header
    if beg0 ≠ 0 ∨ end_ ≤ volHeaderBlock ∨ end_ > Hdr.totalBlocks header then .error .badFormat else
    match readBlocks r ((List.range (end_ - volHeaderBlock)).map (· + volHeaderBlock)) with
    | .error e => .error e
    | .ok blocks =>
      let buf := blocks.flatten
      let maxNumEntries := buf.length / entrySize - 1
      let entries := entriesFrom buf maxNumEntries entrySize
      if Hdr.numFiles header > entries.length then .error .badFormat
      else .ok { header := header, entries := entries }

/-- the loop of `save_directory`: block `2+k` receives `buf[512k .. 512k+min(len-512k,512)]` -/
def saveLoop (buf : Bytes) : Raw → List Nat → R Unit × Raw
  | r, [] => (.ok (), r)
  | r, k :: ks =>
    match writeBlock r buf (volHeaderBlock + k) (k * blockSize) with
    | .error e => (.error e, r)
    | .ok r' => saveLoop buf r' ks

def saveDirectory (r : Raw) (d : Dir) : R Unit × Raw :=
  saveLoop d.toBytes r (List.range (Hdr.endBlock d.header - volHeaderBlock))

/-! ## free space -/

/-- `is_block_free`.  The Rust indexes `entries[i]` for `i < num_files`; `get_directory` has checked
`num_files ≤ entries.len()` (lemma `getDirectory_numFiles_le`), so `take` loses nothing. -/
def isBlockFree (iblock : Nat) (d : Dir) : Bool :=
  if iblock < Hdr.endBlock d.header then false
  else (d.entries.take d.numFiles).all (fun e => !(decide (iblock ≥ Entry.beginBlock e) && decide (iblock < Entry.endBlock e)))

/-- the loop of `num_free_blocks`: state `(free, count, largest)` -/
def freeLoop (d : Dir) : List Nat → Nat × Nat × Nat → Nat × Nat × Nat
  | [], s => s
  | i :: is, (free, count, largest) =>
    if isBlockFree i d then freeLoop d is (free + 1, count + 1, largest)
    else freeLoop d is (free, 0, if count > largest then count else largest)

/-- `num_free_blocks` → `(free, largest contiguous span)` -/
def numFreeBlocks (r : Raw) : R (Nat × Nat) :=
  match getDirectory r with
  | .error e => .error e
  | .ok d =>
    let (free, count, largest) := freeLoop d (List.range d.totalBlocks) (0, 0, 0)
    .ok (free, if count > largest then count else largest)

/-- the loop of `get_available_blocks`: state `(start, count)`; first fit -/
def availLoop (d : Dir) (num : Nat) : List Nat → Nat → Nat → Option Nat
  | [], _, _ => none
  | b :: bs, start, count =>
    if isBlockFree b d then
      let start' := if count = 0 then b else start
      let count' := count + 1
      if count' = num then some start' else availLoop d num bs start' count'
    else availLoop d num bs 0 0

def getAvailableBlocks (r : Raw) (num : Nat) : R (Option Nat) :=
  match getDirectory r with
  | .error e => .error e
  | .ok d => .ok (availLoop d num (List.range d.totalBlocks) 0 0)

/-! ## `get_file_entry` -/

/-- a2kit's liveness test of a directory entry (`beg>0 && end>beg && end<=total`) -/
def entryLive (e : Bytes) (total : Nat) : Bool :=
  decide (Entry.beginBlock e > 0) && decide (Entry.endBlock e > Entry.beginBlock e) && decide (Entry.endBlock e ≤ total)

/-- the loop of `get_file_entry` over entries `i, i+1, …`; `uname` is `name.to_uppercase()` -/
def findEntry (uname : Bytes) (total : Nat) : List Bytes → Nat → R (Option Nat)
  | [], _ => .ok none
  | e :: rest, i =>
    if entryLive e total then
      match fileNameToString e with
      | none => .error .panic
      | some s => if uname = s then .ok (some i) else findEntry uname total rest (i + 1)
    else findEntry uname total rest (i + 1)

def getFileEntry (r : Raw) (name : Bytes) : R (Option Nat × Dir) :=
  match getDirectory r with
  | .error e => .error e
  | .ok d =>
    match findEntry (upper name) d.totalBlocks (d.entries.take d.numFiles) 0 with
    | .error e => .error e
    | .ok oi => .ok (oi, d)

/-! ## `format` -/

/-- `Disk::format(vol_name, fill, time)` on a `PO` image.  `date` is `pack_date(time)`; `boot0`, `boot1`
are the two boot blocks (`boot.rs`), parameters of the model.  Blocks 0‥5 are zeroed and the rest filled
*before* the disk kind is examined, so an image that is not a 280-block 5.25″ disk is refused only after it
has been overwritten. -/
def format (r : Raw) (volName : Bytes) (fill : Nat) (date boot0 boot1 : Bytes) : R Unit × Raw :=
  if !isNameValid volName true then (.error .badTitle, r) else
  let numBlocks := r.units.size
  if numBlocks < 6 then (.error .imgErr, r) else
  let r1 : Raw := { r with units := (Array.range numBlocks).map (fun i => List.replicate blockSize (if i < 6 then 0 else fill)) }
  let header : Bytes :=
    u16le 0 ++ u16le 6 ++ u16le 0 ++ [volName.length % 256] ++ stringToVolName volName ++
    u16le (numBlocks % 65536) ++ u16le 0 ++ u16le 0 ++ date.take 2 ++ [0, 0, 0, 0]
  match writeBlock r1 header volHeaderBlock 0 with
  | .error e => (.error e, r1)
  | .ok r2 =>
    if numBlocks = 280 then
      match writeBlock r2 boot0 0 0 with
      | .error e => (.error e, r2)
      | .ok r3 =>
        match writeBlock r3 boot1 1 0 with
        | .error e => (.error e, r3)
        | .ok r4 => (.ok (), r4)
    else (.error .noDev, r2)

/-! ## `delete` -/

def zeroBeginEnd (e : Bytes) : Bytes := splice (splice e 0 [0, 0]) 2 [0, 0]

/-- the loop `for i in idx..len { if i+1 < len { e[i] = e[i+1] } else { e[i].begin = 0; e[i].end = 0 } }`
on the entries from `idx` on: every entry takes the value of its successor, the last has its block range zeroed -/
def shiftDown : List Bytes → List Bytes
  | [] => []
  | [e] => [zeroBeginEnd e]
  | _ :: f :: rest => f :: shiftDown (f :: rest)

def deleteEntries (es : List Bytes) (idx : Nat) : List Bytes := es.take idx ++ shiftDown (es.drop idx)

def delete (r : Raw) (name : Bytes) : R Unit × Raw :=
  match getFileEntry r name with
  | .error e => (.error e, r)
  | .ok (none, _) => (.error .noFile, r)
  | .ok (some idx, dir) =>
    -- `num_files - 1` on u16: `idx < num_files`, no underflow
    let dir' : Dir := { header := splice dir.header 16 (u16le (dir.numFiles - 1)), entries := deleteEntries dir.entries idx }
    saveDirectory r dir'

/-! ## `modify`, `rename`, `retype` -/

/-- `FileType::from_str` for the mnemonics and decimal numbers 0‥8; the argument is the type code or `none` -/
def modify (r : Raw) (name : Bytes) (newName : Option Bytes) (newType : Option (Option Nat)) : R Unit × Raw :=
  if !isNameValid name false then (.error .badFormat, r) else
  match getFileEntry r name with
  | .error e => (.error e, r)
  | .ok (none, _) => (.error .noFile, r)
  | .ok (some idx, dir) =>
    let e0 := dir.entries.getD idx []
    match (match newName with
           | none => Except.ok e0
           | some nn => if !isNameValid nn false then Except.error Err.badFormat
                        else Except.ok (splice (splice e0 7 (stringToFileName nn)) 6 [nn.length % 256])) with
    | .error e => (.error e, r)
    | .ok e1 =>
      match (match newType with
             | none => Except.ok e1
             | some none => Except.error Err.badMode
             | some (some t) => Except.ok (splice e1 4 (u16le t))) with
      | .error e => (.error e, r)
      | .ok e2 => saveDirectory r { dir with entries := dir.entries.set idx e2 }

/-- `rename` = `ok_to_rename(new)?; modify(old, Some(new), None)` -/
def rename (r : Raw) (oldName newName : Bytes) : R Unit × Raw :=
  if !isNameValid newName false then (.error .badFormat, r) else
  match getFileEntry r newName with
  | .error e => (.error e, r)
  | .ok (some _, _) => (.error .duplicate, r)
  | .ok (none, _) => modify r oldName (some newName) none

/-- `retype(name, new_type, _)`: `newType` is what `FileType::from_str(new_type)` yields
(`txt`→3, `bin`→5, `pcode`→2, a decimal 0‥8 → itself, anything else → `none` = `BadMode`) -/
def retype (r : Raw) (name : Bytes) (newType : Option Nat) : R Unit × Raw :=
  modify r name none (some newType)

/-! ## `put` / `write_file` -/

/-- what `put` uses of a `FileImage` -/
structure FImg where
  /-- `fimg.file_system == FS_NAME` -/
  fsOk : Bool := true
  chunkLen : Nat := 512
  fullPath : Bytes
  /-- `get_ftype()` -/
  fsType : Nat
  /-- `get_eof()` -/
  eof : Nat
  /-- the `HashMap<usize,Vec<u8>>` as an association list with distinct keys -/
  chunks : List (Nat × Bytes)
  deriving Repr, Inhabited

/-- the second loop of `write_file`: `for b in 0..n { write_block(&chunks[&b], beg+b, 0) }` -/
def dataLoop (chunks : List (Nat × Bytes)) (beg : Nat) : Raw → List Nat → R Unit × Raw
  | r, [] => (.ok (), r)
  | r, b :: bs =>
    match chunks.lookup b with
    | none => (.error .badFormat, r)
    | some d =>
      match writeBlock r d (beg + b) 0 with
      | .error e => (.error e, r)
      | .ok r' => dataLoop chunks beg r' bs

/-- the seven field assignments of `write_file` on the free slot `e0`:
`begin_block = beg; end_block = beg + n; file_type; name_len; name; bytes_remaining = rem; mod_date = date` -/
def putEntry (e0 : Bytes) (beg n fsType : Nat) (name : Bytes) (rem : Nat) (date : Bytes) : Bytes :=
  splice (splice (splice (splice (splice (splice (splice e0 0 (u16le beg)) 2 (u16le (beg + n))) 4 (u16le fsType))
    6 [name.length % 256]) 7 (stringToFileName name)) 22 (u16le rem)) 24 (date.take 2)

/-- the header `write_file` saves: `num_files += 1; last_access_date = date` -/
def putHeader (h : Bytes) (date : Bytes) : Bytes := splice (splice h 16 (u16le (le16 h 16 + 1))) 18 (date.take 2)

/-- `put(fimg)`; `date` is `pack_date(None)` (the harness pins the clock) -/
def put (r : Raw) (f : FImg) (date : Bytes) : R Nat × Raw :=
  if !f.fsOk then (.error .devErr, r) else
  if f.chunkLen ≠ blockSize then (.error .devErr, r) else
  let name := f.fullPath
  if f.chunks.length = 0 then (.error .noFile, r) else
  if !isNameValid name false then (.error .badFormat, r) else
  match getFileEntry r name with
  | .error e => (.error e, r)
  | .ok (some _, _) => (.error .duplicate, r)
  | .ok (none, dir) =>
    let dataBlocks := f.chunks.length
    -- what the 16-bit directory fields cannot record is refused before anything is written
    if dataBlocks > 65535 then (.error .noRoom, r) else
    if f.eof > blockSize * dataBlocks ∨ blockSize * dataBlocks - f.eof > 65535 then (.error .badFormat, r) else
    if f.chunks.any (fun c => decide (c.2.length > blockSize)) then (.error .badFormat, r) else
    -- `FileType::from_usize`
    if f.fsType > 8 then (.error .badMode, r) else
    -- `data_blocks as u16`
    match getAvailableBlocks r (dataBlocks % 65536) with
    | .error e => (.error e, r)
    | .ok none => (.error .noRoom, r)
    | .ok (some beg) =>
      let i := dir.numFiles
      if ¬ i < dir.entries.length then (.error .noRoom, r) else
      if !(List.range dataBlocks).all (fun b => (f.chunks.lookup b).isSome) then (.error .badFormat, r) else
      -- u16 / usize arithmetic that panics in a debug build: `beg + n as u16`, `512*n - eof`, `num_files + 1`
      -- (the first two are unreachable after the refusals above; kept because the Rust still computes them)
      if beg + dataBlocks % 65536 > 65535 then (.error .panic, r) else
      if blockSize * dataBlocks < f.eof then (.error .panic, r) else
      if dir.numFiles + 1 > 65535 then (.error .panic, r) else
      let e := putEntry (dir.entries.getD i []) beg (dataBlocks % 65536) f.fsType name
        ((blockSize * dataBlocks - f.eof) % 65536) date
      match saveDirectory r { header := putHeader dir.header date, entries := dir.entries.set i e } with
      | (.error e, r') => (.error e, r')
      | (.ok _, r') =>
        match dataLoop f.chunks beg r' (List.range dataBlocks) with
        | (.error e, r'') => (.error e, r'')
        | (.ok _, r'') => (.ok dataBlocks, r'')

/-! ## `get` / `read_file`, `stat`, `catalog_to_vec` -/

structure Got where
  fsType : Nat
  eof : Nat
  chunks : List (Nat × Bytes)
  modified : Bytes
  deriving Repr, Inhabited

def get (r : Raw) (name : Bytes) : R Got :=
  if !isNameValid name false then .error .badFormat else
  match getFileEntry r name with
  | .error e => .error e
  | .ok (none, _) => .error .noFile
  | .ok (some idx, dir) =>
    let e := dir.entries.getD idx []
    let beg := Entry.beginBlock e
    let end_ := Entry.endBlock e
    match readBlocks r ((List.range (end_ - beg)).map (· + beg)) with
    | .error e => .error e
    | .ok blocks =>
      if Entry.bytesRemaining e > blockSize * blocks.length then .error .badFormat
      else .ok { fsType := Entry.fileType e, eof := blockSize * blocks.length - Entry.bytesRemaining e,
                 chunks := (List.range blocks.length).zip blocks, modified := Entry.modDate e }

/-- `stat().free_blocks` -/
def statFree (r : Raw) : R Nat :=
  match getDirectory r with
  | .error e => .error e
  | .ok _ =>
    match numFreeBlocks r with
    | .error e => .error e
    | .ok (free, _) => .ok free

/-- one row of `catalog_to_vec`: name, blocks, first byte of the type field.  The Rust walks **all**
entries (not only the first `num_files`) and lists those passing the liveness test. -/
def catalogLoop (total : Nat) : List Bytes → R (List (Bytes × Nat × Nat))
  | [] => .ok []
  | e :: rest =>
    if decide (Entry.beginBlock e ≠ 0) && decide (Entry.endBlock e > Entry.beginBlock e) && decide (Entry.endBlock e ≤ total) then
      match fileNameToString e with
      | none => .error .panic
      | some s =>
        match catalogLoop total rest with
        | .error e => .error e
        | .ok rows => .ok ((s, Entry.endBlock e - Entry.beginBlock e, e.getD 4 0) :: rows)
    else catalogLoop total rest

def catalog (r : Raw) : R (List (Bytes × Nat × Nat)) :=
  match getDirectory r with
  | .error e => .error e
  | .ok d => catalogLoop d.totalBlocks d.entries

end A2Verif.Fs.Pascal
