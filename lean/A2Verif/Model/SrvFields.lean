import A2Verif.Model.SrvCfg
import A2Verif.Gen.SrvState
/-!
# What each field of the three analyzers is to an analysis (property C18)

The field lists, the *reset set* (fields `analyze` re-initialises before it looks at the text) and the
*mutated set* are generated from the current source (`A2Verif.Gen.SrvState`, `translator/gen_c18.py`).
This file says, per field, what kind of thing it is.  The functions are total over the generated
enumerations, so a field added to (or renamed in) a Rust struct stops this file from compiling until
it has been classified.

`carried` is the class that matters: the passes read the field and also write it, so whatever an earlier
analysis (an older version, another document) left in it reaches the next analysis unless `analyze`
re-initialises it first.  `Props/C18.lean` decides on the generated tables that every `carried` field is
in the reset set.
-/
namespace A2Verif.Srv
open A2Verif.Gen.SrvState

inductive FieldClass
  /-- read and written by the passes: must be re-initialised by `analyze` -/
  | carried
  /-- the settings (`set_config`/`update_config` only): an input of the analysis, not history -/
  | config
  /-- set by the constructor, never written again (handbooks, compiled regular expressions) -/
  | const
  /-- written before it is read on every use (current line, parser scratch; the Applesoft `DEF FN` depth,
      cleared at the first node of every line before it is consulted) -/
  | scratch
  /-- Merlin workspace: documents and preferences keyed by uri, persistent by design; outside the
      property for documents that do not include each other -/
  | workspace
  /-- carried, but consulted only for symbol documentation (hovers), never for diagnostics; empty again
      after every complete analysis (`Triggers` are consumed by the next line, and the last pass sets none) -/
  | notDiag
deriving DecidableEq, Repr

/-- `applesoft::diagnostics::Analyzer` -/
def AField.cls : AField → FieldClass
  | .f_row => .carried
  | .f_col => .carried
  | .f_pass => .carried
  | .f_config => .config
  | .f_line => .scratch
  | .f_diagnostics => .carried
  | .f_fcollisions => .carried
  | .f_vcollisions => .carried
  | .f_symbols => .carried
  | .f_last_good_line_number => .carried
  | .f_flow => .carried
  | .f_depth_of_def => .scratch
  | .f_dummy_var_key => .scratch
  | .f_end_name => .const

/-- `integer::diagnostics::Analyzer` -/
def IField.cls : IField → FieldClass
  | .f_config => .config
  | .f_row => .carried
  | .f_col => .carried
  | .f_pass => .carried
  | .f_line => .scratch
  | .f_diagnostics => .carried
  | .f_symbols => .carried
  | .f_last_good_line_number => .carried
  | .f_in_dim_statement => .carried
  | .f_saved_depth => .carried
  | .f_err_pattern => .const

/-- `merlin::diagnostics::Analyzer` with `merlin::context::Context` (`ctx_*`) -/
def MField.cls : MField → FieldClass
  | .f_parser => .scratch
  | .f_scanner => .workspace
  | .f_workspace_folders => .workspace
  | .f_asm => .carried
  | .f_pass => .carried
  | .f_diagnostic_set => .carried
  | .f_diagnostics => .carried
  | .f_folding_set => .carried
  | .f_folding => .carried
  | .f_preferred_masters => .workspace
  | .f_symbols => .carried
  | .f_ctx_config => .config
  | .f_ctx_op_book => .const
  | .f_ctx_psop_book => .const
  -- processor selection (`XC` count): steers instruction vs. macro parsing and the MX checks
  | .f_ctx_xc_count => .carried
  | .f_ctx_trigs => .notDiag
  -- scope stack: symbol tables of the macro / global being defined
  | .f_ctx_symbol_stack => .carried
  -- `PUT`/`USE` include stack
  | .f_ctx_source_stack => .carried
  -- conditional assembly / `LUP` / macro-definition state
  | .f_ctx_fold_stack => .carried
  | .f_ctx_running_docstring => .notDiag
  | .f_ctx_fold_just_started => .carried

/-- the generated tables say `analyze` re-initialises everything an earlier analysis could hand on -/
def tablesOk {F : Type} (all : List F) (cls : F → FieldClass) (reset mutated : F → Bool) : Bool :=
  all.all (fun f => (cls f != .carried || reset f) && ((cls f != .const && cls f != .config) || !mutated f))

end A2Verif.Srv
