import A2Verif.Gen.DasmLabels
import A2Verif.Model.DasmLabel
/-!
The *range* parameter of `Disassembler::disassemble` (`DasmRange::{All, Range([beg,end]), LastBloadDos33,
LastBloadProDos}`): the bytes `img[beg..end]` are disassembled inside a larger (RAM) image.

`Model/Dasm.lean` is given exactly the bytes of the range (`rest` = the bytes from the current address to the end
of the range), i.e. it cannot read anything else.  Here the image bytes that FOLLOW the range (`after = img[end..]`)
are made available, and every read of the real loop is placed against them:

* `disassemble` loop `while addr < end`, `is_instruction(.., addr, end, ..)` (`addr+1+n <= end`), the scan loop of
  `try_data_run` (`ptr < end`), `push_data_pattern`, the string slices: bounded by `end` — checked syntactically by the
  translator, transcribed by re-using `isInstruction`, `pushInstruction`, `scan` on `rest`;
* the look-ahead byte of a text run (`try_data_run`: decides `ASC '..'` / `ASC '..',00` / `DCI`): its bound is
  EXTRACTED from the source (`Gen.DasmLabels.lookBound`): `rangeEnd` = `ptr0+n < end`, `imageEnd` = `img.get(ptr0+n)`.
* bytes BEFORE the range are never read (`img[ptr-1]`, `img[ptr-2]`, `img[ptr-4]` are guarded by `ptr > ptr0+k`).

`tryDataRunR`, `stepR`, `goR` are `tryDataRun`, `step`, `go` with that one difference.
-/
namespace A2Verif.Dasm
open A2Verif.Gen.Opcodes A2Verif.Gen.DasmLabels

/-- the byte a text run of length `n` looks at: inside the range it is `rest[n]`; at the end of the range it is
nothing (`rangeEnd`) or the first byte after the range (`imageEnd`) -/
def lookAhead (lk : LookBound) (rest after : List Nat) (n : Nat) : Option Nat :=
  match lk with
  | .rangeEnd => rest[n]?
  | .imageEnd => (rest ++ after)[n]?

/-- `try_data_run` with the image bytes after the range at hand -/
def tryDataRunR (lk : LookBound) (addr : Nat) (rest after : List Nat) : Option (Line × Nat) :=
  let s := scan rest rest.length 0 {}
  let uni := if s.uni > 0 then s.uni + 1 else 0
  let p2 := if s.p2 > 0 then (s.p2 + 2) - (s.p2 + 2) % 2 else 0
  let p4 := if s.p4 > 0 then (s.p4 + 4) - (s.p4 + 4) % 4 else 0
  if uni > 0 && uni ≥ p2 && uni ≥ p4 && uni ≥ s.pos && uni ≥ s.neg then
    some (.ds addr uni (rest.getD 0 0), uni)
  else if p2 > 0 && p2 ≥ p4 && p2 ≥ s.pos && p2 ≥ s.neg then
    some (.hex addr (p2 / 2) (rest.take 2), p2)
  else if p4 > s.pos && p4 > s.neg then
    some (.hex addr (p4 / 4) (rest.take 4), p4)
  else if s.pos > s.neg then
    some (pushString addr false (rest.take s.pos) (lookAhead lk rest after s.pos))
  else if s.neg > 0 then
    some (pushString addr true ((rest.take s.neg).map (· - 128)) (lookAhead lk rest after s.neg))
  else none

def stepR (q : Quirks) (cfg : Cfg) (lk : LookBound) (addr : Nat) (rest after : List Nat) : Line × Nat :=
  match rest with
  | [] => (.dfb addr 0, 1)
  | op :: tl =>
    match isInstruction cfg rest with
    | some i => pushInstruction q addr op tl i
    | none =>
      match tryDataRunR lk addr rest after with
      | some r => r
      | none => (.dfb addr op, 1)

def goR (q : Quirks) (cfg : Cfg) (lk : LookBound) : Nat → Nat → List Nat → List Nat → List Line
  | 0, _, _, _ => []
  | _, _, [], _ => []
  | fuel + 1, addr, rest, after =>
    let r := stepR q cfg lk addr rest after
    r.1 :: goR q cfg lk fuel (addr + r.2) (rest.drop r.2) after

/-- `disassemble(img, Range([beg, beg + slice.length]), ..)` where `slice = img[beg..end]`, `after = img[end..]` -/
def dasmR (q : Quirks) (cfg : Cfg) (lk : LookBound) (beg : Nat) (slice after : List Nat) : List Line :=
  goR q cfg lk slice.length beg slice after

/-- `disassemble(img, Range([beg,end]), ..)` on a whole image -/
def dasmImg (q : Quirks) (cfg : Cfg) (lk : LookBound) (img : List Nat) (beg end_ : Nat) : List Line :=
  dasmR q cfg lk beg ((img.drop beg).take (end_ - beg)) (img.drop end_)

/-- the range variants of the public API -/
inductive RangeSel where
  | all | lastBloadDos33 | lastBloadProDos | range (beg end_ : Nat)
  deriving DecidableEq, Repr

/-- `dos33_bload_range` / `prodos_bload_range`: start and length words of the last BLOAD; `none` = the `OutOfRange`
error (the range does not fit the image) or an image too short to hold the words (an index panic in the real code) -/
def bloadRange (img : List Nat) (startAt lenAt : Nat) : Option (Nat × Nat) :=
  match img[startAt]?, img[startAt + 1]?, img[lenAt]?, img[lenAt + 1]? with
  | some s0, some s1, some l0, some l1 =>
    let start := s0 + s1 * 0x100
    let e := start + (l0 + l1 * 0x100)
    if e > img.length then none else some (start, e)
  | _, _, _, _ => none

/-- the `match range` at the head of `disassemble` -/
def selectRange (img : List Nat) : RangeSel → Option (Nat × Nat)
  | .all => some (0, img.length)
  | .lastBloadDos33 => bloadRange img 0xaa72 0xaa60
  | .lastBloadProDos => bloadRange img 0xbeb9 0xbec8
  | .range b e => some (b, e)

end A2Verif.Dasm
