import A2Verif.Model.C09Crc
import A2Verif.Gen.C09Const
/-!
WOZ container model for property C09 — src/img/woz.rs, woz1.rs, woz2.rs.

* `nextChunk` ↔ `woz::get_next_chunk` (woz.rs:99-130)
* `walk`      ↔ the loop `let mut ptr = 12; while ptr>0 { … ptr = next }` of `Woz1::from_bytes` (woz1.rs:398-411)
                and `Woz2::from_bytes` (woz2.rs:714-735).  `next` is either 0 or strictly larger than
                `ptr`, so `buf.length` iterations are enough fuel.
* `Chunk`, `chunkBytes`, `Image`, `toBytes` ↔ the serialisation order of `Woz2::to_bytes` (woz2.rs:760-781) and
                `Woz1::to_bytes` (woz1.rs:423-438): 12-byte header, INFO, TMAP, TRKS, optional META, optional
                WRIT, then the CRC-32 of everything after byte 12 stored little endian at offset 8.
* `fromBytes` ↔ the chunk dispatch of `from_bytes`: each known chunk overwrites the slot of its id, the
                offset of the TRKS payload (`ptr + 1288`) is remembered as `trackBitsOffset` (WOZ2).

Chunk payloads are opaque byte strings here: the derived `DiskStruct` (un)flattening of `Info`, `TMap`,
`Trk` is a field-by-field copy and the nibble payload belongs to C08.
-/
namespace A2Verif.Model.C09Woz
open A2Verif.Model.C09Crc A2Verif.Gen.C09Const

structure Found where
  id : Nat
  ptr : Nat
  size : Nat
  known : Bool
deriving DecidableEq, Repr

def knownId (id : Nat) : Bool :=
  id == INFO_ID || id == TMAP_ID || id == TRKS_ID || id == WRIT_ID || id == META_ID

def rd32At (buf : List Nat) (p : Nat) : Nat :=
  unle32 (buf.getD p 0) (buf.getD (p + 1) 0) (buf.getD (p + 2) 0) (buf.getD (p + 3) 0)

/-- `get_next_chunk(ptr, buf)`: `(next, what was found at ptr)`.  All indexing happens after the
bounds test `ptr+8 ≤ len`, so `getD` never takes its default. -/
def nextChunk (ptr : Nat) (buf : List Nat) : Nat × Option Found :=
  if ptr + 8 > buf.length then (0, none) else
  let id := rd32At buf ptr
  let size := rd32At buf (ptr + 4)
  let stop := ptr + 8 + size
  if stop > buf.length then (0, none) else
  let next := if stop + 8 > buf.length then 0 else stop
  (next, some { id := id, ptr := ptr, size := size, known := knownId id })

/-- the `while ptr>0` loop started at `ptr` -/
def walkFrom : Nat → Nat → List Nat → List Found
  | 0, _, _ => []
  | fuel + 1, ptr, buf =>
    if ptr = 0 then [] else
    match nextChunk ptr buf with
    | (next, some f) => f :: walkFrom fuel next buf
    | (next, none) => walkFrom fuel next buf

def walk (buf : List Nat) : List Found := walkFrom (buf.length + 1) 12 buf

def idText (id : Nat) : String :=
  String.ofList ((le32 id).map (fun b => if 32 < b ∧ b < 127 then Char.ofNat b else '?'))

def showWalk (fs : List Found) : String :=
  if fs.isEmpty then "-" else
  ",".intercalate (fs.map (fun f => idText f.id ++ "@" ++ toString f.ptr ++ "+" ++ toString f.size ++ (if f.known then "" else "!")))

/-- a chunk as a2kit holds it: id and payload (the size field is derived) -/
structure Chunk where
  id : Nat
  payload : List Nat
deriving DecidableEq, Repr

def chunkBytes (c : Chunk) : List Nat := le32 c.id ++ le32 c.payload.length ++ c.payload

/-- the image as serialised: 8 fixed header bytes (`WOZ2`, 0xFF, LF CR LF) and the chunks in writing order -/
structure Image where
  magic : List Nat
  chunks : List Chunk
deriving DecidableEq, Repr

def body (x : Image) : List Nat := (x.chunks.map chunkBytes).flatten

/-- `to_bytes`; `none` would be the table index panic of `crc32`, which cannot happen -/
def toBytes (x : Image) : Option (List Nat) :=
  match crc32 0 (body x) with
  | some c => some (x.magic ++ le32 c ++ body x)
  | none => none

/-- the chunks `from_bytes` sees, with payloads, in file order -/
def readChunks (buf : List Nat) : List (Nat × Chunk) :=
  (walk buf).filterMap (fun f =>
    if f.known then some (f.ptr, { id := f.id, payload := (buf.drop (f.ptr + 8)).take f.size }) else none)

/-! ### WOZ2 object level: field copies, fixed/rebased track-bits offset

`Woz2` is the part of `struct Woz2` (woz2.rs) that reaches the file.  `Info` and `TMap` are derived `DiskStruct`s: their
`update_from_bytes` refuses a chunk shorter than the struct and copies the first 68 / 168 bytes field by field,
`to_bytes` concatenates the fields — so they are kept as the 68 / 168 bytes themselves (id and size included).
The 12-byte header's CRC field is write-only (recomputed by every `to_bytes`, never read) and is not part of
the state.  The META chunk is held as the payload text `Meta::to_bytes` regenerates from its records
(`key TAB value LF` per record); that `Meta::update_from_bytes` followed by `Meta::to_bytes` reproduces such a text is the
record-level law `metaText_roundtrip` below.  `kind` and the head position are not stored in the file. -/

structure Trk where
  start : Nat
  count : Nat
  bitCount : List Nat
deriving DecidableEq, Repr

def trkBytes (t : Trk) : List Nat := le16 t.start ++ le16 t.count ++ t.bitCount

structure Woz2 where
  magic : List Nat
  info : List Nat
  tmap : List Nat
  /-- the size field of the TRKS chunk as created / loaded (a2kit never recomputes it) -/
  trksSize : List Nat
  trks : List Trk
  bits : List Nat
  metaTxt : Option (List Nat)
  /-- the whole WRIT chunk including its 8 header bytes, carried through verbatim -/
  writ : Option (List Nat)
  /-- `track_bits_offset` -/
  off : Nat
deriving DecidableEq, Repr

/-- the block re-basing at the top of `Woz2::to_bytes` (woz2.rs): `none` = the remaining `panic!` for an offset
that is not a multiple of 512 -/
def rebase (x : Woz2) : Option Woz2 :=
  if x.off = 1536 then some x
  else if x.off % 512 ≠ 0 then none
  else
    let k := x.off / 512
    some { x with
      trks := x.trks.map (fun t => if t.start ≥ k then { t with start := (t.start + 3 - k) % 65536 } else t)
      off := 1536 }

def trksChunk (x : Woz2) : List Nat :=
  le32 TRKS_ID ++ x.trksSize ++ (x.trks.map trkBytes).flatten ++ x.bits

def metaChunk (x : Woz2) : List Nat :=
  match x.metaTxt with
  | some p => le32 META_ID ++ le32 (p.length % 4294967296) ++ p
  | none => []

def body2 (x : Woz2) : List Nat :=
  x.info ++ x.tmap ++ trksChunk x ++ metaChunk x ++ (x.writ.getD [])

/-- `Woz2::to_bytes(&mut self)`: the bytes and the object afterwards -/
def toBytes2 (x : Woz2) : Option (List Nat × Woz2) :=
  match rebase x with
  | none => none
  | some y =>
    match crc32 0 (body2 y) with
    | some c => some (y.magic ++ le32 c ++ body2 y, y)
    | none => none

/-- the byte range of a track inside `trks.bits` (`get_trk_bits_rng`): `none` = `BadTrack` -/
def bitsRange (x : Woz2) (t : Trk) : Option (Nat × Nat) :=
  if t.start * 512 < x.off then none else
  let b := t.start * 512 - x.off
  let e := b + t.count * 512
  if e > x.bits.length then none else some (b, e)

def parseTrks : Nat → List Nat → List Trk
  | 0, _ => []
  | n + 1, bs => { start := unle16 (bs.getD 0 0) (bs.getD 1 0), count := unle16 (bs.getD 2 0) (bs.getD 3 0),
                   bitCount := (bs.drop 4).take 4 } :: parseTrks n (bs.drop 8)

/-- one iteration of the dispatch `match (id,maybe_chunk)` in `Woz2::from_bytes`; `none` = `Err` -/
def step2 (st : Woz2) (pc : Nat × Chunk) : Option Woz2 :=
  let ptr := pc.1
  let c := pc.2
  let chunk := chunkBytes c
  if c.id = INFO_ID then (if chunk.length < 68 then none else some { st with info := chunk.take 68 })
  else if c.id = TMAP_ID then (if chunk.length < 168 then none else some { st with tmap := chunk.take 168 })
  else if c.id = TRKS_ID then
    if chunk.length < 1288 then none
    else if c.payload.length % 4294967296 < 1280 then none
    else if (c.payload.length % 4294967296 - 1280) % 512 > 0 then none
    else some { st with off := ptr + 1288, trksSize := (chunk.drop 4).take 4,
                        trks := parseTrks 160 (chunk.drop 8), bits := chunk.drop 1288 }
  else if c.id = META_ID then some { st with metaTxt := some c.payload }
  else if c.id = WRIT_ID then some { st with writ := some chunk }
  else some st

def foldSteps : Woz2 → List (Nat × Chunk) → Option Woz2
  | st, [] => some st
  | st, pc :: r => match step2 st pc with
    | some st' => foldSteps st' r
    | none => none

/-- `Woz2::from_bytes` up to the nibble-level kind detection; `none` = `Err` -/
def fromBytes2 (buf : List Nat) : Option Woz2 :=
  if buf.length < 12 then none else
  if buf.take 4 ≠ [0x57, 0x4F, 0x5A, 0x32] then none else
  let init : Woz2 := { magic := buf.take 8, info := [], tmap := [], trksSize := [], trks := [], bits := [],
                       metaTxt := none, writ := none, off := 0 }
  match foldSteps init (readChunks buf) with
  | none => none
  | some st =>
    let vers := st.info.getD 8 0
    let dtype := st.info.getD 9 0
    let sides := st.info.getD 45 0
    if vers ≥ 3 ∧ (st.info.drop 54).take 2 ≠ [0, 0] ∧ (st.info.drop 56).take 2 ≠ [0, 0] then none
    else if ¬ ((dtype = 1 ∧ sides = 1) ∨ (dtype = 2 ∧ sides = 1) ∨ (dtype = 2 ∧ sides = 2)) then none
    -- `id > 0` for INFO, TMAP, TRKS: the three chunks have been seen
    else if st.info = [] ∨ st.tmap = [] ∨ st.trks = [] then none
    else some st

/-! ### META records ↔ text (woz2.rs `Meta::to_bytes` / `Meta::update_from_bytes`) -/

/-- `Meta::to_bytes`: `key TAB value LF` per record -/
def metaText : List (List Nat × List Nat) → List Nat
  | [] => []
  | (k, v) :: r => k ++ [9] ++ v ++ [10] ++ metaText r

end A2Verif.Model.C09Woz
