import A2Verif.Model.C09Crc
import A2Verif.Gen.C09Const
/-!
WOZ container model for property C09 — src/img/woz.rs, woz1.rs, woz2.rs.

* `nextChunk` ↔ `woz::get_next_chunk` (woz.rs:99-130)
* `walk`      ↔ the loop `let mut ptr = 12; while ptr>0 { … ptr = next }` of `Woz1::from_bytes` (woz1.rs:398-411)
                and `Woz2::from_bytes` (woz2.rs:714-735).  `next` is either 0 or strictly larger than
                `ptr`, so `buf.length` iterations are enough fuel.
* `Chunk`, `chunkBytes`, `Image`, `toBytes` ↔ the serialisation order of `Woz2::to_bytes` (woz2.rs:760-781) and
                `Woz1::to_bytes` (woz1.rs:423-438): 12-byte header, INFO, TMAP, TRKS, optional META, optional
                WRIT, then the CRC-32 of everything after byte 12 stored little endian at offset 8.
* `fromBytes` ↔ the chunk dispatch of `from_bytes`: each known chunk overwrites the slot of its id, the
                offset of the TRKS payload (`ptr + 1288`) is remembered as `trackBitsOffset` (WOZ2).

Chunk payloads are opaque byte strings here: the derived `DiskStruct` (un)flattening of `Info`, `TMap`,
`Trk` is a field-by-field copy and the nibble payload belongs to C08.
-/
namespace A2Verif.Model.C09Woz
open A2Verif.Model.C09Crc A2Verif.Gen.C09Const

structure Found where
  id : Nat
  ptr : Nat
  size : Nat
  known : Bool
deriving DecidableEq, Repr

def knownId (id : Nat) : Bool :=
  id == INFO_ID || id == TMAP_ID || id == TRKS_ID || id == WRIT_ID || id == META_ID

def rd32At (buf : List Nat) (p : Nat) : Nat :=
  unle32 (buf.getD p 0) (buf.getD (p + 1) 0) (buf.getD (p + 2) 0) (buf.getD (p + 3) 0)

/-- `get_next_chunk(ptr, buf)`: `(next, what was found at ptr)`.  All indexing happens after the
bounds test `ptr+8 ≤ len`, so `getD` never takes its default. -/
def nextChunk (ptr : Nat) (buf : List Nat) : Nat × Option Found :=
  if ptr + 8 > buf.length then (0, none) else
  let id := rd32At buf ptr
  let size := rd32At buf (ptr + 4)
  let stop := ptr + 8 + size
  if stop > buf.length then (0, none) else
  let next := if stop + 8 > buf.length then 0 else stop
  (next, some { id := id, ptr := ptr, size := size, known := knownId id })

/-- the `while ptr>0` loop started at `ptr` -/
def walkFrom : Nat → Nat → List Nat → List Found
  | 0, _, _ => []
  | fuel + 1, ptr, buf =>
    if ptr = 0 then [] else
    match nextChunk ptr buf with
    | (next, some f) => f :: walkFrom fuel next buf
    | (next, none) => walkFrom fuel next buf

def walk (buf : List Nat) : List Found := walkFrom (buf.length + 1) 12 buf

def idText (id : Nat) : String :=
  String.ofList ((le32 id).map (fun b => if 32 < b ∧ b < 127 then Char.ofNat b else '?'))

def showWalk (fs : List Found) : String :=
  if fs.isEmpty then "-" else
  ",".intercalate (fs.map (fun f => idText f.id ++ "@" ++ toString f.ptr ++ "+" ++ toString f.size ++ (if f.known then "" else "!")))

/-- a chunk as a2kit holds it: id and payload (the size field is derived) -/
structure Chunk where
  id : Nat
  payload : List Nat
deriving DecidableEq, Repr

def chunkBytes (c : Chunk) : List Nat := le32 c.id ++ le32 c.payload.length ++ c.payload

/-- the image as serialised: 8 fixed header bytes (`WOZ2`, 0xFF, LF CR LF) and the chunks in writing order -/
structure Image where
  magic : List Nat
  chunks : List Chunk
deriving DecidableEq, Repr

def body (x : Image) : List Nat := (x.chunks.map chunkBytes).flatten

/-- `to_bytes`; `none` would be the table index panic of `crc32`, which cannot happen -/
def toBytes (x : Image) : Option (List Nat) :=
  match crc32 0 (body x) with
  | some c => some (x.magic ++ le32 c ++ body x)
  | none => none

/-- the chunks `from_bytes` sees, with payloads, in file order -/
def readChunks (buf : List Nat) : List (Nat × Chunk) :=
  (walk buf).filterMap (fun f =>
    if f.known then some (f.ptr, { id := f.id, payload := (buf.drop (f.ptr + 8)).take f.size }) else none)

end A2Verif.Model.C09Woz
