import A2Verif.Gen.Opcodes
/-!
Model of the Merlin disassembler of a2kit (`src/lang/merlin/disassembly.rs`) at the level of
*structured lines*: which bytes each emitted line covers, and mnemonic / addressing mode / operand
value / forcing suffix and prefix of each line.  The text layer (column formatting, tree-sitter) is not
modelled; `Drv/C15.lean` renders the structured lines for the correspondence check.

Rust ↔ Lean
* `OperationHandbook::create_dasm_map`, `setup_modifiers`   ↔ `Gen.Opcodes.opTable`, `absSuffixable` …
* `Disassembler::is_instruction`                            ↔ `instrInfo` (static part) + `isInstruction`
* `Disassembler::push_instruction`                          ↔ `pushInstruction`
* `OperationHandbook::rel_to_abs`                           ↔ `relToAbs`
* `Disassembler::try_data_run`, `push_string`, `push_data_pattern` ↔ `scan`, `tryDataRun`
* `Disassembler::disassemble` (the loop)                    ↔ `step`, `dasm`

The range being disassembled is passed as the list of its bytes (`rest` = bytes from the current
address to the end of the range); `addr + 1 + n <= end` of the Rust becomes `n ≤ tl.length`.
-/
namespace A2Verif.Dasm
open A2Verif.Gen.Opcodes

inductive Proc where
  | p6502 | p65c02 | p65802 | p65816
  deriving DecidableEq, Repr, Inhabited

/-- Behaviours of the *unrepaired* code that violate C15; the repaired code is `Quirks.fixed`.
* `forceAllLong = false`: a 3-byte operand only gets the `L` suffix when its value is `< 0x10000`
* `m8L65802 = false`: in Merlin 8 (the only way to target the 65802) the `L` suffix does not select long addressing
* `mvnPcBug = true`: `MVN`/`MVP` advance the assembler's program counter by 5 instead of 3 -/
structure Quirks where
  forceAllLong : Bool
  m8L65802 : Bool
  mvnPcBug : Bool
  deriving DecidableEq, Repr

def Quirks.fixed : Quirks := ⟨true, true, false⟩
def Quirks.orig : Quirks := ⟨false, false, true⟩

/-- disassembler settings: processor, `set_mx`, `config.disassembly.brk` -/
structure Cfg where
  proc : Proc
  m8 : Bool
  x8 : Bool
  brk : Bool
  deriving DecidableEq, Repr

def rowAvail (r : Row) : Proc → Bool
  | .p6502 => r.p6502
  | .p65c02 => r.p65c02
  | .p65802 => r.p65816
  | .p65816 => r.p65816

def isDigit (c : Nat) : Bool := 48 ≤ c && c ≤ 57

/-- `mov_patt = [0-9][0-9]` finds a match -/
def hasTwoDigits : List Nat → Bool
  | a :: b :: rest => (isDigit a && isDigit b) || hasTwoDigits (b :: rest)
  | _ => false

/-- `std_patt = [0-9]`: first match, as a number -/
def firstDigit : List Nat → Option Nat
  | [] => none
  | c :: rest => if isDigit c then some (c - 48) else firstDigit rest

def hasMode (m : Mnem) (md : Mode) : Bool := (opModes m).any (fun r => r.mode == md)

/-- `setup_modifiers` -/
def absSuffixable (m : Mnem) : Bool := m != .jmp && m != .jsr && hasMode m .zp && hasMode m .abs
def abslSuffixable (m : Mnem) : Bool := m != .jmp && m != .jsr && hasMode m .abs && hasMode m .absl
def abslPrefixable (m : Mnem) : Bool := m == .jmp || m == .jsr

/-- `mode.mnemonic.starts_with("rel")` -/
def modeIsRel (md : Mode) : Bool := md == .rel || md == .rell

/-- `AddressMode::m_sensitive` / `x_sensitive` (only the immediate mode of the listed mnemonics) -/
def modeMSens (r : Row) : Bool := mSens r.mnem && r.mode == .imm
def modeXSens (r : Row) : Bool := xSens r.mnem && r.mode == .imm

/-- what `is_instruction` finds out from the opcode alone -/
structure Info where
  row : Row
  /-- operand bytes (already widened for 16 bit immediates) -/
  n : Nat
  /-- the snippet was replaced by `#2` -/
  wide : Bool
  /-- block move (`mov_patt` matched) -/
  mov : Bool
  deriving DecidableEq, Repr

/-- `is_instruction` without the "enough bytes left" test -/
def instrInfo (cfg : Cfg) (op : Nat) : Option Info :=
  match opTable[op]? with
  | some (some row) =>
    if rowAvail row cfg.proc && (op != 0 || cfg.brk) then
      let snip := snippet row.mode
      if hasTwoDigits snip then some ⟨row, 2, false, true⟩
      else match firstDigit snip with
        | some d =>
          let wide := (modeMSens row && !cfg.m8) || (modeXSens row && !cfg.x8)
          some ⟨row, if wide then d + 1 else d, wide, false⟩
        | none => some ⟨row, 0, false, false⟩
    else none
  | _ => none

/-- `is_instruction`: `rest` starts at the opcode -/
def isInstruction (cfg : Cfg) (rest : List Nat) : Option Info :=
  match rest with
  | [] => none
  | op :: tl =>
    match instrInfo cfg op with
    | some i => if i.n ≤ tl.length then some i else none
    | none => none

/-- `u32_from_operand`: little endian -/
def leVal : List Nat → Nat
  | [] => 0
  | b :: rest => b + 256 * leVal rest

/-- `OperationHandbook::rel_to_abs` (pc = address of the branch instruction) -/
def relToAbs (pc rel n : Nat) : Option Nat :=
  let h := if n = 1 then 0x80 else 0x8000
  let f := if n = 1 then 0x100 else 0x10000
  if rel < h then
    (if rel + pc + n + 1 > 0xffff then none else some (rel + pc + n + 1))
  else if rel < f then
    (if rel + pc + n + 1 < f then none
     else if rel + pc + n + 1 - f > 0xffff then none else some (rel + pc + n + 1 - f))
  else none

inductive Sfx where
  | none | colon | long
  deriving DecidableEq, Repr, Inhabited

inductive Opnd where
  | none
  /-- `Operand::mov(img[addr+1], img[addr])`: printed `$first,$second` -/
  | mov (first second : Nat)
  /-- branch destination, always printed with 4 hex digits -/
  | rel (dest : Nat)
  /-- value printed with `2*n` hex digits inside the mode's snippet -/
  | val (v n : Nat)
  deriving DecidableEq, Repr, Inhabited

/-- One emitted unit of source.  `hex` with `reps > 1` is the three text lines `LUP reps`/`HEX ..`/`--^`. -/
inductive Line where
  | instr (addr : Nat) (mnem : Mnem) (mode : Mode) (wide : Bool) (sfx : Sfx) (pfx : Bool) (op : Opnd)
  | hex (addr reps : Nat) (bytes : List Nat)
  | ds (addr n v : Nat)
  /-- `ASC 's'` (`neg`: delimiter `"`, else `'`), `zero`: followed by `,00`; `s` are 7-bit characters -/
  | asc (addr : Nat) (neg : Bool) (s : List Nat) (zero : Bool)
  /-- `DCI 's'`, `s` includes the final character (7 bit) -/
  | dci (addr : Nat) (neg : Bool) (s : List Nat)
  | dfb (addr v : Nat)
  deriving DecidableEq, Repr, Inhabited

def Line.addr : Line → Nat
  | .instr a .. => a
  | .hex a .. => a
  | .ds a .. => a
  | .asc a .. => a
  | .dci a .. => a
  | .dfb a .. => a

def Opnd.len : Opnd → Nat
  | .none => 0
  | .mov .. => 2
  | .rel _ => 0  -- replaced below by the mode
  | .val _ n => n

/-- number of object bytes the line stands for -/
def Line.len : Line → Nat
  | .instr _ _ md _ _ _ (.rel _) => if md == .rell then 3 else 2
  | .instr _ _ _ _ _ _ op => 1 + op.len
  | .hex _ reps bytes => reps * bytes.length
  | .ds _ n _ => n
  | .asc _ _ s zero => s.length + (if zero then 1 else 0)
  | .dci _ _ s => s.length
  | .dfb .. => 1

/-- the suffix forcing of `push_instruction`: `small` = value `< 0x100`, `bank0` = value `< 0x10000` -/
def sfxFor (q : Quirks) (m : Mnem) (n : Nat) (small bank0 : Bool) : Sfx :=
  if n = 2 && small && absSuffixable m then .colon
  else if n = 3 && (q.forceAllLong || bank0) && abslSuffixable m then .long
  else .none

/-- `push_instruction`: `op :: tl` are the bytes from the opcode on; returns the line and the bytes consumed -/
def pushInstruction (q : Quirks) (addr op : Nat) (tl : List Nat) (i : Info) : Line × Nat :=
  let m := i.row.mnem
  let md := i.row.mode
  if i.mov then
    match tl with
    | a :: b :: _ => (.instr addr m md false .none false (.mov b a), 3)
    | _ => (.instr addr m md false .none false .none, 1)   -- unreachable after `isInstruction`
  else if i.n > 0 then
    let v := leVal (tl.take i.n)
    if modeIsRel md then
      match relToAbs addr v i.n with
      | some d => (.instr addr m md false .none false (.rel d), 1 + i.n)
      | none => (.hex addr 1 (op :: tl.take i.n), 1 + i.n)
    else
      let pfx := i.n = 3 && abslPrefixable m
      (.instr addr m md i.wide (sfxFor q m i.n (v < 0x100) (v < 0x10000)) pfx (.val v i.n), 1 + i.n)
  else (.instr addr m md false .none false .none, 1)

/-! ### data runs -/

def isAlphanum (c off : Nat) : Bool :=
  (c > 0x40 + off && c ≤ 0x5a + off) || (c > 0x60 + off && c ≤ 0x7a + off) || (c ≥ 0x30 + off && c ≤ 0x39 + off)

def probablyString (c off : Nat) : Bool :=
  isAlphanum c off || c == 32 + off || c == 44 + off || c == 46 + off

/-- the five counters of `try_data_run`, each with its "still alive" flag -/
structure Scan where
  pos : Nat := 0
  posOk : Bool := true
  neg : Nat := 0
  negOk : Bool := true
  uni : Nat := 0
  uniOk : Bool := true
  p2 : Nat := 0
  p2Ok : Bool := true
  p4 : Nat := 0
  p4Ok : Bool := true
  deriving DecidableEq, Repr

def Scan.alive (s : Scan) : Bool := s.posOk || s.negOk || s.uniOk || s.p2Ok || s.p4Ok

/-- one iteration of the `while` body at `ptr = ptr0 + i`.  The five counters do not influence each other,
so each field is written as its own case split (same conditions as the Rust `if` / `else if`). -/
def scanStep (rest : List Nat) (i : Nat) (s : Scan) : Scan :=
  let c := rest.getD i 0
  let uniHit := s.uniOk && decide (i > 0) && c == rest.getD (i - 1) 0
  let p2Hit := s.p2Ok && decide (i > 1) && c == rest.getD (i - 2) 0
  let p4Hit := s.p4Ok && decide (i > 3) && c == rest.getD (i - 4) 0
  { pos := if s.posOk && probablyString c 0 then s.pos + 1 else s.pos
    posOk := s.posOk && probablyString c 0
    neg := if s.negOk && probablyString c 128 then s.neg + 1 else s.neg
    negOk := s.negOk && probablyString c 128
    uni := if uniHit then s.uni + 1 else s.uni
    uniOk := if uniHit then s.uniOk else if i > 0 then false else s.uniOk
    p2 := if p2Hit then s.p2 + 1 else s.p2
    p2Ok := if p2Hit then s.p2Ok else if i > 1 then false else s.p2Ok
    p4 := if p4Hit then s.p4 + 1 else s.p4
    p4Ok := if p4Hit then s.p4Ok else if i > 3 then false else s.p4Ok }

/-- the `while` loop: `(ptr0 == ptr || ptr < end) && ptr0 < end && alive` -/
def scan (rest : List Nat) : Nat → Nat → Scan → Scan
  | 0, _, s => s
  | fuel + 1, i, s =>
    if i < rest.length && s.alive then scan rest fuel (i + 1) (scanStep rest i s) else s

/-- `push_string` + the callers' slicing: `chars` are the 7-bit characters found, `la` the lookahead byte -/
def pushString (addr : Nat) (neg : Bool) (chars : List Nat) (la : Option Nat) : Line × Nat :=
  let off := if neg then 0 else 128
  match la with
  | some x =>
    if x == 0 then (.asc addr neg chars true, chars.length + 1)
    else if probablyString x off then (.dci addr neg (chars ++ [x - off]), chars.length + 1)
    else (.asc addr neg chars false, chars.length)
  | none => (.asc addr neg chars false, chars.length)

/-- the delimiter `push_string` chooses: `"` for negative, `'` for positive ASCII, or `&` / `/` when the string
itself starts with that character -/
def delimOf (neg : Bool) (s : List Nat) : Nat :=
  let d0 : Nat := if neg then 34 else 39
  if s.head? == some d0 then (if neg then 38 else 47) else d0

/-- `try_data_run`; `none` = returned 0 (caller emits `DFB`) -/
def tryDataRun (addr : Nat) (rest : List Nat) : Option (Line × Nat) :=
  let s := scan rest rest.length 0 {}
  let uni := if s.uni > 0 then s.uni + 1 else 0
  let p2 := if s.p2 > 0 then (s.p2 + 2) - (s.p2 + 2) % 2 else 0
  let p4 := if s.p4 > 0 then (s.p4 + 4) - (s.p4 + 4) % 4 else 0
  if uni > 0 && uni ≥ p2 && uni ≥ p4 && uni ≥ s.pos && uni ≥ s.neg then
    some (.ds addr uni (rest.getD 0 0), uni)
  else if p2 > 0 && p2 ≥ p4 && p2 ≥ s.pos && p2 ≥ s.neg then
    some (.hex addr (p2 / 2) (rest.take 2), p2)
  else if p4 > s.pos && p4 > s.neg then
    some (.hex addr (p4 / 4) (rest.take 4), p4)
  else if s.pos > s.neg then
    some (pushString addr false (rest.take s.pos) (rest[s.pos]?))
  else if s.neg > 0 then
    some (pushString addr true ((rest.take s.neg).map (· - 128)) (rest[s.neg]?))
  else none

/-- one turn of the `while addr < end` loop of `disassemble`; `rest` must be non-empty -/
def step (q : Quirks) (cfg : Cfg) (addr : Nat) (rest : List Nat) : Line × Nat :=
  match rest with
  | [] => (.dfb addr 0, 1)
  | op :: tl =>
    match isInstruction cfg rest with
    | some i => pushInstruction q addr op tl i
    | none =>
      match tryDataRun addr rest with
      | some r => r
      | none => (.dfb addr op, 1)

def go (q : Quirks) (cfg : Cfg) : Nat → Nat → List Nat → List Line
  | 0, _, _ => []
  | _, _, [] => []
  | fuel + 1, addr, rest =>
    let r := step q cfg addr rest
    r.1 :: go q cfg fuel (addr + r.2) (rest.drop r.2)

/-- `Disassembler::disassemble(img, Range([org, org + bytes.length]), proc, _)` as a list of lines -/
def dasm (q : Quirks) (cfg : Cfg) (org : Nat) (bytes : List Nat) : List Line :=
  go q cfg bytes.length org bytes

/-- `bytes` is a concatenation of complete instructions of the configured processor -/
def pureCode (cfg : Cfg) : Nat → List Nat → Bool
  | 0, rest => rest.isEmpty
  | _, [] => true
  | fuel + 1, rest =>
    match isInstruction cfg rest with
    | some i => pureCode cfg fuel (rest.drop (1 + i.n))
    | none => false

end A2Verif.Dasm
