import A2Verif.Gen.Opcodes
import A2Verif.Model.Dasm
/-!
Model of what a2kit's Merlin spot assembler (`src/lang/merlin/assembly.rs`) emits for a structured line
of the kind the disassembler produces.

Rust ↔ Lean
* `Operation::get_address_mode` (with `PARSING_MAP`)        ↔ `getAddressMode`
* `Assembler::push_instruction` (assembly.rs:417-530)       ↔ `asmShape` (everything that depends on the
  operand value only through "byte 1 is non-zero") + `asmInstr` (relative conversion, operand bytes)
* `eval_imm_prefix`, `eval_addr_prefix`, `prefix_shift`     ↔ `immPrefix`, `addrPrefix`, `prefixShift`
* `OperationHandbook::abs_to_rel`                           ↔ `absToRel`
* `visit`: `xyc` branch, operand-less branch, `arg_hex`, `arg_ds`, `arg_asc`, `arg_dci`, `arg_dfb`, `LUP`
                                                             ↔ `lineBytes`
* `spot_assemble` (line after line with the running PC)     ↔ `asmAll`

Assumed about the text layer (tree-sitter grammar + `format_lines`; tied by the harness, not proved):
a rendered line parses back to the same mnemonic, to the reduced mode `Mode.reduced` of its mode, to the
prefix `#` for an immediate snippet / `>` when the disassembler set the prefix, to the same suffix, and its
number evaluates to the value that was printed (which needs `v < 256^n`).
-/
namespace A2Verif.Asm
open A2Verif.Gen.Opcodes A2Verif.Dasm

inductive Ver where
  | m8 | m16 | m16p | m32
  deriving DecidableEq, Repr, Inhabited

/-- assembler settings: `symbols.processor`, `symbols.assembler`, `set_mx` / `MX` -/
structure ACfg where
  proc : Proc
  ver : Ver
  m8 : Bool
  x8 : Bool
  deriving DecidableEq, Repr

/-- explicit refusals (`assembly::Error`, `TryFromIntError`) -/
inductive Unasm where
  | outOfRange | badAddressMode | badBranch | cannotAssemble | syntax
  deriving DecidableEq, Repr, Inhabited

inductive Pfx where
  | none | hash | gt
  deriving DecidableEq, Repr, Inhabited

/-- `Operation::get_address_mode` -/
def getAddressMode (m : Mnem) (red : Reduced) (count : Nat) : Option ModeRow :=
  let direct : Option ModeRow :=
    match parsingMap.find? (fun e => e.1 == red && e.2.1 == count) with
    | some (_, _, some target) => (opModes m).find? (fun r => r.mode == target)
    | _ => none
  match direct with
  | some r => some r
  | none =>
    if red == .addr then (opModes m).find? (fun r => r.mode == .rel || r.mode == .rell) else none

def prefixShift : Pfx → Nat
  | .gt => 1
  | _ => 0

/-- `eval_imm_prefix` -/
def immPrefix (is16 : Bool) (p : Pfx) : Nat × Nat :=
  ((0 : Nat) + prefixShift p, (if is16 then 2 else 1) + prefixShift p)

/-- `eval_addr_prefix` (`|` and `!` are never produced by the disassembler) -/
def addrPrefix (p : Pfx) (beg end_ : Nat) : Nat × Nat :=
  if p == .gt then (0, 3) else (beg, end_)

/-- the padding search `for padding in 0..3` -/
def findMode (m : Mnem) (red : Reduced) (cnt : Nat) : Option (ModeRow × Nat) :=
  match getAddressMode m red cnt with
  | some r => some (r, 0)
  | none =>
    match getAddressMode m red (cnt + 1) with
    | some r => some (r, 1)
    | none =>
      match getAddressMode m red (cnt + 2) with
      | some r => some (r, 2)
      | none => none

/-- `push_instruction` up to and including the choice of the addressing mode.  `b1nz` = "byte 1 of the
operand value is non-zero", the only way the value enters.  Result: mode row, `beg`, `end`. -/
def asmShapeB (q : Quirks) (proc : Proc) (isM8 am8 ax8 : Bool) (m : Mnem) (red : Reduced) (sfx : Sfx) (pfx : Pfx)
    (b1nz : Bool) : Except Unasm (ModeRow × Nat × Nat) :=
  let end0 : Nat := if b1nz then 2 else 1
  let end1 : Nat :=
    if end0 = 1 then
      (if isM8 then (if sfx != .none then 2 else 1)
       else (if sfx == .colon then 2 else 1))
    else end0
  let end2 : Nat :=
    if (!isM8 || (q.m8L65802 && proc == .p65802)) && sfx == .long then 3 else end1
  let is16 := (!ax8 && xSens m) || (!am8 && mSens m)
  let be : Nat × Nat :=
    if red == .data then (if m == .pea then immPrefix true pfx else immPrefix false pfx)
    else if m == .brl then (0, 2)
    else if m == .jml && red == .addr then (0, 3)
    else if m == .jml && red == .iaddr then (0, 2)
    else if m == .jsl then (0, 3)
    else if pfx == .hash then immPrefix is16 pfx
    else addrPrefix pfx 0 end2
  if (proc == .p6502 || proc == .p65c02) && be.2 > be.1 + 2 then .error .outOfRange
  else
    match findMode m red (be.2 - be.1) with
    | some (r, pad) => .ok (r, be.1, be.2 + pad)
    | none => .error .badAddressMode

/-- the assembler variant only matters through "is it Merlin 8" -/
def asmShape (q : Quirks) (c : ACfg) (m : Mnem) (red : Reduced) (sfx : Sfx) (pfx : Pfx) (b1nz : Bool) :
    Except Unasm (ModeRow × Nat × Nat) :=
  asmShapeB q c.proc (c.ver == .m8) c.m8 c.x8 m red sfx pfx b1nz

/-- `u32::to_le_bytes` -/
def le4 (v : Nat) : List Nat := [v % 256, (v / 256) % 256, (v / 65536) % 256, (v / 16777216) % 256]

/-- `OperationHandbook::abs_to_rel` -/
def absToRel (pc addr n : Nat) : Option Nat :=
  let h := if n = 1 then 0x80 else 0x8000
  let f := if n = 1 then 0x100 else 0x10000
  let t := pc + n + 1
  if addr ≥ t then (if addr - t < h then some (addr - t) else none)
  else (if t - addr ≤ h then some (f - (t - addr)) else none)

/-- `push_instruction` -/
def asmInstr (q : Quirks) (c : ACfg) (pc : Nat) (m : Mnem) (red : Reduced) (sfx : Sfx) (pfx : Pfx) (val : Nat) :
    Except Unasm (List Nat) :=
  match asmShape q c m red sfx pfx (decide ((val / 256) % 256 ≠ 0)) with
  | .error e => .error e
  | .ok (r, beg, end_) =>
    if r.mode == .rel || r.mode == .rell then
      let n := if r.mode == .rel then 1 else 2
      let absAddr := val % 256 + 0x100 * ((val / 256) % 256) + (n - 1) * 0x10000 * ((val / 65536) % 256)
      match absToRel pc absAddr n with
      | some rel => .ok (r.code :: (le4 rel).take n)
      | none => .error .badBranch
    else .ok (r.code :: ((le4 val).drop beg).take (end_ - beg))

/-- `push_strings` (assembly.rs:537-587), sign step: `signed && len > 0 && v[0] < b'\''` sets the high bit of
every byte of the node text (delimiters included) -/
def signStep (text : List Nat) : List Nat :=
  match text with
  | d :: _ => if d < 39 then text.map (fun x => x ||| 0x80) else text
  | [] => text

/-- `push_strings`, rest of the `dstring` arm (no length prefix, no reversal): the two delimiters must agree;
`dci` flips the high bit of the last character; the delimiters are dropped -/
def strCore (v : List Nat) (dci : Bool) : Except Unasm (List Nat) :=
  let len := v.length
  if len < 2 || v.head? != v.getLast? then .error .syntax
  else if len > 2 then
    let v := if dci then v.set (len - 2) ((v.getD (len - 2) 0) ^^^ 0x80) else v
    .ok ((v.drop 1).take (len - 2))
  else .ok []

/-- `push_strings` for one `dstring` child with `signed = true`; `text` is the node text *including both
delimiters* -/
def pushStrings (text : List Nat) (dci : Bool) : Except Unasm (List Nat) := strCore (signStep text) dci

def snippetIsImm (md : Mode) (wide : Bool) : Bool := wide || (snippet md).head? == some 35

/-- object bytes of one structured line when the assembler's program counter is `pc` -/
def lineBytes (q : Quirks) (c : ACfg) (pc : Nat) : Line → Except Unasm (List Nat)
  | .instr _ m md wide sfx pfx op =>
    match op with
    | .none =>
      -- `None =>` branch of `visit`: first mode that is accum / impl / s; otherwise nothing is emitted
      match (opModes m).find? (fun r => r.mode == .accum || r.mode == .impl_ || r.mode == .s_) with
      | some r => .ok [r.code]
      | none => .ok []
    | .mov a b =>
      match (opModes m) with
      | r :: _ => .ok [r.code, b % 256, a % 256]
      | [] => .error .syntax
    | .rel d => asmInstr q c pc m md.reduced sfx .none d
    | .val v _ =>
      asmInstr q c pc m md.reduced sfx (if snippetIsImm md wide then .hash else if pfx then .gt else .none) v
  | .hex _ reps bytes => if reps > 1 then .error .cannotAssemble else .ok bytes
  | .ds _ n v => if n > 0xffff then .error .outOfRange else .ok (List.replicate n (v % 256))
  | .asc _ neg s zero =>
    -- `arg_asc`: children `dstring` [`hex_data` "00"]; text of the dstring as `push_string` wrote it
    match pushStrings ([delimOf neg s] ++ s ++ [delimOf neg s]) false with
    | .ok b => .ok (b ++ (if zero then [0] else []))
    | .error e => .error e
  | .dci _ neg s => pushStrings ([delimOf neg s] ++ s ++ [delimOf neg s]) true
  | .dfb _ v => .ok [v % 256]

/-- what Merlin's `LUP r` / body / `--^` stands for: the body `r` times.  The spot assembler does not implement
`LUP` (it answers `CannotAssemble`); this reading is used to state that a refused pattern line still stands for
exactly its span. -/
def lupBytes (reps : Nat) (body : List Nat) : List Nat := (List.replicate reps body).flatten

def isMov : Line → Bool
  | .instr _ _ _ _ _ _ (.mov ..) => true
  | _ => false

/-- `spot_assemble` over the line list, threading the program counter -/
def asmAll (q : Quirks) (c : ACfg) : Nat → List Line → Except Unasm (List Nat)
  | _, [] => .ok []
  | pc, l :: ls =>
    match lineBytes q c pc l with
    | .error e => .error e
    | .ok b =>
      match asmAll q c (pc + b.length + (if q.mvnPcBug && isMov l then 2 else 0)) ls with
      | .error e => .error e
      | .ok rest => .ok (b ++ rest)

/-- `r` is a success with exactly the bytes `b` (decidable form used for concrete witnesses) -/
def okIs (r : Except Unasm (List Nat)) (b : List Nat) : Bool :=
  match r with
  | .ok x => x == b
  | .error _ => false

/-- assembler variants in which a processor can be declared (`Context::curr_proc`) -/
def compat : Proc → Ver → Bool
  | .p65802, v => v == .m8
  | .p65816, v => v != .m8
  | _, _ => true

end A2Verif.Asm
