import A2Verif.Gen.Woz
import A2Verif.Gen.Td0
/-!
CRC models for property C09.

* `crc32` transcribes `a2kit::img::woz::crc32` (src/img/woz.rs:85-92): table driven, reflected,
  seed and result complemented.  The table is the GENERATED `A2Verif.Gen.Woz.CRC32_TAB`.
* `crc32Bitwise` is the textbook bit-serial reflected CRC-32 (polynomial 0xEDB88320); it is the
  specification the table is checked against in `Props/C09.lean`.
* `crc16` transcribes `a2kit::img::td0::crc16` (src/img/td0.rs:125-135): MSB first, bit serial,
  polynomial taken from the GENERATED `A2Verif.Gen.Td0.CRC16_POLY`.

Bytes are `Nat < 256`; words are `Nat` kept below `2^32` / `2^16` by explicit masking exactly where
the Rust type truncates (`crc << 1` on a `u16`).
-/
namespace A2Verif.Model.C09Crc

/-- one step of the bit-serial reflected CRC-32 -/
def step32 (c : Nat) : Nat :=
  if c % 2 = 1 then (c >>> 1) ^^^ 0xEDB88320 else c >>> 1

/-- eight steps: the value the lookup table must hold at index `i` -/
def tabEntry (i : Nat) : Nat :=
  step32 (step32 (step32 (step32 (step32 (step32 (step32 (step32 i)))))))

/-- woz.rs:89 `crc = CRC32_TAB[((crc ^ p) & 0xFF)] ^ (crc >> 8)`; an index outside the table
would be a Rust panic, which cannot happen (`& 0xFF` on a 256-entry table) and is `none` here -/
def upd32 (tab : List Nat) (crc : Nat) (p : Nat) : Option Nat :=
  match tab[(crc ^^^ p) % 256]? with
  | some t => some (t ^^^ (crc >>> 8))
  | none => none

def fold32 (tab : List Nat) : Nat → List Nat → Option Nat
  | crc, [] => some crc
  | crc, p :: ps =>
    match upd32 tab crc p with
    | some c => fold32 tab c ps
    | none => none

/-- `crc32(seed, buf)` of woz.rs with an explicit table -/
def crc32With (tab : List Nat) (seed : Nat) (buf : List Nat) : Option Nat :=
  match fold32 tab (seed ^^^ 0xFFFFFFFF) buf with
  | some c => some (c ^^^ 0xFFFFFFFF)
  | none => none

/-- `a2kit::img::woz::crc32` -/
def crc32 (seed : Nat) (buf : List Nat) : Option Nat :=
  crc32With A2Verif.Gen.Woz.CRC32_TAB seed buf

/-- bit-serial CRC-32 update with one byte (specification) -/
def upd32Bitwise (crc : Nat) (p : Nat) : Nat :=
  tabEntry ((crc ^^^ p) % 256) ^^^ (crc >>> 8)

def fold32Bitwise : Nat → List Nat → Nat
  | crc, [] => crc
  | crc, p :: ps => fold32Bitwise (upd32Bitwise crc p) ps

/-- table-free CRC-32 (specification) -/
def crc32Bitwise (seed : Nat) (buf : List Nat) : Nat :=
  fold32Bitwise (seed ^^^ 0xFFFFFFFF) buf ^^^ 0xFFFFFFFF

/-- td0.rs:131 `crc = (crc << 1) ^ match crc & 0x8000 { 0 => 0, _ => POLY }` on a `u16` -/
def step16 (poly : Nat) (c : Nat) : Nat :=
  ((c <<< 1) % 65536) ^^^ (if c &&& 0x8000 = 0 then 0 else poly)

def upd16 (poly : Nat) (crc : Nat) (b : Nat) : Nat :=
  let c := crc ^^^ ((b <<< 8) % 65536)
  step16 poly (step16 poly (step16 poly (step16 poly (step16 poly (step16 poly (step16 poly (step16 poly c)))))))

def crc16With (poly : Nat) : Nat → List Nat → Nat
  | crc, [] => crc
  | crc, b :: bs => crc16With poly (upd16 poly crc b) bs

/-- `a2kit::img::td0::crc16` -/
def crc16 (seed : Nat) (buf : List Nat) : Nat :=
  crc16With A2Verif.Gen.Td0.CRC16_POLY seed buf

/-- little endian encodings used all over the containers -/
def le16 (n : Nat) : List Nat := [n % 256, (n / 256) % 256]
def le32 (n : Nat) : List Nat := [n % 256, (n / 256) % 256, (n / 65536) % 256, (n / 16777216) % 256]
def unle16 (a b : Nat) : Nat := a + 256 * b
def unle32 (a b c d : Nat) : Nat := a + 256 * b + 65536 * c + 16777216 * d

end A2Verif.Model.C09Crc
