import A2Verif.Model.C09Td0
import A2Verif.Model.C08Ring
/-!
TD0 sector access and the object level of the comment block — src/img/td0.rs, for properties C08 (sector
storage on tracks with flagged sectors), C09 (integrity fields after metadata edits) and C06 (the saved image
reloads).

A track is a list of sector records in rotation order.  A record has a 6-byte header (cylinder, head, id, size
code, flags, CRC byte) and — unless one of the no-data flags 0x10 "skipped" / 0x20 "no data" is set — a data
block in one of three encodings (raw, repeated 2-byte pattern, run length).  The other flags (0x01 duplicated,
0x02 CRC error, 0x04 deleted data, 0x40 no id) do not influence a2kit's access.

| Rust (td0.rs)                                     | here                          |
|---|---|
| `Track::adv_sector` :411-417                      | `advSector` (`C08Ring.nextPos`) |
| search loop of `read_sector` :743-757 / `write_sector` :765-774 | `seek`          |
| `Sector::unpack` :302-364 incl. the flag test     | `unpackSector` (`C09Td0.unpack`) |
| `Sector::pack` :277-300 incl. dropping the no-data flags | `packSector` (`C09Td0.pack`) |
| `Td0::read_sector`, `write_sector` on the selected track | `readTrack`, `writeTrack` |
| `Td0::get_track_mut` :555-563                     | `findTrack`                   |
| `put_metadata` for `/td0/comment/notes` :1070-1085 | `Obj.putNotes`               |
| `Td0::to_bytes(&mut self)` :914-949 before LZHUF  | `saveImg` / `Obj.save` (bytes and the object afterwards) |
| `Td0::from_bytes` on a `TD` stream                | `load` (`C09Td0.fromBytesNormal`) |

`saveImg` is written in the order of the Rust statements: first the comment flag, then the header CRC, then
`h.data_length = encoded length`, THEN `h.crc = crc16(h.to_bytes()[2..] ++ encoded)` over the header fields as they
are at that moment — the stored length is a field of the object that is stale between `put_metadata` and the next
`to_bytes`.  `saveImg_bytes` shows that this is `C09Td0.toBytesNormal`.
-/
namespace A2Verif.Model.C08Td0
open A2Verif.Model.C09Td0 A2Verif.Model.C09Crc A2Verif.Model.C08Ring A2Verif.Gen.Td0

structure TrackSt where
  trk : Track
  headPos : Nat
deriving DecidableEq, Repr

/-- `Track::adv_sector` -/
def advSector (t : TrackSt) : TrackSt := { t with headPos := nextPos t.trk.sectors.length t.headPos }

inductive Seek
  | found (t : TrackSt)
  | notFound (t : TrackSt)
  | panic
deriving DecidableEq, Repr

def seek (sec : Nat) : Nat → TrackSt → Seek
  | 0, t => .notFound t
  | k + 1, t =>
    let t' := advSector t
    match t'.trk.sectors[t'.headPos]? with
    | none => .panic
    | some curr => if sec = curr.id then .found t' else seek sec k t'

/-- `Sector::unpack`: a sector with a no-data flag has nothing to unpack -/
def unpackSector (s : Sector) : Option (List Nat) :=
  if s.flags &&& NO_DATA_MASK > 0 then none else unpack s.shift s.data

/-- `Sector::pack`: `none` = `Err` (wrong length, sector unchanged); the no-data flags are dropped whatever the
encoding chosen (`flags &= NO_DATA_MASK ^ u8::MAX`) -/
def packSector (s : Sector) (dat : List Nat) : Option Sector :=
  match pack s.shift dat with
  | none => none
  | some rec =>
    some { s with flags := if s.flags &&& NO_DATA_MASK > 0 then s.flags &&& (NO_DATA_MASK ^^^ 255) else s.flags,
                  data := rec }

def readTrack (t : TrackSt) (sec : Nat) : Res (List Nat) × TrackSt :=
  match seek sec t.trk.sectors.length t with
  | .panic => (.panic, t)
  | .notFound t' => (.err, t')
  | .found t' =>
    match t'.trk.sectors[t'.headPos]? with
    | none => (.panic, t')
    | some curr =>
      if curr.flags &&& NO_DATA_MASK = 0 then
        match unpackSector curr with
        | some d => (.ok d, t')
        | none => (.err, t')
      else (.err, t')

def writeTrack (t : TrackSt) (sec : Nat) (dat : List Nat) : Res Unit × TrackSt :=
  match seek sec t.trk.sectors.length t with
  | .panic => (.panic, t)
  | .notFound t' => (.err, t')
  | .found t' =>
    match t'.trk.sectors[t'.headPos]? with
    | none => (.panic, t')
    | some curr =>
      match packSector curr (quantize dat (secSize curr.shift)) with
      | some s' =>
        let trk' : Track := { t'.trk with sectors := t'.trk.sectors.set t'.headPos s' }
        (Res.ok (), { t' with trk := trk' })
      | none => (.err, t')

structure Obj where
  hdr : List Nat
  hcrc : List Nat
  comment : Option Comment
  tracks : List TrackSt
deriving DecidableEq, Repr

def Obj.image (o : Obj) : Image :=
  { hdr := o.hdr, hcrc := o.hcrc, comment := o.comment, tracks := o.tracks.map (·.trk) }

/-- `get_track_mut` -/
def findTrack : List TrackSt → Nat → Nat → Option Nat
  | [], _, _ => none
  | t :: ts, cyl, head =>
    if t.trk.cyl = cyl ∧ t.trk.head &&& HEAD_MASK = head then some 0
    else (findTrack ts cyl head).map (· + 1)

def Obj.readSector (o : Obj) (cyl head sec : Nat) : Res (List Nat) × Obj :=
  match findTrack o.tracks cyl head with
  | none => (.err, o)
  | some i =>
    match o.tracks[i]? with
    | none => (.panic, o)
    | some t => let (r, t') := readTrack t sec; (r, { o with tracks := o.tracks.set i t' })

def Obj.writeSector (o : Obj) (cyl head sec : Nat) (dat : List Nat) : Res Unit × Obj :=
  match findTrack o.tracks cyl head with
  | none => (.err, o)
  | some i =>
    match o.tracks[i]? with
    | none => (.panic, o)
    | some t => let (r, t') := writeTrack t sec dat; (r, { o with tracks := o.tracks.set i t' })

/-- `put_metadata(["td0","comment","notes"], v)` on the comment: a NUL is refused; the notes are replaced by their
normal form; a missing comment header is created with zero CRC, ZERO LENGTH and the current time `stamp` — CRC
and length "computed in to_bytes" -/
def putNotesC (stamp : List Nat) (c : Option Comment) (v : List Nat) : Option (Option Comment) :=
  if 0 ∈ v then none else
  some (some (match c with
    | some c => { c with text := normalizeNotes v }
    | none => { crc := [0, 0], len := [0, 0], stamp := stamp, text := normalizeNotes v }))

def putNotesImg (stamp : List Nat) (x : Image) (v : List Nat) : Option Image :=
  (putNotesC stamp x.comment v).map (fun c => { x with comment := c })

def Obj.putNotes (stamp : List Nat) (o : Obj) (v : List Nat) : Option Obj :=
  (putNotesC stamp o.comment v).map (fun c => { o with comment := c })

/-- the two assignments of `to_bytes` to the comment header, in the order of the source -/
def refreshComment (c : Comment) : Comment :=
  let enc := encodeText c.text
  let c1 := { c with len := le16 (enc.length % 65536) }
  { c1 with crc := le16 (crc16 0 (c1.len ++ c1.stamp ++ enc)) }

/-- `Td0::to_bytes(&mut self)` up to `compress_slice`: the bytes and the fields of `self` it rewrites -/
def saveImg (x : Image) : List Nat × Image :=
  let hdr := syncHdr x.hdr x.comment.isSome
  let hcrc := le16 (crc16 0 ([84, 68] ++ hdr))
  let com := x.comment.map refreshComment
  let comBytes := match com with
    | some c => c.crc ++ c.len ++ c.stamp ++ encodeText c.text
    | none => []
  ([84, 68] ++ hdr ++ hcrc ++ comBytes ++ (x.tracks.map trackToBytes).flatten ++ [0xFF] ++ TRAILER,
   { x with hdr := hdr, hcrc := hcrc, comment := com })

def Obj.save (o : Obj) : List Nat × Obj :=
  let r := saveImg o.image
  (r.1, { o with hdr := r.2.hdr, hcrc := r.2.hcrc, comment := r.2.comment })

/-- `Td0::from_bytes` on a stream without advanced compression: every track starts with `head_pos = 0` -/
def load (bytes : List Nat) : Option Obj :=
  (fromBytesNormal bytes).map (fun x =>
    { hdr := x.hdr, hcrc := x.hcrc, comment := x.comment, tracks := x.tracks.map (fun t => { trk := t, headPos := 0 }) })

/-- `put_metadata` of the notes in the repaired tree (`fix`): notes longer than the 16-bit length field can say are refused -/
def putNotesCL (fix : Bool) (stamp : List Nat) (c : Option Comment) (v : List Nat) : Option (Option Comment) :=
  if fix ∧ (normalizeNotes v).length > 65535 then none else putNotesC stamp c v

def putNotesImgL (fix : Bool) (stamp : List Nat) (x : Image) (v : List Nat) : Option Image :=
  (putNotesCL fix stamp x.comment v).map (fun c => { x with comment := c })

def Obj.putNotesL (fix : Bool) (stamp : List Nat) (o : Obj) (v : List Nat) : Option Obj :=
  (putNotesCL fix stamp o.comment v).map (fun c => { o with comment := c })

/-- `Td0::from_bytes` of a foreign stream (`lossy` = `String::from_utf8_lossy` on the comment bytes) -/
def loadD (lossy : List Nat → List Nat) (fix : Bool) (bytes : List Nat) : Option Obj :=
  (fromBytesNormalD lossy fix bytes).map (fun x =>
    { hdr := x.hdr, hcrc := x.hcrc, comment := x.comment, tracks := x.tracks.map (fun t => { trk := t, headPos := 0 }) })

end A2Verif.Model.C08Td0
