/-!
The "rotating head" of the sector-record containers IMD and TD0 (property C08).

Both `imd::Track::adv_sector` (imd.rs:249) and `td0::Track::adv_sector` (td0.rs:411) keep a head position
`head_pos` in the track's list of sector records between accesses and advance it by one record, wrapping to
record 0 behind the last one:

    self.head_pos += 1;
    if self.head_pos >= n { self.head_pos = 0; }

`read_sector`/`write_sector` advance FIRST and compare THEN, `n` times, so that a search starts with the
record behind the one the previous access stopped at and visits every record exactly once.
-/
namespace A2Verif.Model.C08Ring

/-- the head position after `adv_sector` on a track of `n` records -/
def nextPos (n p : Nat) : Nat := if p + 1 ≥ n then 0 else p + 1

/-- number of records the head passes over before it stands on record `i`, starting behind record `p`
(`0` = the very next `adv_sector` lands on `i`; `n-1` = `i = p`, a whole revolution) -/
def dist (n p i : Nat) : Nat := if i > p then i - p - 1 else i + n - p - 1

/-- three-way outcome of an access to the real code: a value, `Err(..)`, or a Rust panic -/
inductive Res (α : Type)
  | ok (a : α)
  | err
  | panic
deriving DecidableEq, Repr

/-- `img::quantize_block(dat, q)`: exactly `q` bytes, the source first, zero padded, excess dropped -/
def quantize (src : List Nat) (q : Nat) : List Nat := src.take q ++ List.replicate (q - src.length) 0

end A2Verif.Model.C08Ring
