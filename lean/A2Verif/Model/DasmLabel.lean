import A2Verif.Gen.DasmLabels
import A2Verif.Model.Asm
/-!
Label layer of the Merlin disassembler (`Disassembler::format_lines`, `disassembly.rs:379-433`) and what the
assembler makes of a label operand.

Rust ↔ Lean
* `new_line.references.push(val)` unless the snippet starts with `#` (`push_instruction`)   ↔ `Line.refs`
* `pc_bytes` (3 when some line lies above `$FFFF`, else 2)                                   ↔ `pcBytes`
* the `labels` set (`labeling` contains "all": every line address; "some": the first line and every
  line whose address is in `references`; otherwise none)                                     ↔ `labelSet`
* the operand substitution `operand.num.len()==1 && labels.contains(&KEY) && !txt.starts_with("#")`,
  label text `_` + `hex_from_val("", num[0] as u32, pc_bytes)`                               ↔ `labelSubst`
  (`KEY` is extracted from the current source by `translator/gen_c15.py`: `Gen.DasmLabels.labelKey`)
* `Assembler::dasm_symbols`: a label `_HEX` has the value `HEX`                              ↔ `Line.setOperand`

A line whose operand was replaced by a label reads, for the assembler, as the same line with the operand
value `num mod 256^pc_bytes` (the label text keeps `pc_bytes` bytes of the value, `dasm_symbols` evaluates the
text).  Parameter (text layer, tied per case by the harness): the rendered line with `_HEX` in place of the
number parses to the same mnemonic / suffix / reduced mode / prefix.
-/
namespace A2Verif.Dasm
open A2Verif.Gen.Opcodes A2Verif.Gen.DasmLabels A2Verif.Asm

/-- the `labeling` argument of `disassemble` (`contains("all")` is tested first, then `contains("some")`) -/
inductive Labeling where
  | none | some | all
  deriving DecidableEq, Repr, Inhabited

/-- `operand.num[0]` of a line with `operand.num.len() == 1` whose text does not start with `#`
(block moves have two numbers, data pseudo-ops none) -/
def Line.labelCand : Line → Option Nat
  | .instr _ _ md _ _ _ (.rel d) => if snippetIsImm md false then none else some d
  | .instr _ _ md wide _ _ (.val v _) => if snippetIsImm md wide then none else some v
  | _ => none

/-- `DasmLine::references`: the operand value of every non-immediate instruction (branch destination or
address); a branch rendered as `HEX` returns before the push -/
def Line.refs (l : Line) : List Nat :=
  match l.labelCand with
  | some v => [v]
  | none => []

/-- `pc_bytes` -/
def pcBytes (ls : List Line) : Nat := if ls.any (fun l => decide (l.addr > 0xffff)) then 3 else 2

/-- the `labels` set of `format_lines` -/
def labelSet (lab : Labeling) (ls : List Line) : List Nat :=
  match lab with
  | .none => []
  | .all => ls.map Line.addr
  | .some =>
    match ls with
    | [] => []
    | l0 :: rest =>
      let refs := ls.flatMap Line.refs
      l0.addr :: (rest.filter (fun l => refs.contains l.addr)).map Line.addr

/-- the value looked up in the label set -/
def keyOf (k : LabelKey) (pcb v : Nat) : Nat :=
  match k with
  | .exact => v
  | .masked => v % 256 ^ pcb

/-- label substitution of `format_lines`: `some x` = the operand is printed as `_` + the `pc_bytes`-byte hex
text of the operand value, which stands for `x` -/
def labelSubst (k : LabelKey) (labels : List Nat) (pcb : Nat) (l : Line) : Option Nat :=
  match l.labelCand with
  | some v => if labels.contains (keyOf k pcb v) then some (v % 256 ^ pcb) else none
  | none => none

/-- the line as the assembler reads it when its operand is the label with value `x` -/
def Line.setOperand (x : Nat) : Line → Line
  | .instr a m md wide sfx pfx (.rel _) => .instr a m md wide sfx pfx (.rel x)
  | .instr a m md wide sfx pfx (.val _ n) => .instr a m md wide sfx pfx (.val x n)
  | l => l

/-- one line of the labelled listing, as read back by the assembler -/
def substLine (k : LabelKey) (labels : List Nat) (pcb : Nat) (l : Line) : Line :=
  match labelSubst k labels pcb l with
  | some x => l.setOperand x
  | none => l

/-- the whole labelled listing of `disassemble(.., labeling)`, as read back by the assembler -/
def labelled (k : LabelKey) (lab : Labeling) (ls : List Line) : List Line :=
  ls.map (substLine k (labelSet lab ls) (pcBytes ls))

/-- does line `i` carry a label in column 1 (`labels.contains(address) && address != last_addr`; the lines
of the model have pairwise different addresses) -/
def hasLineLabel (labels : List Nat) (l : Line) : Bool := labels.contains l.addr

end A2Verif.Dasm
