/-!
# Control skeletons of the a2kit CLI subcommand handlers (property C11)

A `Skel` is what `translator/gen_c11.py` extracts from `src/main.rs` / `src/commands/*.rs` /
`src/lib.rs::save_img`: the tree of *effect steps* of one subcommand handler.  Only the effects
that matter for "does the image file change, and with which exit status" are kept:

* `load`            `create_fs_from_file…` / `create_img_from_file…` : the file is decoded into memory
* `mutate`          a call of a `DiskFS`/`DiskImage` mutator on the in-memory image
* `fallible s c`    a `?`, `return Err`, `Err(e) => return …` at site `s` (category `c`)
* `panicSite s c`   `unwrap` / `expect` / `panic!` / indexing
* `save s p`        `std::fs::write` of the in-memory image to the image path (`save_img` is a
                    `call` of the skeleton of `lib.rs::save_img`); `p` = failure panics (`.expect`)
* `retOk`/`retErr`  `return Ok(..)` / `return Err(..)` (and tail expressions)
* `brk`/`cnt`       `break` / `continue`
* `seq`, `alt` (if / match: the branch is chosen by the environment), `forEach` (for / while /
  loop: the number of iterations is chosen by the environment), `call f onOk onErr`
  (a call of another extracted function: `f(..)?` is `call f skip retErr`, `return f(..)` is
  `call f retOk retErr`, `match f(..) { Ok.. => a, Err.. => b }` is `call f a b`).

`run` is the semantics: the environment (`Env`) decides, for EVERY site and every iteration stack,
whether a fallible step fails, which branch is taken, how often a loop runs and what a mutation
does; `save` copies (encodes) the in-memory image to the file.  The theorems in `Props/C11.lean`
quantify over all environments.

Core Lean only (this file is linked into the `a2drv` driver).
-/
namespace A2Verif.CmdSkel

/-- process exit class: `ok` = status 0, `err` = `main` returned `Err` (status 1), `panic` = status 101,
`fell` = control fell out of the skeleton (cannot happen for a closed handler; kept so that the
theorems do not silently assume closedness) -/
inductive Exit
  | ok | err | panic | fell
  deriving DecidableEq, Repr, Inhabited

inductive Skel
  | skip
  | load
  | mutate (site : Nat)
  | fallible (site : Nat) (cat : Nat)
  | panicSite (site : Nat) (cat : Nat)
  | save (site : Nat) (panics : Bool)
  | retOk
  | retErr
  | brk
  | cnt
  | seq (a b : Skel)
  | alt (site : Nat) (a b : Skel)
  | forEach (site : Nat) (body : Skel)
  | call (f onOk onErr : Skel)
  deriving DecidableEq, Repr, Inhabited

/-- fallible-step categories used by the translator (`cat` argument) -/
def catOther : Nat := 0
def catLoad : Nat := 1
def catMutate : Nat := 2
def catRead : Nat := 3
def catSave : Nat := 4

/-- `file`: contents of the image file on the host; `mem`: the buffered image inside the process -/
structure St (α β : Type) where
  file : α
  mem : β

/-- everything the skeleton does not determine.  The second argument of each function is the
iteration stack (innermost loop first), so "the k-th item of the batch fails" is an environment. -/
structure Env (α β : Type) where
  fails : Nat → List Nat → Bool
  left : Nat → List Nat → Bool
  count : Nat → List Nat → Nat
  mu : Nat → List Nat → β → β
  dec : α → β
  enc : β → α
  init : β

inductive Res (σ : Type)
  | cont (s : σ)
  | exit (e : Exit) (s : σ)
  | brk (s : σ)
  | cnt (s : σ)

/-- run `body` for iterations `i, i+1, …` (`n` of them); `continue` goes to the next iteration,
`break` leaves the loop, an exit propagates -/
def loop {σ : Type} (body : Nat → σ → Res σ) : Nat → Nat → σ → Res σ
  | 0, _, s => .cont s
  | n + 1, i, s =>
    match body i s with
    | .cont s' => loop body n (i + 1) s'
    | .cnt s' => loop body n (i + 1) s'
    | .brk s' => .cont s'
    | .exit e s' => .exit e s'

def run {α β : Type} (env : Env α β) : Skel → List Nat → St α β → Res (St α β)
  | .skip, _, s => .cont s
  | .load, _, s => .cont { s with mem := env.dec s.file }
  | .mutate site, stk, s => .cont { s with mem := env.mu site stk s.mem }
  | .fallible site _, stk, s => if env.fails site stk then .exit .err s else .cont s
  | .panicSite site _, stk, s => if env.fails site stk then .exit .panic s else .cont s
  | .save site p, stk, s =>
    if env.fails site stk then .exit (if p then .panic else .err) s
    else .cont { s with file := env.enc s.mem }
  | .retOk, _, s => .exit .ok s
  | .retErr, _, s => .exit .err s
  | .brk, _, s => .brk s
  | .cnt, _, s => .cnt s
  | .seq a b, stk, s =>
    match run env a stk s with
    | .cont s' => run env b stk s'
    | r => r
  | .alt site a b, stk, s => if env.left site stk then run env a stk s else run env b stk s
  | .forEach site body, stk, s =>
    loop (fun i s => run env body (i :: stk) s) (env.count site stk) 0 s
  | .call f a b, stk, s =>
    match run env f stk s with
    | .cont s' => run env a stk s'
    | .brk s' => run env a stk s'
    | .cnt s' => run env a stk s'
    | .exit .ok s' => run env a stk s'
    | .exit .err s' => run env b stk s'
    | .exit e s' => .exit e s'

/-- run a whole handler on an image file: exit class and the file afterwards -/
def exec {α β : Type} (env : Env α β) (k : Skel) (file : α) : Exit × α :=
  match run env k [] { file := file, mem := env.init } with
  | .exit e s => (e, s.file)
  | .cont s => (.fell, s.file)
  | .brk s => (.fell, s.file)
  | .cnt s => (.fell, s.file)

/-! ## the decidable predicates -/

/-- "may a save have happened" at the four ways of leaving a piece of skeleton -/
structure Sum where
  ft : Bool := false
  ok : Bool := false
  bk : Bool := false
  cn : Bool := false
  deriving DecidableEq, Repr

def Sum.or (x y : Sum) : Sum :=
  { ft := x.ft || y.ft, ok := x.ok || y.ok, bk := x.bk || y.bk, cn := x.cn || y.cn }

/-- Abstract interpretation with the two-point domain "a save may already have happened" (`sv`).
`none` = some path performs a fallible step, a panic site, an error return or a second save AFTER
a save.  Otherwise the summary says on which ways out a save may have happened. -/
def chk : Skel → Bool → Option Sum
  | .skip, sv => some { ft := sv }
  | .load, sv => some { ft := sv }
  | .mutate _, sv => some { ft := sv }
  | .fallible _ _, sv => if sv then none else some {}
  | .panicSite _ _, sv => if sv then none else some {}
  | .save _ _, sv => if sv then none else some { ft := true }
  | .retOk, sv => some { ok := sv }
  | .retErr, sv => if sv then none else some {}
  | .brk, sv => some { bk := sv }
  | .cnt, sv => some { cn := sv }
  | .seq a b, sv =>
    match chk a sv with
    | none => none
    | some sa =>
      match chk b sa.ft with
      | none => none
      | some sb => some { ft := sb.ft, ok := sa.ok || sb.ok, bk := sa.bk || sb.bk, cn := sa.cn || sb.cn }
  | .alt _ a b, sv =>
    match chk a sv, chk b sv with
    | some sa, some sb => some (sa.or sb)
    | _, _ => none
  | .forEach _ body, sv =>
    match chk body sv with
    | none => none
    | some s1 =>
      match chk body (sv || s1.ft || s1.cn) with
      | none => none
      | some s2 => some { ft := sv || s1.ft || s1.cn || s2.bk, ok := s2.ok }
  | .call f a b, sv =>
    match chk f sv with
    | none => none
    | some sf =>
      match chk a (sf.ft || sf.ok || sf.bk || sf.cn), chk b false with
      | some sa, some sb => some (sa.or sb)
      | _, _ => none

/-- On every path a `save` is the last effect that can fail or end the command unsuccessfully:
after it there is no fallible step, no panic site, no error return and no further save (in
particular no further loop iteration containing one), and control does not fall out of the handler
after a save. -/
def SaveLast (k : Skel) : Bool :=
  match chk k false with
  | some s => !s.ft && !s.bk && !s.cn
  | none => false

def hasSave : Skel → Bool
  | .save _ _ => true
  | .seq a b => hasSave a || hasSave b
  | .alt _ a b => hasSave a || hasSave b
  | .forEach _ b => hasSave b
  | .call f a b => hasSave f || hasSave a || hasSave b
  | _ => false

/-- no `save` step anywhere in the handler (including everything it calls) -/
def ReadOnly (k : Skel) : Bool := !hasSave k

def hasLoad : Skel → Bool
  | .load => true
  | .seq a b => hasLoad a || hasLoad b
  | .alt _ a b => hasLoad a || hasLoad b
  | .forEach _ b => hasLoad b
  | .call f a b => hasLoad f || hasLoad a || hasLoad b
  | _ => false

def hasMutate : Skel → Bool
  | .mutate _ => true
  | .seq a b => hasMutate a || hasMutate b
  | .alt _ a b => hasMutate a || hasMutate b
  | .forEach _ b => hasMutate b
  | .call f a b => hasMutate f || hasMutate a || hasMutate b
  | _ => false

def size : Skel → Nat
  | .seq a b => size a + size b + 1
  | .alt _ a b => size a + size b + 1
  | .forEach _ b => size b + 1
  | .call f a b => size f + size a + size b + 1
  | _ => 1

/-! ## scenario semantics used by the correspondence check (`c11 admits …`)

A *scenario* fixes what the harness knows about a run of the real binary: which categories of
fallible steps failed (and, inside loops, at which iteration), and how many items the batch had.
Branches are not known, so `post` collects every abstract result reachable under the scenario. -/

structure Scen where
  /-- categories that fail -/
  failCats : List Nat
  /-- iteration (innermost loop) at which they fail; `none` = at any iteration and outside loops -/
  failAt : Option Nat
  /-- iterations of every loop -/
  n : Nat
  /-- do panic sites fire? (`false` for all scenarios the harness sends) -/
  panics : Bool := false

def Scen.fires (sc : Scen) (cat : Nat) (stk : List Nat) : Bool :=
  sc.failCats.contains cat &&
    (match sc.failAt with
     | none => true
     | some k => stk.head? == some k)

/-- abstract result: (kind, saved) with kind 0 = cont, 1 = ok, 2 = err, 3 = panic, 4 = brk, 5 = cnt -/
abbrev AbsRes := Nat × Bool

def ins (x : AbsRes) (xs : List AbsRes) : List AbsRes := if xs.contains x then xs else x :: xs
def union (xs ys : List AbsRes) : List AbsRes := xs.foldr ins ys

/-- all abstract results of `k` started with saved-flag `sv` under scenario `sc` -/
def post (sc : Scen) : Skel → List Nat → Bool → List AbsRes
  | .skip, _, sv => [(0, sv)]
  | .load, _, sv => [(0, sv)]
  | .mutate _, _, sv => [(0, sv)]
  | .fallible _ c, stk, sv => if sc.fires c stk then [(2, sv)] else [(0, sv)]
  | .panicSite _ _, _, sv => if sc.panics then [(3, sv), (0, sv)] else [(0, sv)]
  | .save _ p, stk, sv => if sc.fires catSave stk then [(if p then 3 else 2, sv)] else [(0, true)]
  | .retOk, _, sv => [(1, sv)]
  | .retErr, _, sv => [(2, sv)]
  | .brk, _, sv => [(4, sv)]
  | .cnt, _, sv => [(5, sv)]
  | .seq a b, stk, sv =>
    (post sc a stk sv).foldr (fun r acc =>
      if r.1 == 0 then union (post sc b stk r.2) acc else ins r acc) []
  | .alt _ a b, stk, sv => union (post sc a stk sv) (post sc b stk sv)
  | .forEach _ body, stk, sv =>
    -- iterate the body `n` times over the set of abstract states
    let step := fun (i : Nat) (cur : List AbsRes) =>
      cur.foldr (fun r acc =>
        if r.1 == 0 then
          union ((post sc body (i :: stk) r.2).map (fun q =>
            if q.1 == 5 then (0, q.2) else if q.1 == 4 then (6, q.2) else q)) acc
        else ins r acc) []
    let fin := (List.range sc.n).foldl (fun cur i => step i cur) [(0, sv)]
    fin.foldr (fun r acc => ins (if r.1 == 6 then (0, r.2) else r) acc) []
  | .call f a b, stk, sv =>
    (post sc f stk sv).foldr (fun r acc =>
      if r.1 == 0 || r.1 == 1 || r.1 == 4 || r.1 == 5 then union (post sc a stk r.2) acc
      else if r.1 == 2 then union (post sc b stk r.2) acc
      else ins r acc) []

/-- does the skeleton admit the observation "exit class `e` (1 ok / 2 err / 3 panic), file bytes
changed = `changed`" under the scenario?  A changed file needs a save on the path; an unchanged
file is compatible with both (saving an unmodified image may rewrite identical bytes). -/
def admits (sc : Scen) (k : Skel) (e : Nat) (changed : Bool) : Bool :=
  (post sc k [] false).any (fun r => r.1 == e && (!changed || r.2))

end A2Verif.CmdSkel
