import A2Verif.Model.Detok
/-!
# C14 — Merlin source encoding: tokenized line format, detokenizer, column formatter

Transcribed from `/repo/src/lang/merlin/tokenizer.rs` (`tokenize_line` 120-136 post-processing,
`detokenize` 159-193) and `/repo/src/lang/merlin/formatter.rs` (`format_tokens`, style `Variable`,
default widths `[9,6,11]`).

Format of a tokenized line: the columns (label, opcode, operand, comment) separated by single `A0`
bytes; every character negative ASCII (`+128`) **except** the blank `20` (blanks inside strings and
comments stay positive); terminated by `8D`.  The detokenizer turns `A0` into an internal column
separator (`U+0100`, here the number 256), strips the high bit, and then pads the columns.
-/
namespace A2Verif.Merlin
open A2Verif.Detok

/-- internal column separator `COLUMN_SEPARATOR = '\u{0100}'` -/
def SEP : Nat := 256

def widths : List Nat := [9, 6, 11]

/-- `str::split(COLUMN_SEPARATOR)` : always at least one (possibly empty) piece -/
def splitSep : List Nat → List (List Nat)
  | [] => [[]]
  | c :: rest =>
    match splitSep rest with
    | [] => [[c]]           -- unreachable
    | col :: cols => if c = SEP then [] :: col :: cols else (c :: col) :: cols

def blanks (n : Nat) : List Nat := List.replicate n 32

/-- `str::trim_end` on ASCII (blank, tab and the other ASCII white space) -/
def isWs (c : Nat) : Bool := c = 32 || (9 ≤ c && c ≤ 13)

def trimEnd (s : List Nat) : List Nat := (s.reverse.dropWhile isWs).reverse

/-- the `for col in cols` loop of `format_tokens` (style `Variable`) -/
def fmtCols : Nat → List (List Nat) → List Nat
  | _, [] => []
  | idx, col :: cols =>
    let prepad := if col.head? = some 59 then ((widths.drop idx).take (3 - idx)).foldl (· + ·) 0 else 0
    let w := if idx < 3 then widths.getD idx 1 else 1
    let pad := if w ≤ col.length then 1 else w - col.length
    blanks prepad ++ col ++ blanks pad ++ fmtCols (idx + 1) cols

/-- `format_tokens(line, ColumnStyle::Variable, [9,6,11])` -/
def fmtLine (line : List Nat) : List Nat := trimEnd (fmtCols 0 (splitSep line))

/-- the `while addr < img.len()` loop of `merlin::Tokenizer::detokenize`; `line` is the pending line -/
def detokLoop : List Nat → List Nat → Outcome (List Nat)
  | [], line => .ok (if line.isEmpty then [] else fmtLine line ++ [10])
  | b :: rest, line =>
    if b = 141 then (detokLoop rest []).map fun tl => fmtLine line ++ [10] ++ tl
    else if b = 160 then detokLoop rest (line ++ [SEP])
    else if b = 32 ∨ b = 9 then detokLoop rest (line ++ [b])
    else if b < 128 then .err             -- "unexpected positive ASCII encountered"
    else detokLoop rest (line ++ [b - 128])

/-- `merlin::Tokenizer::detokenize(img)` (line separator `\n`) -/
def detokM (img : List Nat) : Outcome (List Nat) :=
  if img.isEmpty then .ok [10] else detokLoop img []

/-- high-bit encoding of one character (`tokenize_line` 129-133) -/
def encChar (c : Nat) : Nat := if c < 128 ∧ c ≠ 32 then c + 128 else c

/-- tokenized form of a line given as its columns: columns joined by `A0`, characters encoded, `8D` -/
def encLine (cols : List (List Nat)) : List Nat :=
  match cols with
  | [] => [141]
  | c :: cs => c.map encChar ++ (cs.foldr (fun col acc => 160 :: col.map encChar ++ acc) [141])

def encProg : List (List (List Nat)) → List Nat
  | [] => []
  | l :: ls => encLine l ++ encProg ls

/-- a column character the format can carry: positive ASCII, not a control character -/
def colCharOK (c : Nat) : Bool := 32 ≤ c && c < 128

/-- structural predicate of a Merlin token stream: negative ASCII or blank, `8D` last, and no line
longer than the 126 bytes `tokenize_line` allows -/
def wfLines : Nat → List Nat → Bool
  | n, [] => n == 0
  | n, b :: rest =>
    if b = 141 then n ≤ 126 && wfLines 0 rest
    else (b = 32 || 160 ≤ b && b < 256) && wfLines (n + 1) rest

def WF_M (t : List Nat) : Bool := wfLines 0 t

end A2Verif.Merlin
