import A2Verif.Model.Detok
import A2Verif.Gen.ToolState
/-!
The tool objects as STATE MACHINES.

The language servers keep one `Tokenizer` / `Minifier` / `Renumberer` / … for a whole session and the library
lets every caller do the same.  A `&mut self` entry point is therefore a function
`call : State → Input → State × Output`, where `State` is what the Rust struct keeps between calls, and the state
a call starts from is whatever the earlier calls — successful, failed (`?` early return) or panicked — left behind.

Part 1 (generic): an entry point is *any* function on states together with the two sets the translator extracts
from the current source (`Gen.ToolState.entries`): `carried` (fields whose value at entry may be read) and
`writes` (fields it may modify).  `Respects` is the contract that ties a function to its row; it is established
syntactically by the translator (trusted) and, for the two machines of part 2 and the minifier
(`Model/MinifyState.lean`), proved for the transcribed code.

Part 2 (concrete): `integer::Tokenizer::tokenize` and `applesoft::Tokenizer::tokenize` transcribed with their
buffers, including the early-return paths.  The tree-sitter walk is a parameter: a source line arrives as the
token bytes the walk produced (`LineIn.ok`) or as "the walk refused it" (`LineIn.rej`).  Which resets the code
performs is a `Variant`, read from the current source by the translator (`Gen.ToolState.integerTokenizeResetsProgram`
…), so that the machine is the code as it is NOW, also when a reset has been removed.
Core Lean only.
-/
namespace A2Verif.ToolState
open A2Verif.Detok

/-! ## 1. generic entry points -/

/-- abstract value of a field -/
abbrev Val := List Nat
/-- state of a tool object: field id ↦ value (field ids as in `Gen.ToolState`) -/
abbrev St := Nat → Val

/-- what the translator extracts for one entry point -/
structure Sig where
  /-- fields whose value at entry may be read before the call has assigned them -/
  carried : List Nat
  /-- fields the call may modify -/
  writes : List Nat
deriving DecidableEq, Repr

/-- an entry point of a tool: any function of the state and the input, with its extracted signature -/
structure Entry (I O : Type) where
  sig : Sig
  run : St → I → St × O

/-- two states agree on the listed fields -/
def agree (fs : List Nat) (s t : St) : Prop := ∀ f, f ∈ fs → s f = t f

/-- the function does what its signature says: the output depends on the entry state only through `carried`,
and fields outside `writes` are left alone (also when the call fails: `O` contains the error outcomes) -/
structure Entry.Respects {I O : Type} (e : Entry I O) : Prop where
  out_dep : ∀ s t i, agree e.sig.carried s t → (e.run s i).2 = (e.run t i).2
  frame : ∀ s i f, f ∉ e.sig.writes → (e.run s i).1 f = s f

/-- a call history: which entry point (index into the tool's list) with which input -/
abbrev Hist (I : Type) := List (Nat × I)

/-- run a history from a state; an index that names no entry point is a no-op -/
def runHist {I O : Type} (tool : List (Entry I O)) : St → Hist I → St
  | s, [] => s
  | s, (k, i) :: h =>
    match tool[k]? with
    | some e => runHist tool (e.run s i).1 h
    | none => runHist tool s h

/-! ## 2. the Integer BASIC tokenizer (`src/lang/integer/tokenizer.rs:126-155`) -/

/-- what the tree walk made of one source line -/
inductive LineIn where
  /-- the walk succeeded: line number and token bytes after it -/
  | ok (l : Line)
  /-- `visit` set `self.line = "ERR"` (number above 32767) or the walk returned `Err` -/
  | rej
deriving DecidableEq, Repr

/-- the buffers the struct keeps (`tokenized_program`, `tokenized_line`; `line` is assigned per source line
before it is read and carries nothing) -/
structure TokSt where
  prog : List Nat
  line : List Nat
deriving DecidableEq, Repr

def TokSt.fresh : TokSt := ⟨[], []⟩

/-- which form the code has now -/
structure IVariant where
  /-- `self.tokenized_program = Vec::new();` at the head of `tokenize` (`:143`) -/
  resetAtTop : Bool
  /-- the result is moved out with `mem::take` instead of `clone()` (`:154`) -/
  takeResult : Bool
deriving DecidableEq, Repr

/-- the code as the translator reads it from the current source -/
def IVariant.current : IVariant :=
  ⟨A2Verif.Gen.ToolState.integerTokenizeResetsProgram, A2Verif.Gen.ToolState.integerTokenizeTakesResult⟩
/-- the code at the pinned commit -/
def IVariant.pinned : IVariant := ⟨true, false⟩
/-- "avoid copying the program": no reset, result taken -/
def IVariant.takeNoReset : IVariant := ⟨false, true⟩

/-- `tokenize_line` (`:126-140`): `tokenized_line` is assigned first; refusal above 126 bytes -/
def lineI : LineIn → Outcome (List Nat)
  | .rej => .err
  | .ok l =>
    if 126 < 2 + l.body.length then .err
    else .ok ([2 + l.body.length + 2, l.num % 256, l.num / 256] ++ l.body ++ [1])

/-- the `for line in program.lines()` loop (`:146-153`): `?` returns early and leaves the lines tokenized so far
in `tokenized_program`; `append(&mut self.tokenized_line)` empties `tokenized_line` -/
def loopI : TokSt → List LineIn → TokSt × Bool
  | s, [] => (s, true)
  | s, l :: ls =>
    match lineI l with
    | .ok fl => loopI ⟨s.prog ++ fl, []⟩ ls
    | _ => (⟨s.prog, match l with | .ok x => [x.num % 256, x.num / 256] ++ x.body | .rej => []⟩, false)

/-- `integer::Tokenizer::tokenize` -/
def tokenizeI (v : IVariant) (s : TokSt) (ls : List LineIn) : TokSt × Outcome (List Nat) :=
  let s0 : TokSt := if v.resetAtTop then ⟨[], s.line⟩ else s
  let r := loopI s0 ls
  if r.2 then (if v.takeResult then ⟨[], r.1.line⟩ else r.1, .ok r.1.prog) else (r.1, .err)

/-- a session on ONE object -/
def sessionI (v : IVariant) : TokSt → List (List LineIn) → TokSt
  | s, [] => s
  | s, c :: cs => sessionI v (tokenizeI v s c).1 cs

/-- the outputs of a session on one object, in call order -/
def sessionOutI (v : IVariant) : TokSt → List (List LineIn) → List (Outcome (List Nat))
  | _, [] => []
  | s, c :: cs => (tokenizeI v s c).2 :: sessionOutI v (tokenizeI v s c).1 cs

/-! ## 3. the Applesoft tokenizer (`src/lang/applesoft/tokenizer.rs:123-154`) -/

structure ATokSt where
  prog : List Nat
  currAddr : Nat
deriving DecidableEq, Repr

def ATokSt.fresh : ATokSt := ⟨[], 2049⟩

structure AVariant where
  /-- `self.tokenized_program = Vec::new();` (`:140`) -/
  resetProg : Bool
  /-- `self.curr_addr = start_addr;` (`:139`) -/
  resetAddr : Bool
deriving DecidableEq, Repr

def AVariant.current : AVariant :=
  ⟨A2Verif.Gen.ToolState.applesoftTokenizeResetsProgram, A2Verif.Gen.ToolState.applesoftTokenizeResetsAddr⟩
def AVariant.pinned : AVariant := ⟨true, true⟩

/-- the loop of `tokenize` with `tokenize_line` inlined (`:129-134`): the link is `curr_addr + len + 3` in `u16`
(overflow panics in the debug profile, leaving the lines so far in `tokenized_program`); a refused line
(`Err(Tokenization)`: primary line number that is not a `u16`) returns early the same way -/
def loopA : ATokSt → List LineIn → ATokSt × Outcome Unit
  | s, [] => (s, .ok ())
  | s, .rej :: _ => (s, .err)
  | s, .ok l :: ls =>
    let next := s.currAddr + (2 + l.body.length) + 3
    if 65535 < next then (s, .panic)
    else loopA ⟨s.prog ++ [next % 256, next / 256, l.num % 256, l.num / 256] ++ l.body ++ [0], next⟩ ls

/-- `applesoft::Tokenizer::tokenize(program, start_addr)`: the end marker is pushed onto the buffer, which is
then cloned -/
def tokenizeA (v : AVariant) (s : ATokSt) (addr : Nat) (ls : List LineIn) : ATokSt × Outcome (List Nat) :=
  let s0 : ATokSt := ⟨if v.resetProg then [] else s.prog, if v.resetAddr then addr else s.currAddr⟩
  let r := loopA s0 ls
  match r.2 with
  | .ok _ => (⟨r.1.prog ++ [0, 0], r.1.currAddr⟩, .ok (r.1.prog ++ [0, 0]))
  | .err => (r.1, .err)
  | .panic => (r.1, .panic)

def sessionOutA (v : AVariant) : ATokSt → List (Nat × List LineIn) → List (Outcome (List Nat))
  | _, [] => []
  | s, c :: cs => (tokenizeA v s c.1 c.2).2 :: sessionOutA v (tokenizeA v s c.1 c.2).1 cs

def sessionA (v : AVariant) : ATokSt → List (Nat × List LineIn) → ATokSt
  | s, [] => s
  | s, c :: cs => sessionA v (tokenizeA v s c.1 c.2).1 cs

/-- the lines of an input if the walk accepted all of them -/
def allOk : List LineIn → Option (List Line)
  | [] => some []
  | .ok l :: ls => (allOk ls).map (l :: ·)
  | .rej :: _ => none

/-! ## 4. the generated table as signatures -/

/-- row of `Gen.ToolState.entries` for (tool, entry) -/
def tableRow (t e : Nat) : Option (List Nat × List Nat × List Nat) :=
  (A2Verif.Gen.ToolState.entries.find? fun r => r.1 == t && r.2.1 == e).map fun r => r.2.2

def tableSig (t e : Nat) : Sig :=
  match tableRow t e with
  | some (_, carried, writes) => ⟨carried, writes⟩
  | none => ⟨[], []⟩

def configOf (t : Nat) : List Nat := (A2Verif.Gen.ToolState.configFields[t]?).getD []

/-- carried fields of (tool, entry) that are not configuration -/
def historyFields (t e : Nat) : List Nat := (tableSig t e).carried.filter fun f => !(configOf t).contains f

/-- consistency of the generated table, re-checked in the kernel: configuration fields are written by no row of
their tool, field ids are in range, and every carried non-configuration field is either reviewed
(`allowedCarry`) or listed as unexplained -/
def tableConsistent : Bool :=
  A2Verif.Gen.ToolState.entries.all fun r =>
    let t := r.1
    let e := r.2.1
    let carried := r.2.2.2.1
    let writes := r.2.2.2.2
    let n := (A2Verif.Gen.ToolState.fieldCount[t]?).getD 0
    writes.all (fun f => !(configOf t).contains f && decide (f < n)) &&
    carried.all (fun f => decide (f < n) &&
      ((configOf t).contains f || A2Verif.Gen.ToolState.allowedCarry.contains (t, e, f)
        || A2Verif.Gen.ToolState.unexplainedCarry.contains (t, e, f)))

end A2Verif.ToolState
