import A2Verif.Model.Hex
import A2Verif.Gen.C20Flags
import A2Verif.Gen.DasmTable
/-!
# C20 -- functions of a2kit that walk a hash container and let the order reach an output

Every function here takes the *iteration sequence* of the hash container as an explicit argument: the list of
entries `(key, value)` in the order in which `for (k,v) in &map` happened to deliver them.  For a `HashMap`
with `RandomState` that sequence is an arbitrary permutation of the map's entries (keys distinct), different
in every process.  Bytes are `Nat < 256`; text is a byte list (no `String`, so that `decide` can evaluate it).

Rust ↔ Lean
* `src/fs/recs.rs:182 Records::to_json`      ↔ `toJsonWith` (as written: `toJsonAsWritten`; repaired: `toJsonSorted`)
* `src/fs/recs.rs:206 Display for Records`   ↔ `displayWith`  (`displayAsWritten` / `displaySorted`)
* `src/fs/recs.rs:74  Records::update_fimg`  ↔ `updateFimgWith` (`updateFimgAsWritten` / `updateFimgSorted`)
* `src/fs/fimg.rs:220 FileImage::to_json` (chunks object, filled from a `BTreeMap`) ↔ `chunksJson`
* `src/lang/merlin/handbook/operations.rs:377 create_dasm_map` ↔ `dasmMap`
The flags `A2Verif.Gen.C20Flags.*` (translator: does the current source still iterate the map directly?)
select which of the two variants `toJson`/`display`/`updateFimg` -- the ones the driver answers with -- are.
-/
namespace A2Verif.Model.Determinism

/-! ## small byte-level helpers -/

/-- decimal digits of `n` as ASCII bytes, most significant first (Rust `{}` for `usize`) -/
def decAux : Nat → Nat → List Nat → List Nat
  | 0, _, acc => acc
  | fuel + 1, n, acc => if n < 10 then (48 + n) :: acc else decAux fuel (n / 10) ((48 + n % 10) :: acc)

def dec (n : Nat) : List Nat := decAux (n + 1) n []

/-- `xs.join(sep)` -/
def joinWith (sep : List Nat) : List (List Nat) → List Nat
  | [] => []
  | [x] => x
  | x :: y :: rest => x ++ sep ++ joinWith sep (y :: rest)

/-- split at every LF (10); the last piece (possibly empty) is what follows the last LF -/
def splitLF : List Nat → List (List Nat)
  | [] => [[]]
  | b :: bs =>
    match splitLF bs with
    | [] => if b = 10 then [[], []] else [[b]]
    | cur :: rest => if b = 10 then [] :: cur :: rest else (b :: cur) :: rest

def stripCR (l : List Nat) : List Nat :=
  if l.getLast? = some 13 then l.dropLast else l

/-- Rust `str::lines()`: pieces terminated by LF lose the LF and one CR before it; a final unterminated
piece is kept as it is, a final empty piece is dropped -/
def rustLines (bs : List Nat) : List (List Nat) :=
  let ps := splitLF bs
  let term := ps.dropLast.map stripCR
  match ps.getLast? with
  | some [] => term
  | some l => term ++ [l]
  | none => term

/-- JSON string literal as written by the `json` crate for printable ASCII: `"` and `\` are escaped.
(Control characters and non-ASCII text are outside the generated inputs and not modelled.) -/
def jsonEsc : List Nat → List Nat
  | [] => []
  | b :: bs => if b = 34 ∨ b = 92 then 92 :: b :: jsonEsc bs else b :: jsonEsc bs

def jsonStr (bs : List Nat) : List Nat := 34 :: jsonEsc bs ++ [34]

/-! ## `Records::to_json` (recs.rs:182-201), unpretty form (`indent = None`) -/

/-- one member of the `records` object: `"<num>":["line",…]` -/
def recordJson (e : Nat × List Nat) : List Nat :=
  jsonStr (dec e.1) ++ [58] ++ [91] ++ joinWith [44] ((rustLines e.2).map jsonStr) ++ [93]

/-- `{"fimg_type":"rec","record_length":` -/
def jsonHead : List Nat :=
  [123, 34, 102, 105, 109, 103, 95, 116, 121, 112, 101, 34, 58, 34, 114, 101, 99, 34, 44, 34, 114, 101, 99, 111,
   114, 100, 95, 108, 101, 110, 103, 116, 104, 34, 58]

/-- `,"records":{` -/
def jsonMid : List Nat := [44, 34, 114, 101, 99, 111, 114, 100, 115, 34, 58, 123]

/-- the JSON text when the records are visited in the order `entries`; the `json` crate's object keeps
insertion order (trusted parameter), so the members appear in exactly that order -/
def toJsonWith (recLen : Nat) (entries : List (Nat × List Nat)) : List Nat :=
  jsonHead ++ dec recLen ++ jsonMid ++ joinWith [44] (entries.map recordJson) ++ [125, 125]

/-! ## `Display for Records` (recs.rs:206-216) -/

def displayRecord (e : Nat × List Nat) : List Nat :=
  [82, 101, 99, 111, 114, 100, 32] ++ dec e.1 ++ ((rustLines e.2).map ([32, 32, 32, 32] ++ ·)).flatten

def displayWith (entries : List (Nat × List Nat)) : List Nat :=
  (entries.map displayRecord).flatten ++
    [82, 101, 99, 111, 114, 100, 32, 67, 111, 117, 110, 116, 32, 61, 32] ++ dec entries.length

/-! ## `Records::update_fimg` (recs.rs:74-134) -/

/-- the chunk map of a `FileImage` as an association list (keys distinct) -/
abbrev Chunks := List (Nat × List Nat)

def chunkGet (k : Nat) : Chunks → Option (List Nat)
  | [] => none
  | (k', v) :: rest => if k' = k then some v else chunkGet k rest

def chunkInsert (k : Nat) (v : List Nat) : Chunks → Chunks
  | [] => [(k, v)]
  | (k', v') :: rest => if k' = k then (k, v) :: rest else (k', v') :: chunkInsert k v rest

structure Fimg where
  chunks : Chunks
  eof : Nat
deriving DecidableEq, Repr

/-- recs.rs:112-119: pad with zeros up to `off` and push, or overwrite in place -/
def putByte (buf : List Nat) (off b : Nat) : List Nat :=
  if off ≥ buf.length then buf ++ List.replicate (off - buf.length) 0 ++ [b] else buf.set off b

/-- recs.rs:111-127, the loop over the bytes of one record.  `chunk`, `off`, `buf` are the loop variables,
`next_buf(chunk, Some(buf))` is the `chunkInsert` + `chunkGet (chunk+1)` pair. -/
def writeBytes (cl : Nat) : List Nat → Nat → Nat → List Nat → Fimg → Fimg
  | [], _, _, _, st => st
  | b :: rest, chunk, off, buf, st =>
    let buf1 := putByte buf off b
    let off1 := off + 1
    if off1 ≥ cl ∨ rest = [] then
      let st1 : Fimg := { chunks := chunkInsert chunk buf1 st.chunks, eof := max (chunk * cl + buf1.length) st.eof }
      writeBytes cl rest (chunk + 1) 0 ((chunkGet (chunk + 1) st1.chunks).getD []) st1
    else
      writeBytes cl rest chunk off1 buf1 st

/-- one pass of `for (rec_num,fields) in …` (the converter is the identity on bytes: the harness passes a
`TextConversion` that copies the UTF-8 bytes) -/
def writeRecord (recLen cl : Nat) (st : Fimg) (e : Nat × List Nat) : Fimg :=
  let chunk := recLen * e.1 / cl
  writeBytes cl e.2 chunk (recLen * e.1 % cl) ((chunkGet chunk st.chunks).getD []) st

/-- `update_fimg` with the records visited in the order `entries`; `none` = refused record length.
`init` are the chunks the file image had before (`clear = false` keeps them). -/
def updateFimgWith (recLen cl : Nat) (requireFirst clear : Bool) (init : Chunks) (entries : List (Nat × List Nat)) :
    Option Fimg :=
  if recLen < 2 ∨ recLen > 65535 then none else
  let c0 : Chunks := if clear then [] else init
  let c1 : Chunks := if requireFirst then chunkInsert 0 (List.replicate cl 0) c0 else c0
  some (entries.foldl (writeRecord recLen cl) { chunks := c1, eof := 0 })

/-! ## ascending key order (what `ordered_indices`, a `BTreeMap` and the proposed `ordered_keys` deliver) -/

def keyLe (a b : Nat × List Nat) : Bool := a.1 ≤ b.1

/-- insertion sort (structural recursion, so that `decide` can run it; `List.mergeSort` is defined by
well-founded recursion and does not reduce).  `Lemmas.Determinism` proves it is a sorting function and that
it agrees with `List.mergeSort` whenever the comparison is antisymmetric on the list. -/
def insertBy {α : Type} (le : α → α → Bool) (a : α) : List α → List α
  | [] => [a]
  | b :: bs => if le a b then a :: b :: bs else b :: insertBy le a bs

def isort {α : Type} (le : α → α → Bool) : List α → List α
  | [] => []
  | a :: as => insertBy le a (isort le as)

def sortEntries (entries : List (Nat × List Nat)) : List (Nat × List Nat) := isort keyLe entries

def natLe (a b : Nat) : Bool := a ≤ b
def sortKeys (ks : List Nat) : List Nat := isort natLe ks

/-- canonical form of a chunk map for comparison with the real `HashMap` (the harness sorts its keys) -/
def Fimg.canon (f : Fimg) : Fimg := { f with chunks := sortEntries f.chunks }

/-! ## the three renderers in both variants, and the variant the current source has -/

def toJsonAsWritten (recLen : Nat) (π : List (Nat × List Nat)) : List Nat := toJsonWith recLen π
def toJsonSorted (recLen : Nat) (π : List (Nat × List Nat)) : List Nat := toJsonWith recLen (sortEntries π)
def toJson (recLen : Nat) (π : List (Nat × List Nat)) : List Nat :=
  if Gen.C20Flags.recsToJsonSorted then toJsonSorted recLen π else toJsonAsWritten recLen π

def displayAsWritten (π : List (Nat × List Nat)) : List Nat := displayWith π
def displaySorted (π : List (Nat × List Nat)) : List Nat := displayWith (sortEntries π)
def display (π : List (Nat × List Nat)) : List Nat :=
  if Gen.C20Flags.recsDisplaySorted then displaySorted π else displayAsWritten π

def updateFimgAsWritten (recLen cl : Nat) (rf clear : Bool) (init : Chunks) (π : List (Nat × List Nat)) : Option Fimg :=
  (updateFimgWith recLen cl rf clear init π).map Fimg.canon
def updateFimgSorted (recLen cl : Nat) (rf clear : Bool) (init : Chunks) (π : List (Nat × List Nat)) : Option Fimg :=
  (updateFimgWith recLen cl rf clear init (sortEntries π)).map Fimg.canon
def updateFimg (recLen cl : Nat) (rf clear : Bool) (init : Chunks) (π : List (Nat × List Nat)) : Option Fimg :=
  if Gen.C20Flags.recsUpdateFimgSorted then updateFimgSorted recLen cl rf clear init π
  else updateFimgAsWritten recLen cl rf clear init π

/-! ## `FileImage::to_json`: the `chunks` object (fimg.rs:221-228) -/

def hexDigitUp (n : Nat) : Nat := if n < 10 then 48 + n else 55 + n

def hexUpper : List Nat → List Nat
  | [] => []
  | b :: bs => hexDigitUp (b / 16 % 16) :: hexDigitUp (b % 16) :: hexUpper bs

def chunkJson (e : Nat × List Nat) : List Nat := jsonStr (dec e.1) ++ [58] ++ jsonStr (hexUpper e.2)

/-- `{"0":"…","1":"…"}`: the hash map is first poured into a `BTreeMap`, whose iteration is ascending -/
def chunksJson (π : List (Nat × List Nat)) : List Nat :=
  [123] ++ joinWith [44] ((sortEntries π).map chunkJson) ++ [125]

/-! ## `OperationHandbook::create_dasm_map` (operations.rs:377-402)

A *claim* is a row `(mnemonic id, opcode)` of `Gen.DasmTable.claims` (one per mnemonic and addressing mode).
The Rust walks the mnemonics in hash order and, for each, its modes in the fixed order of the JSON array;
an opcode that is already taken is overwritten only if `use_proposed_op prior proposed`, which looks at the
two mnemonics only (`Gen.DasmTable.preferPairs`). -/

def useProposed (prefer : List (Nat × Nat)) (prior proposed : Nat × Nat) : Bool :=
  prefer.any (fun p => p.1 == prior.1 && p.2 == proposed.1)

def dasmStep (prefer : List (Nat × Nat)) (cur : Option (Nat × Nat)) (proposal : Nat × Nat) : Option (Nat × Nat) :=
  match cur with
  | none => some proposal
  | some prior => if useProposed prefer prior proposal then some proposal else some prior

/-- the entry that ends up under one opcode, given the claims for that opcode in visiting order -/
def dasmWinner (prefer : List (Nat × Nat)) (proposals : List (Nat × Nat)) : Option (Nat × Nat) :=
  proposals.foldl (dasmStep prefer) none

def claimsOf (claims : List (Nat × Nat)) (m : Nat) : List (Nat × Nat) := claims.filter (·.1 == m)

/-- claims for opcode `code` in the order in which they are met when the mnemonics are visited in order `π` -/
def proposalsFor (claims : List (Nat × Nat)) (π : List Nat) (code : Nat) : List (Nat × Nat) :=
  (π.flatMap (claimsOf claims)).filter (·.2 == code)

def dasmMapWith (claims prefer : List (Nat × Nat)) (π : List Nat) (code : Nat) : Option (Nat × Nat) :=
  dasmWinner prefer (proposalsFor claims π code)

/-- the map for the handbook as it is in the source now -/
def dasmMap (π : List Nat) (code : Nat) : Option (Nat × Nat) :=
  dasmMapWith Gen.DasmTable.claims Gen.DasmTable.preferPairs π code

/-- per-opcode condition that makes the visiting order irrelevant: at most two claimants, and if two, the same
one wins whichever comes first -/
def okClaimants (prefer : List (Nat × Nat)) : List (Nat × Nat) → Bool
  | [] => true
  | [_] => true
  | [a, b] => dasmWinner prefer [a, b] == dasmWinner prefer [b, a]
  | _ => false

def tableOk (claims prefer : List (Nat × Nat)) (n : Nat) : Bool :=
  (List.range 256).all fun code => okClaimants prefer (proposalsFor claims (List.range n) code)

end A2Verif.Model.Determinism

/-! ## century of a ProDOS date stamp (`fs/prodos/pack.rs` `unpack_time`)

ProDOS stores the year modulo 100.  `centuryPinned` is the code at the pinned commit: the century is chosen from the
stored value alone.  `centurySliding today` is the "not after today" refinement (seeded change C20-6): the decoded year
of an EXISTING stamp then depends on the clock (and time zone) of the machine that reads it. -/
namespace A2Verif.Model.Determinism

/-- a calendar date as (year, month, day); lexicographic order -/
def dateLe (a b : Nat × Nat × Nat) : Bool :=
  decide (a.1 < b.1) || (a.1 == b.1 && (decide (a.2.1 < b.2.1) || (a.2.1 == b.2.1 && decide (a.2.2 ≤ b.2.2))))

/-- `let year = match yearmod100 < 79 { true => 2000 + yearmod100, false => 1900 + yearmod100 }` -/
def centuryPinned (yy : Nat) : Nat := if yy < 79 then 2000 + yy else 1900 + yy

/-- "only go to the 21st century if that does not put us ahead of the clock" -/
def centurySliding (today : Nat × Nat × Nat) (yy mm dd : Nat) : Nat :=
  if yy < 79 && dateLe (2000 + yy, mm, dd) today then 2000 + yy else 1900 + yy

end A2Verif.Model.Determinism
