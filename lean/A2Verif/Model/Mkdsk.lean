import A2Verif.Gen.Mkdsk
/-!
# Model of `a2kit mkdsk` (property C10)

Executable decision model of `src/commands/mkdsk.rs` and of the parts of the image constructors and file-system
formatters that decide whether a configuration is accepted, refused with an error, or runs into a `panic!`/`assert!`.
All *tables* (CLI value lists, disk kinds, `mkimage` arms, `Dot2mg::create` arms, DPB/BPB tables, extension lists,
invalid-character sets, the DOS 3.x volume guard) come from `A2Verif.Gen.Mkdsk`, i.e. from the current source.
The control flow below is a hand transcription (Rust file:line in the comments), tied to the real code by the
exhaustive correspondence run of harness family `c10`.

Strings are UTF-8 byte lists.  Volume arguments containing non-ASCII bytes are treated as invalid names by every
validator (true of the Rust for every character whose upper-case form is not ASCII).
-/
namespace A2Verif.Model.Mkdsk
open A2Verif.Gen.Mkdsk

/-- where a configuration is refused (or where it panics) -/
inductive Stage where
  | osName | destination | kindArg | typeArg | wrapArg | wrapRule | pairing | wrapPairing | extension
  | capacity | imageOrder | bootFlag | volumeMissing | volumeRange | bootVolume | volumeName | kindUnsupported
  | dpbInvalid | blockAddressing | bootBlocks | imageCreate | initAssert | nameAssert | dpbCreate | unreachable
  deriving DecidableEq, Repr

inductive Outcome (α : Type) where
  | ok (a : α)
  | err (s : Stage)
  | panic (s : Stage)
  deriving DecidableEq, Repr

def Outcome.bind {α β} (o : Outcome α) (f : α → Outcome β) : Outcome β :=
  match o with
  | .ok a => f a
  | .err s => .err s
  | .panic s => .panic s

def Outcome.isOk {α} : Outcome α → Bool | .ok _ => true | _ => false
def Outcome.isErr {α} : Outcome α → Bool | .err _ => true | _ => false
def Outcome.isPanic {α} : Outcome α → Bool | .panic _ => true | _ => false

/-! ## cheap equality tests
The derived `DecidableEq` of a large enumeration is slow in the kernel; every comparison on the evaluation path
goes through the constructor index instead (`same_iff` below shows it is equality). -/

def _root_.A2Verif.Gen.Mkdsk.Kind.same (a b : Kind) : Bool := Nat.beq a.ctorIdx b.ctorIdx
def _root_.A2Verif.Gen.Mkdsk.ImgType.same (a b : ImgType) : Bool := Nat.beq a.ctorIdx b.ctorIdx
def _root_.A2Verif.Gen.Mkdsk.Os.same (a b : Os) : Bool := Nat.beq a.ctorIdx b.ctorIdx
def optTypeSame : Option ImgType → Option ImgType → Bool
  | none, none => true
  | some a, some b => a.same b
  | _, _ => false

theorem _root_.A2Verif.Gen.Mkdsk.ImgType.same_iff (a b : ImgType) : a.same b = true ↔ a = b := by
  cases a <;> cases b <;> decide

/-! ## disk kinds -/

def sumProd4 : List Nat → List Nat → List Nat → List Nat → Nat
  | a :: as, b :: bs, c :: cs, d :: ds => a * b * c * d + sumProd4 as bs cs ds
  | _, _, _, _ => 0

/-- `TrackLayout::byte_capacity` (img/mod.rs:202) resp. `block_count*block_size` -/
def _root_.A2Verif.Gen.Mkdsk.Kind.byteCapacity (k : Kind) : Nat :=
  let d := k.data
  match d.form with
  | .Unknown => 0
  | .LogicalBlocks => d.blockCount * d.blockSize
  | _ => sumProd4 d.cylinders d.sides d.sectors d.sectorSize

/-- `TrackLayout::zones` (img/mod.rs:180) -/
def _root_.A2Verif.Gen.Mkdsk.Kind.zones (k : Kind) : Nat :=
  match k.data.cylinders.findIdx? (· == 0) with
  | some i => i
  | none => 5

def _root_.A2Verif.Gen.Mkdsk.Kind.isPhysical (k : Kind) : Bool :=
  match k.data.form with
  | .D3 | .D35 | .D525 | .D8 => true
  | _ => false

/-! ## image objects -/

/-- what the rest of `mkdsk` can observe of a freshly created `Box<dyn DiskImage>` -/
structure Img where
  typ : ImgType      -- `what_am_i()`
  kind : Kind        -- `kind()`
  cap : Nat          -- `byte_capacity()`
  inner : Option ImgType := none   -- the wrapped raw image of a 2MG
  deriving DecidableEq, Repr

/-- (flux, data rate) pairs an IMD `Track::create` (imd.rs:107) and `Td0::create` (td0.rs:497) can encode -/
def modeEncodable (flux rate : Nat) : Bool :=
  (flux == 1 || flux == 3) && (rate == 250 || rate == 300 || rate == 500)

/-- the zones that hold tracks -/
def usedZones (k : Kind) : List (Nat × Nat) :=
  (List.zip k.data.flux k.data.rate).take k.zones

/-- constructors of the raw (non-2MG) images -/
def createRaw (c : Ctor) (k : Kind) : Outcome Img :=
  match c with
  | .d13 t => .ok { typ := .D13, kind := .A2_DOS32_KIND, cap := t * 13 * 256 }        -- dsk_d13.rs:28,107
  | .do_ t s =>                                                                        -- dsk_do.rs:33
    if t = 35 ∧ s = 13 then .panic .imageCreate
    else .ok { typ := .DO, kind := if t = 35 ∧ s = 16 then .A2_DOS33_KIND else .Unknown, cap := t * s * 256 }
  | .po n => .ok { typ := .PO, kind := poKind n, cap := n * poBlockSize }              -- dsk_po.rs:38
  | .woz1 =>                                                                           -- woz1.rs:251,357
    if k.same .A2_DOS32_KIND || k.same .A2_DOS33_KIND then .ok { typ := .WOZ1, kind := k, cap := 35 * 16 * 256 }
    else .panic .imageCreate
  | .woz2 =>                                                                           -- woz2.rs:528,669
    if k.same .A2_DOS32_KIND || k.same .A2_DOS33_KIND then .ok { typ := .WOZ2, kind := k, cap := 35 * 16 * 256 }
    else if k.same .A2_400_KIND then .ok { typ := .WOZ2, kind := k, cap := 800 * 512 }
    else if k.same .A2_800_KIND then .ok { typ := .WOZ2, kind := k, cap := 1600 * 512 }
    else .panic .imageCreate
  | .nib =>                                                                            -- nib.rs:36,121
    if k.same .A2_DOS32_KIND then .ok { typ := .NIB, kind := k, cap := 35 * 13 * 256 }
    else if k.same .A2_DOS33_KIND then .ok { typ := .NIB, kind := k, cap := 35 * 16 * 256 }
    else .panic .imageCreate
  | .imd =>                                                                            -- imd.rs:341, Track::create imd.rs:105
    if k.isPhysical ∧ (usedZones k).all (fun p => modeEncodable p.1 p.2) then
      .ok { typ := .IMD, kind := k, cap := k.byteCapacity }
    else .panic .imageCreate
  | .td0 =>                                                                            -- td0.rs:484
    if k.isPhysical ∧ modeEncodable (k.data.flux.headD 0) (k.data.rate.headD 0) then
      .ok { typ := .TD0, kind := k, cap := k.byteCapacity }
    else .panic .imageCreate
  | .img =>                                                                            -- dsk_img.rs:30
    if (k.data.form = .D35 ∨ k.data.form = .D525) ∧ k.zones ≤ 1 then
      .ok { typ := .IMG, kind := k, cap := k.byteCapacity }
    else .panic .imageCreate
  | .dot2mg => .panic .unreachable
  | .refuse => .err .pairing

/-- `Dot2mg::create` (dot2mg.rs:64): the `(kind,wrap)` table, then only DO/PO/NIB may be wrapped -/
def createDot2mg (k : Kind) (wrap : Option ImgType) : Outcome Img :=
  match dot2mgArms.find? (fun a => a.1.same k && optTypeSame a.2.1 wrap) with
  | none => .err .wrapPairing
  | some (_, _, c) =>
    (createRaw c k).bind fun raw =>
      if raw.typ.same .DO || raw.typ.same .PO || raw.typ.same .NIB then
        .ok { typ := .DOT2MG, kind := k, cap := raw.cap, inner := some raw.typ }
      else .err .wrapPairing

/-- `mkimage` (mkdsk.rs:46): wrap rule, then the arm table -/
def mkimageWith (arms : List (ImgType × Kind × Ctor)) (t : ImgType) (k : Kind) (wrap : Option WrapArg) : Outcome Img :=
  if t.same .DOT2MG && wrap.isNone then .err .wrapRule                 -- mkdsk.rs:55
  else if !t.same .DOT2MG && wrap.isSome then .err .wrapRule            -- mkdsk.rs:61
  else match arms.find? (fun a => a.1.same t && a.2.1.same k) with
    | none => .err .pairing                                        -- mkdsk.rs:90
    | some (_, _, .dot2mg) =>
      match wrap with
      | none => createDot2mg k none
      | some w =>
        match wrapFromStr w with
        | none => .panic .wrapArg                                  -- dot2mg.rs:72
        | some wt => createDot2mg k (some wt)
    | some (_, _, c) => createRaw c k

def mkimage := mkimageWith mkimageArms

/-! ## strings -/

def isAsciiControl (c : Nat) : Bool := c < 32 || c == 127

/-- the digits of `u8::from_str_radix(s,10)`: non-empty, decimal, value at most 255 -/
def digitsU8 (ds : List Nat) : Option Nat :=
  if ds.isEmpty then none
  else if ds.all (fun c => decide (48 ≤ c) && decide (c ≤ 57)) then
    if ds.foldl (fun a c => a * 10 + (c - 48)) 0 ≤ 255 then some (ds.foldl (fun a c => a * 10 + (c - 48)) 0) else none
  else none

/-- `u8::from_str_radix(s,10)`: an optional leading `+`, then digits -/
def parseU8 (s : List Nat) : Option Nat :=
  match s with
  | 43 :: r => digitsU8 r
  | _ => digitsU8 s

def upper (c : Nat) : Nat := if 97 ≤ c ∧ c ≤ 122 then c - 32 else c

def plainChar (invalid : List Nat) (c : Nat) : Bool :=
  decide (c < 128) && !invalid.contains c && !isAsciiControl c

/-- prodos `is_name_valid` (prodos/pack.rs:47): `^[A-Z][A-Z0-9.]{0,14}$` on the upper-cased string -/
def prodosNameValid (s : List Nat) : Bool :=
  match s.map upper with
  | [] => false
  | c :: rest =>
    decide (65 ≤ c) && decide (c ≤ 90) && decide (rest.length ≤ 14) &&
      rest.all (fun d => (decide (65 ≤ d) && decide (d ≤ 90)) || (decide (48 ≤ d) && decide (d ≤ 57)) || d == 46)

/-- pascal `is_name_valid(s,true)` (pascal/pack.rs:30) -/
def pascalVolValid (s : List Nat) : Bool :=
  s.all (plainChar pascalInvalidChars) && decide (1 ≤ s.length) && decide (s.length ≤ 7)

def splitDot (s : List Nat) : List (List Nat) :=
  s.foldr (fun c acc => if c == 46 then [] :: acc else match acc with
    | [] => [[c]]
    | h :: t => (c :: h) :: t) [[]]

/-- cpm `is_name_valid` (cpm/pack.rs:70) -/
def cpmNameValid (s : List Nat) : Bool :=
  match splitDot s with
  | [base] => base.all (plainChar cpmInvalidChars) && decide (base.length ≤ 8)
  | [base, ext] => (base ++ ext).all (plainChar cpmInvalidChars) && decide (base.length ≤ 8) && decide (ext.length ≤ 3)
  | _ => false

/-- fat `is_label_valid` (fat/pack.rs:132) -/
def fatLabelValid (s : List Nat) : Bool :=
  decide (1 ≤ s.length) && decide (s.length ≤ 11) && s.all (plainChar fatInvalidChars)

/-! ## block addressing: which `Block` variants `write_block` of an image accepts -/

inductive BlockAddr where | d13 | do_ | po | cpm
  deriving DecidableEq, Repr

def rawSupports (t : ImgType) (k : Kind) (b : BlockAddr) : Bool :=
  match t with
  | .D13 => b == .d13                                              -- dsk_d13.rs write_block
  | .DO => b == .do_ || b == .po || b == .cpm                      -- dsk_do.rs write_block
  | .PO => b == .po                                                -- dsk_po.rs write_block
  | .IMD | .TD0 => b == .cpm                                       -- imd.rs / td0.rs write_block (CPM, FAT)
  | .IMG => false                                                  -- dsk_img.rs write_block (FAT only)
  | .WOZ1 | .WOZ2 | .NIB =>
    if k.same .A2_DOS32_KIND then b == .d13
    else if k.same .A2_DOS33_KIND then b == .do_ || b == .po || b == .cpm
    else b == .po                                                  -- 3.5 inch WOZ2
  | .DOT2MG => false

def Img.supports (i : Img) (b : BlockAddr) : Bool :=
  match i.typ, i.inner with
  | .DOT2MG, some r => rawSupports r i.kind b                      -- dot2mg.rs:147 forwards to the raw image
  | t, _ => rawSupports t i.kind b

/-! ## the formatted volume -/

inductive Fs where | dos | prodos | pascal | cpm | fat
  deriving DecidableEq, Repr

/-- what `stat()` of the reloaded file must report -/
structure Plan where
  typ : ImgType
  kind : Kind          -- the (refined) kind that was requested
  cap : Nat            -- `byte_capacity()` of the image
  fs : Fs
  blockSize : Nat
  total : Nat          -- `block_end - block_beg`
  free : Nat
  deriving DecidableEq, Repr

def popcount16 (hi lo : Nat) : Nat :=
  (List.range 16).foldl (fun a i => a + ((hi * 256 + lo) / 2 ^ i) % 2) 0

def _root_.A2Verif.Gen.Mkdsk.Dpb.get (d : Dpb) (i : Nat) : Nat := d.fields.getD i 0
def _root_.A2Verif.Gen.Mkdsk.Bpb.get (b : Bpb) (i : Nat) : Nat := b.fields.getD i 0

/-- `DiskParameterBlock::verify` (dpb.rs:248) -/
def _root_.A2Verif.Gen.Mkdsk.Dpb.verify (d : Dpb) : Bool :=
  let bsh := d.get 1; let blm := d.get 2; let exm := d.get 3; let dsm := d.get 4; let drm := d.get 5
  let bls := 128 * 2 ^ bsh
  let maxExm := (if dsm < 256 then 16 * bls / 16384 else 8 * bls / 16384) - 1
  let dirBlocks := ((drm + 1) * 32 + bls - 1) / bls
  let lead := ((List.range 16).map (fun i => ((d.get 6 * 256 + d.get 7) / 2 ^ (15 - i)) % 2)).takeWhile (· == 1) |>.length
  decide (3 ≤ bsh) && decide (bsh ≤ 7) && decide (blm = 2 ^ bsh - 1) && decide (dsm ≤ 0x7fff) &&
  !(bsh == 3 && decide (dsm > 0xff)) && decide (exm ≤ maxExm) && [0, 1, 3, 7, 15].contains exm &&
  decide (drm + 1 ≤ 16 * bls / 32) && decide ((drm + 1) * 32 / bls ≤ lead) && decide (dirBlocks ≤ dsm + 1)

/-- bytes the CP/M user area plus reserved tracks need (`disk_capacity`, dpb.rs:358) -/
def _root_.A2Verif.Gen.Mkdsk.Dpb.diskCapacity (d : Dpb) : Nat :=
  let trackCap := d.get 0 * 128
  let user := (d.get 4 + 1) * (128 * 2 ^ d.get 1)
  let rem := user % trackCap
  d.get 12 + user + (if rem > 0 then trackCap - rem else 0)

def _root_.A2Verif.Gen.Mkdsk.Bpb.rootDirSecs (b : Bpb) : Nat := (b.get 4 * 32 + b.get 0 - 1) / b.get 0
def _root_.A2Verif.Gen.Mkdsk.Bpb.firstDataSec (b : Bpb) : Nat := b.get 2 + b.get 3 * b.get 7 + b.rootDirSecs
/-- `cluster_count_usable` (bpb.rs:448): the smaller of what the data region holds and what the FAT can address -/
def _root_.A2Verif.Gen.Mkdsk.Bpb.clusters (b : Bpb) : Nat :=
  let abstract := (b.get 5 - b.firstDataSec) / b.get 1
  let typ := if abstract < 4085 then 12 else if abstract < 65525 then 16 else 32
  min abstract (b.get 7 * b.get 0 * 8 / typ - 2)

/-! ## per-OS functions -/

/-- `mkdos3x` (mkdsk.rs:97) with `dos3x::Disk::init` (dos3x/mod.rs:309) -/
def mkdos3xWith (guard : Nat → Bool) (vol : Option (List Nat)) (boot : Bool) (img : Img) (k : Kind) : Outcome Plan :=
  if !dos3xCapacities.contains img.cap then .err .capacity                                   -- :98
  else if img.typ.same .PO then .err .imageOrder                                                -- :104
  else if img.kind.same .A2_DOS32_KIND && img.typ.same .DO then .err .imageOrder                    -- :108
  else match vol with
    | none => .err .volumeMissing                                                            -- :115
    | some s =>
      match parseU8 s with
      | none => .err .volumeRange                                                            -- :138
      | some v =>
        if !guard v then .err .volumeRange                                           -- :120
        else if boot ∧ v ≠ dos3xBootVol then .err .bootVolume                                -- :121
        else
          let go (sectors : Nat) (b : BlockAddr) : Outcome Plan :=
            if !dos3xInitAssert v then .panic .initAssert                                    -- dos3x/mod.rs:310
            else if !img.supports b then .err .blockAddressing
            else .ok { typ := img.typ, kind := k, cap := img.cap, fs := .dos, blockSize := 256, total := 35 * sectors,
                       free := (35 - 2 - (if boot then 2 else 0)) * sectors }
          if img.kind.same .A2_DOS32_KIND then go 13 .d13                                       -- :127
          else if img.kind.same .A2_DOS33_KIND then go 16 .do_                                  -- :129
          else .err .kindUnsupported                                                         -- :131

def mkdos3x := mkdos3xWith dos3xVolGuard

/-- `mkprodos` (mkdsk.rs:145) with `prodos::Disk::format` (prodos/mod.rs:255) -/
def mkprodosWith (checksName : Bool) (vol : Option (List Nat)) (boot : Bool) (img : Img) (k : Kind) : Outcome Plan :=
  if boot then .err .bootFlag
  else match vol with
    | none => .err .volumeMissing
    | some s =>
      let total := img.cap / 512
      if checksName ∧ !prodosNameValid s then .err .volumeName
      else if total > 0 ∧ !img.supports .po then .err .blockAddressing                       -- first `zap_block`
      else if !prodosNameValid s then .panic .nameAssert                                     -- prodos/pack.rs:94
      else .ok { typ := img.typ, kind := k, cap := img.cap, fs := .prodos, blockSize := 512, total := total,
                 free := total - 6 - (1 + total / 4096) }

def mkprodos := mkprodosWith prodosFormatChecksName

/-- `mkpascal` (mkdsk.rs:166) with `pascal::Disk::format` (pascal/mod.rs:266) -/
def mkpascal (vol : Option (List Nat)) (boot : Bool) (img : Img) (k : Kind) : Outcome Plan :=
  if boot then .err .bootFlag
  else match vol with
    | none => .err .volumeMissing
    | some s =>
      if !pascalVolValid s then .err .volumeName
      else if !img.supports .po then .err .blockAddressing
      else if !img.kind.same .A2_DOS33_KIND then .err .bootBlocks                                -- pascal/mod.rs:297
      else .ok { typ := img.typ, kind := k, cap := img.cap, fs := .pascal, blockSize := 512, total := img.cap / 512,
                 free := img.cap / 512 - 6 }

/-- the optional `match *kind` guard of `mkcpm` -/
def cpmGuardRejects (g : Option (List Kind)) (k : Kind) : Bool :=
  match g with
  | some ks => !ks.any (·.same k)
  | none => false

/-- the label `mkcpm` passes to `format`: the volume argument for CP/M 3, nothing otherwise (mkdsk.rs:189-197) -/
def cpmLabel (vers : Nat) (vol : Option (List Nat)) : List Nat :=
  if vers = 3 then vol.getD [] else []

/-- `mkcpm` (mkdsk.rs:181) with `cpm::Disk::format` (cpm/mod.rs:285) -/
def mkcpmWith (kindGuard : Option (List Kind)) (vol : Option (List Nat)) (boot : Bool) (k : Kind) (img : Img) (vers : Nat) : Outcome Plan :=
  if boot then .err .bootFlag
  else if vers ≠ 2 ∧ vers ≠ 3 then .panic .unreachable
  else if cpmGuardRejects kindGuard k then .err .kindUnsupported
  else match dpbArms.find? (fun a => a.1.same k) with
    | none => .panic .dpbCreate                                                              -- dpb.rs:244
    | some (_, d) =>
      if !d.verify then .err .dpbInvalid                                                     -- cpm/mod.rs:149
      else
        let name := cpmLabel vers vol
        if vers ≥ 3 ∧ name.length > 0 ∧ !cpmNameValid name then .err .volumeName             -- cpm/mod.rs:286
        else if !img.supports .cpm then .err .blockAddressing
        else .ok { typ := img.typ, kind := k, cap := img.cap, fs := .cpm, blockSize := 128 * 2 ^ d.get 1,
                   total := d.get 4 + 1, free := d.get 4 + 1 - popcount16 (d.get 6) (d.get 7) }

def mkcpm := mkcpmWith cpmKindGuard

/-- `mkfat` (mkdsk.rs:203) with `fat::Disk::format` (fat/mod.rs:355) -/
def mkfat (vol : Option (List Nat)) (boot : Bool) (img : Img) (k : Kind) : Outcome Plan :=
  if boot then .err .bootFlag
  else match bpbArms.find? (fun a => a.1.same img.kind) with
    | none => .err .kindUnsupported                                                          -- bpb.rs:317
    | some (_, b) =>
      let name := vol.getD []
      if name.length > 0 ∧ !fatLabelValid name then .err .volumeName                         -- fat/mod.rs:356
      else .ok { typ := img.typ, kind := k, cap := img.cap, fs := .fat, blockSize := b.get 0 * b.get 1,
                 total := b.clusters, free := b.clusters }

/-! ## the command -/

structure Config where
  os : Os
  kind : KindArg
  typ : TypeArg
  wrap : Option WrapArg
  boot : Bool
  vol : Option (List Nat)
  ext : List Nat            -- what follows the last `.` of the destination path
  destExists : Bool := false
  deriving DecidableEq, Repr

/-- result of the command: the outcome and whether the single write step (mkdsk.rs:289) was executed -/
structure Result where
  outcome : Outcome Plan
  wrote : Bool
  deriving DecidableEq, Repr

def lower (c : Nat) : Nat := if 65 ≤ c ∧ c ≤ 90 then c + 32 else c

/-- `mkdsk` from parsing `--kind`/`--type` to the image (mkdsk.rs:254-265): the refined kind and the image -/
def preImg (os : Os) (kind : KindArg) (typ : TypeArg) (wrap : Option WrapArg) : Outcome (Kind × Img) :=
  match kindFromStr kind, typeFromStr typ with
  | none, _ => .panic .kindArg                                                               -- :254 unwrap
  | _, none => .panic .typeArg                                                               -- :255 unwrap
  | some k0, some t =>
    let k := refine os k0                                                                    -- :258
    (mkimage t k wrap).bind fun img => .ok (k, img)

/-- … and the extension check (mkdsk.rs:267-275) -/
def pre (os : Os) (kind : KindArg) (typ : TypeArg) (wrap : Option WrapArg) (ext : List Nat) : Outcome (Kind × Img) :=
  (preImg os kind typ wrap).bind fun x =>
    if !(fileExts x.2.typ).contains (ext.map lower) then .err .extension                     -- :267
    else .ok x

/-- the dispatch on the OS name (mkdsk.rs:276-285) -/
def perOs (os : Os) (k : Kind) (img : Img) (boot : Bool) (vol : Option (List Nat)) : Outcome Plan :=
  match osHandler os with
  | .cpm v => mkcpm vol boot k img v
  | .dos3x => mkdos3x vol boot img k
  | .prodos => mkprodos vol boot img k
  | .pascal => mkpascal vol boot img k
  | .fat => mkfat vol boot img k
  | .unreachable => .panic .unreachable                                                      -- :284

/-- everything in `mkdsk` up to `Ok(buf)` / `Err(e)` (mkdsk.rs:218-285): no step in here touches the file system
except the two `try_exists` probes -/
def plan (c : Config) : Outcome Plan :=
  if !osKnown c.os then .err .osName                                                         -- :221
  else if c.destExists then .err .destination                                                -- :241
  else (pre c.os c.kind c.typ c.wrap c.ext).bind fun x => perOs c.os x.1 x.2 c.boot c.vol

/-- `mkdsk` (mkdsk.rs:218): the write happens exactly in the `Ok(buf)` arm (mkdsk.rs:286-291) -/
def run (c : Config) : Result :=
  match plan c with
  | .ok p => { outcome := .ok p, wrote := true }
  | .err s => { outcome := .err s, wrote := false }
  | .panic s => { outcome := .panic s, wrote := false }

/-- primary extension the harness uses for an image type: the first of `file_extensions()` -/
def primaryExt (t : TypeArg) : List Nat :=
  match typeFromStr t with
  | some it => (fileExts it).headD []
  | none => []

end A2Verif.Model.Mkdsk
