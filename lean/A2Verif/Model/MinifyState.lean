import A2Verif.Model.Minify
import A2Verif.Gen.ToolState
/-!
The Applesoft `Minifier` as a STATE MACHINE (`/repo/src/lang/applesoft/minifier.rs`).

`Model/Minify.lean` models `Minifier::minify` on a fresh object.  The language server keeps ONE `Minifier` for the
session (`Tools.minifier`), so what `minify` really is, is a function of the object's fields as the earlier calls
left them.  Here the fields that survive a call are explicit:

| Lean `MinSt`  | Rust field | how `minify` treats it |
|---|---|---|
| `deleted`     | `deleted_lines: Vec<usize>` | reset in `minify_stage1`, pushed to in pass 1 |
| `allLines`    | `all_lines: Vec<usize>` | reset in stage 1, pushed to in pass 1 |
| `lineMap`     | `line_map: HashMap<usize,usize>` | reset in stage 1, filled by `set_line_ref_map` (partially when it fails) |
| `fnext`       | `forbids_combining_next: HashSet<usize>` | reset in stage 1, inserted into in pass 1 |
| `refs`        | `linenum_refs: HashSet<usize>` | reset in stage 1, inserted into in pass 1, remapped in stage 2 |
| `fany`        | `forbids_combining_any: bool` | reset in stage 1, set in pass 1 |
| `endsWithStr` | `ends_with_str: bool` | **never reset**: stage 3 copies it to `last_line_ends_with_str` before assigning it |

(`line`, `minified_line`, `minified_program`, `write_curs`, `curr_linenum`, `pass`, `is_last_line` are assigned before
they are read in every stage; `flags` is the level, an input here; `var_guards` is configuration.)

`Resets` says which of the six resets the code performs; `Resets.current` is read from the current source by the
translator (`Gen.ToolState.minifierResets…`).  Early returns: pass 1 can fail on a line (`Err(LineNumber)` for a line
number that is not a `usize`; `Input.failAt`), `set_line_ref_map` can fail after inserting some entries — the state
keeps what was done up to there.
Core Lean only.
-/
namespace A2Verif.Model.Minify

/-- what a `Minifier` keeps between calls -/
structure MinSt where
  deleted : List Nat
  allLines : List Nat
  lineMap : List (Nat × Nat)
  fnext : List Nat
  refs : List Nat
  fany : Bool
  endsWithStr : Bool
deriving DecidableEq, Repr

def MinSt.fresh : MinSt := ⟨[], [], [], [], [], false, false⟩

/-- which resets `minify_stage1` performs (`:381-387`) -/
structure Resets where
  deleted : Bool
  allLines : Bool
  lineMap : Bool
  fnext : Bool
  refs : Bool
  fany : Bool
deriving DecidableEq, Repr

def Resets.all : Resets := ⟨true, true, true, true, true, true⟩
/-- the code as the translator reads it from the current source -/
def Resets.current : Resets :=
  ⟨A2Verif.Gen.ToolState.minifierResetsDeleted, A2Verif.Gen.ToolState.minifierResetsAllLines,
   A2Verif.Gen.ToolState.minifierResetsLineMap, A2Verif.Gen.ToolState.minifierResetsForbidsNext,
   A2Verif.Gen.ToolState.minifierResetsRefs, A2Verif.Gen.ToolState.minifierResetsForbidsAny⟩

/-- one call: level (1-3), program, and optionally the index of the line on which pass 1 returns `Err` -/
structure Input where
  level : Nat
  prog : List Line
  failAt : Option Nat := none
deriving DecidableEq, Repr

/-- `set_line_ref_map` (`:120-137`) on the object's fields: entries inserted so far and whether it succeeded.
`all_lines.len()==0` returns `Ok` at once; otherwise the loop of `buildMap`, keeping the partial result. -/
def buildMapP (del : List Nat) : List Nat → List Nat → List (Nat × Nat) × Bool
  | [], _ => ([], true)
  | d :: ds, s =>
    match advance del d s with
    | none => ([], false)
    | some (c, rest) =>
      let r := buildMapP del ds (c :: rest)
      ((d, c) :: r.1, r.2)

def setLineRefMap (del all : List Nat) : List (Nat × Nat) × Bool :=
  if all.isEmpty then ([], true) else buildMapP del del all

/-- the loop of `minify_stage3` (`:455-489`) transcribed with its first iteration: `cur = none` is the empty
`partial_line`; `lastEnds` is `self.ends_with_str` as it is when the iteration copies it to
`last_line_ends_with_str` — in the first iteration that is the value an EARLIER call left behind -/
def stage3Loop (refset fnext : List Nat) : Option Group → Bool → Bool → List Line → List Group
  | none, _, _, [] => []
  | some cur, _, _, [] => [cur]
  | cur, comb, lastEnds, l :: ls =>
    let curLen := match cur with | some g => g.len | none => 0
    let still := decide (curLen + l.len ≤ A2Verif.Gen.MinifyGuards.maxLen) && !refset.contains l.num
    match cur with
    | some g =>
      if comb && still then
        stage3Loop refset fnext (some (g.absorb lastEnds l)) (!fnext.contains l.num) l.endsStr ls
      else
        g :: stage3Loop refset fnext (some (Group.single l)) (!fnext.contains l.num) l.endsStr ls
    | none =>
      -- first iteration: `combining` is a local that starts `false`, so the `else` branch runs, nothing is flushed
      -- (`partial_line` is empty) and `last_line_ends_with_str` is not looked at
      stage3Loop refset fnext (some (Group.single l)) (!fnext.contains l.num) l.endsStr ls

/-- `ends_with_str` after stage 3: that of the last line walked (unchanged if there was none) -/
def lastEnds (e : Bool) : List Line → Bool
  | [] => e
  | [l] => l.endsStr
  | _ :: ls => lastEnds e ls

/-- the first `n` lines (pass 1 got that far before it returned `Err`) -/
def upTo (failAt : Option Nat) (p : List Line) : List Line :=
  match failAt with
  | some k => p.take k
  | none => p

/-- `Minifier::minify` (`:500-516`) for levels ≥ 1 as a transition of the object -/
def minifyS (cfg : Cfg) (rs : Resets) (s : MinSt) (i : Input) : MinSt × Outcome (List Group) :=
  let seen := upTo i.failAt i.prog
  -- stage 1: resets, then pass 1 over the lines (all of them, or up to the failing one)
  let s1 : MinSt :=
    { deleted := (if rs.deleted then [] else s.deleted) ++ (pick true seen (delFlags cfg i.level i.prog)).map (·.num)
      allLines := (if rs.allLines then [] else s.allLines) ++ seen.map (·.num)
      lineMap := if rs.lineMap then [] else s.lineMap
      fnext := (if rs.fnext then [] else s.fnext) ++ fnextSet cfg seen
      refs := (if rs.refs then [] else s.refs) ++ seen.flatMap (·.refs)
      fany := (if rs.fany then false else s.fany) || seen.any (·.fany)
      endsWithStr := s.endsWithStr }
  if i.failAt.isSome then (s1, .err) else
  -- stage 2: the map (new entries shadow old ones), references remapped
  let r := setLineRefMap s1.deleted s1.allLines
  let m := r.1 ++ s1.lineMap
  if !r.2 then ({ s1 with lineMap := m }, .err) else
  let refs2 := if cfg.remapRefs then s1.refs.map (retarget m) else s1.refs
  let s2 : MinSt := { s1 with lineMap := m, refs := refs2 }
  let lines2 := (surviving cfg i.level i.prog).map (retargetLine m)
  if combineLines i.level && !s2.fany then
    ({ s2 with endsWithStr := lastEnds s2.endsWithStr lines2 },
     .ok (stage3Loop s2.refs s2.fnext none false s2.endsWithStr lines2))
  else
    (s2, .ok (lines2.map Group.single))

/-- a session on ONE object: the outputs in call order -/
def sessionOut (cfg : Cfg) (rs : Resets) : MinSt → List Input → List (Outcome (List Group))
  | _, [] => []
  | s, i :: is => (minifyS cfg rs s i).2 :: sessionOut cfg rs (minifyS cfg rs s i).1 is

def session (cfg : Cfg) (rs : Resets) : MinSt → List Input → MinSt
  | s, [] => s
  | s, i :: is => session cfg rs (minifyS cfg rs s i).1 is

end A2Verif.Model.Minify
