import A2Verif.Model.Vol
/-!
# The abstract volume specification: which transitions between two independent readings are allowed

`stepOk P pre op res post` is the per-step refinement condition.  `pre`/`post` are what the independent
reader (`A2Verif.Read.*`) sees in the saved image before and after one a2kit operation, `op` is the
operation the user asked for and `res` whether a2kit reported success.  The conditions are exactly what
properties C01, C02, C03, C05 and C19 say about a single step and nothing more; in particular the choice of
blocks is unconstrained (any previously free units), and a directory may grow during any step.
The history-level statements (any number of steps) are theorems in `Props/C01.lean` … `C06.lean`, `C19.lean`
(histories: `Model/VolTrace.lean`, helper lemmas: `Lemmas/VolSpec.lean`).
-/
namespace A2Verif

inductive FsOp where
  /-- store a file: path, stored chunks (index ↦ bytes as given, possibly shorter than a unit), logical length, type, aux -/
  | put (path : Bytes) (chunks : List (Nat × Bytes)) (eof ftype aux : Nat)
  | delete (path : Bytes)
  | rename (path newPath : Bytes)
  | lock (path : Bytes)
  | unlock (path : Bytes)
  | retype (path : Bytes)
  | mkdir (path : Bytes)
  /-- an operation that names no stored path (a query, or an attempt on a missing path) -/
  | other
  deriving Repr, Inhabited

/-- what differs between file systems at the level of the specification -/
structure FsParams where
  /-- how the stored logical length is reported back (DOS 3.x: not recorded; CP/M 2: rounded up to 128) -/
  eofRule : Nat → Nat
  /-- the file system records the requested type / aux in the entry -/
  keepsType : Bool
  keepsAux : Bool
  /-- file system has a per-file protection flag -/
  hasLock : Bool

namespace FsOp
/-- the stored paths an operation is allowed to affect -/
def targets : FsOp → List Bytes
  | put p _ _ _ _ => [p]
  | delete p => [p]
  | rename p q => [p, q]
  | lock p => [p]
  | unlock p => [p]
  | retype p => [p]
  | mkdir p => [p]
  | other => []
end FsOp

/-- every stored chunk comes back at its index, beginning with the stored bytes; no other index exists -/
def chunksMatch (stored : List (Nat × Bytes)) (got : List (Nat × Bytes)) : Bool :=
  stored.map (·.1) == got.map (·.1) &&
  (stored.zip got).all (fun (s, g) => g.2.take s.2.length == s.2)

/-- a bystander is unchanged: a file record is identical (content, metadata, blocks); a directory keeps its
identity and blocks but may have grown -/
def sameRec (a b : FileRec) : Bool :=
  if a.isDir then b.isDir && a.path == b.path && a.owned.all (b.owned.contains ·)
  else a == b

/-- `a` and `b` hold the same paths, and every record of `a` is found unchanged in `b` -/
def sameFiles (a b : List FileRec) : Bool :=
  a.all (fun f => match b.find? (·.path == f.path) with
    | some g => sameRec f g
    | none => false) &&
  b.all (fun g => (a.find? (·.path == g.path)).isSome)

def without (fs : List FileRec) (ps : List Bytes) : List FileRec := fs.filter (fun f => !ps.contains f.path)

def isPrefixPath (d p : Bytes) : Bool := d.length < p.length && p.take d.length == d && p.getD d.length 0 == 47

/-- named conditions of one step; the step is allowed iff all hold -/
def stepConds (P : FsParams) (pre : Vol) (op : FsOp) (ok : Bool) (post : Vol) : List (String × Bool) :=
  let sound := ("post-volume-well-formed", post.wfB)
  match op, ok with
  | .put p cs eof ty aux, true =>
    [ sound,
      ("put-target-was-absent", (pre.lookup p).isNone),
      ("put-target-present", (post.lookup p).isSome),
      ("put-content-reads-back", match post.lookup p with
          | some f => chunksMatch cs f.chunks && !f.isDir
          | none => false),
      ("put-length-reads-back", match post.lookup p with
          | some f => f.eof == P.eofRule eof
          | none => false),
      ("put-type-reads-back", match post.lookup p with
          | some f => (!P.keepsType || f.ftype == ty) && (!P.keepsAux || f.aux == aux)
          | none => false),
      ("put-uses-free-units-only", match post.lookup p with
          | some f => f.owned.all (fun u => pre.freeUnits.contains u)
          | none => false),
      ("bystanders-unchanged", sameFiles pre.files (without post.files [p])) ]
  | .delete p, true =>
    [ sound,
      ("delete-target-existed", (pre.lookup p).isSome),
      ("delete-target-not-protected", match pre.lookup p with
          | some f => !f.locked
          | none => false),
      ("delete-target-gone", (post.lookup p).isNone),
      ("bystanders-unchanged", sameFiles (without pre.files [p]) post.files) ]
  | .rename p q, true =>
    [ sound,
      ("rename-source-existed", (pre.lookup p).isSome),
      ("rename-source-not-protected", match pre.lookup p with
          | some f => !f.locked
          | none => false),
      ("rename-target-was-absent", p == q || (pre.lookup q).isNone),
      ("rename-source-gone", p == q || (post.lookup p).isNone),
      ("rename-keeps-content", match pre.lookup p, post.lookup q with
          | some f, some g => g.chunks == f.chunks && g.eof == f.eof && g.owned == f.owned && g.locked == f.locked && g.isDir == f.isDir
          | _, _ => false),
      ("bystanders-unchanged", sameFiles (without pre.files [p, q]) (without post.files [p, q])) ]
  | .lock p, true =>
    [ sound,
      ("lock-target-existed", (pre.lookup p).isSome),
      ("lock-sets-protection", match pre.lookup p, post.lookup p with
          | some f, some g => g.locked && g.chunks == f.chunks && g.eof == f.eof && g.owned == f.owned && g.ftype == f.ftype && g.aux == f.aux && g.isDir == f.isDir
          | _, _ => false),
      ("bystanders-unchanged", sameFiles (without pre.files [p]) (without post.files [p])) ]
  | .unlock p, true =>
    [ sound,
      ("unlock-target-existed", (pre.lookup p).isSome),
      ("unlock-clears-protection", match pre.lookup p, post.lookup p with
          | some f, some g => !g.locked && g.chunks == f.chunks && g.eof == f.eof && g.owned == f.owned && g.ftype == f.ftype && g.aux == f.aux && g.isDir == f.isDir
          | _, _ => false),
      ("bystanders-unchanged", sameFiles (without pre.files [p]) (without post.files [p])) ]
  | .retype p, true =>
    [ sound,
      ("retype-target-existed", (pre.lookup p).isSome),
      ("retype-keeps-content", match pre.lookup p, post.lookup p with
          | some f, some g => g.chunks == f.chunks && g.eof == f.eof && g.owned == f.owned && g.isDir == f.isDir
          | _, _ => false),
      ("bystanders-unchanged", sameFiles (without pre.files [p]) (without post.files [p])) ]
  | .mkdir p, true =>
    [ sound,
      ("mkdir-target-was-absent", (pre.lookup p).isNone),
      ("mkdir-target-is-directory", match post.lookup p with
          | some f => f.isDir && f.owned.all (fun u => pre.freeUnits.contains u)
          | none => false),
      ("bystanders-unchanged", sameFiles pre.files (without post.files [p])) ]
  | .other, true =>
    [ sound, ("bystanders-unchanged", sameFiles pre.files post.files) ]
  | _, false =>
    -- a refused operation leaves every file and every listing as it was (directories may have grown)
    [ sound, ("refused-changes-nothing", sameFiles pre.files post.files) ]

def stepOk (P : FsParams) (pre : Vol) (op : FsOp) (ok : Bool) (post : Vol) : Bool :=
  (stepConds P pre op ok post).all (·.2)

/-- first violated condition, for the report -/
def stepWhy (P : FsParams) (pre : Vol) (op : FsOp) (ok : Bool) (post : Vol) : Option String :=
  ((stepConds P pre op ok post).find? (fun c => !c.2)).map (·.1)

/-- what protection must refuse: an operation on a protected file may not report success -/
def mustRefuse (pre : Vol) (op : FsOp) : Bool :=
  match op with
  | .delete p | .rename p _ => match pre.lookup p with
    | some f => f.locked
    | none => true
  | .put p _ _ _ _ | .mkdir p => (pre.lookup p).isSome
  | _ => false

end A2Verif
