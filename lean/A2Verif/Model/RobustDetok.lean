import A2Verif.Model.Robust
/-!
# C12: index discipline of the Applesoft and Integer BASIC detokenizers

`applesoft::Tokenizer::detokenize` (src/lang/applesoft/tokenizer.rs:156-214) with
`applesoft::bytes_to_escaped_string_ex` (src/lang/applesoft/mod.rs:146-193), and
`integer::Tokenizer::detokenize` (src/lang/integer/tokenizer.rs:158-237) with
`integer::bytes_to_escaped_string_ex` (src/lang/integer/mod.rs:145-174), default settings.

Only the control flow and the address arithmetic are modelled (the text that is produced is C14's business):
the outcome class and the address reached are what decide whether an index is in range.  Where the Rust tests
a bound and then indexes (`if addr >= img.len() {error}; img[addr]`), the model fuses the two into one
`img[addr]?` whose `none` branch is the Rust's bound-failure branch.  Where the Rust indexes *without* a test
the `none` branch is `panic`.  Loops recurse on the Rust's own caps (`max_lines`, `max_line_length`): every
iteration advances the address, so the caps are never the reason a model loop ends before the Rust loop would.
-/
namespace A2Verif.Model.Robust

/-! ## Applesoft -/

/-- `bytes_to_escaped_string_ex` in context `str` / `tok_rem`: index of the first terminator at or after `idx`
in the remaining bytes `l` (= `img.drop idx`), or the end -/
def aScanPlain (terms : List Nat) : List Nat → Nat → Nat
  | [], idx => idx
  | b :: rest, idx => if terms.contains b then idx else aScanPlain terms rest (idx + 1)

/-- context `tok_data`: stops at 0, or at `:` / 0 outside quotes; `q` counts the quotes seen -/
def aScanData : List Nat → Nat → Nat → Nat
  | [], idx, _ => idx
  | b :: rest, idx, q =>
    if b = 0 then idx
    else if q % 2 = 0 ∧ (b = 58 ∨ b = 0) then idx
    else aScanData rest (idx + 1) (if b = 34 then q + 1 else q)

/-- the inner `while` over one line; result = address at loop exit.  `fuel` = iterations left
(`max_line_length`, each iteration advances `addr`). -/
def aLine (quoteGuard : Bool) (img : List Nat) (lineAddr : Nat) : Nat → Nat → Outcome Nat
  | 0, addr => .ok addr
  | fuel + 1, addr =>
    match img[addr]? with
    | none => .ok addr
    | some b =>
      if b = 0 then .ok addr
      else if ¬ addr < lineAddr + Gen.C12Flags.applesoftMaxLineLength then .ok addr
      else if b = 34 then
        let n := aScanPlain [34, 0] (img.drop (addr + 1)) (addr + 1)
        match img[n]? with
        | none => if quoteGuard then aLine quoteGuard img lineAddr fuel n else .panic
        | some q => if q = 34 then aLine quoteGuard img lineAddr fuel (n + 1) else aLine quoteGuard img lineAddr fuel n
      else if b = 178 then aLine quoteGuard img lineAddr fuel (aScanPlain [0] (img.drop (addr + 1)) (addr + 1))
      else if b = 131 then aLine quoteGuard img lineAddr fuel (aScanData (img.drop (addr + 1)) (addr + 1) 0)
      else if b > 127 then
        if Gen.C12Flags.applesoftTokens.contains b then aLine quoteGuard img lineAddr fuel (addr + 1) else .err
      else aLine quoteGuard img lineAddr fuel (addr + 1)

/-- the outer `while` over lines; `fuel` = `max_lines - line_count` -/
def aProg (quoteGuard : Bool) (img : List Nat) : Nat → Nat → Outcome Unit
  | 0, _ => .ok ()
  | fuel + 1, addr =>
    if ¬ addr < 65533 then .ok ()
    else
      match img[addr]?, img[addr + 1]? with
      | some a, some b =>
        if a = 0 ∧ b = 0 then .ok ()
        else
          -- addr += 2; `if addr+1 >= img.len() {error}`; line number at addr, addr+1
          match img[addr + 3]? with
          | none => .err
          | some _ =>
            match aLine quoteGuard img (addr + 4) Gen.C12Flags.applesoftMaxLineLength (addr + 4) with
            | .ok a' => aProg quoteGuard img fuel (a' + 1)
            | .err => .err
            | .panic => .panic
      | _, _ => .ok ()

def aDetok (quoteGuard : Bool) (img : List Nat) : Outcome Unit :=
  aProg quoteGuard img Gen.C12Flags.applesoftMaxLines 0

def aDetokNow := aDetok Gen.C12Flags.applesoftQuoteGuard

/-! ## Integer BASIC -/

def isHexNeg (x : Nat) : Bool :=
  let y := x - 128
  (48 ≤ y && y ≤ 57) || (65 ≤ y && y ≤ 70) || (97 ≤ y && y ≤ 102)

/-- `integer::bytes_to_escaped_string_ex`: index of the first terminator, or the end.  On a negative-ASCII
backslash (220) followed by at least three bytes, `x` (248) and then hex digits are looked for; the closure
`is_hex` subtracts 128 from its argument in `u8` — a panic for a byte below 128 unless `hexGuard`. -/
def iScan (hexGuard : Bool) (terms : List Nat) : List Nat → Nat → Outcome Nat
  | [], idx => .ok idx
  | b :: rest, idx =>
    if terms.contains b then .ok idx
    else if b = 220 then
      match rest with
      | b1 :: b2 :: b3 :: _ =>
        if b1 = 248 then
          if b2 < 128 then (if hexGuard then iScan hexGuard terms rest (idx + 1) else .panic)
          else if isHexNeg b2 then
            (if b3 < 128 then (if hexGuard then iScan hexGuard terms rest (idx + 1) else .panic)
             else iScan hexGuard terms rest (idx + 1))
          else iScan hexGuard terms rest (idx + 1)
        else iScan hexGuard terms rest (idx + 1)
      | _ => iScan hexGuard terms rest (idx + 1)
    else iScan hexGuard terms rest (idx + 1)

/-- the variable-name loop `while img[addr]>=128 { addr += 1; if addr >= img.len() {error} }` on the remaining
bytes; `none` = ran off the end (error) -/
def iSkipName : List Nat → Nat → Option Nat
  | [], _ => none
  | b :: rest, addr => if b ≥ 128 then iSkipName rest (addr + 1) else some addr

structure IFlags where
  quoteGuard : Bool
  hexGuard : Bool

/-- the `for rep in 0..=max_line_length` loop over one line; `fuel` = repetitions left before `rep` reaches
`max_line_length`; result = address after the end-of-line byte -/
def iLine (f : IFlags) (img : List Nat) : Nat → Nat → Outcome Nat
  | 0, _ => .err
  | fuel + 1, addr =>
    match img[addr]? with
    | none => .err
    | some b =>
      if b = 1 then .ok (addr + 1)
      else if b = 0x28 then
        match iScan f.hexGuard [0x29, 1] (img.drop (addr + 1)) (addr + 1) with
        | .panic => .panic
        | .err => .err
        | .ok n =>
          match img[n]? with
          | none => if f.quoteGuard then iLine f img fuel n else .panic
          | some q => if q = 0x29 then iLine f img fuel (n + 1) else iLine f img fuel n
      else if b = 93 then
        match iScan f.hexGuard [1] (img.drop (addr + 1)) (addr + 1) with
        | .panic => .panic
        | .err => .err
        | .ok n => iLine f img fuel n
      else if b < 128 then
        if Gen.C12Flags.integerTokens.contains b then iLine f img fuel (addr + 1) else .err
      else if 176 ≤ b ∧ b ≤ 185 then
        match img[addr + 2]? with
        | none => .err
        | some _ => iLine f img fuel (addr + 3)
      else
        match iSkipName (img.drop addr) addr with
        | none => .err
        | some n => iLine f img fuel n

/-- the outer `while`; `fuel` = `max_lines - line_count` (every completed line increments `line_count`) -/
def iProg (f : IFlags) (img : List Nat) : Nat → Nat → Outcome Unit
  | 0, _ => .ok ()
  | fuel + 1, addr =>
    if ¬ addr < 65536 then .ok ()
    else
      -- `addr+2 < img.len()`; then the line number is at addr+1, addr+2
      match img[addr + 2]? with
      | none => .ok ()
      | some _ =>
        match iLine f img Gen.C12Flags.integerMaxLineLength (addr + 3) with
        | .ok a' => iProg f img fuel a'
        | .err => .err
        | .panic => .panic

def iDetok (f : IFlags) (img : List Nat) : Outcome Unit := iProg f img Gen.C12Flags.integerMaxLines 0

def iDetokNow := iDetok ⟨Gen.C12Flags.integerQuoteGuard, Gen.C12Flags.integerHexGuard⟩

end A2Verif.Model.Robust
