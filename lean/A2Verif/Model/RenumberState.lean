import A2Verif.Model.Renumber
/-!
# The `Renumberer` object as a state machine (property C16, object reuse)

The language servers keep ONE `Renumberer` per session and the library lets every caller do the same.  A `&mut self`
entry point is a function `State → Input → State × Output`; the state a call starts from is whatever the earlier
calls — accepted, refused, or aborted in the middle of a gather pass — left behind.

Fields of `Renumberer` (ids as in `Gen.RenumRefs.*Fields`): `0 flags`, `1 parser`, `2 row`, `3 line`, `4 info`,
`5 primaries`, `6 secondaries`.  `flags` is configuration (written only by `set_flags`); the tree-sitter `parser` is a
parameter (every parse is `parse(&line, None)`, no old tree); `line` is assigned in the loop before the walk reads it.
The other four are (re)assigned at the top of every gather pass — *if the source still does that*: which fields a pass
resets and whether it hands the map out with `mem::take` is a `Variant`, read from the current source by the translator
(`Gen.RenumRefs.{applesoft,integer}{Defs,Refs}{Resets,Takes}`).

The walker on one line is a parameter (`Walk`): the labels `push_linenum` recorded, in order, and whether the walk
completed (`get_one` fails on a number that does not fit `usize`; the pass then returns `Err` through `?` and keeps
what it had pushed).
-/
namespace A2Verif.Model.RenumberState
open A2Verif.Model.Renumber

/-- what a `Renumberer` keeps between calls; `info` is the `BTreeMap` as the list of pairs pushed so far (it is
grouped when it is consumed: `group`) -/
structure RState where
  flags : Nat
  row : Nat
  line : List Nat
  info : List (Nat × Label)
  primaries : Bool
  secondaries : Bool
  deriving Repr, DecidableEq

/-- `Renumberer::new()` followed by `set_flags(flags)` -/
def freshWith (flags : Nat) : RState := ⟨flags, 0, [], [], true, true⟩

/-- how one gather pass treats the carried fields -/
structure Variant where
  /-- ids of the fields assigned before the loop -/
  resets : List Nat
  /-- `Ok(mem::take(&mut self.info))` instead of `Ok(self.info.clone())` -/
  takes : Bool
  deriving Repr, DecidableEq

/-- the parser and `Navigate::walk` on one line (terminated by `\n`) standing on row `row`, with the two mode flags
`visit` reads: the labels recorded, in order, and whether the walk completed -/
abbrev Walk := Bool → Bool → List Nat → Nat → List (Nat × Label) × Bool

/-- the `for line in source.lines()` loop of `gather_defs` / `gather_refs` -/
def passLoop (w : Walk) : List (List Nat) → RState → RState × Bool
  | [], st => (st, true)
  | l :: ls, st =>
    if isBlank l then passLoop w ls { st with row := st.row + 1 }
    else
      let r := w st.primaries st.secondaries (l ++ [LF]) st.row
      let st' : RState := { st with line := l ++ [LF], info := st.info ++ r.1 }
      if r.2 then passLoop w ls { st' with row := st'.row + 1 } else (st', false)

/-- one gather pass: `gather_defs` is `prim = true, sec = false`, `gather_refs` the other way round -/
def gatherPass (v : Variant) (w : Walk) (prim sec : Bool) (lines : List (List Nat)) (row0 : Nat) (st : RState) :
    RState × Res (List (Nat × Label)) :=
  let st0 : RState := { st with
    primaries := if 5 ∈ v.resets then prim else st.primaries
    secondaries := if 6 ∈ v.resets then sec else st.secondaries
    info := if 4 ∈ v.resets then [] else st.info
    row := if 2 ∈ v.resets then row0 else st.row }
  let r := passLoop w lines st0
  if r.2 then (if v.takes then { r.1 with info := [] } else r.1, .ok r.1.info) else (r.1, .err)

/-- the two pass variants of a dialect -/
structure Variants where
  defs : Variant
  refs : Variant
  deriving Repr, DecidableEq

/-- an entry point: gather passes chosen one after the other (each may depend on the results so far), then a result
computed from what the passes returned -/
inductive Prog (α : Type) where
  | done (a : α)
  | pass (isDefs : Bool) (lines : List (List Nat)) (row0 : Nat) (k : Res (List (Nat × Label)) → Prog α)

def run {α : Type} (vs : Variants) (w : Walk) : Prog α → RState → RState × α
  | .done a, st => (st, a)
  | .pass isDefs lines row0 k, st =>
    let r := gatherPass (if isDefs then vs.defs else vs.refs) w isDefs (!isDefs) lines row0 st
    run vs w (k r.2) r.1

/-! ## `renumber` as such a program -/

structure Req where
  src : List Nat
  beg : Nat
  end_ : Nat
  first : Nat
  step : Nat
  maxNum : Nat
  deriving Repr

/-- the rest of `renumber` once the maps are there: the selection comes from the first pass (`all_primaries` of
`renumber`), `build_edits` works on its own two passes over the whole text (its two passes over the selected text are
the restriction of these to the selected rows, DESIGN §5) -/
def renumberFrom (rq : Req) (flags : Nat) (d1 d4 r5 : List (Nat × Label)) : Res (List Nat) :=
  match extSelOf d1 rq.beg rq.end_ with
  | none => .err
  | some extSel =>
    if !anySelected d1 rq.beg rq.end_ then .err
    else
    let p : Params := { l0 := rq.first, dl := rq.step, updateRefs := flags / 2 % 2 == 0, allowMove := flags % 2 == 1,
                        minNum := 0, maxNum := rq.maxNum }
    match buildEdits rq.src d4 r5 extSel p with
    | .ok edits =>
      match applyEdits rq.src edits 0 with
      | .ok ans => .ok ans
      | .err => .err
      | .panic => .panic
    | .err => .err
    | .panic => .panic

/-- the rows `build_edits` puts into `sel_txt` -/
def selLines (lines : List (List Nat)) (ext : Option Range) : List (List Nat) × Nat :=
  match ext with
  | some r =>
    let e := if r.e.ch = 0 ∧ r.e.line > r.s.line then r.e.line - 1 else r.e.line
    ((rangeList r.s.line e).map (fun l => lines[l]?.getD []), r.s.line)
  | none => (lines, 0)

/-- `Renumberer::renumber`: `gather_defs(source,0)`; the selection; then `build_edits` with its four passes
(`gather_defs(sel_txt)`, `gather_refs(sel_txt)`, `gather_defs(all_txt)`, `gather_refs(all_txt)`), every `Err` of a pass
returned at once -/
def renumberProg (rq : Req) (flags : Nat) : Prog (Res (List Nat)) :=
  let lines := splitLines rq.src
  .pass true lines 0 fun r1 =>
    match r1 with
    | .ok d1 =>
      match extSelOf d1 rq.beg rq.end_ with
      | none => .done .err
      | some ext =>
        if !anySelected d1 rq.beg rq.end_ then .done .err
        else
        let sl := selLines lines ext
        .pass true sl.1 sl.2 fun r2 =>
          match r2 with
          | .ok _ =>
            .pass false sl.1 sl.2 fun r3 =>
              match r3 with
              | .ok _ =>
                .pass true lines 0 fun r4 =>
                  match r4 with
                  | .ok d4 =>
                    .pass false lines 0 fun r5 =>
                      match r5 with
                      | .ok s5 => .done (renumberFrom rq flags d1 d4 s5)
                      | _ => .done .err
                  | _ => .done .err
              | _ => .done .err
          | _ => .done .err
    | _ => .done .err

/-- a call of `renumber` on an object in state `st` -/
def renumberS (vs : Variants) (w : Walk) (rq : Req) (st : RState) : RState × Res (List Nat) :=
  run vs w (renumberProg rq st.flags) st

/-- `set_flags` -/
def setFlags (f : Nat) (st : RState) : RState := { st with flags := f }

/-- what can be done to the object between two calls -/
inductive Call where
  | setFlags (f : Nat)
  | renumber (rq : Req)
  /-- any other entry point (`get_edits`, the trait's `gather_*`/`build_edits` called directly): some passes -/
  | other (p : Prog Unit)

def step (vs : Variants) (w : Walk) (st : RState) : Call → RState
  | .setFlags f => setFlags f st
  | .renumber rq => (renumberS vs w rq st).1
  | .other p => (run vs w p st).1

def runHist (vs : Variants) (w : Walk) (st : RState) (h : List Call) : RState := h.foldl (step vs w) st

end A2Verif.Model.RenumberState
