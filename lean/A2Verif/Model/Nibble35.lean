import A2Verif.Gen.Disk35
import A2Verif.Model.Nibble
/-!
# Model of the 3.5 inch 524-byte GCR sector codec (`/repo/src/img/disk35.rs`)

| Rust (disk35.rs)                               | Lean                                  |
|------------------------------------------------|---------------------------------------|
| `DISK_BYTES_62` :46, `invert_62` :607          | `Gen.Disk35.DISK_BYTES_62`, `INV35`   |
| `encode_62` :616, `decode_62` :621             | `encByte35`, `decByte35`              |
| `encode_sector_62` :307-379, checksum loop     | `rot0`, `encA`, `encB`, `encC`        |
| … nibble packing :360-375                      | `twos35`, `chkNibs`, `enc35Pre`       |
| `decode_sector_62` :397-479                    | `decA`, `decB`, `decC`, `dec35Loop`, `dec35` |

The three running checksums are `usize` in the Rust and unbounded `Nat` here (they never exceed 511).
`u8` arithmetic (`twos << 4`, `(x as usize ^ chk) as u8`) is `% 256`.  The encoder's two loops
(checksum loop filling `part0/1/2`, then nibble packing) and the decoder's two loops (unpacking,
then checksum loop) are fused into one structural recursion over the byte triples / nibble
quadruples; the fusion is tied to the Rust by byte-for-byte correspondence (`c08 enc35/dec35`).
-/
namespace A2Verif.Model.Nibble35
open A2Verif.Gen A2Verif.Model.Nibble

def INV35 : List Nat := invTable Disk35.DISK_BYTES_62
def encByte35 (n : Nat) : Nat := Disk35.DISK_BYTES_62.getD (n &&& 0x3f) 0
def decByte35 (b : Nat) : Nat := INV35.getD b Disk525.INVALID_NIB_BYTE

/-- the three running checksums -/
structure Chk where
  c0 : Nat
  c1 : Nat
  c2 : Nat
deriving DecidableEq, Repr

/-- `chk0 = (chk0 & 0xff) << 1; if chk0 & 0x100 > 0 { chk0 += 1 }` (rotate left through bit 8) -/
def rot0 (c0 : Nat) : Nat :=
  let x := (c0 &&& 0xff) <<< 1
  if x &&& 0x100 > 0 then x + 1 else x

/-- first byte of a triple, encoder: returns (chk0, chk2, part0) -/
def encA (c0 c2 a : Nat) : Nat × Nat × Nat :=
  let r := rot0 c0
  let c2a := c2 + a
  let c0' := if r &&& 0x100 > 0 then r &&& 0xff else r
  let c2' := if r &&& 0x100 > 0 then c2a + 1 else c2a
  (c0', c2', (a ^^^ c0') &&& 0xff)

/-- second byte, encoder: returns (chk1, chk2, part1) -/
def encB (c1 c2 b : Nat) : Nat × Nat × Nat :=
  let c1a := c1 + b
  let c1' := if c2 > 0xff then c1a + 1 else c1a
  let c2' := if c2 > 0xff then c2 &&& 0xff else c2
  (c1', c2', (b ^^^ c2') &&& 0xff)

/-- third byte, encoder: returns (chk0, chk1, part2) -/
def encC (c0 c1 c : Nat) : Nat × Nat × Nat :=
  let c0a := c0 + c
  let c0' := if c1 > 0xff then c0a + 1 else c0a
  let c1' := if c1 > 0xff then c1 &&& 0xff else c1
  (c0', c1', (c ^^^ c1') &&& 0xff)

/-- `((part0 & 0xc0) >> 2) | ((part1 & 0xc0) >> 4) | ((part2 & 0xc0) >> 6)` -/
def twos35 (p0 p1 p2 : Nat) : Nat :=
  ((p0 &&& 0xc0) >>> 2) ||| ((p1 &&& 0xc0) >>> 4) ||| ((p2 &&& 0xc0) >>> 6)

/-- the four checksum values before the table lookup -/
def chkNibs (s : Chk) : List Nat :=
  [((s.c0 &&& 0xc0) >>> 6) ||| ((s.c1 &&& 0xc0) >>> 4) ||| ((s.c2 &&& 0xc0) >>> 2),
   s.c2 &&& 0x3f, s.c1 &&& 0x3f, s.c0 &&& 0x3f]

/-- the six-bit values of the data field: per triple `twos, p0, p1, p2`, the last (two byte) group
`twos, p0, p1`, then the checksum; `none` if the input is not 3k+2 bytes long -/
def enc35Pre (s : Chk) : List Nat → Option (List Nat)
  | [a, b] =>
    let A := encA s.c0 s.c2 a          -- (chk0, chk2, part0)
    let B := encB s.c1 A.2.1 b         -- (chk1, chk2, part1)
    some ([twos35 A.2.2 B.2.2 0, A.2.2 &&& 0x3f, B.2.2 &&& 0x3f] ++
      chkNibs ⟨A.1 &&& 0xff, B.1 &&& 0xff, B.2.1 &&& 0xff⟩)
  | a :: b :: c :: rest =>
    let A := encA s.c0 s.c2 a
    let B := encB s.c1 A.2.1 b
    let C := encC A.1 B.1 c            -- (chk0, chk1, part2)
    match enc35Pre ⟨C.1, C.2.1, B.2.1⟩ rest with
    | none => none
    | some r => some ([twos35 A.2.2 B.2.2 C.2.2, A.2.2 &&& 0x3f, B.2.2 &&& 0x3f, C.2.2 &&& 0x3f] ++ r)
  | _ => none

/-- byte part of `encode_sector_62`: 699 data nibbles + 4 checksum nibbles for 524 bytes -/
def enc35 (dat : List Nat) : Option (List Nat) :=
  (enc35Pre ⟨0, 0, 0⟩ dat).map (·.map encByte35)

/-- first byte, decoder: `val = (part0 ^ chk0) as u8` uses chk0 before it is masked -/
def decA (c0 c2 p0 : Nat) : Nat × Nat × Nat :=
  let r := rot0 c0
  let a := (p0 ^^^ r) % 256
  let c2a := c2 + a
  let c0' := if r &&& 0x100 > 0 then r &&& 0xff else r
  let c2' := if r &&& 0x100 > 0 then c2a + 1 else c2a
  (c0', c2', a)

def decB (c1 c2 p1 : Nat) : Nat × Nat × Nat :=
  let b := (p1 ^^^ c2) % 256
  let c1a := c1 + b
  let c1' := if c2 > 0xff then c1a + 1 else c1a
  let c2' := if c2 > 0xff then c2 &&& 0xff else c2
  (c1', c2', b)

def decC (c0 c1 p2 : Nat) : Nat × Nat × Nat :=
  let c := (p2 ^^^ c1) % 256
  let c0a := c0 + c
  let c0' := if c1 > 0xff then c0a + 1 else c0a
  let c1' := if c1 > 0xff then c1 &&& 0xff else c1
  (c0', c1', c)

/-- `nib | ((twos << k) & 0xc0)` on `u8` -/
def join35 (nib twos k : Nat) : Nat := nib ||| (((twos <<< k) % 256) &&& 0xc0)

/-- the decoder on six-bit values: quadruples `twos, n0, n1, n2`; when exactly three values follow a
quadruple it is the final group (`twos, n0, n1`) and the 4 checksum values -/
def dec35Loop (s : Chk) : List Nat → Except DecErr (List Nat)
  | t :: n0 :: n1 :: n2 :: rest =>
    let A := decA s.c0 s.c2 (join35 n0 t 2)     -- (chk0, chk2, byte)
    let B := decB s.c1 A.2.1 (join35 n1 t 4)    -- (chk1, chk2, byte)
    if rest.length = 3 then
      -- `n2` is the checksum "twos", `rest` = chk2, chk1, chk0 low bits
      if A.1 &&& 0xff ≠ join35 (rest.getD 2 0) n2 6 ∨ B.1 &&& 0xff ≠ join35 (rest.getD 1 0) n2 4 ∨
         B.2.1 &&& 0xff ≠ join35 (rest.getD 0 0) n2 2
      then .error .badChecksum else .ok [A.2.2, B.2.2]
    else
      let C := decC A.1 B.1 (join35 n2 t 6)     -- (chk0, chk1, byte)
      match dec35Loop ⟨C.1, C.2.1, B.2.1⟩ rest with
      | .ok r => .ok (A.2.2 :: B.2.2 :: C.2.2 :: r)
      | .error e => .error e
  | _ => .error .length

/-- byte part of `decode_sector_62` on the 703 latched bytes -/
def dec35 (nibs : List Nat) : Except DecErr (List Nat) :=
  if nibs.length ≠ 703 then .error .length else
  let vals := nibs.map decByte35
  if vals.any (· == Disk525.INVALID_NIB_BYTE) then .error .invalidByte else
  dec35Loop ⟨0, 0, 0⟩ vals

end A2Verif.Model.Nibble35
