import A2Verif.Gen.Disk525
/-!
# Model of the 5.25 inch nibble codecs (`/repo/src/img/disk525.rs`)

Bytes are `Nat < 256`.  The disk-byte tables are the GENERATED ones (`A2Verif.Gen.Disk525`), so every
theorem about them is re-proved against whatever the Rust source says now.

| Rust (disk525.rs)                         | Lean                              |
|-------------------------------------------|-----------------------------------|
| `encode_44` :650, `decode_44` :655        | `encode44`, `decode44`            |
| `encode_62` :670 / `encode_53` :660       | `encByte62`, `encByte53`          |
| `invert_62` :641 / `invert_53` :633       | `invTable`, `INV62`, `INV53`      |
| `decode_62` :675 / `decode_53` :665       | `decByte62`, `decByte53`          |
| `encode_sector_62` :365 (byte part)       | `enc62`  (`aux62`, `chain`)       |
| `decode_sector_62` :479 (byte part)       | `dec62`  (`scanXor`, `decTwo`)    |
| `encode_sector_53` :324 (byte part)       | `enc53`  (`top53`, `threes53`)    |
| `decode_sector_53` :422 (byte part)       | `dec53`                           |

The sector codecs are written as comprehensions over the index (which input byte lands where), not as
the imperative loops; they are tied to the loops by functional correspondence (harness family `c08`,
ops `enc62/dec62/enc53/dec53`).  `chk_seed = 0`, `verify_chk = true` as in the only publicly
constructible formats (`SectorDataFormat::create_std16/13`).
-/
namespace A2Verif.Model.Nibble
open A2Verif.Gen.Disk525

/-! ## 4&4 -/

/-- `encode_44`: `[(val >> 1) | 0xaa, val | 0xaa]` -/
def encode44 (v : Nat) : List Nat := [(v >>> 1) ||| 0xAA, v ||| 0xAA]

/-- `decode_44`: `((nibs[0] << 1) | 0x01) & nibs[1]` on `u8` (the shift drops the top bit) -/
def decode44 (a b : Nat) : Nat := (((a <<< 1) % 256) ||| 1) &&& b

/-! ## disk byte tables and their inverses -/

/-- `invert_62`/`invert_53`: start from 256 × `INVALID_NIB_BYTE`, then `ans[tbl[i]] = i` in order -/
def invTable (tbl : List Nat) : List Nat :=
  (List.range tbl.length).foldl (fun acc i => acc.set (tbl.getD i 0) i) (List.replicate 256 INVALID_NIB_BYTE)

def INV62 : List Nat := invTable DISK_BYTES_62
def INV53 : List Nat := invTable DISK_BYTES_53

/-- `encode_62`: `DISK_BYTES_62[(nib6 & 0x3f)]` -/
def encByte62 (n : Nat) : Nat := DISK_BYTES_62.getD (n &&& 0x3f) 0
/-- `encode_53`: `DISK_BYTES_53[(nib5 & 0x1f)]` -/
def encByte53 (n : Nat) : Nat := DISK_BYTES_53.getD (n &&& 0x1f) 0
/-- `decode_62`: `inv[byte]` (byte is a `u8`, the table has 256 rows) -/
def decByte62 (b : Nat) : Nat := INV62.getD b INVALID_NIB_BYTE
def decByte53 (b : Nat) : Nat := INV53.getD b INVALID_NIB_BYTE

/-! ## XOR chain -/

/-- encoder side: emit `x ^ previous`, remember `x`; the last emitted value is the checksum -/
def chain (seed : Nat) : List Nat → List Nat
  | [] => [seed]
  | x :: xs => (x ^^^ seed) :: chain x xs

/-- decoder side: running XOR (`chksum ^= val`), one output per input -/
def scanXor (c : Nat) : List Nat → List Nat
  | [] => []
  | v :: vs => (c ^^^ v) :: scanXor (c ^^^ v) vs

inductive DecErr
  | length        -- not part of the Rust: the model refuses a nibble buffer of the wrong size
  | invalidByte   -- `NibbleError::InvalidByte`
  | badChecksum   -- `NibbleError::BadChecksum`
deriving DecidableEq, Repr

/-! ## 6&2 -/

/-- `(val & 1) << 1 | (val & 2) >> 1` -/
def swap2 (v : Nat) : Nat := ((v &&& 1) <<< 1) ||| ((v &&& 2) >>> 1)

/-- the value that ends up in `twos[85 - i]` after the packing loop (`two_pos_n` runs 85..0 three
times, `two_shift` = 0,2,4; the third pass stops at input index 255) -/
def aux62 (dat : List Nat) (i : Nat) : Nat :=
  swap2 (dat.getD i 0) ||| (swap2 (dat.getD (i + 86) 0) <<< 2) |||
    (if i + 172 < 256 then swap2 (dat.getD (i + 172) 0) <<< 4 else 0)

/-- the 343 six-bit values before the table lookup: twos in reverse order, then `top[i] = val >> 2`,
each XORed with its predecessor, then the checksum -/
def pre62 (dat : List Nat) : List Nat :=
  chain 0 ((List.range 86).map (aux62 dat) ++ (List.range 256).map (fun i => dat.getD i 0 >>> 2))

/-- byte part of `encode_sector_62`: the 343 disk bytes of the data field -/
def enc62 (dat : List Nat) : List Nat := (pre62 dat).map encByte62

/-- the three cases `twos[i]`, `twos[i+86]`, `twos[i+172]` of the decoder -/
def decTwo (c k : Nat) : Nat :=
  match k with
  | 0 => ((c &&& 0x01) <<< 1) ||| ((c &&& 0x02) >>> 1)
  | 1 => ((c &&& 0x04) >>> 1) ||| ((c &&& 0x08) >>> 3)
  | _ => ((c &&& 0x10) >>> 3) ||| ((c &&& 0x20) >>> 5)

/-- byte part of `decode_sector_62` on the 343 latched bytes -/
def dec62 (nibs : List Nat) : Except DecErr (List Nat) :=
  if nibs.length ≠ 343 then .error .length else
  let vals := nibs.map decByte62
  if vals.any (· == INVALID_NIB_BYTE) then .error .invalidByte else
  let cs := scanXor 0 vals
  if cs.getD 342 0 ≠ 0 then .error .badChecksum else
  .ok ((List.range 256).map fun i =>
    ((cs.getD (86 + i) 0 <<< 2) % 256) ||| decTwo (cs.getD (i % 86) 0) (i / 86))

/-! ## 5&3 -/

/-- `top[j]`: for `j < 255`, `j = offset + 51*k` with `offset = 50 - i` holds `dat[5*i+k] >> 3`;
`top[255] = dat[255] >> 3` -/
def top53 (dat : List Nat) (j : Nat) : Nat :=
  if j < 255 then dat.getD (5 * (50 - j % 51) + j / 51) 0 >>> 3 else dat.getD 255 0 >>> 3

/-- `threes[j]`, `j < 153` in three banks of 51, `threes[153] = dat[255] & 7` -/
def threes53 (dat : List Nat) (j : Nat) : Nat :=
  let i := 50 - j % 51
  let d3 := dat.getD (5 * i + 3) 0
  let d4 := dat.getD (5 * i + 4) 0
  if j < 51 then ((dat.getD (5 * i) 0 &&& 0x07) <<< 2) ||| ((d3 &&& 0x04) >>> 1) ||| ((d4 &&& 0x04) >>> 2)
  else if j < 102 then ((dat.getD (5 * i + 1) 0 &&& 0x07) <<< 2) ||| (d3 &&& 0x02) ||| ((d4 &&& 0x02) >>> 1)
  else if j < 153 then ((dat.getD (5 * i + 2) 0 &&& 0x07) <<< 2) ||| ((d3 &&& 0x01) <<< 1) ||| (d4 &&& 0x01)
  else dat.getD 255 0 &&& 0x07

/-- the 411 five-bit values before the table lookup: threes 153..0, top 0..255, checksum -/
def pre53 (dat : List Nat) : List Nat :=
  chain 0 ((List.range 154).map (fun k => threes53 dat (153 - k)) ++ (List.range 256).map (top53 dat))

/-- byte part of `encode_sector_53` -/
def enc53 (dat : List Nat) : List Nat := (pre53 dat).map encByte53

/-- output byte `j` of `decode_sector_53`; `th j = threes[j]`, `bs j = base[j]` -/
def out53 (th bs : Nat → Nat) (j : Nat) : Nat :=
  if j < 255 then
    let i := 50 - j / 5
    let three1 := th i
    let three2 := th (51 + i)
    let three3 := th (102 + i)
    match j % 5 with
    | 0 => bs i ||| ((three1 >>> 2) &&& 0x07)
    | 1 => bs (51 + i) ||| ((three2 >>> 2) &&& 0x07)
    | 2 => bs (102 + i) ||| ((three3 >>> 2) &&& 0x07)
    | 3 => bs (153 + i) ||| ((((three1 &&& 0x02) <<< 1) ||| (three2 &&& 0x02) ||| ((three3 &&& 0x02) >>> 1)) &&& 0x07)
    | _ => bs (204 + i) ||| ((((three1 &&& 0x01) <<< 2) ||| ((three2 &&& 0x01) <<< 1) ||| (three3 &&& 0x01)) &&& 0x07)
  else bs 255 ||| (th 153 &&& 0x07)

/-- byte part of `decode_sector_53` on the 411 latched bytes -/
def dec53 (nibs : List Nat) : Except DecErr (List Nat) :=
  if nibs.length ≠ 411 then .error .length else
  let vals := nibs.map decByte53
  if vals.any (· == INVALID_NIB_BYTE) then .error .invalidByte else
  let cs := scanXor 0 vals
  if cs.getD 410 0 ≠ 0 then .error .badChecksum else
  .ok ((List.range 256).map
    (out53 (fun j => cs.getD (153 - j) 0) (fun j => (cs.getD (154 + j) 0 <<< 3) % 256)))

end A2Verif.Model.Nibble
