import A2Verif.Gen.Skew
import A2Verif.Gen.Disk35
import A2Verif.Gen.C07
/-!
# Address maps of the disk image containers (property C07)

For every container format, the function that takes a file-system `Block` address to the ordered
list of storage pieces the Rust reads/writes, transcribed from each image's `read_block` /
`write_block` / `read_sector` and from `src/bios/skew.rs`, over the GENERATED tables of
`A2Verif.Gen.Skew`, `A2Verif.Gen.Disk35`, `A2Verif.Gen.C07`.

Outcome is three-valued: `ok`, `err` (the Rust returns `Err`), `panic` (index/slice out of range,
explicit `panic!`, division by zero, arithmetic underflow in the debug profile).

Rust ↔ Lean
* `fs::Block::get_lsecs`                (src/fs/mod.rs:79-100)      ↔ `getLsecs`
* `skew::prodos_block_from_ts`          (src/bios/skew.rs:52-56)    ↔ `prodosBlockFromTs`
* `skew::ts_from_prodos_block`          (src/bios/skew.rs:61-107)   ↔ `tsFromProdosBlock`
* `skew::cpm_blocking` / `fat_blocking` (src/bios/skew.rs:113-166)  ↔ `cpmBlocking` / `fatBlocking`
* `DO::read_block/write_block/read_sector` (src/img/dsk_do.rs:60-145) ↔ `doPieces`, `doSectorOffset`
* `PO::read_block/write_block/read_sector` (src/img/dsk_po.rs:59-85)  ↔ `poPieces`, `poSector`
* `D13::…`                              (src/img/dsk_d13.rs:49-90)  ↔ `d13Pieces`, `d13SectorOffset`
* `woz::get_ts_list/read_block/write_block/cyl_head_to_track/read_sector` (src/img/woz.rs:133-240),
  shared by NIB, WOZ1, WOZ2                                         ↔ `wozTsList`, `wozPieces`, `wozSector`
* `Dot2mg::read_block/…` (src/img/dot2mg.rs:144-163): pure delegation to the wrapped DO/PO/NIB
* `Img::read_block/read_sector`         (src/img/dsk_img.rs:66-128) ↔ `imgPieces`, `imgSector`
* `Imd`/`Td0` `read_block/write_block/read_sector/check_user_area_up_to_cyl/get_skew/Track::create`
  (src/img/imd.rs:107-160,372-531; src/img/td0.rs:358-400,545-717)  ↔ `TrackRec`, `geom`, `ibmPieces`, `ibmSector`
-/
namespace A2Verif.Model.AddrMap
open A2Verif.Gen
open A2Verif.Gen.C07 (Layout LayoutName)

/-- result of a Rust call: value, `Err(..)`, or panic -/
inductive Out (α : Type) where
  | ok : α → Out α
  | err : Out α
  | panic : Out α
deriving DecidableEq, Repr

namespace Out
def bind {α β : Type} : Out α → (α → Out β) → Out β
  | ok a, f => f a
  | err, _ => err
  | panic, _ => panic
instance : Monad Out where
  pure := Out.ok
  bind := Out.bind
def isOk {α : Type} : Out α → Bool
  | ok _ => true
  | _ => false
/-- map with early exit, in list order (the order in which the Rust loop visits the pieces) -/
def mapM' {α β : Type} (f : α → Out β) : List α → Out (List β)
  | [] => ok []
  | a :: as =>
    match f a with
    | ok b => (match mapM' f as with
               | ok bs => ok (b :: bs)
               | err => err
               | panic => panic)
    | err => err
    | panic => panic
end Out
open Out (ok err panic)

/-- Rust slice/array indexing `xs[i]` -/
def idx (xs : List Nat) (i : Nat) : Out Nat :=
  match xs[i]? with
  | some v => ok v
  | none => panic

/-- `fs::Block` -/
inductive Block where
  | d13 (t s : Nat)
  | dos (t s : Nat)
  | po (b : Nat)
  | cpm (b bsh off : Nat)
  | fat (sec1 secs : Nat)
deriving DecidableEq, Repr

/-- the `DiskKind` values the Apple containers distinguish -/
inductive AKind where
  | dos32 | dos33 | a400 | a800 | other
deriving DecidableEq, Repr

/-! ## src/fs/mod.rs, src/bios/skew.rs -/

/-- `Block::get_lsecs(secs_per_track)`; CP/M logical sectors are numbered from 1 -/
def getLsecs (blk : Block) (spt : Nat) : Out (List (Nat × Nat)) :=
  match blk with
  | .d13 t s => ok [(t, s)]
  | .dos t s => ok [(t, s)]
  | .po _ => panic
  | .cpm b bsh off =>
    if bsh ≥ 64 then panic            -- `1 << bsh` on usize
    else if spt = 0 then panic        -- division by zero (the range is never empty)
    else ok ((List.range (2 ^ bsh)).map fun k =>
      let c := b * 2 ^ bsh + k
      (off + c / spt, 1 + c % spt))
  | .fat s1 n =>
    if n = 0 then ok []
    else if spt = 0 then panic
    else ok ((List.range n).map fun k => ((s1 + k) / spt, (s1 + k) % spt))

/-- `prodos_block_from_ts(track, logical sector)` = (block, byte offset in block) -/
def prodosBlockFromTs (track sector : Nat) : Out (Nat × Nat) := do
  let bo ← idx Skew.block_offset sector
  let by' ← idx Skew.byte_offset sector
  pure (8 * track + bo, by')

/-- zone selection of `ts_from_prodos_block` for 3.5 inch disks (`bounds` = `ZONE_BOUNDS_1/2`) -/
def zoneOf (bounds : List Nat) (block : Nat) : Out Nat := do
  let b1 ← idx bounds 1
  if block < b1 then pure 0 else
  let b2 ← idx bounds 2
  if block < b2 then pure 1 else
  let b3 ← idx bounds 3
  if block < b3 then pure 2 else
  let b4 ← idx bounds 4
  if block < b4 then pure 3 else
  let b5 ← idx bounds 5
  if block < b5 then pure 4 else err

/-- `ts_from_prodos_block(block, kind)`: ordered (track, *logical* sector) pairs -/
def tsFromProdosBlock (block : Nat) (kind : AKind) : Out (List (Nat × Nat)) :=
  match kind with
  | .dos33 => do
    let s1 ← idx Skew.sector1 (block % 8)
    let s2 ← idx Skew.sector2 (block % 8)
    pure [(block / 8, s1), (block / 8, s2)]
  | .a400 => do
    let zone ← zoneOf Disk35.ZONE_BOUNDS_1 block
    let zb ← idx Disk35.ZONE_BOUNDS_1 zone
    let spt ← idx Disk35.ZONED_SECS_PER_TRACK zone
    if spt = 0 then panic else
    pure [(16 * zone + (block - zb) / spt, (block - zb) % spt)]
  | .a800 => do
    let zone ← zoneOf Disk35.ZONE_BOUNDS_2 block
    let zb ← idx Disk35.ZONE_BOUNDS_2 zone
    let spt ← idx Disk35.ZONED_SECS_PER_TRACK zone
    if spt = 0 then panic else
    pure [(32 * zone + (block - zb) / spt, (block - zb) % spt)]
  | _ => err

/-- loop of `cpm_blocking` (state: current track, answer so far) -/
def cpmBlockingLoop (m heads : Nat) : List (Nat × Nat) → Nat → List (Nat × Nat × Nat) → Out (List (Nat × Nat × Nat))
  | [], _, acc => ok acc.reverse
  | (t, l) :: rest, track, acc =>
    if l = 0 then panic else       -- `lsec-1` underflows
    let track := if (l - 1) % m = 0 then t else track
    if l % m = 0 then
      let cyl := track / heads
      let head := if heads = 1 then 0 else track % heads
      cpmBlockingLoop m heads rest track ((cyl, head, 1 + (l - 1) / m) :: acc)
    else if t ≠ track then err
    else cpmBlockingLoop m heads rest track acc

/-- `cpm_blocking(ts_list, sec_shift, heads)`: hybrid (cyl, head, 1-based logical *physical-size* sector) list -/
def cpmBlocking (ts : List (Nat × Nat)) (ssh heads : Nat) : Out (List (Nat × Nat × Nat)) :=
  if ssh ≥ 64 then panic else
  let m := 2 ^ ssh
  if ts.length % m ≠ 0 then err else
  match ts with
  | [] => panic
  | (_, l0) :: _ =>
    if l0 = 0 then panic
    else if (l0 - 1) % m ≠ 0 then err
    else if heads < 1 then err
    else cpmBlockingLoop m heads ts 0 []

/-- `fat_blocking(ts_list, heads)` -/
def fatBlocking (ts : List (Nat × Nat)) (heads : Nat) : Out (List (Nat × Nat × Nat)) :=
  if heads < 1 then err
  else ok (ts.map fun (t, l) => (t / heads, (if heads = 1 then 0 else t % heads), 1 + l))

/-! ## flat Apple containers: pieces are (byte offset in `data`, length) -/

/-- slice `data[off..off+len]` of a buffer of `cap` bytes -/
def slice (cap off len : Nat) : Out (Nat × Nat) :=
  if off + len ≤ cap then ok (off, len) else panic

/-- `DO::sector_offset(t, s)`: byte offset of a *logical* sector, refused outside the image -/
def doLsecOffset (tracks sectors t s : Nat) : Out Nat :=
  if t ≥ tracks ∨ s ≥ sectors then err
  else ok (t * sectors * C07.DO_SECTOR_SIZE + s * C07.DO_SECTOR_SIZE)

/-- `DO::read_block` / `write_block` (same pieces, `write` pads/truncates the data to their total length;
`write_block` checks every piece before writing any, which refuses exactly the same addresses) -/
def doPieces (tracks sectors : Nat) (kind : AKind) (blk : Block) : Out (List (Nat × Nat)) :=
  let cap := tracks * sectors * C07.DO_SECTOR_SIZE
  match blk with
  | .d13 _ _ => err
  | .dos t s => do
    let o ← doLsecOffset tracks sectors t s
    let p ← slice cap o C07.DO_SECTOR_SIZE
    pure [p]
  | .po b => do
    let ts ← tsFromProdosBlock b kind
    Out.mapM' (fun (t, s) => do
      let o ← doLsecOffset tracks sectors t s
      slice cap o C07.DO_SECTOR_SIZE) ts
  | .cpm _ _ _ => do
    let ts ← getLsecs blk 32
    Out.mapM' (fun (t, l) => do
      if l = 0 then panic else
      let dsec ← idx Skew.CPM_LSEC_TO_DOS_LSEC (l - 1)
      let base ← doLsecOffset tracks sectors t dsec
      let o ← idx Skew.CPM_LSEC_TO_DOS_OFFSET (l - 1)
      slice cap (base + o) C07.DO_CPM_RECORD) ts
  | .fat _ _ => err

/-- `DO::read_sector(cyl, head, sec)`: byte offset of the 256-byte *physical* sector -/
def doSectorOffset (tracks sectors cyl head sec : Nat) : Out Nat :=
  if cyl ≥ tracks ∨ head > 0 ∨ sec ≥ sectors then err else do
  let l ← idx Skew.DOS_PSEC_TO_DOS_LSEC sec
  let p ← slice (tracks * sectors * C07.DO_SECTOR_SIZE) ((cyl * sectors + l) * C07.DO_SECTOR_SIZE) C07.DO_SECTOR_SIZE
  pure p.1

/-- `PO::read_block` / `write_block` -/
def poPieces (blocks : Nat) (blk : Block) : Out (List (Nat × Nat)) :=
  match blk with
  | .po b =>
    if b ≥ blocks * C07.PO_BLOCK_SIZE / C07.PO_BLOCK_SIZE then err      -- `block >= data.len()/BLOCK_SIZE`
    else do
      let p ← slice (blocks * C07.PO_BLOCK_SIZE) (b * C07.PO_BLOCK_SIZE) C07.PO_BLOCK_SIZE
      pure [p]
  | _ => err

/-- `PO::read_sector`: a logical disk cannot access sectors -/
def poSector (_cyl _head _sec : Nat) : Out Nat := err

/-- `D13::read_block` / `write_block` -/
def d13Pieces (tracks : Nat) (blk : Block) : Out (List (Nat × Nat)) :=
  match blk with
  | .d13 t s =>
    if t ≥ tracks ∨ s > 12 then err else do
    let p ← slice (tracks * 13 * C07.D13_SECTOR_SIZE) (t * C07.D13_TRACK_SIZE + s * C07.D13_SECTOR_SIZE) C07.D13_SECTOR_SIZE
    pure [p]
  | _ => err

/-- `D13::read_sector` -/
def d13SectorOffset (tracks cyl head sec : Nat) : Out Nat :=
  if cyl ≥ tracks ∨ head > 0 ∨ sec > 12 then err else do
  let p ← slice (tracks * 13 * C07.D13_SECTOR_SIZE) (cyl * C07.D13_TRACK_SIZE + sec * C07.D13_SECTOR_SIZE) C07.D13_SECTOR_SIZE
  pure p.1

/-! ## nibble containers (NIB, WOZ1, WOZ2): pieces are (track, sector id in the address field) -/

/-- `woz::get_ts_list(addr, kind)`: ordered *physical* track-sector list and sector size -/
def wozTsList (blk : Block) (kind : AKind) : Out (List (Nat × Nat) × Nat) :=
  match blk with
  | .d13 t s => if s ≥ 13 then err else ok ([(t, s)], 256)
  | .dos t s =>
    if s ≥ 16 then err else do
    let p ← idx Skew.DOS_LSEC_TO_DOS_PSEC s
    pure ([(t, p)], 256)
  | .po b => do
    let ans ← tsFromProdosBlock b kind
    match kind with
    | .dos33 =>
      match ans with
      | [(t0, s0), (t1, s1)] => do
        let p0 ← idx Skew.DOS_LSEC_TO_DOS_PSEC s0
        let p1 ← idx Skew.DOS_LSEC_TO_DOS_PSEC s1
        pure ([(t0, p0), (t1, p1)], 256)
      | _ => panic
    | _ => pure (ans, 524)
  | .cpm _ _ _ => do
    let lsecs ← getLsecs blk 32
    let ans ← Out.mapM' (fun (t, l) => do
        if l = 0 then panic else
        let p ← idx Skew.CPM_LSEC_TO_DOS_PSEC (l - 1)
        pure (t, p)) (lsecs.filter fun (_, l) => l % 2 = 0)
    pure (ans, 256)
  | .fat _ _ => err

/-- `woz::read_block` / `write_block`: the (track as u8, sector as u8) list handed to the track engine
and the number of data bytes each sector contributes to the block (524-byte sectors lose 12 tag bytes) -/
def wozPieces (numTracks : Nat) (kind : AKind) (blk : Block) : Out (List (Nat × Nat) × Nat) := do
  let (ts, secLen) ← wozTsList blk kind
  match ts with
  | [] => panic
  | (t0, _) :: _ =>
    if t0 ≥ numTracks then err
    else pure (ts.map (fun (t, s) => (t % 256, s % 256)), if secLen = 524 then 512 else secLen)

/-- `woz::cyl_head_to_track` + `read_sector`: (track, sector id) of physical sector (cyl, head, sec) -/
def wozSector (numTracks : Nat) (kind : AKind) (cyl head sec : Nat) : Out (Nat × Nat) :=
  let (track, heads) := match kind with
    | .a400 => (cyl, 1)
    | .a800 => (2 * cyl + head, 2)
    | _ => (cyl, 1)
  if head ≥ heads then err
  else if track ≥ numTracks then err
  else if sec > 255 then err
  else ok (track % 256, sec % 256)

/-! ## IBM containers (IMG, IMD, TD0): pieces are (cylinder, head, sector id) -/

def lat (xs : List Nat) (i : Nat) : Nat := (xs[i]?).getD 0   -- fixed `[usize;5]`, `i < 5` at every use

/-- `TrackLayout::sides()` -/
def _root_.A2Verif.Gen.C07.Layout.sidesMax (l : Layout) : Nat := l.sides.foldl max 0
/-- `TrackLayout::track_count()` -/
def _root_.A2Verif.Gen.C07.Layout.trackCount (l : Layout) : Nat :=
  (List.range 5).foldl (fun a i => a + lat l.cylinders i * lat l.sides i) 0
/-- `TrackLayout::zones()` -/
def _root_.A2Verif.Gen.C07.Layout.zones (l : Layout) : Nat :=
  match (List.range 5).find? (fun i => lat l.cylinders i = 0) with
  | some i => i
  | none => 5
/-- `TrackLayout::zone(track_num)` -/
def _root_.A2Verif.Gen.C07.Layout.zone (l : Layout) (t : Nat) : Nat :=
  let c := fun i => lat l.cylinders i * lat l.sides i
  if t < c 0 then 0
  else if t < c 0 + c 1 then 1
  else if t < c 0 + c 1 + c 2 then 2
  else if t < c 0 + c 1 + c 2 + c 3 then 3
  else 4

/-- the `while temp > 128 { temp /= 2; shift += 1 }` loop of `Track::create` / `Sector::create` -/
def shiftOf (size : Nat) : Nat := go size 0 16
where go (temp shift : Nat) : Nat → Nat
  | 0 => shift
  | fuel + 1 => if temp > 128 then go (temp / 2) (shift + 1) fuel else shift

inductive Ibm where
  | img | imd | td0
deriving DecidableEq, Repr

/-- what `read_block`/`read_sector` consult of one IMD/TD0 track record -/
structure TrackRec where
  cyl : Nat
  head : Nat
  nsec : Nat          -- IMD `sectors` field / TD0 `sectors.len()`
  shift : Nat
  ids : List Nat      -- sector ids in storage order
deriving DecidableEq, Repr

/-- `sector_map` selection of `Track::create` from the generated arms -/
def sectorMap (arms : List (LayoutName × Nat × List (Option Nat × List Nat))) (ln : LayoutName) (t : Nat) : List Nat :=
  match arms.find? (fun a => a.1 = ln) with
  | none => (List.range (lat ln.layout.sectors 0)).map (· + 1)
  | some (_, sel, sub) =>
    let key := if sel = 1 then t % 2 else t
    match sub.find? (fun s => sel = 0 ∨ s.1 = none ∨ s.1 = some key) with
    | some (_, ids) => ids
    | none => []

/-- `imd::Track::create(track_num, layout)` / `td0::Track::create` restricted to the addressing fields.
TD0 builds `header.sectors` sector records from the first entries of the map (index panic if the
map is shorter: not representable here, `geomOk` states it never happens). -/
def trackRec (c : Ibm) (ln : LayoutName) (t : Nat) : TrackRec :=
  let l := ln.layout
  let z := l.zone t
  let sides := lat l.sides z
  let n := lat l.sectors z
  let arms := match c with
    | .td0 => C07.td0MapArms
    | _ => C07.imdMapArms
  let map := sectorMap arms ln t
  { cyl := t / sides, head := t % sides, nsec := n, shift := shiftOf (lat l.sectorSize z),
    ids := match c with
      | .td0 => map.take n
      | _ => map }

/-- `Imd::create(kind)` / `Td0::create(kind)`: the track records -/
def geom (c : Ibm) (ln : LayoutName) : List TrackRec :=
  (List.range ln.layout.trackCount).map (trackRec c ln)

/-- `get_skew(head)` from the generated canonical table (rows: head 0, head 1, any other head) -/
def getSkew (tbl : List (LayoutName × List (Option (List Nat)))) (ln : LayoutName) (head : Nat) : Out (List Nat) :=
  match tbl.find? (fun a => a.1 = ln) with
  | some (_, rows) =>
    match rows[min head 2]? with
    | some (some ids) => ok ids
    | _ => err
  | none => err

def skewArms : Ibm → List (LayoutName × List (Option (List Nat)))
  | .td0 => C07.td0Skew
  | _ => C07.imdSkew

/-- `check_user_area_up_to_cyl(cyl, off)` -/
def checkUserArea (g : List TrackRec) (heads cyl off : Nat) : Out Unit :=
  match g[off]? with
  | none => panic
  | some t0 =>
    if cyl * heads ≥ g.length then err
    else if ((List.range (cyl * heads + 1 - off)).all fun k =>
        match g[off + k]? with
        | some t => t.nsec = t0.nsec ∧ t.shift = t0.shift
        | none => false) then ok ()
    else err

/-- `Imd::read_sector(cyl, head, sec)` / `Td0::read_sector`: the first track record with that
cylinder and head must list the id; answer = sector size in bytes -/
def geomSector (g : List TrackRec) (cyl head sec : Nat) : Out Nat :=
  match g.find? (fun t => t.cyl = cyl ∧ t.head = head) with
  | none => err
  | some t => if t.ids.contains sec then ok (128 * 2 ^ t.shift) else err

/-- core of `Imd::read_block` / `Td0::read_block` over a geometry; `spt8` says whether
`secs_per_track << sector_shift` is computed in `u8` (IMD) or `usize` (TD0) -/
def geomPieces (g : List TrackRec) (heads : Nat) (arms : List (LayoutName × List (Option (List Nat))))
    (spt8 : Bool) (ln : LayoutName) (blk : Block) : Out (List (Nat × Nat × Nat × Nat)) :=
  match blk with
  | .cpm _ _ off =>
    match g[off]? with
    | none => panic
    | some t0 => do
      let spt := if spt8 then (t0.nsec * 2 ^ t0.shift) % 256 else t0.nsec * 2 ^ t0.shift
      let ts ← getLsecs blk spt
      let chs ← cpmBlocking ts t0.shift heads
      Out.mapM' (fun (cyl, head, lsec) => do
        checkUserArea g heads cyl off
        let sk ← getSkew arms ln head
        if lsec = 0 then panic else
        let id ← idx sk (lsec - 1)
        let len ← geomSector g cyl head id
        pure (cyl, head, id, len)) chs
  | .fat _ _ =>
    match g[0]? with
    | none => panic
    | some t0 => do
      let ts ← getLsecs blk t0.nsec
      let chs ← fatBlocking ts heads
      Out.mapM' (fun (cyl, head, lsec) => do
        checkUserArea g heads cyl 0
        let len ← geomSector g cyl head lsec
        pure (cyl, head, lsec, len)) chs
  | _ => err

/-- `Img::read_sector(cyl, head, sec)`: byte offset in `data`; single-zone layouts only (`Img::create` panics otherwise) -/
def imgSector (ln : LayoutName) (cyl head sec : Nat) : Out (Nat × Nat) :=
  let l := ln.layout
  let heads := l.sidesMax
  let cyls := lat l.cylinders 0
  let secs := lat l.sectors 0
  let size := lat l.sectorSize 0
  let track := cyl * heads + head
  if head ≥ heads ∨ track ≥ cyls * heads ∨ sec < 1 ∨ sec > secs then err
  else slice (l.trackCount * secs * size) ((track * secs + sec - 1) * size) size

/-- pieces (cyl, head, sector id, length) of a block in an IBM container created for layout `ln` -/
def ibmPieces (c : Ibm) (ln : LayoutName) (blk : Block) : Out (List (Nat × Nat × Nat × Nat)) :=
  match c with
  | .img =>
    match blk with
    | .fat _ _ => do
      let ts ← getLsecs blk (lat ln.layout.sectors 0)
      let chs ← fatBlocking ts ln.layout.sidesMax
      Out.mapM' (fun (cyl, head, lsec) => do
        let p ← imgSector ln cyl head lsec
        pure (cyl, head, lsec, p.2)) chs
    | _ => err
  | .imd => geomPieces (geom .imd ln) ln.layout.sidesMax (skewArms .imd) true ln blk
  | .td0 => geomPieces (geom .td0 ln) ln.layout.sidesMax (skewArms .td0) false ln blk

/-- physical sector lookup `read_sector(cyl, head, sec)` = sector length, in an IBM container -/
def ibmSector (c : Ibm) (ln : LayoutName) (cyl head sec : Nat) : Out Nat :=
  match c with
  | .img => do
    let p ← imgSector ln cyl head sec
    pure p.2
  | _ => geomSector (geom c ln) cyl head sec

/-! ## Normal forms for the Apple 5.25 inch 16-sector kind

Normal-form address = (track, *physical* sector, half): one 128-byte unit.  "Physical sector `p` of
track `t`" is what `read_sector(t, 0, p)` of the respective container returns. -/

abbrev NAddr := Nat × Nat × Nat

/-- split pieces `(base, len)` into 128-byte units `base + 128 k` (requires alignment) -/
def chunks128 (ps : List (Nat × Nat)) : Out (List Nat) := do
  let xs ← Out.mapM' (fun (o, len) =>
    if o % 128 = 0 ∧ len % 128 = 0 then ok ((List.range (len / 128)).map fun k => o + 128 * k) else panic) ps
  pure xs.flatten

/-- 128-byte units of a block in a 35-track DO image, as flat offsets in data order -/
def doChunks (blk : Block) : Out (List Nat) := do
  let ps ← doPieces 35 16 .dos33 blk
  chunks128 ps

/-- 128-byte units of a block in a 280-block PO image -/
def poChunks (blk : Block) : Out (List Nat) := do
  let ps ← poPieces 280 blk
  chunks128 ps

/-- 128-byte units of a block in a 35-track nibble image (NIB, WOZ1, WOZ2), in data order -/
def nibNorm (blk : Block) : Out (List NAddr) := do
  let (ts, len) ← wozPieces 35 .dos33 blk
  if len ≠ 256 then panic else
  pure (ts.map fun (t, p) => [(t, p, 0), (t, p, 1)]).flatten

/-- where a DO image keeps normal-form unit `(t, p, h)`: `read_sector(t,0,p)[128 h ..]` -/
def doOffsetOf (a : NAddr) : Out Nat := do
  let o ← doSectorOffset 35 16 a.1 0 a.2.1
  if a.2.2 < 2 then pure (o + 128 * a.2.2) else err

/-- inverse of `doOffsetOf` (proved in `Props.C07`): the normal-form unit kept at flat offset `q` -/
def doNormOfFlat (q : Nat) : Out NAddr := do
  let p ← idx Skew.DOS_LSEC_TO_DOS_PSEC ((q / 256) % 16)
  pure (q / 4096, p, (q / 128) % 2)

/-- where a PO image keeps normal-form unit `(t, p, h)`, by the standard ProDOS interleave
`prodos_block_from_ts` applied to the logical sector of `p` -/
def poOffsetOf (a : NAddr) : Out Nat := do
  let l ← idx Skew.DOS_PSEC_TO_DOS_LSEC a.2.1
  let (b, o) ← prodosBlockFromTs a.1 l
  if a.2.2 < 2 then pure (b * 512 + o + 128 * a.2.2) else err

/-- inverse of `poOffsetOf` (proved in `Props.C07`), through `ts_from_prodos_block` -/
def poNormOfFlat (q : Nat) : Out NAddr := do
  let ts ← tsFromProdosBlock (q / 512) .dos33
  match ts[(q % 512) / 256]? with
  | none => panic
  | some (t, l) => do
    let p ← idx Skew.DOS_LSEC_TO_DOS_PSEC l
    pure (t, p, (q / 128) % 2)

def doNorm (blk : Block) : Out (List NAddr) := do
  let qs ← doChunks blk
  Out.mapM' doNormOfFlat qs

def poNorm (blk : Block) : Out (List NAddr) := do
  let qs ← poChunks blk
  Out.mapM' poNormOfFlat qs

/-! ## 3.5 inch disks: normal-form address = (track, sector), one 512-byte unit -/

/-- inverse of `ts_from_prodos_block` on 3.5 inch disks with `sides` sides (proved in `Props.C07`) -/
def blockFromTs35 (sides : Nat) (t s : Nat) : Out Nat := do
  let bounds := if sides = 1 then Disk35.ZONE_BOUNDS_1 else Disk35.ZONE_BOUNDS_2
  let z := t / (16 * sides)
  let zb ← idx bounds z
  let spt ← idx Disk35.ZONED_SECS_PER_TRACK z
  if s < spt then pure (zb + (t - 16 * sides * z) * spt + s) else err

end A2Verif.Model.AddrMap
