/-!
# Model of BASIC renumbering (property C16)

Transcription of

* `src/lang/linenum.rs`            `apply_mapping` (21-26), `Renumber::build_edits` (66-220)
* `src/lang/applesoft/renumber.rs` `Renumberer::renumber` (140-183)   (Applesoft: `max_num = 63999`)
* `src/lang/integer/renumber.rs`   `Renumberer::renumber` (148-191)   (Integer:   `max_num = 32767`)
* `src/lang/mod.rs`                `replace_range` (530-566), `apply_edits` (572-599)

The tree-sitter parser is a **parameter**: the model receives what `gather_defs(source,0)` and
`gather_refs(source,0)` returned, flattened in encounter order (row by row, left to right) as
`List (Nat × Label)`.  The two further gathers the Rust performs on the *selected text* are the
restriction of these lists to the selected rows (the parser is called line by line and is assumed to be
a deterministic function of the line, DESIGN §5).

Text is `List Nat` (one element per `char`; the model is exact for ASCII, where Rust's byte offsets used by
`String::replace_range` and the character counts used to compute them coincide).

Outcomes are three-valued (`ok/err/panic`): `err` is every `Err(..)` of the Rust (the wording is not
observable through `renumber`, which maps everything to `Error::LineNumber`), `panic` is an index /
arithmetic-overflow / `replace_range` panic of the debug profile.
-/
namespace A2Verif.Model.Renumber

/-! ## basic types -/

/-- `lsp_types::Position` -/
structure Pos where
  line : Nat
  ch : Nat
  deriving DecidableEq, Repr, Inhabited

/-- `lsp_types::Range` -/
structure Range where
  s : Pos
  e : Pos
  deriving DecidableEq, Repr, Inhabited

/-- `linenum::LabelInformation` -/
structure Label where
  rng : Range
  lead : Nat
  trail : Nat
  deriving DecidableEq, Repr, Inhabited

/-- `lsp_types::TextEdit` -/
structure Edit where
  rng : Range
  new : List Nat
  deriving DecidableEq, Repr, Inhabited

inductive Res (α : Type) where
  | ok (a : α)
  | err
  | panic
  deriving DecidableEq, Repr

def Res.bind {α β : Type} (r : Res α) (f : α → Res β) : Res β :=
  match r with
  | .ok a => f a
  | .err => .err
  | .panic => .panic

def LF : Nat := 10
def CR : Nat := 13
def SP : Nat := 32

/-! ## strings -/

/-- `str::lines()` (Rust ≥ 1.77): split after every `\n`, strip that `\n` and one `\r` in front of it; a
trailing piece without `\n` is a line unless it is empty. -/
def splitLines : List Nat → List (List Nat)
  | [] => []
  | 13 :: 10 :: cs => [] :: splitLines cs
  | c :: cs =>
    if c = 10 then [] :: splitLines cs
    else match splitLines cs with
      | [] => [[c]]
      | l :: ls => (c :: l) :: ls

/-- `s.replace("\r\n","\n")` -/
def crlfToLf : List Nat → List Nat
  | [] => []
  | 13 :: 10 :: cs => 10 :: crlfToLf cs
  | c :: cs => c :: crlfToLf cs

/-- `s.replace("\n","\r\n")` -/
def lfToCrlf : List Nat → List Nat
  | [] => []
  | c :: cs => if c = 10 then 13 :: 10 :: lfToCrlf cs else c :: lfToCrlf cs

/-- number of non-overlapping `\r\n` (so `split("\r\n").count() = countCrlf + 1`) -/
def countCrlf : List Nat → Nat
  | [] => 0
  | 13 :: 10 :: cs => countCrlf cs + 1
  | _ :: cs => countCrlf cs

/-- number of `\n` (so `split("\n").count() = countLf + 1`) -/
def countLf : List Nat → Nat
  | [] => 0
  | c :: cs => (if c = 10 then 1 else 0) + countLf cs

/-- `char::is_whitespace` restricted to ASCII -/
def isWs (c : Nat) : Bool := c = 32 || (9 ≤ c && c ≤ 13)

/-- `line.trim_start().len()==0` / `line.trim().len()==0` -/
def isBlank (l : List Nat) : Bool := l.all isWs

def digitsAux : Nat → Nat → List Nat → List Nat
  | 0, _, acc => acc
  | fuel + 1, n, acc =>
    if n < 10 then (48 + n) :: acc else digitsAux fuel (n / 10) ((48 + n % 10) :: acc)

/-- `n.to_string()` as ASCII codes -/
def digits (n : Nat) : List Nat := digitsAux (n + 1) n []

/-! ## `replace_range` and `apply_edits` (lang/mod.rs) -/

/-- the `for line in doc.lines()` loop of `replace_range`; state `(start_char,end_char,found_start,found_end)` -/
def scan (rng : Range) : List (List Nat) → (curr sc ec : Nat) → (fs : Bool) → Nat × Nat × Bool × Bool
  | [], _, sc, ec, fs => (sc, ec, fs, false)
  | line :: rest, curr, sc, ec, fs =>
    let (sc, fs) := if rng.s.line = curr then (sc + rng.s.ch, true) else (sc, fs)
    let sc := if !fs then sc + (line.length + 1) else sc
    if rng.e.line = curr then (sc, ec + rng.e.ch, fs, true)
    else scan rng rest (curr + 1) sc (ec + (line.length + 1)) fs

/-- `replace_range(doc, rng, raw_new)`; `String::replace_range(a..b)` panics when `a > b` or `b > len` -/
def replaceRange (doc : List Nat) (rng : Range) (rawNew : List Nat) : Res (List Nat) :=
  let new := crlfToLf rawNew
  let lines := splitLines doc
  let (sc, ec, fs, fe) := scan rng lines 0 0 0 false
  if fs && fe then
    if sc ≤ ec ∧ ec ≤ doc.length then .ok (doc.take sc ++ new ++ doc.drop ec) else .panic
  else
    let lc := lines.length
    if rng.s.line = lc ∧ rng.s.ch = 0 ∧ rng.e.line = lc ∧ rng.e.ch = 0 then .ok (doc ++ new) else .err

/-- key of the `BTreeMap<(u32,u32,u32),TextEdit>` in `apply_edits` -/
def keyLe (a b : (Nat × Nat × Nat) × Edit) : Bool :=
  let (l1, c1, i1) := a.1
  let (l2, c2, i2) := b.1
  l1 < l2 || (l1 = l2 && (c1 < c2 || (c1 = c2 && i1 ≤ i2)))

def keyed (es : List Edit) : List ((Nat × Nat × Nat) × Edit) :=
  (es.zipIdx).map (fun (e, i) => ((e.rng.s.line, e.rng.s.ch, i), e))

/-- insertion into the `BTreeMap` (keys are unique because of the index component) -/
def insertKey (x : (Nat × Nat × Nat) × Edit) : List ((Nat × Nat × Nat) × Edit) → List ((Nat × Nat × Nat) × Edit)
  | [] => [x]
  | y :: ys => if keyLe x y then x :: y :: ys else y :: insertKey x ys

def sortKeys (xs : List ((Nat × Nat × Nat) × Edit)) : List ((Nat × Nat × Nat) × Edit) :=
  xs.foldr insertKey []

/-- edits in the order `apply_edits` applies them: descending `(start.line,start.character,idx)` -/
def sortDesc (es : List Edit) : List Edit :=
  ((sortKeys (keyed es)).map (·.2)).reverse

/-- the `for edit in sorted.values().rev()` loop; `line - row` is a `u32` subtraction -/
def applyLoop (row : Nat) : List Edit → List Nat → Res (List Nat)
  | [], ans => .ok ans
  | e :: es, ans =>
    if e.rng.s.line < row ∨ e.rng.e.line < row then .panic
    else
      (replaceRange ans ⟨⟨e.rng.s.line - row, e.rng.s.ch⟩, ⟨e.rng.e.line - row, e.rng.e.ch⟩⟩ e.new).bind
        (applyLoop row es)

/-- `apply_edits(doc, edits, row)` -/
def applyEdits (doc : List Nat) (edits : List Edit) (row : Nat) : Res (List Nat) :=
  let crlf := countCrlf doc == countLf doc
  (applyLoop row (sortDesc edits) (crlfToLf doc)).bind fun ans =>
    .ok (if crlf then lfToCrlf ans else ans)

/-! ## `build_edits` (lang/linenum.rs) -/

/-- `apply_mapping(new_num, info)` -/
def applyMapping (newNum : Nat) (info : Label) : Edit :=
  ⟨info.rng, List.replicate info.lead SP ++ digits newNum ++ List.replicate info.trail SP⟩

/-- insertion into `BTreeMap<usize,Vec<LabelInformation>>` as done by `push_linenum` -/
def insertGrouped (k : Nat) (v : Label) : List (Nat × List Label) → List (Nat × List Label)
  | [] => [(k, [v])]
  | (k', vs) :: rest =>
    if k < k' then (k, [v]) :: (k', vs) :: rest
    else if k = k' then (k', vs ++ [v]) :: rest
    else (k', vs) :: insertGrouped k v rest

/-- the map a gather returns: keys ascending, values in encounter order -/
def group (xs : List (Nat × Label)) : List (Nat × List Label) :=
  xs.foldl (fun m kv => insertGrouped kv.1 kv.2 m) []

/-- label lies on the selected rows (what gathering on `sel_txt` sees) -/
def inSel (sel : Range) (l : Label) : Bool :=
  sel.s.line ≤ l.rng.s.line && l.rng.s.line ≤ sel.e.line

/-- `mapping`: k-th selected primary (ascending) ↦ `l0 + k*dl` -/
def mkMapping (l0 dl : Nat) : List Nat → List (Nat × Nat)
  | [] => []
  | k :: ks => (k, l0) :: mkMapping (l0 + dl) dl ks

def lookup (m : List (Nat × Nat)) (k : Nat) : Option Nat :=
  (m.find? (fun p => p.1 == k)).map (·.2)

/-- the `for (primary,info) in &all_primaries` loop (linenum.rs 132-146); `none` = an `Err` return,
`some ins` = `insert_pos.line` after the loop -/
def checkLoop (sel : Range) (l0 ln : Nat) : List (Nat × List Label) → Nat → Option Nat
  | [], ins => some ins
  | (p, info) :: rest, ins =>
    match info with
    | [i0] =>
      if sel.s.line ≤ i0.rng.s.line && i0.rng.e.line ≤ sel.e.line then checkLoop sel l0 ln rest ins
      else
        let ins := if p < l0 && ins ≤ i0.rng.s.line then i0.rng.s.line + 1 else ins
        if l0 ≤ p && p ≤ ln then none else checkLoop sel l0 ln rest ins
    | _ => none

/-- the blank-line loop (linenum.rs 148-152) -/
def pushBlank : List (List Nat) → (row ins : Nat) → Nat
  | [], _, ins => ins
  | line :: rest, row, ins =>
    pushBlank rest (row + 1) (if ins = row && isBlank line then ins + 1 else ins)

/-- edits for the primaries of the selection (linenum.rs 167-171) -/
def primEdits (mapping : List (Nat × Nat)) (selPrim : List (Nat × List Label)) : List Edit :=
  selPrim.flatMap fun (p, info) =>
    match lookup mapping p, info with
    | some n, i0 :: _ => [applyMapping n i0]
    | _, _ => []

/-- edits for secondaries (linenum.rs 173-179 and 185-193) restricted by `keep` -/
def secEdits (mapping : List (Nat × Nat)) (secs : List (Nat × List Label)) (keep : Label → Bool) : List Edit :=
  secs.flatMap fun (s, info) =>
    info.flatMap fun item =>
      match lookup mapping s with
      | some n => if keep item then [applyMapping n item] else []
      | none => []

structure Params where
  l0 : Nat          -- start
  dl : Nat          -- step
  updateRefs : Bool
  allowMove : Bool
  minNum : Nat
  maxNum : Nat
  deriving Repr

def rangeList (a b : Nat) : List Nat := (List.range (b + 1 - a)).map (· + a)

/-- `sel_primaries` / `sel_secondaries`: the gather restricted to the selected rows -/
def selGroup (sel : Range) (xs : List (Nat × Label)) : List (Nat × List Label) :=
  group (xs.filter fun d => inSel sel d.2)

/-- `ext_sel` normalisation (linenum.rs 84-94) -/
def normSel (lines : List (List Nat)) (endPos : Pos) : Option Range → Res Range
  | some raw =>
    if raw.e.ch = 0 ∧ raw.e.line > raw.s.line then
      match lines[raw.e.line - 1]? with
      | some l => .ok ⟨raw.s, ⟨raw.e.line - 1, l.length⟩⟩
      | none => .panic
    else .ok raw
  | none => .ok ⟨⟨0, 0⟩, endPos⟩

/-- everything `build_edits` decides before any text is touched.  `err`/`panic` as in the Rust; on
success: the normalised selection, `insert_pos.line`, `line_sep`, `end_pos`, the edits inside the
selection and the edits outside it. -/
structure Plan where
  sel : Range
  ins : Nat
  lineSep : List Nat
  endPos : Pos
  selTxt : List Nat
  selEdits : List Edit
  unselEdits : List Edit
  mapping : List (Nat × Nat)
  deriving Repr

def plan (allTxt : List Nat) (defs refs : List (Nat × Label)) (extSel : Option Range) (p : Params) : Res Plan :=
  let lines := splitLines allTxt
  let lineSep := if lines.length == countCrlf allTxt + 1 then [CR, LF] else [LF]
  if p.l0 < p.minNum ∨ p.l0 > p.maxNum then .err
  else if p.dl < 1 ∨ p.dl > p.maxNum then .err
  else
  match lines.getLast? with
  | none => .panic                                   -- `lines.len() as u32 - 1`
  | some last =>
  let endPos : Pos := ⟨lines.length - 1, last.length⟩
  (normSel lines endPos extSel).bind fun sel =>
  if sel.e.line ≥ lines.length ∧ sel.s.line ≤ sel.e.line then .panic   -- `lines[l as usize]`
  else
  let selTxt := (rangeList sel.s.line sel.e.line).flatMap fun l => lines[l]?.getD [] ++ lineSep
  let selPrim := selGroup sel defs
  let selSec := selGroup sel refs
  let allPrim := group defs
  let allSec := group refs
  if selPrim.length < 1 then .err
  else
  let ln := p.l0 + p.dl * (selPrim.length - 1)
  if ln > p.maxNum then .err
  else
  match checkLoop sel p.l0 ln allPrim 0 with
  | none => .err
  | some ins0 =>
  let ins := pushBlank lines 0 ins0
  if !p.allowMove && ins ≠ sel.s.line then .err
  else
  let mapping := mkMapping p.l0 p.dl (selPrim.map (·.1))
  let selEdits := primEdits mapping selPrim ++
    (if p.updateRefs then secEdits mapping selSec (fun _ => true) else [])
  let unselEdits :=
    if p.updateRefs then
      secEdits mapping allSec (fun item => item.rng.s.line < sel.s.line || item.rng.e.line > sel.e.line)
    else []
  .ok ⟨sel, ins, lineSep, endPos, selTxt, selEdits, unselEdits, mapping⟩

/-- `build_edits` -/
def buildEdits (allTxt : List Nat) (defs refs : List (Nat × Label)) (extSel : Option Range) (p : Params) :
    Res (List Edit) :=
  (plan allTxt defs refs extSel p).bind fun pl =>
  if pl.ins ≠ pl.sel.s.line then
    (applyEdits pl.selTxt pl.selEdits pl.sel.s.line).bind fun updated =>
      .ok ([⟨⟨pl.endPos, pl.endPos⟩, pl.lineSep⟩, ⟨⟨⟨pl.ins, 0⟩, ⟨pl.ins, 0⟩⟩, updated⟩] ++
        (rangeList pl.sel.s.line pl.sel.e.line).map (fun l => (⟨⟨⟨l, 0⟩, ⟨l + 1, 0⟩⟩, []⟩ : Edit)) ++
        pl.unselEdits)
  else .ok (pl.selEdits ++ pl.unselEdits)

/-! ## `Renumberer::renumber` -/

/-- the loop computing `[l0,ln]` (renumber.rs 145-157); `none` = duplicated primary -/
def selRows (beg end_ : Nat) : List (Nat × List Label) → Nat → Nat → Option (Nat × Nat)
  | [], l0, ln => some (l0, ln)
  | (num, label) :: rest, l0, ln =>
    match label with
    | [lab] =>
      let l0 := if num ≥ beg && l0 > lab.rng.s.line then lab.rng.s.line else l0
      let ln := if num < end_ && ln < lab.rng.s.line then lab.rng.s.line else ln
      selRows beg end_ rest l0 ln
    | _ => none

/-- the `ext_sel` handed to `build_edits` -/
def extSelOf (defs : List (Nat × Label)) (beg end_ : Nat) : Option (Option Range) :=
  (selRows beg end_ (group defs) 0x10000 0).map fun (l0, ln) =>
    if l0 ≤ ln then some ⟨⟨l0, 0⟩, ⟨ln + 1, 0⟩⟩ else none

structure Input where
  src : List Nat
  defs : List (Nat × Label)
  refs : List (Nat × Label)
  beg : Nat
  end_ : Nat
  first : Nat
  step : Nat
  flags : Nat        -- bit 0 REORDER, bit 1 PASS_OVER_REFS
  maxNum : Nat       -- 63999 Applesoft, 32767 Integer
  deriving Repr

def Input.params (i : Input) : Params :=
  { l0 := i.first, dl := i.step, updateRefs := i.flags / 2 % 2 == 0, allowMove := i.flags % 2 == 1,
    minNum := 0, maxNum := i.maxNum }

/-- the `any_selected` flag of the proposed fix: some primary lies in `[beg,end)` -/
def anySelected (defs : List (Nat × Label)) (beg end_ : Nat) : Bool :=
  defs.any fun d => beg ≤ d.1 && d.1 < end_

/-- `Renumberer::renumber(source,beg,end,first,step)`.

`legacy = true` is the code at HEAD 27d20bf: when no line number lies in `[beg,end)` either `l0 > ln` and
`ext_sel` is `None`, which `build_edits` reads as "the whole document" (renumber.rs:159-162), or `ln` keeps its
initial value 0 and row 0 is selected.  `legacy = false` is the code with
`/verif/proposed_fixes/renumber-empty-selection.diff` applied: that case returns `Err` (after the
duplicate-primary check, before `build_edits`). -/
def renumberWith (legacy : Bool) (i : Input) : Res (List Nat) :=
  match extSelOf i.defs i.beg i.end_ with
  | none => .err
  | some extSel =>
    if !legacy && !anySelected i.defs i.beg i.end_ then .err
    else
    match buildEdits i.src i.defs i.refs extSel i.params with
    | .ok edits =>
      match applyEdits i.src edits 0 with
      | .ok ans => .ok ans
      | .err => .err
      | .panic => .panic
    | .err => .err
    | .panic => .panic

/-- the code with the proposed fix -/
def renumber (i : Input) : Res (List Nat) := renumberWith false i

/-- the code at HEAD 27d20bf -/
def renumberLegacy (i : Input) : Res (List Nat) := renumberWith true i

/-! ## `LabelsOK`: the contract assumed of the gathered labels (decidable; also checked by the harness on
what the real gather functions returned) -/

/-- the characters a single-row range covers -/
def sliceOf (lines : List (List Nat)) (r : Range) : Option (List Nat) :=
  match lines[r.s.line]? with
  | none => none
  | some l =>
    if r.s.line = r.e.line ∧ r.s.ch ≤ r.e.ch ∧ r.e.ch ≤ l.length then some ((l.drop r.s.ch).take (r.e.ch - r.s.ch))
    else none

def isDigit (c : Nat) : Bool := 48 ≤ c && c ≤ 57

def ofDigits (cs : List Nat) : Nat := cs.foldl (fun a c => 10 * a + (c - 48)) 0

/-- the range lies on one row inside the line, covers blanks + digits (blanks may be interspersed, as
`node_integer` ignores them), the digits denote `num`, and `lead`/`trail` count the outer blanks -/
def labelOK (lines : List (List Nat)) (nl : Nat × Label) : Bool :=
  match sliceOf lines nl.2.rng with
  | none => false
  | some t =>
    let body := t.filter (· != SP)
    !body.isEmpty && body.all isDigit && ofDigits body == nl.1 &&
      nl.2.lead == (t.takeWhile (· == SP)).length && nl.2.trail == (t.reverse.takeWhile (· == SP)).length

def disjointL (a b : Label) : Bool :=
  a.rng.s.line != b.rng.s.line || a.rng.e.ch ≤ b.rng.s.ch || b.rng.e.ch ≤ a.rng.s.ch

def pairwiseB {α : Type} (r : α → α → Bool) : List α → Bool
  | [] => true
  | x :: xs => xs.all (r x) && pairwiseB r xs

def labelsOK (src : List Nat) (defs refs : List (Nat × Label)) : Bool :=
  let lines := splitLines src
  (defs ++ refs).all (labelOK lines) && pairwiseB disjointL ((defs ++ refs).map (·.2))

end A2Verif.Model.Renumber
