import A2Verif.Model.C09Td0
/-!
Metadata interface model for property C09 — src/img/meta.rs and the `put_metadata` / `get_metadata` pairs of
td0.rs, imd.rs, dot2mg.rs, woz1.rs, woz2.rs.

* `matchKey`   ↔ `meta::match_key` (meta.rs:130-144): an optional trailing `_raw` is ignored
* `decodeHex`  ↔ `hex::decode_to_slice` as used by `set_metadata_byte` / `set_metadata_hex` (meta.rs:161-175):
                 exactly `2·n` hex digits of either case, anything else is an error
* `encodeHex`  ↔ `hex::ToHex::encode_hex` (lower case) used by the `getByte!`/`getHex!` macros
* `setUtf8`    ↔ `set_metadata_utf8` (meta.rs:180-193): fits or error, padded; `trimEnd` ↔ `str::trim_end` on what
                 `get_metadata` shows for the WOZ creator field (ASCII white space only — see design/C09.md)
* `Kind`, `accept`, `render` — what a key path does with a value and what `get_metadata` shows afterwards
* `table` — the key paths each image type accepts (hand transcription of the `putByte!/putHex!/putString!/
  putStringBuf!` lines, the read-only lists and the `verify_value` tables)
* `State`, `put`, `get` — an image's metadata as the list of its fields

Strings are lists of UTF-8 bytes.  Not modelled: the regular-expression constraints of the standard WOZ2 META
keys (`language`, `requires_ram`, `requires_rom`, `requires_machine`, `side`) and deletion by empty value.
-/
namespace A2Verif.Model.C09Meta

def hexVal (c : Nat) : Option Nat :=
  if 48 ≤ c ∧ c ≤ 57 then some (c - 48)
  else if 65 ≤ c ∧ c ≤ 70 then some (c - 55)
  else if 97 ≤ c ∧ c ≤ 102 then some (c - 87)
  else none

def hexDigit (n : Nat) : Nat := if n < 10 then 48 + n else 87 + n

/-- lower-case form of an ASCII hex digit character (identity on everything else) -/
def lowerC (c : Nat) : Nat := if 65 ≤ c ∧ c ≤ 70 then c + 32 else c

def decodePairs : List Nat → Option (List Nat)
  | [] => some []
  | [_] => none
  | a :: b :: r =>
    match hexVal a, hexVal b, decodePairs r with
    | some x, some y, some t => some ((16 * x + y) :: t)
    | _, _, _ => none

/-- `hex::decode_to_slice(val, buf)` with `buf.len() = n` -/
def decodeHex (n : Nat) (val : List Nat) : Option (List Nat) :=
  match decodePairs val with
  | some bs => if bs.length = n then some bs else none
  | none => none

def encodeHex : List Nat → List Nat
  | [] => []
  | b :: r => hexDigit (b / 16) :: hexDigit (b % 16) :: encodeHex r

def isSpace (c : Nat) : Bool := c == 32 || (9 ≤ c && c ≤ 13)

def trimEnd (s : List Nat) : List Nat := (s.reverse.dropWhile isSpace).reverse

/-- `set_metadata_utf8(val, buf, pad)` with `buf.len() = n` -/
def setUtf8 (n pad : Nat) (val : List Nat) : Option (List Nat) :=
  if val.length ≤ n then some (val ++ List.replicate (n - val.length) pad) else none

inductive Kind where
  /-- `putByte!` / `putHex!` on an `n`-byte field -/
  | hex (n : Nat)
  /-- the same, after `verify_value` restricted the text to one of the listed spellings -/
  | hexOneOf (n : Nat) (allowed : List (List Nat))
  /-- WOZ2 `compatible_hardware`: 4 hex digits, little endian value below 512 -/
  | hardware
  /-- `putString!` -/
  | text
  /-- `putStringBuf!` on an `n`-byte field padded with `pad` -/
  | buf (n pad : Nat)
  /-- accepted with a warning, nothing changes -/
  | readOnly
  /-- `/td0/comment/notes` -/
  | td0Notes
  /-- `/imd/comment` (a 0x1A is refused) -/
  | imdComment
deriving DecidableEq, Repr

/-- what is stored when the value is accepted; `none` = `Err` -/
def accept (k : Kind) (val : List Nat) : Option (List Nat) :=
  match k with
  | .hex n => decodeHex n val
  | .hexOneOf n allowed => if val ∈ allowed then decodeHex n val else none
  | .hardware =>
    if val.length ≠ 4 then none else
    match decodeHex 2 val with
    | some [lo, hi] => if lo + 256 * hi < 512 then some [lo, hi] else none
    | _ => none
  | .text => some val
  | .buf n pad => setUtf8 n pad val
  | .readOnly => none
  | .td0Notes => C09Td0.putNotes val
  | .imdComment => if 0x1A ∈ val then none else some val

/-- what `get_metadata` shows for the stored bytes -/
def render (k : Kind) (raw : List Nat) : List Nat :=
  match k with
  | .hex _ | .hexOneOf _ _ | .hardware => encodeHex raw
  | .buf _ _ => trimEnd raw
  | _ => raw

/-- the value the caller can expect to read back (`get (put v) = expected v`) -/
def expected (k : Kind) (val : List Nat) : List Nat :=
  match k with
  | .hex _ | .hexOneOf _ _ | .hardware => val.map lowerC
  | .buf _ _ => trimEnd val
  | .td0Notes => C09Td0.normalizeNotes val
  | _ => val

structure Field where
  path : List String
  kind : Kind
deriving Repr

/-- `meta::match_key` -/
def matchKey (key path : List String) : Bool :=
  (if key.getLast? = some "_raw" then key.dropLast else key) == path

def sp (s : String) : List Nat := s.toUTF8.toList.map (·.toNat)

def b01 : List (List Nat) := [sp "00", sp "01"]

/-- the writable and read-only key paths per image type, in the order `put_metadata` tests them -/
def table (typ : String) : List Field :=
  if typ = "td0" then
    [⟨["td0", "comment", "timestamp"], .readOnly⟩,
     ⟨["td0", "header", "sequence"], .hex 1⟩, ⟨["td0", "header", "check_sequence"], .hex 1⟩,
     ⟨["td0", "header", "version"], .hex 1⟩, ⟨["td0", "header", "data_rate"], .hex 1⟩,
     ⟨["td0", "header", "drive_type"], .hex 1⟩, ⟨["td0", "header", "stepping"], .hex 1⟩,
     ⟨["td0", "header", "dos_alloc_flag"], .hex 1⟩, ⟨["td0", "header", "sides"], .hex 1⟩,
     ⟨["td0", "comment", "notes"], .td0Notes⟩]
  else if typ = "imd" then
    [⟨["imd", "header"], .readOnly⟩, ⟨["imd", "comment"], .imdComment⟩]
  else if typ = "2mg" then
    [⟨["2mg", "header", "header_len"], .readOnly⟩, ⟨["2mg", "header", "version"], .readOnly⟩,
     ⟨["2mg", "header", "img_fmt"], .readOnly⟩, ⟨["2mg", "header", "data_offset"], .readOnly⟩,
     ⟨["2mg", "header", "data_len"], .readOnly⟩, ⟨["2mg", "header", "comment_offset"], .readOnly⟩,
     ⟨["2mg", "header", "comment_len"], .readOnly⟩, ⟨["2mg", "header", "creator_offset"], .readOnly⟩,
     ⟨["2mg", "header", "creator_len"], .readOnly⟩,
     ⟨["2mg", "header", "creator_id"], .hex 4⟩, ⟨["2mg", "header", "flags"], .hex 4⟩,
     ⟨["2mg", "header", "blocks"], .hex 4⟩, ⟨["2mg", "comment"], .text⟩, ⟨["2mg", "creator_info"], .text⟩]
  else if typ = "woz1" then
    [⟨["woz1", "info", "disk_type"], .readOnly⟩,
     ⟨["woz1", "info", "write_protected"], .hexOneOf 1 b01⟩, ⟨["woz1", "info", "synchronized"], .hexOneOf 1 b01⟩,
     ⟨["woz1", "info", "cleaned"], .hexOneOf 1 b01⟩, ⟨["woz1", "info", "creator"], .buf 32 0x20⟩]
  else if typ = "woz2" then
    [⟨["woz2", "info", "disk_type"], .readOnly⟩, ⟨["woz2", "info", "disk_sides"], .readOnly⟩,
     ⟨["woz2", "info", "largest_track"], .readOnly⟩, ⟨["woz2", "info", "flux_block"], .readOnly⟩,
     ⟨["woz2", "info", "largest_flux_block"], .readOnly⟩,
     ⟨["woz2", "info", "write_protected"], .hexOneOf 1 b01⟩, ⟨["woz2", "info", "synchronized"], .hexOneOf 1 b01⟩,
     ⟨["woz2", "info", "cleaned"], .hexOneOf 1 b01⟩, ⟨["woz2", "info", "creator"], .buf 32 0x20⟩,
     ⟨["woz2", "info", "boot_sector_format"], .hexOneOf 1 [sp "00", sp "01", sp "02", sp "03"]⟩,
     ⟨["woz2", "info", "optimal_bit_timing"], .hex 1⟩, ⟨["woz2", "info", "compatible_hardware"], .hardware⟩,
     ⟨["woz2", "info", "required_ram"], .hex 2⟩]
  else []

def findField (tbl : List Field) (key : List String) : Option Field :=
  tbl.find? (fun f => matchKey key f.path)

/-- an image's metadata: the stored bytes of every field of its table, by path -/
abbrev State := List (List String × List Nat)

def lookup (st : State) (path : List String) : Option (List Nat) :=
  match st.find? (fun e => e.1 == path) with
  | some e => some e.2
  | none => none

def store (st : State) (path : List String) (raw : List Nat) : State :=
  (path, raw) :: st.filter (fun e => !(e.1 == path))

inductive PutResult where
  | refused
  | skipped
  | stored (st : State)

/-- `put_metadata(key, val)`; read-only keys answer `Ok` without a change -/
def put (tbl : List Field) (st : State) (key : List String) (val : List Nat) : PutResult :=
  match findField tbl key with
  | none => .refused
  | some f =>
    if f.kind = .readOnly then .skipped else
    match accept f.kind val with
    | some raw => .stored (store st f.path raw)
    | none => .refused

/-- the leaf `get_metadata` shows for `key` -/
def get (tbl : List Field) (st : State) (key : List String) : Option (List Nat) :=
  match findField tbl key with
  | none => none
  | some f => (lookup st f.path).map (render f.kind)

end A2Verif.Model.C09Meta
