import A2Verif.Model.Robust
/-!
# C12: `Imd::from_bytes` (src/img/imd.rs:600-690) with `Track::update_from_bytes` (:286-341),
`get_sec_buf_size` (:171-186), `Track::expand` (:218-247) and `byte_capacity` (:444-463)

The file is: 29 header bytes, a comment up to the first 0x1A, then track records
`mode cyl head nsec shift | sector map [| cylinder map] [| head map] | nsec sector records`, a sector record being
a type byte 0..8 followed by nothing (0), one fill byte (even types) or `128 << shift` data bytes (odd types).
`update_from_bytes` checks lengths before it slices (`check`), so it cannot panic by itself; but `expand` and
`byte_capacity` *re-scan* the stored record buffer with `get_sec_buf_size`, which `panic!`s on an unknown type
byte and slices without a check.  The theorem therefore needs the invariant that what `update_from_bytes`
accepted is well formed (`wfSecs`) and that `expand` keeps it well formed.
`String::from_utf8` is modelled by `utf8Valid` (the strict UTF-8 automaton).  Logging is ignored.
-/
namespace A2Verif.Model.Robust

def isCont (b : Nat) : Bool := 0x80 ≤ b && b ≤ 0xBF

/-- `String::from_utf8(..).is_ok()` -/
def utf8Valid : List Nat → Bool
  | [] => true
  | b0 :: rest =>
    if b0 < 0x80 then utf8Valid rest
    else if 0xC2 ≤ b0 ∧ b0 ≤ 0xDF then
      match rest with
      | b1 :: r => isCont b1 && utf8Valid r
      | _ => false
    else if 0xE0 ≤ b0 ∧ b0 ≤ 0xEF then
      match rest with
      | b1 :: b2 :: r =>
        (if b0 = 0xE0 then 0xA0 ≤ b1 && b1 ≤ 0xBF else if b0 = 0xED then 0x80 ≤ b1 && b1 ≤ 0x9F else isCont b1)
          && isCont b2 && utf8Valid r
      | _ => false
    else if 0xF0 ≤ b0 ∧ b0 ≤ 0xF4 then
      match rest with
      | b1 :: b2 :: b3 :: r =>
        (if b0 = 0xF0 then 0x90 ≤ b1 && b1 ≤ 0xBF else if b0 = 0xF4 then 0x80 ≤ b1 && b1 ≤ 0x8F else isCont b1)
          && isCont b2 && isCont b3 && utf8Valid r
      | _ => false
    else false

/-- `get_sec_buf_size(code)`: bytes of a sector record including its type byte; `panic!` on an unknown type -/
def secBufSize (shift code : Nat) : Outcome Nat :=
  if code = 0 then .ok 1
  else if code = 1 ∨ code = 3 ∨ code = 5 ∨ code = 7 then .ok (1 + 128 * 2 ^ shift)
  else if code = 2 ∨ code = 4 ∨ code = 6 ∨ code = 8 then .ok 2
  else .panic

/-- the sector loop of `update_from_bytes`: `none` = `OutOfData`/`IllegalValue`; result = (record buffer, rest) -/
def parseSecs (shift : Nat) : Nat → List Nat → Option (List Nat × List Nat)
  | 0, rest => some ([], rest)
  | _ + 1, [] => none
  | k + 1, c :: rest =>
    if c > 8 then none
    else
      match secBufSize shift c with
      | .ok sz =>
        if rest.length < sz - 1 then none
        else
          match parseSecs shift k (rest.drop (sz - 1)) with
          | some (tb, r) => some (c :: rest.take (sz - 1) ++ tb, r)
          | none => none
      | _ => none

/-- `expand`: re-scan of the record buffer; compressed records (size 2) become `type-1` + `128 << shift` copies -/
def expandScan (shift : Nat) : Nat → List Nat → Outcome (List Nat)
  | 0, _ => .ok []
  | _ + 1, [] => .panic
  | k + 1, c :: rest =>
    match secBufSize shift c with
    | .ok sz =>
      if rest.length < sz - 1 then .panic
      else
        let here : Outcome (List Nat) :=
          if sz = 2 then
            match rest with
            | fill :: _ => .ok ((c - 1) :: List.replicate (128 * 2 ^ shift) fill)
            | [] => .panic
          else .ok (c :: rest.take (sz - 1))
        match here, expandScan shift k (rest.drop (sz - 1)) with
        | .ok h, .ok more => .ok (h ++ more)
        | .panic, _ => .panic
        | _, .panic => .panic
        | _, _ => .err
    | _ => .panic

/-- `byte_capacity` of one (expanded) track: re-scan, one step per sector map entry -/
def capScan (shift : Nat) : Nat → List Nat → Outcome Nat
  | 0, _ => .ok 0
  | _ + 1, [] => .panic
  | k + 1, c :: rest =>
    match secBufSize shift c with
    | .ok sz =>
      -- `idx += size` may run past the end; the next `track_buf[idx]` is then the panic (first arm above)
      match capScan shift k (rest.drop (sz - 1)) with
      | .ok n => .ok (n + (if c = 1 ∨ c = 3 ∨ c = 5 ∨ c = 7 then 128 * 2 ^ shift else 0))
      | .err => .err
      | .panic => .panic
    | _ => .panic

structure ImdTrack where
  nsec : Nat
  shift : Nat
  tbuf : List Nat

/-- number of maps in front of the sector records: sector map, optional cylinder map (0x80), optional head map (0x40) -/
def imdMaps (head : Nat) : Nat :=
  1 + (if head &&& 0x80 = 0x80 then 1 else 0) + (if head &&& 0x40 = 0x40 then 1 else 0)

/-- `Track::update_from_bytes`; result = (track, bytes consumed beyond the 5 header bytes) -/
def parseTrack (bytes : List Nat) : Outcome (ImdTrack × Nat) :=
  match bytes with
  | _ :: _ :: head :: nsec :: shift :: rest =>
    if shift = 255 then .err
    else if shift > 6 then .err
    else
      if rest.length < imdMaps head * nsec then .err
      else
        match parseSecs shift nsec (rest.drop (imdMaps head * nsec)) with
        | none => .err
        | some (tb, _) => .ok (⟨nsec, shift, tb⟩, imdMaps head * nsec + tb.length)
  | _ => .err

/-- after the loop: `byte_capacity()` over all (expanded) tracks -/
def capAll : List ImdTrack → Outcome Nat
  | [] => .ok 0
  | t :: ts =>
    match capScan t.shift t.nsec t.tbuf with
    | .ok n => (match capAll ts with | .ok m => .ok (n + m) | .err => .err | .panic => .panic)
    | .err => .err
    | .panic => .panic

/-- the loop `while ptr<data.len()`: every record consumes at least 5 bytes -/
def imdLoop (rem : List Nat) (acc : List ImdTrack) : Outcome (List ImdTrack) :=
  match rem with
  | [] => .ok acc.reverse
  | x :: xs =>
    match parseTrack (x :: xs) with
    | .err => .err
    | .panic => .panic
    | .ok (t, extra) =>
      match expandScan t.shift t.nsec t.tbuf with
      | .err => .err
      | .panic => .panic
      | .ok tb' => imdLoop ((x :: xs).drop (5 + extra)) (⟨t.nsec, t.shift, tb'⟩ :: acc)
termination_by rem.length
decreasing_by
  simp only [List.length_drop, List.length_cons]
  omega

def findByte (b : Nat) : List Nat → Option Nat
  | [] => none
  | x :: xs => if x = b then some 0 else (findByte b xs).map (· + 1)

/-- `Imd::from_bytes` -/
def imdFromBytes (data : List Nat) : Outcome Unit :=
  if data.length < 29 then .err
  else
    match data with
    | a :: b :: c :: d :: e :: f :: _ =>
      if ¬ (a = 73 ∧ b = 77 ∧ c = 68 ∧ d = 32 ∧ (e = 48 ∨ e = 49) ∧ f = 46) then .err
      else
        let tail := data.drop 29
        match findByte 0x1a tail with
        | none => .err
        | some k =>
          if !utf8Valid (tail.take k) then .err
          else
            match imdLoop (tail.drop (k + 1)) [] with
            | .err => .err
            | .panic => .panic
            | .ok tracks =>
              if tracks.isEmpty then .err
              else
                match capAll tracks with
                | .ok _ => .ok ()
                | .err => .err
                | .panic => .panic
    | _ => .err

end A2Verif.Model.Robust
