import A2Verif.Model.Fs.Pascal
import A2Verif.Model.Fs.Dos3x
import A2Verif.Model.Fs.Prodos
import A2Verif.Model.Fs.Cpm
import A2Verif.Model.Fs.Fat
/-!
# C12, file-system read paths: identification checks and the read-only queries the concrete models lack

The concrete file-system models (`Model/Fs/*.lean`) were written for the refinement proofs on well-formed
volumes.  For C12 ("arbitrary bytes as a disk image … identify, mount, stat, catalog, tree, glob, fetch each
file … never panics, never hangs") two things are missing there and are transcribed here, panic-explicitly
(`Err.panic` of the respective model; unguarded indexing is `xs[i]?` with `panic` on `none`):

* the identification test of each file system (`Disk::test_img`, `/repo/src/fs/*/mod.rs`);
* the parts of `stat` / `tree` / `glob` that can panic and that the models leave out (volume label
  conversion, name conversion of *every* listed slot).

Where the code as written can panic on a mounted image (a defect, see `design/C12Fs.md`), the function takes a
`Bool` `fixed`: `false` = the code as written = the concrete model's own function (theorem `…_asWritten`),
`true` = the proposed repair.  The harness probes the real code with the witness image and passes the bit.
-/
namespace A2Verif.C12FsId

deriving instance DecidableEq for Except

/-- outcome class of a call: what the tie compares and what C12 is about -/
inductive Cls where
  | ok | err | panic
  deriving DecidableEq, Repr, Inhabited

def Cls.token : Cls → String
  | .ok => "ok" | .err => "err" | .panic => "panic"

/-! ## Pascal (`/repo/src/fs/pascal/mod.rs`, `pack.rs`) -/
namespace Pascal
open A2Verif.Fs.Pascal

/-- outcome class of a Pascal-model result -/
def cls {α : Type} : R α → Cls
  | .ok _ => .ok
  | .error .panic => .panic
  | .error _ => .err

theorem cls_panic_iff {α : Type} (x : R α) : cls x = .panic ↔ x = .error .panic := by
  cases x with
  | ok a => simp [cls]
  | error e => cases e <;> simp [cls]

/-- `pack.rs::file_name_to_string(entry.name, entry.name_len)`.
`fixed = false`: as written (`fname[0..len]` panics for `len > 15`; `String::from_utf8` failure panics) — the
concrete model's `fileNameToString`.
`fixed = true`: repair `c12fs-pascal-name-conversion`: length clamped to the array, lossy conversion; total.
(Bytes ≥ 128 become U+FFFD in the Rust; only the outcome class is tied, the text is not.) -/
def nameFn (fixed : Bool) (e : Bytes) : Option Bytes :=
  if fixed then some (trimEnd ((Entry.name e).take (min (Entry.nameLen e) 15))) else fileNameToString e

/-- `pack.rs::vol_name_to_string(header.name, header.name_len)`; the 7 name bytes are at offset 7 -/
def volNameFn (fixed : Bool) (h : Bytes) : Option Bytes :=
  if fixed then some (trimEnd ((slice h 7 7).take (min (Hdr.nameLen h) 7)))
  else if Hdr.nameLen h > 7 then none
  else
    let s := (slice h 7 7).take (Hdr.nameLen h)
    if s.any (fun c => c ≥ 128) then none else some (trimEnd s)

/-- `for i in 0..name_len { let c = name[i]; if c<32 || c>126 { return false } }`; `name[i]` is an array
index: out of range panics (`none`) -/
def nameCharsOk (name : Bytes) : Nat → Nat → Option Bool
  | 0, _ => some true
  | n + 1, i =>
    match name[i]? with
    | none => none
    | some c => if c < 32 ∨ c > 126 then some false else nameCharsOk name n (i + 1)

/-- the loop `for i in 0..num_files { let entry = directory.entries[i]; … }` of `test_img`, over
`i, i+1, …` (`n` iterations left).  `none` = an index panic. -/
def testEntries (entries : List Bytes) (end_ tot : Nat) : Nat → Nat → Option Bool
  | 0, _ => some true
  | n + 1, i =>
    match entries[i]? with
    | none => none
    | some e =>
      let ebeg := Entry.beginBlock e
      let eend := Entry.endBlock e
      if ebeg > 0 then
        if ebeg < end_ ∨ eend ≤ ebeg ∨ eend > tot then some false
        else if Entry.nameLen e > 15 ∨ Entry.nameLen e = 0 then some false
        else
          match nameCharsOk (Entry.name e) (Entry.nameLen e) 0 with
          | none => none
          | some false => some false
          | some true => testEntries entries end_ tot n (i + 1)
      else testEntries entries end_ tot n (i + 1)

/-- `Disk::test_img` (mod.rs 104–166): `ok b` = the answer, `error panic` = the Rust panics.
Any error of `get_directory` is "not Pascal". -/
def testImg (r : Raw) : R Bool :=
  match getDirectory r with
  | .error .panic => .error .panic
  | .error _ => .ok false
  | .ok d =>
    let h := d.header
    let end_ := Hdr.endBlock h
    if Hdr.beginBlock h ≠ 0 ∨ end_ ≤ volHeaderBlock ∨ end_ > 20 then .ok false
    else if Hdr.nameLen h > 7 ∨ Hdr.nameLen h = 0 then .ok false
    else if le16 h 4 ≠ 0 then .ok false
    else
      match nameCharsOk (slice h 7 7) (Hdr.nameLen h) 0 with
      | none => .error .panic
      | some false => .ok false
      | some true =>
        match testEntries d.entries end_ (Hdr.totalBlocks h) (Hdr.numFiles h) 0 with
        | none => .error .panic
        | some b => .ok b

/-- `get_file_entry` with the name conversion as a parameter -/
def findEntryN (nm : Bytes → Option Bytes) (uname : Bytes) (total : Nat) : List Bytes → Nat → R (Option Nat)
  | [], _ => .ok none
  | e :: rest, i =>
    if entryLive e total then
      match nm e with
      | none => .error .panic
      | some s => if uname = s then .ok (some i) else findEntryN nm uname total rest (i + 1)
    else findEntryN nm uname total rest (i + 1)

/-- `read_file` (mod.rs 332–361) -/
def getV (fixed : Bool) (r : Raw) (name : Bytes) : R Got :=
  if !isNameValid name false then .error .badFormat else
  match getDirectory r with
  | .error e => .error e
  | .ok dir =>
    match findEntryN (nameFn fixed) (upper name) dir.totalBlocks (dir.entries.take dir.numFiles) 0 with
    | .error e => .error e
    | .ok none => .error .noFile
    | .ok (some idx) =>
      let e := dir.entries.getD idx []
      let beg := Entry.beginBlock e
      let end_ := Entry.endBlock e
      match readBlocks r ((List.range (end_ - beg)).map (· + beg)) with
      | .error e => .error e
      | .ok blocks =>
        if Entry.bytesRemaining e > blockSize * blocks.length then .error .badFormat
        else .ok { fsType := Entry.fileType e, eof := blockSize * blocks.length - Entry.bytesRemaining e,
                   chunks := (List.range blocks.length).zip blocks, modified := Entry.modDate e }

/-- the slot loop shared by `catalog_to_vec`, `glob`, `tree`: every slot passing the liveness test has its
name converted -/
def listLoopN (nm : Bytes → Option Bytes) (total : Nat) : List Bytes → R (List (Bytes × Nat × Nat))
  | [] => .ok []
  | e :: rest =>
    if decide (Entry.beginBlock e ≠ 0) && decide (Entry.endBlock e > Entry.beginBlock e) && decide (Entry.endBlock e ≤ total) then
      match nm e with
      | none => .error .panic
      | some s =>
        match listLoopN nm total rest with
        | .error e => .error e
        | .ok rows => .ok ((s, Entry.endBlock e - Entry.beginBlock e, e.getD 4 0) :: rows)
    else listLoopN nm total rest

/-- `catalog_to_vec("/")` (mod.rs 534–557) -/
def catalogV (fixed : Bool) (r : Raw) : R (List (Bytes × Nat × Nat)) :=
  match getDirectory r with
  | .error e => .error e
  | .ok d => listLoopN (nameFn fixed) d.totalBlocks d.entries

/-- `glob(pattern, _)` (mod.rs 558–580) for a pattern `globset` accepts: the same slot loop; the rows are then
filtered by the matcher (a parameter; total) -/
def globV (fixed : Bool) (r : Raw) : R (List (Bytes × Nat × Nat)) := catalogV fixed r

/-- `tree(include_meta, _)` (mod.rs 581–618): label first, then the slot loop.  `unpack_date` is total since
repair `impossible-dates`; `blocks*512 + bytes_remaining - 512` cannot underflow because a listed slot has
`end > beg`. -/
def treeV (fixed : Bool) (r : Raw) : R Unit :=
  match getDirectory r with
  | .error e => .error e
  | .ok d =>
    match volNameFn fixed d.header with
    | none => .error .panic
    | some _ =>
      match listLoopN (nameFn fixed) d.totalBlocks d.entries with
      | .error e => .error e
      | .ok _ => .ok ()

/-- `stat()` (mod.rs 487–500): `get_directory`, `num_free_blocks`, then the label -/
def statV (fixed : Bool) (r : Raw) : R Nat :=
  match statFree r with
  | .error e => .error e
  | .ok free =>
    match getDirectory r with
    | .error e => .error e
    | .ok d =>
      match volNameFn fixed d.header with
      | none => .error .panic
      | some _ => .ok free

end Pascal

/-! ## DOS 3.x (`/repo/src/fs/dos3x/mod.rs`) -/
namespace Dos
open A2Verif.Fs.Dos3x

/-- outcome class of a DOS-model result -/
def cls {α : Type} : R α → Cls
  | .ok _ => .ok
  | .error .panic => .panic
  | .error _ => .err

/-- `Disk::test_img` (mod.rs 73–149) on a flat image with `c` sectors per track (`DO`: 16, `D13`: 13).
`img.track_count()` is `units / c`; on a `DO` image the 13-sector probe fails in the image layer
(`Block::D13` → `ImageTypeMismatch`) and vice versa, so only the probe of the container's own flavour counts.
There is no indexing and no arithmetic: the function cannot panic, hence the result type `Bool`. -/
def testImg (c : Nat) (r : Raw) : Bool :=
  if imgTracks c r ≠ 35 then false else
  match imgRead c r vtocTrack 0 with
  | .error _ => false
  | .ok dat =>
    -- `VTOC::from_bytes`
    if dat.length < vtocLen then false else
    let v := dat.take vtocLen
    if (c = 13 ∧ v.getD 3 0 > 2) ∨ (c ≠ 13 ∧ v.getD 3 0 < 3) then false
    else if Vtoc.vol v < 1 ∨ Vtoc.vol v > 254 then false
    else if Vtoc.track1 v ≠ vtocTrack ∨ Vtoc.sector1 v ≠ c - 1 then false
    else if v.getD 0x36 0 ≠ 0 ∨ v.getD 0x37 0 ≠ 1 ∨ Vtoc.sectors v ≠ c ∨ Vtoc.tracks v ≠ 35 then false
    else true

/-- the entry loop of `tree(include_meta = true)` (mod.rs 809–836) over entries `k, …` of the directory sector
`dir`; `cur` is the sector buffer the loop keeps overwriting (T/S list, then first data sector) -/
def treeEntries (dir : Bytes) : List Nat → Bytes → M Bytes
  | [], cur => pure cur
  | k :: ks, cur =>
    if Dir.tslTrack dir k > 0 ∧ Dir.tslTrack dir k < 255 then do
      let v ← M.getV
      M.lift (verifyTs v (Dir.tslTrack dir k) (Dir.tslSector dir k))
      let cur ← readSectorM cur (Dir.tslTrack dir k) (Dir.tslSector dir k)
      M.lift (fullSector cur)
      M.lift (verifyTs v (Tsl.pairTrack cur 0) (Tsl.pairSector cur 0))
      let cur ← readSectorM cur (Tsl.pairTrack cur 0) (Tsl.pairSector cur 0)
      treeEntries dir ks cur
    else treeEntries dir ks cur

/-- the directory walk of `tree` (cap `MAX_DIRECTORY_REPS`, `IOError` beyond it) -/
def treeLoop : Nat → Nat → Nat → Bytes → M Unit
  | 0, _, _, _ => M.fail .ioError
  | fuel + 1, t, s, buf => do
    let v ← M.getV
    M.lift (verifyTs v t s)
    let buf ← readSectorM buf t s
    M.lift (fullSector buf)
    let cur ← treeEntries buf (List.range 7) buf
    if Dir.nextTrack buf = 0 ∧ Dir.nextSector buf = 0 then pure ()
    else treeLoop fuel (Dir.nextTrack buf) (Dir.nextSector buf) cur

/-- `tree(true, _)` -/
def tree (d : Disk) : R Unit × Disk :=
  d.run (do let v ← M.getV; treeLoop maxDirectoryReps (Vtoc.track1 v) (Vtoc.sector1 v) (zeros 256))

/-- `glob(pattern, _)` for a pattern `globset` accepts: the directory walk of `catalog_to_vec`, names filtered by
the matcher (a total parameter) -/
def glob (d : Disk) : R (List (Bytes × Nat × Nat)) × Disk := catalog d

end Dos

/-! ## ProDOS (`/repo/src/fs/prodos/mod.rs`, `directory.rs`) -/
namespace Prodos
open A2Verif.Fs.Prodos

/-- outcome class of a ProDOS-model result -/
def cls {α : Type} : R α → Cls
  | .ok _ => .ok
  | .error .panic => .panic
  | .error _ => .err

/-- a freshly mounted disk (`from_img`): `total_blocks = byte_capacity/512`, no bitmap buffer; `src` = the variant
bits of the concrete model (of the read paths only `bitmapCeil` matters: how many bitmap blocks `stat` opens) -/
def fresh (r : Raw) (src : Repairs := {}) : Disk := { raw := r, total := r.units.size, bitmap := none, bitmapBlocks := [], src := src }

/-- `buf[i]` on a `Vec<u8>`: out of range panics -/
def byteAt (buf : Bytes) (i : Nat) : R Nat :=
  match buf[i]? with
  | some x => .ok x
  | none => .error .panic

def firstCharOk (c : Nat) : Bool := (65 ≤ c && c ≤ 90) || c == 46
def nameCharOk (c : Nat) : Bool := firstCharOk c || (48 ≤ c && c ≤ 57)

/-- `for i in 1..(nibs & 0x0F) { if !char_patt.contains(name[i]) { return false } }`; `name` is `[u8;15]` -/
def volNameLoop (name : Bytes) : List Nat → R Bool
  | [] => .ok true
  | i :: rest =>
    match byteAt name i with
    | .error e => .error e
    | .ok c => if nameCharOk c then volNameLoop name rest else .ok false

/-- `Disk::test_img` (mod.rs 94–131) -/
def testImg (r : Raw) : R Bool :=
  match imgRead r volKeyBlock with
  | .error _ => .ok false
  | .ok buf =>
    -- `KeyBlock::from_bytes(&buf)`: `Err` for a buffer shorter than the 511-byte structure
    if buf.length < dirLen then .ok false else
    match byteAt buf 0x29, byteAt buf 0x2A, byteAt buf 0x23, byteAt buf 0x24 with
    | .ok t0, .ok t1, .ok b23, .ok b24 =>
      let nibs := buf.getD 4 0
      let name := slice buf 5 15
      if t0 + 256 * t1 < 280 then .ok false
      else if b23 ≠ 0x27 ∨ (b24 ≠ 0x0D ∧ b24 ≠ 0x0C) then .ok false
      else if le16 buf 0 ≠ 0 ∨ le16 buf 2 ≠ 3 ∨ nibs / 16 ≠ 15 then .ok false
      else
        match byteAt name 0 with
        | .error e => .error e
        | .ok c0 => if !firstCharOk c0 then .ok false else volNameLoop name (rng 1 (nibs % 16))
    | _, _, _, _ => .error .panic

/-! ### the recursive directory walks (`tree_node` 973–1005, `glob_node` 927–971)

`Walk` counts what the walk costs: directories entered and directory blocks read.  In the repaired code the
first counter exists in the Rust (`visits`, compared with `total_blocks`); in the code as written it is ghost
instrumentation.  Flags: `budget` = the repair `c12fs-prodos-directory-visit-budget` is present; `capErr` = the
nesting-cap branch returns `Err` (as at HEAD) rather than an empty result. -/

structure Walk where
  /-- directories entered (calls of `tree_node`/`glob_node` that got past the nesting test) -/
  visits : Nat
  /-- directory blocks read (`get_directory`) -/
  reads : Nat
  deriving DecidableEq, Repr, Inhabited

/-- `get_directory(iblock)` on the image (`Fs.Prodos.getDirectory` when no bitmap block is involved) -/
def dirAt (r : Raw) (i : Nat) : R Dir :=
  match imgRead r i with
  | .error e => .error e
  | .ok buf =>
    let z := buf.getD 0 0 == 0 && buf.getD 1 0 == 0
    .ok { kind := if i = volKeyBlock then DKind.volKey else if z then DKind.subKey else DKind.entry, bytes := buf.take dirLen }

/-- `for loc in dir.entry_locations(curr) { let entry = dir.get_entry(&loc); … }` -/
def dirEntries (d : Dir) : List Bytes := d.entryIdxs.filterMap d.getEntry

/-- the entry loop: an active sub-directory entry is descended into (`rec` = the recursive call with the nesting
level one deeper); an error of the descent ends the whole walk (`?`) -/
def entryLoop (rec : Nat → Walk → R Unit × Walk) : List Bytes → Walk → R Unit × Walk
  | [], w => (.ok (), w)
  | e :: es, w =>
    if Ent.isActive e ∧ Ent.storageType e = stSubDirEntry then
      match rec (Ent.keyPtr e) w with
      | (.ok _, w') => entryLoop rec es w'
      | (.error err, w') => (.error err, w')
    else entryLoop rec es w

/-- `while curr>0 { reps += 1; if reps > MAX_DIRECTORY_REPS { return Err } … curr = dir.next() }` -/
def blockLoop (r : Raw) (rec : Nat → Walk → R Unit × Walk) : Nat → Nat → Walk → R Unit × Walk
  | _, 0, w => (.ok (), w)
  | 0, _ + 1, w => (.error .endOfData, w)
  | fuel + 1, curr + 1, w =>
    match dirAt r (curr + 1) with
    | .error e => (.error e, { w with reads := w.reads + 1 })
    | .ok dir =>
      match entryLoop rec (dirEntries dir) { w with reads := w.reads + 1 } with
      | (.ok _, w') => blockLoop r rec fuel dir.next w'
      | (.error e, w') => (.error e, w')

/-- `tree_node` / `glob_node` with `depthLeft` nesting levels left before the cap (tree: 33 at the root, glob: 32) -/
def walkNode (budget capErr : Bool) (r : Raw) (total : Nat) : Nat → Nat → Walk → R Unit × Walk
  | 0, _, w => if capErr then (.error .endOfData, w) else (.ok (), w)
  | depthLeft + 1, block, w =>
    let w1 : Walk := { w with visits := w.visits + 1 }
    if budget ∧ w1.visits > total then (.error .endOfData, w1)
    else blockLoop r (walkNode budget capErr r total depthLeft) 100 block w1

/-- `tree(include_meta, _)` (1098–1111): volume header (twice: `get_vol_header`, `find_dir_key_block("/")`), then the
walk from the volume key block.  `entry.name()`, `meta_to_json()` are total. -/
def tree (budget capErr : Bool) (r : Raw) : R Unit × Walk :=
  match imgRead r volKeyBlock with
  | .error e => (.error e, ⟨0, 0⟩)
  | .ok _ => walkNode budget capErr r r.units.size 33 volKeyBlock ⟨0, 0⟩

/-- `glob(pattern, _)` (1087–1097) for a pattern `globset` accepts: `curr_path` starts with the volume prefix, so the
cap `curr_path.len() > MAX_DIRECTORY_DEPTH` leaves 32 levels -/
def glob (budget capErr : Bool) (r : Raw) : R Unit × Walk :=
  match imgRead r volKeyBlock with
  | .error e => (.error e, ⟨0, 0⟩)
  | .ok _ => walkNode budget capErr r r.units.size 32 volKeyBlock ⟨0, 0⟩

/-! ### `read_file` with the `eof` accumulator of `read_index_block` (548–567), which the concrete model leaves out -/

/-- the 256 pointer slots of one index block; `eof` is the running byte count.  `fixedEof = false`: as written,
`bytes = entry.eof() - *eof` underflows once the running count has passed the recorded end of file. -/
def indexLoopV (fixedEof : Bool) (entryEof : Nat) (ib : Bytes) : List Nat → Nat → M Nat
  | [], eof => pure eof
  | idx :: rest, eof =>
    if eof + 512 > entryEof ∧ entryEof < eof ∧ !fixedEof then M.fail .panic
    else
      let bytes := if eof + 512 > entryEof then entryEof - eof else 512
      let ptr := ib.getD idx 0 + 256 * ib.getD (idx + 256) 0
      if ptr > 0 then do
        let _ ← readBlock ptr
        indexLoopV fixedEof entryEof ib rest (eof + bytes)
      else indexLoopV fixedEof entryEof ib rest (eof + bytes)

def indexBlockV (fixedEof : Bool) (entryEof indexPtr eof : Nat) : M Nat := do
  let ib ← readBlock indexPtr
  indexLoopV fixedEof entryEof ib (rng 0 256) eof

def masterLoopV (fixedEof : Bool) (entryEof : Nat) (mb : Bytes) : List Nat → Nat → M Unit
  | [], _ => pure ()
  | idx :: rest, eof =>
    let ptr := mb.getD idx 0 + 256 * mb.getD (idx + 256) 0
    if ptr > 0 then do
      let eof' ← indexBlockV fixedEof entryEof ptr eof
      masterLoopV fixedEof entryEof mb rest eof'
    else masterLoopV fixedEof entryEof mb rest (eof + 256 * 512)

/-- `read_file(entry)` (615–651), outcome only -/
def readFileV (fixedEof : Bool) (e : Bytes) : M Unit := do
  let st := Ent.storageType e
  if st = stSeedling then do
    let _ ← readBlock (Ent.keyPtr e)
    pure ()
  else if st = stSapling then do
    let _ ← indexBlockV fixedEof (Ent.eof e) (Ent.keyPtr e) 0
    pure ()
  else if st = stTree then do
    let mb ← readBlock (Ent.keyPtr e)
    masterLoopV fixedEof (Ent.eof e) mb (rng 0 256) 0
  else M.fail .fileTypeMismatch

/-- `get(path)` (1231–1241) -/
def getV (fixedEof : Bool) (path : Bytes) : M Unit := do
  let loc ← findFile path
  let e ← readEntry loc
  readFileV fixedEof e

end Prodos

/-! ## CP/M (`/repo/src/fs/cpm/mod.rs`, `directory.rs`) -/
namespace Cpm
open A2Verif.Fs.Cpm
open A2Verif.Read.Cpm (Dpb)

/-- outcome class of a CP/M-model result -/
def cls {α : Type} : R α → Cls
  | .ok _ => .ok
  | .error .panic => .panic
  | .error _ => .err

/-- `Disk::test_img(img, dpb, cpm_vers)` (mod.rs 163–175): the inner `get_directory` answers `None` where
`Fs.Cpm.getDirectory` (= the method with `expect`) answers panic; any error of `build_files` is "not CP/M".
`error panic` = `build_files` itself panics (`Timestamp::get` indexing the directory). -/
def testImg (d : Dpb) (r : Raw) : R Bool :=
  match getDirectory d r with
  | .error _ => .ok false
  | .ok dir =>
    match buildFiles d d.v3 dir with
    | .ok _ => .ok true
    | .error .panic => .error .panic
    | .error _ => .ok false

/-- `num_free_blocks` (mod.rs 199–214).  `fixed = false`: `user_blocks as u16 - used as u16` (underflow panics) =
`Fs.Cpm.numFreeBlocks`; `fixed = true`: repair `c12fs-cpm-free-blocks-underflow` (`saturating_sub`). -/
def numFreeBlocksV (fixed : Bool) (d : Dpb) (dir : Dir) : R Nat :=
  let used := reservedBlocks d + ((usedPtrs d dir).filter (· > 0)).length
  if used % 65536 > userBlocks d % 65536 then (if fixed then .ok 0 else .error .panic)
  else .ok (userBlocks d % 65536 - used % 65536)

/-- `stat()` (597–619): directory (with `expect`), label and user list (total), free blocks -/
def statV (fixed : Bool) (d : Dpb) (r : Raw) : R Nat :=
  match getDirectory d r with
  | .error e => .error e
  | .ok dir => numFreeBlocksV fixed d dir

/-- `glob(pattern, _)` (652–670) for a pattern `globset` accepts: directory, `build_files(dpb, cpm_vers)` -/
def globV (d : Dpb) (r : Raw) : R Unit :=
  match getDirectory d r with
  | .error e => .error e
  | .ok dir =>
    match buildFiles d d.v3 dir with
    | .error e => .error e
    | .ok _ => .ok ()

/-- the loop of `read_file` (334–379).  `fixed = false`: `panic!("unreachable: extents were not sorted")` =
`Fs.Cpm.readLoop`; `fixed = true`: repair `c12fs-cpm-overlapping-extents` (`BadFormat`).  `absIdx` is the concrete model's own
variant bit (`cpm-get-partial-extent`: how chunk numbers are counted; no influence on the outcome class). -/
def readLoopV (fixed absIdx : Bool) (d : Dpb) (r : Raw) (dir : Dir) (finfo : FileInfo) : List (Nat × Nat) → Nat → Nat → Got → R Got
  | [], _, _, g => .ok g
  | (_, i) :: rest, bc, prev, g =>
    match dir[i]? with
    | none => .error .panic
    | some fx =>
      if !isExtent fx then readLoopV fixed absIdx d r dir finfo rest bc prev g else
      let created := match finfo.createTime with
        | some t => t
        | none => match finfo.accessTime with
          | some t => t
          | none => g.created
      let modified := match finfo.updateTime with
        | some t => t
        | none => g.modified
      let g1 : Got := { g with fsType := (Ext.nameAndFlags fx).drop 8, access := Ext.nameAndFlags fx,
                               eof := Ext.getEof fx % 4294967296, created := created, modified := modified }
      let curr := Ext.dataPtr fx + 1
      if curr = prev then .error .badFormat else
      let lower := (curr - 1) / (d.exm + 1) * (d.exm + 1)
      if lower < prev then (if fixed then .error .badFormat else .error .panic) else
      let bc1 := if absIdx then lower * logicalExtentSize / blockSize d else bc + (lower - prev) * logicalExtentSize / blockSize d
      match readPtrs d r (Ext.blockList d fx) bc1 g1.chunks with
      | .error e => .error e
      | .ok (bc2, cs) => readLoopV fixed absIdx d r dir finfo rest bc2 curr { g1 with chunks := cs }

/-- `get(xname)` = `read_file` -/
def getV (fixed : Bool) (d : Dpb) (r : Raw) (xname : Bytes) (absIdx : Bool := false) : R Got :=
  match getDirectory d r with
  | .error e => .error e
  | .ok dir =>
    match buildFiles d d.v3 dir with
    | .error e => .error e
    | .ok files =>
      match getFile xname files with
      | none => .error .fileNotFound
      | some finfo =>
        if !isXnameValid xname then .error .badFormat else
        match stdAccessAndTyp xname with
        | .error e => .error e
        | .ok (access, fsType) =>
          readLoopV fixed absIdx d r dir finfo finfo.entries 0 0
            { access := access, fsType := fsType, eof := 0, created := [], modified := [], chunks := [] }

end Cpm

/-! ## FAT (`/repo/src/fs/fat/mod.rs`, `/repo/src/bios/bpb.rs`) -/
namespace Fat
open A2Verif.Fs.Fat

/-- outcome class of a FAT-model result (`unmodelled` — stored name byte ≥ 128, FAT32 — counts as `err` here; the
driver reports it separately and the tie does not compare it) -/
def cls {α : Type} : R α → Cls
  | .ok _ => .ok
  | .error .panic => .panic
  | .error _ => .err

theorem cls_panic_iff {α : Type} (x : R α) : cls x = .panic ↔ x = .error .panic := by
  cases x with
  | ok a => simp [cls]
  | error e => cases e <;> simp [cls]

/-- `BPBFoundation::verify` (bpb.rs:149-178) on the parsed foundation -/
def foundationVerify (b : Bpb) : Bool :=
  [512, 1024, 2048, 4096].contains b.bps && [1, 2, 4, 8, 16, 32, 64, 128].contains b.spc && b.rsvd != 0 && b.nfat != 0
    && !(decide (b.bps > 0) && (b.rootEnt0 + 256 * b.rootEnt1) * 32 % b.bps != 0) && !(b.tot16 == 0 && b.tot32 == 0)

/-- `BootSector::verify(sec_data)` (bpb.rs:349-379).  The indices `sec_data[510]`, `[511]`, `[11..36]`, `[36..64]` come after
the test `sec_data.len() < 512`, so `getD` reads what the Rust reads.
`szFixed = false`: as written.  `szFixed = true`: repair `c12fat-sector-size-mismatch` — the BPB's sector size must be the
length of the sector that was read (the cluster and FAT arithmetic use the former, every buffer has the latter). -/
def verify (szFixed : Bool) (sec : Bytes) : Bool :=
  if sec.length < 512 then false else
  let b := Bpb.ofBoot sec
  (sec.getD 510 0 == 0x55 && sec.getD 511 0 == 0xAA) && foundationVerify b && (!szFixed || b.bps == sec.length)
    && b.fatSecs != 0 && !decide (b.totSec ≤ b.rsvd + b.nfat * b.fatSecs + b.rootDirSecs)

/-- `Disk::test_img` (mod.rs:125-132): `img.read_sector(0,0,1)` then `verify` -/
def testImg (szFixed : Bool) (r : Raw) : Bool :=
  match r.units[0]? with
  | some b => verify szFixed b
  | none => false

/-- `Disk::from_img(img, None)` (mod.rs:82-110): `BootSector::from_bytes` slices `bytes[64..90]` and calls `fat_type()`
(`data_rgn_secs` subtracts, `cluster_count_abstract` divides by `sec_per_clus`) on the unverified sector.
`repl` = the tabulated foundation that replaces the one read when the image kind is 160K / 180K (`replace_foundation`);
`fat_type()` of the buffered foundation is evaluated after the replacement. -/
def mount (lf : Bool) (repl : Option Bpb) (r : Raw) : R Disk :=
  match r.units[0]? with
  | none => .error .imgErr
  | some b =>
    if b.length < 90 then .error .panic else
    let b0 := Bpb.ofBoot b
    if b0.spc = 0 ∨ b0.totSec < b0.firstDataSec then .error .panic else
    let bpb := repl.getD b0
    if bpb.spc = 0 ∨ bpb.totSec < bpb.firstDataSec then .error .panic else
    .ok (Disk.ofImg r bpb lf)

/-- `get(path)` (mod.rs:1337).  `wf = false`: as written = `Fs.Fat.get` (a wildcard `FileInfo` reaches
`finfo.cluster1.unwrap()`); `wf = true`: repair `c12fat-get-wildcard` (refused with `Syntax`, as `delete` does). -/
def getV (wf : Bool) (path : Bytes) : M Got := fun d =>
  if wf then
    match gotoPath path d with
    | (.ok (_, fi), d') => if fi.wildcard then (.error .syntax, d') else get path d
    | (.error e, d') => (.error e, d')
  else get path d

/-- the loop of `get_cluster_chain_length` (mod.rs:515-536): like `get_cluster_chain_data` without the block reads -/
def chainLenLoop : Nat → Nat → M Unit
  | 0, _ => M.fail .badFAT
  | fuel + 1, curr => do
    match ← nextCluster curr with
    | none => pure ()
    | some nx => chainLenLoop fuel nx

/-- `get_cluster_chain_length(initial)` (the `blocks` figure of `tree`'s metadata) -/
def chainLength (initial : Nat) : M Unit := do
  if initial = 0 then pure () else
  let d ← M.get
  if !clusInRng d.bpb initial then M.fail .firstClusterInvalid else
  chainLenLoop d.bpb.clusterCountUsable initial

/-- `finfo.name == "." || finfo.name == ".."`, the name as `add_file` split it from entry `finfo.idx` -/
def isDotName (dir : Directory) (fi : FInfo) : Bool :=
  match dir[fi.idx]? with
  | some e =>
    match fileNameToSplit e with
    | some (name, _) => name == [46] || name == [46, 46]
    | none => false
  | none => false

/-- the loop `for finfo in sorted.values()` of `tree_node` (`mt = include_meta`) and `glob_node` (`mt = false`), mod.rs:923-953 /
972-1041; `rec` = the walk one level deeper, the `Nat` is `*visits`.  (The Rust iterates in key order, the model in entry order: the
outcome class is the same unless some step panics, and none does — `treeNode_safe`.  `json`, `globset`, `chrono` are not modelled.) -/
def walkItems (rec : Directory → Nat → M Nat) (mt : Bool) (dir : Directory) : List (Bytes × FInfo) → Nat → M Nat
  | [], v => pure v
  | kv :: rest, v =>
    if kv.2.volumeId then walkItems rec mt dir rest v else
    if kv.2.directory && isDotName dir kv.2 then walkItems rec mt dir rest v else do
    let v1 ← (if kv.2.directory then
                match kv.2.cluster1 with
                | some ptr => do
                  let sub ← getDirectory (some ptr)
                  rec sub v
                | none => pure v
              else pure v)
    (if mt then
       match kv.2.cluster1 with
       | some c => chainLength c
       | none => pure ()
     else pure ())
    walkItems rec mt dir rest v1

/-- `tree_node` / `glob_node` with `depthLeft` levels before the nesting cap (whose branch returns `Err`: `Gen.C12FsFlags.fatTreeCapErr`,
`fatGlobCapErr`).  `budget` = repair `c12fs-fat-directory-visit-budget` (c9d6197): `*visits += 1; if *visits >
cluster_count_usable() + 1 { return Err }`.  `if let Ok(sorted) = dir.build_files(..)`: an `Err` of `build_files` is an empty directory. -/
def walkNode (budget mt : Bool) : Nat → Directory → Nat → M Nat
  | 0, _, _ => M.fail .badFAT
  | depthLeft + 1, dir, v => fun d =>
    if budget && decide (v + 1 > d.bpb.clusterCountUsable + 1) then (.error .badFAT, d) else
    match buildFiles d.labelFiles dir with
    | .ok files => walkItems (walkNode budget mt depthLeft) mt dir files (v + 1) d
    | .error e => if e = .panic ∨ e = .unmodelled then (.error e, d) else (.ok (v + 1), d)

/-- `tree(include_meta = true)` (mod.rs:1143): `depth > 64` is refused, so 65 levels -/
def treeV (budget : Bool) : M Nat := do
  let root ← getRootDir
  walkNode budget true 65 root 0

/-- `glob(pattern)` for a pattern `globset` accepts (mod.rs:1133): `curr_path.len() > 64` with `curr_path = ["/"]` at the root, so 64 levels -/
def globV (budget : Bool) : M Nat := do
  let root ← getRootDir
  walkNode budget false 64 root 0

/-- the FAT12 / FAT16 foundations `SSDD_525_8`, `SSDD_525_9` of bpb.rs:541-569 (`replace_foundation` for 160K / 180K images) -/
def ssdd8 : Bpb :=
  ⟨512, 1, 1, 2, 64, 0, 320, 254, 1, 8, 1, 0, 0⟩
def ssdd9 : Bpb := { ssdd8 with tot16 := 360, media := 252, spt := 9 }

/-- what `from_img` does with the image kind: 320 / 360 units of 512 bytes are `IBM_SSDD_8` / `IBM_SSDD_9` -/
def replFor (r : Raw) : Option Bpb := if r.units.size = 320 then some ssdd8 else if r.units.size = 360 then some ssdd9 else none

end Fat

end A2Verif.C12FsId
