import A2Verif.Model.Fs.Pascal
import A2Verif.Model.Fs.Dos3x
/-!
# C12, file-system read paths: identification checks and the read-only queries the concrete models lack

The concrete file-system models (`Model/Fs/*.lean`) were written for the refinement proofs on well-formed
volumes.  For C12 ("arbitrary bytes as a disk image … identify, mount, stat, catalog, tree, glob, fetch each
file … never panics, never hangs") two things are missing there and are transcribed here, panic-explicitly
(`Err.panic` of the respective model; unguarded indexing is `xs[i]?` with `panic` on `none`):

* the identification test of each file system (`Disk::test_img`, `/repo/src/fs/*/mod.rs`);
* the parts of `stat` / `tree` / `glob` that can panic and that the models leave out (volume label
  conversion, name conversion of *every* listed slot).

Where the code as written can panic on a mounted image (a defect, see `design/C12Fs.md`), the function takes a
`Bool` `fixed`: `false` = the code as written = the concrete model's own function (theorem `…_asWritten`),
`true` = the proposed repair.  The harness probes the real code with the witness image and passes the bit.
-/
namespace A2Verif.C12FsId

deriving instance DecidableEq for Except

/-- outcome class of a call: what the tie compares and what C12 is about -/
inductive Cls where
  | ok | err | panic
  deriving DecidableEq, Repr, Inhabited

def Cls.token : Cls → String
  | .ok => "ok" | .err => "err" | .panic => "panic"

/-! ## Pascal (`/repo/src/fs/pascal/mod.rs`, `pack.rs`) -/
namespace Pascal
open A2Verif.Fs.Pascal

/-- outcome class of a Pascal-model result -/
def cls {α : Type} : R α → Cls
  | .ok _ => .ok
  | .error .panic => .panic
  | .error _ => .err

theorem cls_panic_iff {α : Type} (x : R α) : cls x = .panic ↔ x = .error .panic := by
  cases x with
  | ok a => simp [cls]
  | error e => cases e <;> simp [cls]

/-- `pack.rs::file_name_to_string(entry.name, entry.name_len)`.
`fixed = false`: as written (`fname[0..len]` panics for `len > 15`; `String::from_utf8` failure panics) — the
concrete model's `fileNameToString`.
`fixed = true`: repair `c12fs-pascal-name-conversion`: length clamped to the array, lossy conversion; total.
(Bytes ≥ 128 become U+FFFD in the Rust; only the outcome class is tied, the text is not.) -/
def nameFn (fixed : Bool) (e : Bytes) : Option Bytes :=
  if fixed then some (trimEnd ((Entry.name e).take (min (Entry.nameLen e) 15))) else fileNameToString e

/-- `pack.rs::vol_name_to_string(header.name, header.name_len)`; the 7 name bytes are at offset 7 -/
def volNameFn (fixed : Bool) (h : Bytes) : Option Bytes :=
  if fixed then some (trimEnd ((slice h 7 7).take (min (Hdr.nameLen h) 7)))
  else if Hdr.nameLen h > 7 then none
  else
    let s := (slice h 7 7).take (Hdr.nameLen h)
    if s.any (fun c => c ≥ 128) then none else some (trimEnd s)

/-- `for i in 0..name_len { let c = name[i]; if c<32 || c>126 { return false } }`; `name[i]` is an array
index: out of range panics (`none`) -/
def nameCharsOk (name : Bytes) : Nat → Nat → Option Bool
  | 0, _ => some true
  | n + 1, i =>
    match name[i]? with
    | none => none
    | some c => if c < 32 ∨ c > 126 then some false else nameCharsOk name n (i + 1)

/-- the loop `for i in 0..num_files { let entry = directory.entries[i]; … }` of `test_img`, over
`i, i+1, …` (`n` iterations left).  `none` = an index panic. -/
def testEntries (entries : List Bytes) (end_ tot : Nat) : Nat → Nat → Option Bool
  | 0, _ => some true
  | n + 1, i =>
    match entries[i]? with
    | none => none
    | some e =>
      let ebeg := Entry.beginBlock e
      let eend := Entry.endBlock e
      if ebeg > 0 then
        if ebeg < end_ ∨ eend ≤ ebeg ∨ eend > tot then some false
        else if Entry.nameLen e > 15 ∨ Entry.nameLen e = 0 then some false
        else
          match nameCharsOk (Entry.name e) (Entry.nameLen e) 0 with
          | none => none
          | some false => some false
          | some true => testEntries entries end_ tot n (i + 1)
      else testEntries entries end_ tot n (i + 1)

/-- `Disk::test_img` (mod.rs 104–166): `ok b` = the answer, `error panic` = the Rust panics.
Any error of `get_directory` is "not Pascal". -/
def testImg (r : Raw) : R Bool :=
  match getDirectory r with
  | .error .panic => .error .panic
  | .error _ => .ok false
  | .ok d =>
    let h := d.header
    let end_ := Hdr.endBlock h
    if Hdr.beginBlock h ≠ 0 ∨ end_ ≤ volHeaderBlock ∨ end_ > 20 then .ok false
    else if Hdr.nameLen h > 7 ∨ Hdr.nameLen h = 0 then .ok false
    else if le16 h 4 ≠ 0 then .ok false
    else
      match nameCharsOk (slice h 7 7) (Hdr.nameLen h) 0 with
      | none => .error .panic
      | some false => .ok false
      | some true =>
        match testEntries d.entries end_ (Hdr.totalBlocks h) (Hdr.numFiles h) 0 with
        | none => .error .panic
        | some b => .ok b

/-- `get_file_entry` with the name conversion as a parameter -/
def findEntryN (nm : Bytes → Option Bytes) (uname : Bytes) (total : Nat) : List Bytes → Nat → R (Option Nat)
  | [], _ => .ok none
  | e :: rest, i =>
    if entryLive e total then
      match nm e with
      | none => .error .panic
      | some s => if uname = s then .ok (some i) else findEntryN nm uname total rest (i + 1)
    else findEntryN nm uname total rest (i + 1)

/-- `read_file` (mod.rs 332–361) -/
def getV (fixed : Bool) (r : Raw) (name : Bytes) : R Got :=
  if !isNameValid name false then .error .badFormat else
  match getDirectory r with
  | .error e => .error e
  | .ok dir =>
    match findEntryN (nameFn fixed) (upper name) dir.totalBlocks (dir.entries.take dir.numFiles) 0 with
    | .error e => .error e
    | .ok none => .error .noFile
    | .ok (some idx) =>
      let e := dir.entries.getD idx []
      let beg := Entry.beginBlock e
      let end_ := Entry.endBlock e
      match readBlocks r ((List.range (end_ - beg)).map (· + beg)) with
      | .error e => .error e
      | .ok blocks =>
        if Entry.bytesRemaining e > blockSize * blocks.length then .error .badFormat
        else .ok { fsType := Entry.fileType e, eof := blockSize * blocks.length - Entry.bytesRemaining e,
                   chunks := (List.range blocks.length).zip blocks, modified := Entry.modDate e }

/-- the slot loop shared by `catalog_to_vec`, `glob`, `tree`: every slot passing the liveness test has its
name converted -/
def listLoopN (nm : Bytes → Option Bytes) (total : Nat) : List Bytes → R (List (Bytes × Nat × Nat))
  | [] => .ok []
  | e :: rest =>
    if decide (Entry.beginBlock e ≠ 0) && decide (Entry.endBlock e > Entry.beginBlock e) && decide (Entry.endBlock e ≤ total) then
      match nm e with
      | none => .error .panic
      | some s =>
        match listLoopN nm total rest with
        | .error e => .error e
        | .ok rows => .ok ((s, Entry.endBlock e - Entry.beginBlock e, e.getD 4 0) :: rows)
    else listLoopN nm total rest

/-- `catalog_to_vec("/")` (mod.rs 534–557) -/
def catalogV (fixed : Bool) (r : Raw) : R (List (Bytes × Nat × Nat)) :=
  match getDirectory r with
  | .error e => .error e
  | .ok d => listLoopN (nameFn fixed) d.totalBlocks d.entries

/-- `glob(pattern, _)` (mod.rs 558–580) for a pattern `globset` accepts: the same slot loop; the rows are then
filtered by the matcher (a parameter; total) -/
def globV (fixed : Bool) (r : Raw) : R (List (Bytes × Nat × Nat)) := catalogV fixed r

/-- `tree(include_meta, _)` (mod.rs 581–618): label first, then the slot loop.  `unpack_date` is total since
repair `impossible-dates`; `blocks*512 + bytes_remaining - 512` cannot underflow because a listed slot has
`end > beg`. -/
def treeV (fixed : Bool) (r : Raw) : R Unit :=
  match getDirectory r with
  | .error e => .error e
  | .ok d =>
    match volNameFn fixed d.header with
    | none => .error .panic
    | some _ =>
      match listLoopN (nameFn fixed) d.totalBlocks d.entries with
      | .error e => .error e
      | .ok _ => .ok ()

/-- `stat()` (mod.rs 487–500): `get_directory`, `num_free_blocks`, then the label -/
def statV (fixed : Bool) (r : Raw) : R Nat :=
  match statFree r with
  | .error e => .error e
  | .ok free =>
    match getDirectory r with
    | .error e => .error e
    | .ok d =>
      match volNameFn fixed d.header with
      | none => .error .panic
      | some _ => .ok free

end Pascal

/-! ## DOS 3.x (`/repo/src/fs/dos3x/mod.rs`) -/
namespace Dos
open A2Verif.Fs.Dos3x

/-- outcome class of a DOS-model result -/
def cls {α : Type} : R α → Cls
  | .ok _ => .ok
  | .error .panic => .panic
  | .error _ => .err

/-- `Disk::test_img` (mod.rs 73–149) on a flat image with `c` sectors per track (`DO`: 16, `D13`: 13).
`img.track_count()` is `units / c`; on a `DO` image the 13-sector probe fails in the image layer
(`Block::D13` → `ImageTypeMismatch`) and vice versa, so only the probe of the container's own flavour counts.
There is no indexing and no arithmetic: the function cannot panic, hence the result type `Bool`. -/
def testImg (c : Nat) (r : Raw) : Bool :=
  if imgTracks c r ≠ 35 then false else
  match imgRead c r vtocTrack 0 with
  | .error _ => false
  | .ok dat =>
    -- `VTOC::from_bytes`
    if dat.length < vtocLen then false else
    let v := dat.take vtocLen
    if (c = 13 ∧ v.getD 3 0 > 2) ∨ (c ≠ 13 ∧ v.getD 3 0 < 3) then false
    else if Vtoc.vol v < 1 ∨ Vtoc.vol v > 254 then false
    else if Vtoc.track1 v ≠ vtocTrack ∨ Vtoc.sector1 v ≠ c - 1 then false
    else if v.getD 0x36 0 ≠ 0 ∨ v.getD 0x37 0 ≠ 1 ∨ Vtoc.sectors v ≠ c ∨ Vtoc.tracks v ≠ 35 then false
    else true

/-- the entry loop of `tree(include_meta = true)` (mod.rs 809–836) over entries `k, …` of the directory sector
`dir`; `cur` is the sector buffer the loop keeps overwriting (T/S list, then first data sector) -/
def treeEntries (dir : Bytes) : List Nat → Bytes → M Bytes
  | [], cur => pure cur
  | k :: ks, cur =>
    if Dir.tslTrack dir k > 0 ∧ Dir.tslTrack dir k < 255 then do
      let v ← M.getV
      M.lift (verifyTs v (Dir.tslTrack dir k) (Dir.tslSector dir k))
      let cur ← readSectorM cur (Dir.tslTrack dir k) (Dir.tslSector dir k)
      M.lift (fullSector cur)
      M.lift (verifyTs v (Tsl.pairTrack cur 0) (Tsl.pairSector cur 0))
      let cur ← readSectorM cur (Tsl.pairTrack cur 0) (Tsl.pairSector cur 0)
      treeEntries dir ks cur
    else treeEntries dir ks cur

/-- the directory walk of `tree` (cap `MAX_DIRECTORY_REPS`, `IOError` beyond it) -/
def treeLoop : Nat → Nat → Nat → Bytes → M Unit
  | 0, _, _, _ => M.fail .ioError
  | fuel + 1, t, s, buf => do
    let v ← M.getV
    M.lift (verifyTs v t s)
    let buf ← readSectorM buf t s
    M.lift (fullSector buf)
    let cur ← treeEntries buf (List.range 7) buf
    if Dir.nextTrack buf = 0 ∧ Dir.nextSector buf = 0 then pure ()
    else treeLoop fuel (Dir.nextTrack buf) (Dir.nextSector buf) cur

/-- `tree(true, _)` -/
def tree (d : Disk) : R Unit × Disk :=
  d.run (do let v ← M.getV; treeLoop maxDirectoryReps (Vtoc.track1 v) (Vtoc.sector1 v) (zeros 256))

/-- `glob(pattern, _)` for a pattern `globset` accepts: the directory walk of `catalog_to_vec`, names filtered by
the matcher (a total parameter) -/
def glob (d : Disk) : R (List (Bytes × Nat × Nat)) × Disk := catalog d

end Dos

end A2Verif.C12FsId
