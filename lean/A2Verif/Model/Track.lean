import A2Verif.Model.Nibble
/-!
# Model of a circular 5.25 inch bit track (`TrackBits` of `/repo/src/img/disk525.rs`)

The track is kept *as seen from the head*: `bits[0]` is the bit under the head, reading a bit moves it
to the back (`next`), writing a bit replaces it and moves it to the back (`put`).  `pos` is the
absolute bit pointer of the Rust object (`bit_ptr`), only needed to compare with the real buffer:
the Rust buffer is `rotate bits (n - pos)`.

| Rust (disk525.rs)                         | Lean                                   |
|-------------------------------------------|----------------------------------------|
| `next` :203 / `shift_fwd(1)` :164         | `next`                                 |
| `write` :226 (bit by bit)                 | `put`, `writeBits`, `writeByte(s)`     |
| `read_latch` :184                         | `skipZeros`, `readVal`, `readLatch1`, `readLatchN` |
| `find_byte_pattern` :253                  | `findPat`                              |
| `decode_addr` :239                        | `decodeAddr`                           |
| `find_sector` :282                        | `findSector`                           |
| `write_sync_gap` :541                     | `writeSync`                            |
| `encode_sector` :401 (+ `_62`/`_53`)      | `encodeSector`                         |
| `decode_sector` :522 (+ `_62`/`_53`)      | `decodeSector`                         |
| `read_sector`/`write_sector` :564-575     | `readSector`, `writeSector`            |
| `format` :685                             | `formatBits`                           |

Only the standard formats (`create_std16/13`: prologs `D5 AA 96|B5`, `D5 AA AD`, epilog `DE AA EB` with
mask `FF FF 00`, `chk_seed = 0`, all verifications on).
-/
namespace A2Verif.Model.Track
open A2Verif.Model.Nibble

/-- what the code uses of a track: read the bit under the head and advance, overwrite it and advance,
number of bits.  All operations below are written once against this interface; the theorems use the
list instance `Trk` (head-relative, rotating), the driver runs the array instance `ATrk` (absolute
buffer + bit pointer, as in the Rust). -/
class Head (σ : Type) where
  next : σ → Bool × σ
  put : Bool → σ → σ
  len : σ → Nat

structure Trk where
  bits : List Bool
  pos : Nat
deriving Repr

/-- read the bit under the head and rotate by one -/
def Trk.next (t : Trk) : Bool × Trk :=
  match t.bits with
  | [] => (false, t)
  | b :: rest => (b, ⟨rest ++ [b], (t.pos + 1) % (rest.length + 1)⟩)

/-- write the bit under the head and rotate by one -/
def Trk.put (x : Bool) (t : Trk) : Trk :=
  match t.bits with
  | [] => t
  | _ :: rest => ⟨rest ++ [x], (t.pos + 1) % (rest.length + 1)⟩

instance : Head Trk := ⟨Trk.next, Trk.put, fun t => t.bits.length⟩

/-- the Rust representation: the first `bit_count` bits of the buffer and `bit_ptr` -/
structure ATrk where
  buf : Array Bool
  pos : Nat

def ATrk.next (t : ATrk) : Bool × ATrk :=
  if t.buf.size = 0 then (false, t) else (t.buf.getD t.pos false, ⟨t.buf, (t.pos + 1) % t.buf.size⟩)

def ATrk.put (x : Bool) (t : ATrk) : ATrk :=
  if t.buf.size = 0 then t else ⟨t.buf.setIfInBounds t.pos x, (t.pos + 1) % t.buf.size⟩

instance : Head ATrk := ⟨ATrk.next, ATrk.put, fun t => t.buf.size⟩

/-- the head-relative view of the Rust representation -/
def ATrk.view (t : ATrk) : Trk := ⟨t.buf.toList.drop t.pos ++ t.buf.toList.take t.pos, t.pos⟩

/-- the standard track formats: 6&2 (16 sectors) or 5&3 (13 sectors), and the width of a sync byte
(8 for NIB, 9/10 for WOZ) -/
structure Fmt where
  six : Bool
  syncBits : Nat
  /-- `bits.len()` of the Rust buffer in bytes: the try limit of an uncapped pattern search -/
  maxTries : Nat
deriving Repr

def Fmt.adrPro (f : Fmt) : List Nat := [0xd5, 0xaa, if f.six then 0x96 else 0xb5]
def datPro : List Nat := [0xd5, 0xaa, 0xad]
def epi : List Nat := [0xde, 0xaa, 0xeb]
def proMask : List Nat := [0xff, 0xff, 0xff]
def epiMask : List Nat := [0xff, 0xff, 0x00]
def Fmt.dataNibs (f : Fmt) : Nat := if f.six then 343 else 411

/-- `if let Some(max) = cap { if tries>=max { return None } }` -/
def capped (cap : Option Nat) (tries : Nat) : Bool :=
  match cap with
  | some c => decide (tries ≥ c)
  | none => false

section generic
variable {σ : Type} [Head σ]
open Head

def writeBits : List Bool → σ → σ
  | [], t => t
  | x :: xs, t => writeBits xs (put x t)

/-- the `k` most significant of the low 8 bits of `b`, MSB first -/
def bitsOf (b : Nat) (k : Nat) : List Bool := (List.range k).map (fun i => b.testBit (7 - i))

def writeByte (b : Nat) (t : σ) : σ := writeBits (bitsOf b 8) t

def writeBytes : List Nat → σ → σ
  | [], t => t
  | b :: bs, t => writeBytes bs (writeByte b t)

/-- `write(bits,&[0xff,0x00],sync_bits)`, `num` times: eight ones, then `sync_bits - 8` zeros -/
def writeSync (syncBits : Nat) : Nat → σ → σ
  | 0, t => t
  | k + 1, t => writeSync syncBits k (writeBits (bitsOf 0xff (min syncBits 8) ++ List.replicate (syncBits - 8) false) t)

/-- the `for _try in 0..bit_count { if next==1 break }` loop: number of bits consumed -/
def skipZeros : Nat → σ → Nat × σ
  | 0, t => (0, t)
  | f + 1, t =>
    let r := next t
    if r.1 then (1, r.2) else
      let q := skipZeros f r.2
      (q.1 + 1, q.2)

/-- `val = val*2 + next` `k` times (`u8`) -/
def readVal : Nat → Nat → σ → Nat × σ
  | 0, v, t => (v, t)
  | k + 1, v, t =>
    let r := next t
    readVal k ((v * 2 + (if r.1 then 1 else 0)) % 256) r.2

/-- one byte through the soft latch: (byte, track) -/
def readLatch1 (t : σ) : Nat × σ :=
  let s := skipZeros (len t) t
  readVal 7 1 s.2

def readLatchN : Nat → σ → List Nat × σ
  | 0, t => ([], t)
  | k + 1, t =>
    let r := readLatch1 t
    let q := readLatchN k r.2
    (r.1 :: q.1, q.2)

/-- `find_byte_pattern`: `fuel` = remaining iterations of `for tries in 0..bits.len()`, `tries` the loop
variable, `m` = `matches`.  Returns whether the pattern was found and the track afterwards (the head
has moved also when nothing is found). -/
def findPatLoop (patt mask : List Nat) (cap : Option Nat) : Nat → Nat → Nat → σ → Bool × σ
  | 0, _, _, t => (false, t)
  | fuel + 1, tries, m, t =>
    if capped cap tries then (false, t) else
    let r := readLatch1 t
    let m' := if r.1 &&& mask.getD m 0 = patt.getD m 0 &&& mask.getD m 0 then m + 1 else 0
    if m' = patt.length then (true, r.2) else findPatLoop patt mask cap fuel (tries + 1) m' r.2

def findPat (f : Fmt) (patt mask : List Nat) (cap : Option Nat) (t : σ) : Bool × σ :=
  if patt.length = 0 then (true, t) else findPatLoop patt mask cap f.maxTries 0 0 t

/-- `decode_addr`: (vol, track, sector, chksum) -/
def decodeAddr (t : σ) : (Nat × Nat × Nat × Nat) × σ :=
  let r := readLatchN 8 t
  let b := fun i => r.1.getD i 0
  ((decode44 (b 0) (b 1), decode44 (b 2) (b 3), decode44 (b 4) (b 5), decode44 (b 6) (b 7)), r.2)

inductive TErr
  | badTrack
  | sectorNotFound
  | invalidByte
  | badChecksum
deriving DecidableEq, Repr

/-- `find_sector`: `fuel` = remaining of the 32 tries -/
def findSectorLoop (f : Fmt) (trk sec : Nat) : Nat → σ → Except TErr Unit × σ
  | 0, t => (.error .sectorNotFound, t)
  | fuel + 1, t =>
    let p := findPat f f.adrPro proMask none t
    if !p.1 then (.error .badTrack, p.2) else
    let a := decodeAddr p.2
    let vol := a.1.1
    let track := a.1.2.1
    let sector := a.1.2.2.1
    let chksum := a.1.2.2.2
    let chk := 0 ^^^ vol ^^^ track ^^^ sector ^^^ chksum
    if track ≠ trk then findSectorLoop f trk sec fuel a.2 else
    if chk ≠ 0 then findSectorLoop f trk sec fuel a.2 else
    let e := findPat f epi epiMask (some 10) a.2
    if !e.1 then findSectorLoop f trk sec fuel e.2 else
    if sec ≠ sector then findSectorLoop f trk sec fuel e.2 else
    (.ok (), e.2)

def findSector (f : Fmt) (trk sec : Nat) (t : σ) : Except TErr Unit × σ :=
  findSectorLoop f trk sec 32 t

/-- `encode_sector`: ten sync bytes, data prolog, the data nibbles, epilog -/
def encodeSector (f : Fmt) (dat : List Nat) (t : σ) : σ :=
  let t1 := writeSync f.syncBits 10 t
  let t2 := writeBytes datPro t1
  let t3 := writeBytes (if f.six then enc62 dat else enc53 dat) t2
  writeBytes epi t3

/-- `decode_sector`: look for the data prolog within 40 latch bytes; absent = empty sector -/
def decodeSector (f : Fmt) (t : σ) : Except TErr (List Nat) × σ :=
  let p := findPat f datPro proMask (some 40) t
  if !p.1 then (.ok (List.replicate 256 0), p.2) else
  let r := readLatchN f.dataNibs p.2
  match (if f.six then dec62 r.1 else dec53 r.1) with
  | .ok d => (.ok d, r.2)
  | .error .badChecksum => (.error .badChecksum, r.2)
  | .error _ => (.error .invalidByte, r.2)

def readSector (f : Fmt) (trk sec : Nat) (t : σ) : Except TErr (List Nat) × σ :=
  let s := findSector f trk sec t
  match s.1 with
  | .ok _ => decodeSector f s.2
  | .error e => (.error e, s.2)

def writeSector (f : Fmt) (dat : List Nat) (trk sec : Nat) (t : σ) : Except TErr Unit × σ :=
  let s := findSector f trk sec t
  match s.1 with
  | .ok _ => (.ok (), encodeSector f dat s.2)
  | .error e => (.error e, s.2)

end generic

/-- the bytes `format` lays down, as (leading-zero count is implicit) a bit string written from bit 0:
40 sync, then per sector: address field, data field (6&2: an encoded zero sector; 5&3: ten sync and 417
`FF`), 20 sync -/
def formatBits (f : Fmt) (vol trk : Nat) (secIds : List Nat) : List Bool :=
  let sync (k : Nat) : List Bool :=
    (List.replicate k (bitsOf 0xff (min f.syncBits 8) ++ List.replicate (f.syncBits - 8) false)).flatten
  let bytes (bs : List Nat) : List Bool := (bs.map (fun b => bitsOf b 8)).flatten
  sync 40 ++ (secIds.map (fun s =>
    bytes (f.adrPro ++ encode44 vol ++ encode44 trk ++ encode44 s ++ encode44 (0 ^^^ vol ^^^ trk ^^^ s) ++ epi) ++
    (if f.six then sync 10 ++ bytes (datPro ++ enc62 (List.replicate 256 0) ++ epi)
     else sync 10 ++ bytes (List.replicate 417 0xff)) ++
    sync 20)).flatten


/-! ## the formatter `disk525::format` :685, written against the same `Head` interface

`format` creates a `TrackBits` of `bit_count` bits (pointer 0) over a buffer of `buf_len` bytes and lays down
40 sync bytes, then per sector: address field (prolog, 4&4 volume/track/sector/checksum, epilog), the
data segment (16 sectors: `encode_sector` of 256 zeros; 13 sectors: ten sync bytes and 417 `FF`), 20 sync
bytes.  Exactly `bit_count` bits are written, so the pointer is back at 0 (`reset`). -/

/-- `bit_count` of `format` for `nsec` sectors -/
def Fmt.bitCount (f : Fmt) (nsec : Nat) : Nat :=
  40 * f.syncBits + nsec * ((3 + 8 + 3) * 8 + 10 * f.syncBits + (3 + f.dataNibs + 3) * 8 + 20 * f.syncBits)

section formatter
variable {σ : Type} [Head σ]

/-- one iteration of `for sector in 0..sectors` with `sec_addr = sec` -/
def formatSector (f : Fmt) (vol trk sec : Nat) (t : σ) : σ :=
  let t1 := writeBytes f.adrPro t
  let t2 := writeBytes (encode44 vol) t1
  let t3 := writeBytes (encode44 trk) t2
  let t4 := writeBytes (encode44 sec) t3
  let t5 := writeBytes (encode44 (0 ^^^ vol ^^^ trk ^^^ sec)) t4
  let t6 := writeBytes epi t5
  let t7 := if f.six then encodeSector f (List.replicate 256 0) t6
            else writeBytes (List.replicate 417 0xff) (writeSync f.syncBits 10 t6)
  writeSync f.syncBits 20 t7

/-- `format`: `ids` = the sector address of each iteration (`0..15`, or `DOS32_PHYSICAL`) -/
def formatTrack (f : Fmt) (vol trk : Nat) (ids : List Nat) (t : σ) : σ :=
  ids.foldl (fun t s => formatSector f vol trk s t) (writeSync f.syncBits 40 t)

end formatter

end A2Verif.Model.Track
