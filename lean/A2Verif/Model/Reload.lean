import A2Verif.Model.Raw
import A2Verif.Model.Fs.Pascal
import A2Verif.Model.Fs.Dos3x
import A2Verif.Model.Fs.Fat
import A2Verif.Model.Fs.Prodos
import A2Verif.Model.Fs.Cpm
/-!
# Saving an image and loading it again (property C06)

`save` is what `DiskFS::get_img()` followed by `DiskImage::to_bytes()` does for the five concrete file-system
models on their flat containers: the in-memory buffer (DOS 3.x `maybe_vtoc`, FAT `maybe_fat`, ProDOS
`maybe_bitmap`) is written back (`Disk.flush` of the model), then the unit array is handed out as one byte
string (`dsk_do.rs`, `dsk_d13.rs`, `dsk_po.rs`, `dsk_img.rs`: `to_bytes` = `self.data.clone()`; C08 shows the unit
array *is* that buffer).  `load` is the container's `from_bytes` (cut the byte string into units again) followed
by the file system's `from_img`: a **fresh object whose buffers are closed** (`maybe_vtoc: None`, `maybe_fat: None`,
`maybe_bitmap: None, bitmap_blocks: Vec::new()`).

| Rust | Lean |
|---|---|
| `DO/D13/PO/Img::to_bytes` | `toBytes` |
| `DO/D13/PO/Img::from_bytes` (the unit structure; the size tests are in `Reload.Ident`) | `ofBytes` |
| `fs::pascal::Disk::from_img` | `Pascal.load` |
| `fs::dos3x::Disk::from_img` (`maybe_vtoc: None`) | `Dos.load` |
| `fs::fat::Disk::from_img(img, None)` (boot sector read from the image, `typ = fat_type()`, `maybe_fat: None`) | `Fat.load` |
| `fs::prodos::Disk::from_img` (`total_blocks = byte_capacity/512`, no buffer, no bitmap blocks) | `Prodos.load` |
| `fs::cpm::Disk::from_img` (the DPB is a parameter; a unit is an allocation block) | `Cpm.load` |
| `lib.rs::save_img` = `get_img().to_bytes()` | `*.save` |
-/
namespace A2Verif.Reload

/-- `to_bytes()` of a flat container: the units in order -/
def toBytes (r : Raw) : Bytes := r.units.toList.flatten

/-- cut `k` units of `n` bytes off a byte string -/
def chunks (n : Nat) : Nat → Bytes → List Bytes
  | 0, _ => []
  | k + 1, b => b.take n :: chunks n k (b.drop n)

/-- `from_bytes(data)` of a flat container whose unit is `unitLen` bytes: `data.len() / unitLen` units -/
def ofBytes (unitLen : Nat) (b : Bytes) : Raw :=
  { unitLen := unitLen, units := (chunks unitLen (b.length / unitLen) b).toArray }

/-! ## Pascal (flat PO, 512-byte blocks): no buffer -/
namespace Pascal
/-- `get_img().to_bytes()` -/
def save (r : Raw) : Bytes := toBytes r
/-- `PO::from_bytes` + `Disk::from_img` -/
def load (b : Bytes) : Raw := ofBytes 512 b
end Pascal

/-! ## DOS 3.x (flat DO / D13, 256-byte sectors): the VTOC buffer -/
namespace Dos
open A2Verif.Fs.Dos3x
/-- `get_img().to_bytes()`: write the VTOC buffer back (a failure is the `expect` panic of `get_img`), then the bytes -/
def save (d : Disk) : R Bytes :=
  match d.flush with
  | .ok r => .ok (toBytes r)
  | .error e => .error e
/-- `DO::from_bytes` (`c = 16`) or `D13::from_bytes` (`c = 13`) + `Disk::from_img`: no VTOC buffer -/
def load (c : Nat) (b : Bytes) : Disk := { raw := ofBytes 256 b, c := c, vtoc := none }
/-- the defective variant used as negative witness: `get_img` hands out the image **without** writing the buffer back -/
def saveForgetful (d : Disk) : R Bytes := .ok (toBytes d.raw)
end Dos

/-! ## FAT (flat IMG, 512-byte sectors): the FAT buffer -/
namespace Fat
open A2Verif.Fs.Fat
/-- `get_img().to_bytes()`: `writeback_fat_buffer` to every FAT copy, then the bytes -/
def save (d : Disk) : R Bytes :=
  match flush d with
  | (.ok _, d') => .ok (toBytes d'.raw)
  | (.error e, _) => .error e
/-- `Img::from_bytes` + `Disk::from_img(img, None)`: the boot sector is read from the image (a missing sector 0 is
the error of `read_sector`; the model then has an all-zero BPB, which every operation refuses), `typ` is computed
once, no FAT buffer.  `lf` is the model's variant bit (not state of the Rust). -/
def load (unitLen : Nat) (lf : Bool) (b : Bytes) : Disk :=
  let raw := ofBytes unitLen b
  Disk.ofImg raw (Bpb.ofBoot ((raw.units[0]?).getD [])) lf
/-- negative witness: the buffer is not written back -/
def saveForgetful (d : Disk) : R Bytes := .ok (toBytes d.raw)
end Fat

/-! ## ProDOS (flat PO, 512-byte blocks): the volume bitmap buffer -/
namespace Prodos
open A2Verif.Fs.Prodos
/-- `get_img().to_bytes()`: `writeback_bitmap_buffer().expect(..)`, then the bytes -/
def save (d : Disk) : R Bytes :=
  match d.flush with
  | (.ok _, d') => .ok (toBytes d'.raw)
  | (.error e, _) => .error e
/-- `PO::from_bytes` + `Disk::from_img`: `total_blocks = img.byte_capacity()/512`, `maybe_bitmap: None`,
`bitmap_blocks: Vec::new()` -/
def load (b : Bytes) : Disk :=
  let raw := ofBytes 512 b
  { raw := raw, total := raw.units.size, bitmap := none, bitmapBlocks := [] }
/-- negative witness: the buffer is not written back -/
def saveForgetful (d : Disk) : R Bytes := .ok (toBytes d.raw)
end Prodos

/-! ## CP/M (unit = allocation block as `DiskFS::read_block` returns it): no buffer -/
namespace Cpm
open A2Verif.Fs.Cpm
/-- the blocks in order (their placement in the container is C07's subject) -/
def save (r : Raw) : Bytes := toBytes r
/-- the container's `from_bytes` + `Disk::from_img(img, dpb, vers)`; the block size comes from the DPB -/
def load (d : Read.Cpm.Dpb) (b : Bytes) : Raw := ofBytes (blockSize d) b
end Cpm

end A2Verif.Reload
