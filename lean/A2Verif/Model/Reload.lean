import A2Verif.Model.Raw
import A2Verif.Model.Fs.Pascal
import A2Verif.Model.Fs.Dos3x
import A2Verif.Model.Fs.Fat
import A2Verif.Model.Fs.Prodos
import A2Verif.Model.Fs.Cpm
/-!
# Saving an image and loading it again (property C06)

`save` is what `DiskFS::get_img()` followed by `DiskImage::to_bytes()` does for the five concrete file-system
models on their flat containers: the in-memory buffer (DOS 3.x `maybe_vtoc`, FAT `maybe_fat`, ProDOS
`maybe_bitmap`) is written back (`Disk.flush` of the model), then the unit array is handed out as one byte
string (`dsk_do.rs`, `dsk_d13.rs`, `dsk_po.rs`, `dsk_img.rs`: `to_bytes` = `self.data.clone()`; C08 shows the unit
array *is* that buffer).  `load` is the container's `from_bytes` (cut the byte string into units again) followed
by the file system's `from_img`: a **fresh object whose buffers are closed** (`maybe_vtoc: None`, `maybe_fat: None`,
`maybe_bitmap: None, bitmap_blocks: Vec::new()`).

| Rust | Lean |
|---|---|
| `DO/D13/PO/Img::to_bytes` | `toBytes` |
| `DO/D13/PO/Img::from_bytes` (the unit structure; the size tests are in `Reload.Ident`) | `ofBytes` |
| `fs::pascal::Disk::from_img` | `Pascal.load` |
| `fs::dos3x::Disk::from_img` (`maybe_vtoc: None`) | `Dos.load` |
| `fs::fat::Disk::from_img(img, None)` (boot sector read from the image, `typ = fat_type()`, `maybe_fat: None`) | `Fat.load` |
| `fs::prodos::Disk::from_img` (`total_blocks = byte_capacity/512`, no buffer, no bitmap blocks) | `Prodos.load` |
| `fs::cpm::Disk::from_img` (the DPB is a parameter; a unit is an allocation block) | `Cpm.load` |
| `lib.rs::save_img` = `get_img().to_bytes()` | `*.save` |
-/
namespace A2Verif.Reload

/-- `to_bytes()` of a flat container: the units in order -/
def toBytes (r : Raw) : Bytes := r.units.toList.flatten

/-- cut `k` units of `n` bytes off a byte string -/
def chunks (n : Nat) : Nat → Bytes → List Bytes
  | 0, _ => []
  | k + 1, b => b.take n :: chunks n k (b.drop n)

/-- `from_bytes(data)` of a flat container whose unit is `unitLen` bytes: `data.len() / unitLen` units -/
def ofBytes (unitLen : Nat) (b : Bytes) : Raw :=
  { unitLen := unitLen, units := (chunks unitLen (b.length / unitLen) b).toArray }

/-! ## Pascal (flat PO, 512-byte blocks): no buffer -/
namespace Pascal
/-- `get_img().to_bytes()` -/
def save (r : Raw) : Bytes := toBytes r
/-- `PO::from_bytes` + `Disk::from_img` -/
def load (b : Bytes) : Raw := ofBytes 512 b
end Pascal

/-! ## DOS 3.x (flat DO / D13, 256-byte sectors): the VTOC buffer -/
namespace Dos
open A2Verif.Fs.Dos3x
/-- `get_img().to_bytes()`: write the VTOC buffer back (a failure is the `expect` panic of `get_img`), then the bytes -/
def save (d : Disk) : R Bytes :=
  match d.flush with
  | .ok r => .ok (toBytes r)
  | .error e => .error e
/-- `DO::from_bytes` (`c = 16`) or `D13::from_bytes` (`c = 13`) + `Disk::from_img`: no VTOC buffer -/
def load (c : Nat) (b : Bytes) : Disk := { raw := ofBytes 256 b, c := c, vtoc := none }
/-- the defective variant used as negative witness: `get_img` hands out the image **without** writing the buffer back -/
def saveForgetful (d : Disk) : R Bytes := .ok (toBytes d.raw)
end Dos

/-! ## FAT (flat IMG, 512-byte sectors): the FAT buffer -/
namespace Fat
open A2Verif.Fs.Fat
/-- `get_img().to_bytes()`: `writeback_fat_buffer` to every FAT copy, then the bytes -/
def save (d : Disk) : R Bytes :=
  match flush d with
  | (.ok _, d') => .ok (toBytes d'.raw)
  | (.error e, _) => .error e
/-- `Img::from_bytes` + `Disk::from_img(img, None)`: the boot sector is read from the image (a missing sector 0 is
the error of `read_sector`; the model then has an all-zero BPB, which every operation refuses), `typ` is computed
once, no FAT buffer.  `lf` is the model's variant bit (not state of the Rust). -/
def load (unitLen : Nat) (lf : Bool) (b : Bytes) : Disk :=
  let raw := ofBytes unitLen b
  Disk.ofImg raw (Bpb.ofBoot ((raw.units[0]?).getD [])) lf
/-- negative witness: the buffer is not written back -/
def saveForgetful (d : Disk) : R Bytes := .ok (toBytes d.raw)
end Fat

/-! ## ProDOS (flat PO, 512-byte blocks): the volume bitmap buffer -/
namespace Prodos
open A2Verif.Fs.Prodos
/-- `get_img().to_bytes()`: `writeback_bitmap_buffer().expect(..)`, then the bytes -/
def save (d : Disk) : R Bytes :=
  match d.flush with
  | (.ok _, d') => .ok (toBytes d'.raw)
  | (.error e, _) => .error e
/-- `PO::from_bytes` + `Disk::from_img`: `total_blocks = img.byte_capacity()/512`, `maybe_bitmap: None`,
`bitmap_blocks: Vec::new()`.  `src` is the model's source-variant selector (not state of the Rust object). -/
def load (src : Repairs) (b : Bytes) : Disk :=
  let raw := ofBytes 512 b
  { raw := raw, total := raw.units.size, bitmap := none, bitmapBlocks := [], src := src }
/-- negative witness: the buffer is not written back -/
def saveForgetful (d : Disk) : R Bytes := .ok (toBytes d.raw)
end Prodos

/-! ## CP/M (unit = allocation block as `DiskFS::read_block` returns it): no buffer -/
namespace Cpm
open A2Verif.Fs.Cpm
/-- the blocks in order (their placement in the container is C07's subject) -/
def save (r : Raw) : Bytes := toBytes r
/-- the container's `from_bytes` + `Disk::from_img(img, dpb, vers)`; the block size comes from the DPB -/
def load (d : Read.Cpm.Dpb) (b : Bytes) : Raw := ofBytes (blockSize d) b
end Cpm

/-! ## Identification: which file system `create_fs_from_bytestream` finds in the saved bytes

`lib.rs::create_fs_from_bytestream(data, maybe_ext)` tries the container formats in a fixed order (IMD, WOZ1, WOZ2,
2MG, TD0, NIB, **D13, DO, PO, IMG**), each only if the extension hint is empty or among its extensions; for every
container whose `from_bytes` accepts the data, `try_img` asks the file systems in the order **DOS 3.x, ProDOS, Pascal,
FAT**, MS-DOS 1.x, CP/M (nine parameter blocks) and the first test that accepts decides.  Transcribed here: the four
flat containers (size tests of `from_bytes`, the block/sector reads the tests perform) and the first four tests.  The
answer `later` stands for "none of the four accepted": the chain then goes on to the MS-DOS 1.x and CP/M tests, which
are not transcribed.  The formats with a magic number or an own size (IMD, WOZ, 2MG, TD0, NIB) precede the flat ones
in the chain when no hint is given; that they refuse the bytes of a flat image is a hypothesis of the no-hint theorems.

| Rust | Lean |
|---|---|
| `D13/DO/PO/Img::from_bytes` (size tests, `tracks`, `kind`) | `d13Accepts`, `doAccepts`, `poAccepts`, `imgGeo` |
| `read_block(Block::D13/DO/PO)`, `read_sector(0,0,1)`, `track_count()` of the four containers | `probeD13`, `probeDO`, `probePO`, `probeIMG` |
| `dos3x::Disk::test_img` (`test_img_13`, `test_img_16`) | `dosTest` |
| `prodos::Disk::test_img` | `prodosTest` |
| `pascal::Disk::test_img` (on `get_directory`) | `pascalTest` |
| `fat::Disk::test_img` = `BootSector::verify` + `BPBFoundation::verify` | `fatTest` |
| `try_img` (first four tests) | `tryImg` |
| the extension filter and the container order | `Hint`, `candidates`, `identify` |
-/
namespace Ident

/-- what `try_img` can answer; `later` = none of the first four tests accepted -/
inductive FsId where
  | dos32 | dos33 | prodos | pascal | fat | later
  deriving DecidableEq, Repr

/-- what the four tests read from a container -/
structure Probe where
  /-- `img.track_count()` -/
  trackCount : Nat
  /-- `read_block(Block::D13([t,s]))` -/
  d13Sector : Nat → Nat → Option Bytes
  /-- `read_block(Block::DO([t,s]))` -/
  doSector : Nat → Nat → Option Bytes
  /-- the image as ProDOS blocks, `read_block(Block::PO(i))` = unit `i` (no units: the container refuses such blocks) -/
  poBlocks : Raw
  /-- `read_sector(0,0,1)` -/
  bootSector : Option Bytes

def bytesAt (b : Bytes) (off len : Nat) : Option Bytes := if off + len ≤ b.length then some ((b.drop off).take len) else none

/-! ### the flat containers -/

/-- `D13::from_bytes`: whole 13-sector tracks, at least 35 -/
def d13Accepts (b : Bytes) : Bool := decide (b.length % 3328 = 0) && decide (35 ≤ b.length / 3328)
/-- `DO::from_bytes`: whole blocks, 280 … 65535 of them, whole 16-sector tracks -/
def doAccepts (b : Bytes) : Bool :=
  decide (b.length % 512 = 0) && decide (b.length / 512 ≤ 65535) && decide (280 ≤ b.length / 512) && decide (b.length / 512 % 8 = 0)
/-- `PO::from_bytes` -/
def poAccepts (b : Bytes) : Bool := decide (b.length % 512 = 0) && decide (b.length / 512 ≤ 65535) && decide (280 ≤ b.length / 512)
/-- `Img::from_bytes`: the size must be that of a known layout → (sector size, cylinders, heads, sectors) -/
def imgGeo (len : Nat) : Option (Nat × Nat × Nat × Nat) :=
  if len = 256256 then some (128, 77, 1, 26) else if len = 1261568 then some (1024, 77, 2, 8)
  else if len = 163840 then some (512, 40, 1, 8) else if len = 184320 then some (512, 40, 1, 9)
  else if len = 327680 then some (512, 40, 2, 8) else if len = 368640 then some (512, 40, 2, 9)
  else if len = 655360 then some (512, 80, 2, 8) else if len = 1228800 then some (512, 80, 2, 15)
  else if len = 737280 then some (512, 80, 2, 9) else if len = 1474560 then some (512, 80, 2, 18)
  else if len = 1720320 then some (512, 80, 2, 21) else if len = 1763328 then some (512, 82, 2, 21)
  else if len = 2949120 then some (512, 80, 2, 36) else none

def noBlocks : Raw := { unitLen := 512, units := #[] }

def probeD13 (b : Bytes) : Probe :=
  { trackCount := b.length / 3328,
    d13Sector := fun t s => if t < b.length / 3328 ∧ s < 13 then bytesAt b (t * 3328 + s * 256) 256 else none,
    doSector := fun _ _ => none,
    poBlocks := noBlocks,
    -- `read_sector(0,0,1)`: physical sector 1 of track 0, 256 bytes
    bootSector := bytesAt b 256 256 }

/-- `ts_from_prodos_block` (5.25 inch): the two DOS logical sectors of a block -/
def doBlock (b : Bytes) (i : Nat) : Bytes :=
  let t := i / 8
  let s1 := [0, 13, 11, 9, 7, 5, 3, 1].getD (i % 8) 0
  let s2 := [14, 12, 10, 8, 6, 4, 2, 15].getD (i % 8) 0
  ((b.drop ((t * 16 + s1) * 256)).take 256) ++ ((b.drop ((t * 16 + s2) * 256)).take 256)

def probeDO (b : Bytes) : Probe :=
  let tracks := b.length / 512 / 8
  { trackCount := tracks,
    d13Sector := fun _ _ => none,
    doSector := fun t s => if t < tracks ∧ s < 16 then bytesAt b ((t * 16 + s) * 256) 256 else none,
    -- `kind` is `A2_DOS33_KIND` for 35 tracks, `Unknown` otherwise (then ProDOS blocks cannot be located)
    poBlocks := if tracks = 35 then { unitLen := 512, units := ((List.range 280).map (doBlock b)).toArray } else noBlocks,
    -- physical sector 1 = logical sector 7
    bootSector := bytesAt b (7 * 256) 256 }

def probePO (b : Bytes) : Probe :=
  { trackCount := b.length / 512 / 8,
    d13Sector := fun _ _ => none,
    doSector := fun _ _ => none,
    poBlocks := ofBytes 512 b,
    -- "logical disk cannot access sectors"
    bootSector := none }

def probeIMG (b : Bytes) (geo : Nat × Nat × Nat × Nat) : Probe :=
  { trackCount := geo.2.1 * geo.2.2.1,
    d13Sector := fun _ _ => none,
    doSector := fun _ _ => none,
    poBlocks := noBlocks,
    bootSector := bytesAt b 0 geo.1 }

/-! ### the tests -/

/-- the common part of `test_img_13` / `test_img_16` on the VTOC sector `dat`; `v13` selects the version test -/
def vtocTest (dat : Bytes) (slen : Nat) (v13 : Bool) : Bool :=
  decide (196 ≤ dat.length) &&
  (if v13 then decide (dat.getD 3 0 ≤ 2) else decide (3 ≤ dat.getD 3 0)) &&
  decide (1 ≤ dat.getD 6 0) && decide (dat.getD 6 0 ≤ 254) &&
  decide (dat.getD 1 0 = 17) && decide (dat.getD 2 0 = slen - 1) &&
  decide (dat.getD 0x36 0 = 0) && decide (dat.getD 0x37 0 = 1) && decide (dat.getD 0x35 0 = slen) && decide (dat.getD 0x34 0 = 35)

/-- `dos3x::Disk::test_img` -/
def dosTest (p : Probe) : Option FsId :=
  if p.trackCount ≠ 35 then none
  else if (match p.d13Sector 17 0 with | some dat => vtocTest dat 13 true | none => false) then some .dos32
  else if (match p.doSector 17 0 with | some dat => vtocTest dat 16 false | none => false) then some .dos33
  else none

def isUpperOrDot (c : Nat) : Bool := (65 ≤ c && c ≤ 90) || c == 46
def isNameChar (c : Nat) : Bool := isUpperOrDot c || (48 ≤ c && c ≤ 57)

/-- `prodos::Disk::test_img` on block 2 -/
def prodosTest (p : Probe) : Bool :=
  match p.poBlocks.units[2]? with
  | none => false
  | some buf =>
    decide (511 ≤ buf.length) &&
    decide (280 ≤ le16 buf 0x29) &&
    decide (buf.getD 0x23 0 = 0x27) && (decide (buf.getD 0x24 0 = 0x0D) || decide (buf.getD 0x24 0 = 0x0C)) &&
    decide (le16 buf 0 = 0) && decide (le16 buf 2 = 3) && decide (buf.getD 4 0 / 16 = 15) &&
    isUpperOrDot (buf.getD 5 0) &&
    (List.range' 1 (buf.getD 4 0 % 16 - 1)).all (fun i => isNameChar (buf.getD (5 + i) 0))

def printable (c : Nat) : Bool := 32 ≤ c && c ≤ 126

/-- `pascal::Disk::test_img`: `get_directory` succeeds and the header and every entry in use look right -/
def pascalTest (p : Probe) : Bool :=
  match Fs.Pascal.getDirectory p.poBlocks with
  | .error _ => false
  | .ok dir =>
    let h := dir.header
    let end_ := Fs.Pascal.Hdr.endBlock h
    let tot := Fs.Pascal.Hdr.totalBlocks h
    decide (Fs.Pascal.Hdr.beginBlock h = 0) && decide (2 < end_) && decide (end_ ≤ 20) &&
    decide (1 ≤ Fs.Pascal.Hdr.nameLen h) && decide (Fs.Pascal.Hdr.nameLen h ≤ 7) &&
    decide (le16 h 4 = 0) &&
    (List.range (Fs.Pascal.Hdr.nameLen h)).all (fun i => printable (h.getD (7 + i) 0)) &&
    (dir.entries.take dir.numFiles).all (fun e =>
      let eb := Fs.Pascal.Entry.beginBlock e
      let ee := Fs.Pascal.Entry.endBlock e
      decide (eb = 0) ||
        (decide (end_ ≤ eb) && decide (eb < ee) && decide (ee ≤ tot) &&
         decide (1 ≤ Fs.Pascal.Entry.nameLen e) && decide (Fs.Pascal.Entry.nameLen e ≤ 15) &&
         (List.range (Fs.Pascal.Entry.nameLen e)).all (fun j => printable (e.getD (7 + j) 0))))

/-- `BootSector::verify` (+ `BPBFoundation::verify`) -/
def fatTest (p : Probe) : Bool :=
  match p.bootSector with
  | none => false
  | some s =>
    decide (512 ≤ s.length) &&
    decide (s.getD 510 0 = 0x55) && decide (s.getD 511 0 = 0xAA) &&
    (let b := Fs.Fat.Bpb.ofBoot s
     [512, 1024, 2048, 4096].contains b.bps && [1, 2, 4, 8, 16, 32, 64, 128].contains b.spc &&
     decide (b.rsvd ≠ 0) && decide (b.nfat ≠ 0) &&
     decide ((b.rootEnt0 + 256 * b.rootEnt1) * 32 % b.bps = 0) &&
     !(decide (b.tot16 = 0) && decide (b.tot32 = 0)) &&
     decide (b.fatSecs ≠ 0) &&
     decide (b.rsvd + b.nfat * b.fatSecs + b.rootDirSecs < b.totSec))

/-- `try_img`, the first four tests in order -/
def tryImg (p : Probe) : FsId :=
  match dosTest p with
  | some f => f
  | none => if prodosTest p then .prodos else if pascalTest p then .pascal else if fatTest p then .fat else .later

/-! ### the chain -/

/-- the extension hints that select flat containers (`dsk` is an extension of DO, PO and IMG; no hint = every format) -/
inductive Hint where
  | none | d13 | do_ | po | dsk | img
  deriving DecidableEq, Repr

inductive Cont where
  | d13 | do_ | po | img
  deriving DecidableEq, Repr

/-- the flat containers tried for a hint, in the order of `create_fs_from_bytestream` -/
def candidates : Hint → List Cont
  | .none => [.d13, .do_, .po, .img]
  | .d13 => [.d13]
  | .do_ => [.do_]
  | .po => [.po]
  | .dsk => [.do_, .po, .img]
  | .img => [.img]

/-- `from_bytes` of one container: the probe, if the bytes are accepted -/
def probeOf (b : Bytes) : Cont → Option Probe
  | .d13 => if d13Accepts b then some (probeD13 b) else none
  | .do_ => if doAccepts b then some (probeDO b) else none
  | .po => if poAccepts b then some (probePO b) else none
  | .img => (imgGeo b.length).map (probeIMG b)

/-- the first container that accepts the bytes decides — unless none of its four tests accepts (`later`: the
untranscribed tests then decide whether the chain goes on).  `none` = no flat container accepts the bytes. -/
def identifyIn (b : Bytes) : List Cont → Option FsId
  | [] => none
  | c :: cs =>
    match probeOf b c with
    | some p => some (tryImg p)
    | none => identifyIn b cs

/-- the file system found in the bytes of a flat image (the formats with a magic number are assumed to refuse them) -/
def identify (h : Hint) (b : Bytes) : Option FsId := identifyIn b (candidates h)

end Ident

end A2Verif.Reload
