import A2Verif.Model.Robust
/-!
# C12: `get_next_chunk` (src/img/woz.rs:99-130) and `Woz2::from_bytes` (src/img/woz2.rs:714-775) with the
TRKS chunk parser `Trks::update_from_bytes` (src/img/woz2.rs:357-375)

State carried through the chunk loop: which of INFO/TMAP/TRKS were seen, and the INFO fields the final
tests look at.  META and WRIT chunks cannot fail (`from_utf8_lossy`, a copy).  The derived
`DiskStruct::update_from_bytes` of INFO (68 bytes) and TMAP (168 bytes) returns `OutOfData` on a short chunk.
The last step of `from_bytes`, `get_track_solution(0)`, only influences a log line; it is a parameter of this
model (assumed not to panic; the harness oracle watches it).

The loop `while ptr>0` has no explicit cap in the Rust; it terminates because the next pointer is either 0
or at least `ptr+8` and at most `buf.len()`.  The model recurses on `buf.length - ptr`, which *is* that
argument (the termination proof is checked by Lean).
-/
namespace A2Verif.Model.Robust

def le32 (a b c d : Nat) : Nat := a + 256 * b + 65536 * c + 16777216 * d

def infoId : Nat := 0x4f464e49
def tmapId : Nat := 0x50414d54
def trksId : Nat := 0x534b5254
def writId : Nat := 0x54495257
def metaId : Nat := 0x4154454d

structure Chunk where
  next : Nat
  id : Nat
  /-- `Some(chunk)`: offset and length (`8 + size`) of the chunk inside the buffer -/
  body : Option (Nat × Nat)

/-- `get_next_chunk(ptr,buf)`; the four index groups are below `ptr+8 ≤ buf.len()` (first guard) -/
def getNextChunk (ptr : Nat) (buf : List Nat) : Chunk :=
  if h : ptr + 8 > buf.length then ⟨0, 0, none⟩
  else
    let id := le32 (buf[ptr]'(by omega)) (buf[ptr+1]'(by omega)) (buf[ptr+2]'(by omega)) (buf[ptr+3]'(by omega))
    let size := le32 (buf[ptr+4]'(by omega)) (buf[ptr+5]'(by omega)) (buf[ptr+6]'(by omega)) (buf[ptr+7]'(by omega))
    let endp := ptr + 8 + size
    if endp > buf.length then ⟨0, 0, none⟩
    else
      let next := if endp + 8 > buf.length then 0 else endp
      if id = infoId ∨ id = tmapId ∨ id = trksId ∨ id = writId ∨ id = metaId then ⟨next, id, some (ptr, 8 + size)⟩
      else ⟨next, id, none⟩

theorem getNextChunk_next (ptr : Nat) (buf : List Nat) :
    (getNextChunk ptr buf).next = 0 ∨ (ptr + 8 ≤ (getNextChunk ptr buf).next ∧ (getNextChunk ptr buf).next ≤ buf.length) := by
  unfold getNextChunk
  split
  · simp
  · simp only
    split
    · simp
    · split <;> split <;> simp_all <;> omega

/-- `Trks::update_from_bytes` on a chunk of `len` bytes whose size field is `size` (`len = 8 + size` when it
comes from `get_next_chunk`).  As written: 160 slices `bytes[8+8t..16+8t]`, then `size - 1280` in `u32`.
`lenGuard`/`sizeGuard`: the two tests of the repaired code. -/
def trksUpdate (lenGuard sizeGuard : Bool) (len size : Nat) : Outcome Unit :=
  if lenGuard && len < 1288 then .err
  else if sizeGuard && size < 1280 then .err
  else if len < 16 + 8 * 159 then .panic        -- the slice for some track `t ≤ 159` ends past the chunk
  else if size < 1280 then .panic               -- `u32` subtraction underflows
  else if (size - 1280) % 512 > 0 then .err
  else if len < 1288 then .panic                -- `bytes[1288..]`
  else .ok ()

structure WozState where
  sawInfo : Bool := false
  sawTmap : Bool := false
  sawTrks : Bool := false
  infoVers : Nat := 0
  diskType : Nat := 0
  sides : Nat := 0
  fluxBlock : Nat := 0
  largestFlux : Nat := 0

structure WozFlags where
  lenGuard : Bool
  sizeGuard : Bool
  typeGuard : Bool

/-- one chunk: `err`/`panic` abort `from_bytes` -/
def wozChunk (f : WozFlags) (buf : List Nat) (st : WozState) (c : Chunk) : Outcome WozState :=
  match c.body with
  | none => .ok st
  | some (off, len) =>
    if c.id = infoId then
      if len < 68 then .err
      else
        match buf[off+8]?, buf[off+9]?, buf[off+45]?, buf[off+54]?, buf[off+55]?, buf[off+56]?, buf[off+57]? with
        | some v, some dt, some sd, some f0, some f1, some l0, some l1 =>
          .ok { st with sawInfo := true, infoVers := v, diskType := dt, sides := sd, fluxBlock := f0 + 256 * f1, largestFlux := l0 + 256 * l1 }
        | _, _, _, _, _, _, _ => .panic
    else if c.id = tmapId then
      if len < 168 then .err else .ok { st with sawTmap := true }
    else if c.id = trksId then
      match trksUpdate f.lenGuard f.sizeGuard len (len - 8) with
      | .ok _ => .ok { st with sawTrks := true }
      | .err => .err
      | .panic => .panic
    else .ok st

/-- the chunk loop `while ptr>0` -/
def wozLoop (f : WozFlags) (buf : List Nat) (ptr : Nat) (st : WozState) : Outcome WozState :=
  if hp : ptr = 0 then .ok st
  else
    let c := getNextChunk ptr buf
    match wozChunk f buf st c with
    | .err => .err
    | .panic => .panic
    | .ok st' =>
      if hn : c.next = 0 then .ok st'
      else
        have : buf.length - c.next < buf.length - ptr := by
          have h := getNextChunk_next ptr buf
          have hc : c = getNextChunk ptr buf := rfl
          rw [← hc] at h
          omega
        wozLoop f buf c.next st'
termination_by buf.length - ptr

/-- `Woz2::from_bytes` -/
def woz2FromBytes (f : WozFlags) (buf : List Nat) : Outcome Unit :=
  if h : buf.length < 12 then .err
  else if ¬ (buf[0]'(by omega) = 0x57 ∧ buf[1]'(by omega) = 0x4f ∧ buf[2]'(by omega) = 0x5a ∧ buf[3]'(by omega) = 0x32) then .err
  else
    match wozLoop f buf 12 {} with
    | .err => .err
    | .panic => .panic
    | .ok st =>
      if st.infoVers ≥ 3 ∧ st.fluxBlock ≠ 0 ∧ st.largestFlux ≠ 0 then .err
      else if f.typeGuard ∧ ¬ ((st.diskType = 1 ∧ st.sides = 1) ∨ (st.diskType = 2 ∧ st.sides = 1) ∨ (st.diskType = 2 ∧ st.sides = 2)) then .err
      else if st.sawInfo ∧ st.sawTmap ∧ st.sawTrks then .ok ()
      else .err

def wozFlagsNow : WozFlags := ⟨Gen.C12Flags.woz2TrksLenGuard, Gen.C12Flags.woz2TrksSizeGuard, Gen.C12Flags.woz2DiskTypeGuard⟩
def woz2FromBytesNow := woz2FromBytes wozFlagsNow

end A2Verif.Model.Robust
