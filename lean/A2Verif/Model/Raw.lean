import A2Verif.Model.Vol
/-!
Raw volume as the independent readers see it: a flat array of fixed-size units (sectors or blocks),
exactly the bytes of the saved flat image (`DO`/`D13`/`PO`/`IMG`), or the CP/M data-area blocks.
-/
namespace A2Verif

structure Raw where
  unitLen : Nat
  units : Array Bytes
  deriving Inhabited

namespace Raw

def count (r : Raw) : Nat := r.units.size

/-- unit `i`, or an error naming who asked -/
def unit (r : Raw) (i : Nat) (who : String) : Except String Bytes :=
  match r.units[i]? with
  | some b => .ok b
  | none => .error s!"{who}-out-of-range"

def set (r : Raw) (i : Nat) (b : Bytes) : Raw :=
  if i < r.units.size then { r with units := r.units.set! i b }
  else { r with units := (r.units ++ Array.replicate (i - r.units.size) (List.replicate r.unitLen 0)).push b }

end Raw

/-- little-endian 16-bit at `off` (0 beyond the end: readers check lengths first) -/
def le16 (b : Bytes) (off : Nat) : Nat := b.getD off 0 + 256 * b.getD (off + 1) 0
def le24 (b : Bytes) (off : Nat) : Nat := le16 b off + 65536 * b.getD (off + 2) 0
def le32 (b : Bytes) (off : Nat) : Nat := le16 b off + 65536 * le16 b (off + 2)
def slice (b : Bytes) (off len : Nat) : Bytes := (b.drop off).take len

/-- dedupe an ascending list (adjacent duplicates) -/
def dedupSorted : List Nat → List Nat
  | [] => []
  | [x] => [x]
  | x :: y :: t => if x == y then dedupSorted (y :: t) else x :: dedupSorted (y :: t)

end A2Verif
