import A2Verif.Model.C09Crc
/-!
TD0 (Teledisk) container model for property C09 — src/img/td0.rs.

* `pack`   ↔ `Sector::pack`   (td0.rs:267-290): `none` = `Err(SectorAccess)` (wrong length)
* `unpack` ↔ `Sector::unpack` (td0.rs:292-355): three encodings Raw / Repeated / RunLength read with
  the bounds-checked macros `verified_get_byte!` / `verified_get_slice!`; `none` = `Err(SectorAccess)`.
  The two `while ans.len() < sector_size` loops consume at least one byte of `data` per iteration or
  return `Err`, so `data.length + 1` is enough fuel; running out of fuel is unreachable and maps to `none`.
* `Sector`, `Track`, `Image`, `toBytesNormal`, `fromBytesNormal`, `canon` ↔ the *normal* (not LZHUF compressed)
  layer of `Td0::to_bytes` / `Td0::from_bytes` (td0.rs), `encodeText`/`decodeText` ↔ the LF/CRLF ↔ NUL coding of the notes.  The advanced compression
  (`retrocompressor::td0::{compress_slice, expand_slice}`) is outside /repo and is a parameter.

`u16` arithmetic is modelled where the Rust truncates (`sector_size as u16`).
-/
namespace A2Verif.Model.C09Td0
open A2Verif.Model.C09Crc A2Verif.Gen.Td0

def secSize (shift : Nat) : Nat := SECTOR_SIZE_BASE <<< shift

/-- `is_slice_uniform` (td0.rs:111-122) -/
def isUniform : List Nat → Bool
  | [] => true
  | x :: xs => xs.all (fun y => y == x)

/-- `Sector::pack`: the new `data` field (length word, encoding byte, payload) -/
def pack (shift : Nat) (dat : List Nat) : Option (List Nat) :=
  let size := secSize shift
  if dat.length ≠ size then none
  else if isUniform dat then
    match dat with
    | d :: _ => some (le16 5 ++ [ENC_REPEATED] ++ le16 ((size % 65536) / 2) ++ [d, d])
    | [] => none  -- `dat[0]` on an empty slice; unreachable because `size ≥ 128`
  else some (le16 ((size % 65536 + 1) % 65536) ++ [ENC_RAW] ++ dat)

/-- the `Repeated` loop (td0.rs:316-323) -/
def unpackRepeated (size : Nat) : Nat → List Nat → List Nat → Option (List Nat)
  | 0, _, _ => none
  | fuel + 1, ans, data =>
    if ans.length < size then
      match data with
      | b0 :: b1 :: b2 :: b3 :: rest =>
        unpackRepeated size fuel (ans ++ (List.replicate (unle16 b0 b1) [b2, b3]).flatten) rest
      | _ => none
    else some ans

/-- the `RunLength` loop (td0.rs:327-339) -/
def unpackRunLength (size : Nat) : Nat → List Nat → List Nat → Option (List Nat)
  | 0, _, _ => none
  | fuel + 1, ans, data =>
    if ans.length < size then
      match data with
      | [] => none
      | rc :: r1 =>
        if 2 * rc = 0 then
          match r1 with
          | [] => none
          | rw :: r2 =>
            if r2.length < rw then none
            else unpackRunLength size fuel (ans ++ r2.take rw) (r2.drop rw)
        else
          match r1 with
          | [] => none
          | rep :: r2 =>
            if r2.length < 2 * rc then none
            else unpackRunLength size fuel (ans ++ (List.replicate rep (r2.take (2 * rc))).flatten) (r2.drop (2 * rc))
    else some ans

/-- `Sector::unpack` for a sector whose no-data flags are clear -/
def unpack (shift : Nat) (data : List Nat) : Option (List Nat) :=
  let size := secSize shift
  match data with
  | _ :: _ :: enc :: body =>
    let r :=
      if enc = ENC_RAW then (if body.length < size then none else some (body.take size))
      else if enc = ENC_REPEATED then unpackRepeated size (body.length + 1) [] body
      else if enc = ENC_RUNLENGTH then unpackRunLength size (body.length + 1) [] body
      else none
    match r with
    | some ans => if ans.length = size then some ans else none
    | none => none
  | _ => none

/-! ### the normal (uncompressed) container layer -/

/-- `str.replace("\r\n","\x00")` on the UTF-8 bytes (CR, LF, NUL never occur inside a multi-byte sequence) -/
def replCRLF (z : Nat) : List Nat → List Nat
  | [] => []
  | [b] => [b]
  | a :: b :: r => if a = 13 ∧ b = 10 then z :: replCRLF z r else a :: replCRLF z (b :: r)

/-- `to_bytes` (td0.rs): `d.replace("\r\n","\x00").replace("\n","\x00")` -/
def encodeText (t : List Nat) : List Nat := (replCRLF 0 t).map (fun b => if b = 10 then 0 else b)

/-- `s.contains("\r\n")` negated -/
def noCRLF : List Nat → Bool
  | [] => true
  | [_] => true
  | a :: b :: r => !(a == 13 && b == 10) && noCRLF (b :: r)

/-- `normalize_notes` (td0.rs): `while s.contains("\r\n") { s = s.replace("\r\n","\n") }`; every pass that
finds a pair shortens the string, so `length` passes are enough fuel -/
def normLoop : Nat → List Nat → List Nat
  | 0, t => t
  | f + 1, t => if noCRLF t then t else normLoop f (replCRLF 10 t)

def normalizeNotes (t : List Nat) : List Nat := normLoop t.length t

/-- `from_bytes` (td0.rs): `normalize_notes(text.replace("\x00","\n"))` -/
def decodeText (e : List Nat) : List Nat := normalizeNotes (e.map (fun b => if b = 0 then 10 else b))

/-- `put_metadata` for `/td0/comment/notes`: a NUL is refused (`none`), otherwise the normalised notes -/
def putNotes (v : List Nat) : Option (List Nat) := if 0 ∈ v then none else some (normalizeNotes v)

structure Sector where
  cyl : Nat
  head : Nat
  id : Nat
  shift : Nat
  flags : Nat
  crc : Nat
  /-- the stored record: 2 length bytes + encoding + payload; empty when a no-data flag is set -/
  data : List Nat
deriving DecidableEq, Repr

structure Track where
  nsec : Nat
  cyl : Nat
  head : Nat
  crc : Nat
  sectors : List Sector
deriving DecidableEq, Repr

structure Comment where
  /-- the two CRC bytes and the two length bytes of the comment header as last written / read -/
  crc : List Nat
  len : List Nat
  stamp : List Nat
  /-- the notes as held in memory (`comment_data`): line ends are LF -/
  text : List Nat
deriving DecidableEq, Repr

structure Image where
  /-- bytes 2..10 of the image header: sequence, check_sequence, version, data_rate, drive_type,
  stepping, dos_alloc_flag, sides -/
  hdr : List Nat
  /-- the two CRC bytes of the image header (`header.crc`, rewritten by `to_bytes`) -/
  hcrc : List Nat
  comment : Option Comment
  tracks : List Track
deriving DecidableEq, Repr

/-- the CRC byte `Sector::to_bytes` (td0.rs:420-435) writes: recomputed when the sector unpacks -/
def sectorCrc (s : Sector) : Nat :=
  if s.flags &&& NO_DATA_MASK > 0 then s.crc
  else match unpack s.shift s.data with
    | some d => crc16 0 d % 256
    | none => s.crc

def sectorToBytes (s : Sector) : List Nat :=
  [s.cyl, s.head, s.id, s.shift, s.flags, sectorCrc s] ++ s.data

def trackCrc (t : Track) : Nat := crc16 0 [t.nsec, t.cyl, t.head] % 256

/-- `Track::to_bytes` (td0.rs:461-470) -/
def trackToBytes (t : Track) : List Nat :=
  [t.nsec, t.cyl, t.head, trackCrc t] ++ (t.sectors.map sectorToBytes).flatten

/-- `to_bytes` first makes the comment flag (bit 7 of `stepping`, header byte 7) agree with whether a
comment block is written -/
def syncHdr (hdr : List Nat) (hasComment : Bool) : List Nat :=
  match hdr with
  | [a, b, c, d, e, st, g, h] => [a, b, c, d, e, if hasComment then st ||| COMMENT_MASK else st &&& (COMMENT_MASK ^^^ 255), g, h]
  | _ => hdr

def head10 (x : Image) : List Nat := [84, 68] ++ syncHdr x.hdr x.comment.isSome

def commentBody (c : Comment) : List Nat :=
  le16 ((encodeText c.text).length % 65536) ++ c.stamp ++ encodeText c.text

/-- `Td0::to_bytes` up to (not including) `compress_slice`, signature `TD` -/
def toBytesNormal (x : Image) : List Nat :=
  let head := head10 x ++ le16 (crc16 0 (head10 x))
  let com := match x.comment with
    | some c => le16 (crc16 0 (commentBody c)) ++ commentBody c
    | none => []
  head ++ com ++ (x.tracks.map trackToBytes).flatten ++ [0xFF] ++ TRAILER

/-- the object after `to_bytes(&mut self)`: header flag, header CRC, comment CRC and length are written
back into `self`; additionally (what a re-parse sees) the per-track and per-sector CRC bytes -/
def canonSector (s : Sector) : Sector := { s with crc := sectorCrc s }
def canonTrack (t : Track) : Track := { t with crc := trackCrc t, sectors := t.sectors.map canonSector }
def canon (x : Image) : Image :=
  { hdr := syncHdr x.hdr x.comment.isSome
    hcrc := le16 (crc16 0 (head10 x))
    comment := x.comment.map (fun c => { c with crc := le16 (crc16 0 (commentBody c)), len := le16 ((encodeText c.text).length % 65536) })
    tracks := x.tracks.map canonTrack }

/-- read `n` sector records (td0.rs:824-852); `none` = `Err` -/
def readSectors : Nat → List Nat → Option (List Sector × List Nat)
  | 0, bytes => some ([], bytes)
  | n + 1, bytes =>
    match bytes with
    | c :: h :: i :: sh :: fl :: crc :: r =>
      -- "sector size code is out of range": `Err(IllegalValue)`
      if sh > 6 then none else
      if fl &&& NO_DATA_MASK = 0 then
        match r with
        | l0 :: l1 :: r2 =>
          let len := unle16 l0 l1
          if r2.length < len then none else
          match readSectors n (r2.drop len) with
          | some (ss, rest) => some ({ cyl := c, head := h, id := i, shift := sh, flags := fl, crc := crc,
                                       data := l0 :: l1 :: r2.take len } :: ss, rest)
          | none => none
        | _ => none
      else
        match readSectors n r with
        | some (ss, rest) => some ({ cyl := c, head := h, id := i, shift := sh, flags := fl, crc := crc, data := [] } :: ss, rest)
        | none => none
    | _ => none

/-- the track loop `while ptr<expanded.len() && expanded[ptr]!=0xff` (td0.rs); `none` = `Err`; running out of
bytes exactly at a track boundary ends the loop like the end mark does -/
def readTracks : Nat → List Nat → Option (List Track)
  | 0, _ => none
  | fuel + 1, bytes =>
    match bytes with
    | [] => some []
    | b :: _ =>
      if b = 0xFF then some [] else
      match bytes with
      | n :: c :: h :: crc :: r =>
        match readSectors n r with
        | some (ss, rest) =>
          match readTracks fuel rest with
          | some ts => some ({ nsec := n, cyl := c, head := h, crc := crc, sectors := ss } :: ts)
          | none => none
        | none => none
      | _ => none

/-- `Td0::from_bytes` on an uncompressed (`TD`) stream -/
def fromBytesNormal (bytes : List Nat) : Option Image :=
  if bytes.length < 12 then none else
  if bytes.take 2 ≠ [84, 68] then none else
  let h10 := bytes.take 10
  let hcrc := (bytes.drop 10).take 2
  if hcrc ≠ le16 (crc16 0 h10) then none else
  let hdr := h10.drop 2
  let stepping := hdr.getD 5 0
  let r := bytes.drop 12
  if stepping &&& COMMENT_MASK > 0 then
    match r with
    | c0 :: c1 :: l0 :: l1 :: r2 =>
      if r2.length < 6 then none else
      let stamp := r2.take 6
      let len := unle16 l0 l1
      let r3 := r2.drop 6
      if r3.length < len then none else
      let raw := r3.take len
      if [c0, c1] ≠ le16 (crc16 0 ([l0, l1] ++ stamp ++ raw)) then none else
      match readTracks bytes.length (r3.drop len) with
      | some [] => none  -- "TD0 has no tracks": `Err(UnexpectedSize)`
      | some ts => some { hdr := hdr, hcrc := hcrc, comment := some { crc := [c0, c1], len := [l0, l1], stamp := stamp, text := decodeText raw }, tracks := ts }
      | none => none
    | _ => none
  else
    match readTracks bytes.length r with
    | some [] => none  -- "TD0 has no tracks"
    | some ts => some { hdr := hdr, hcrc := hcrc, comment := none, tracks := ts }
    | none => none

/-- `str::is_char_boundary(n)` on the UTF-8 bytes, `n ≤ len`: the end, or a byte that is not a continuation byte `10xxxxxx` -/
def isBoundary (t : List Nat) (n : Nat) : Bool :=
  match t[n]? with
  | none => true
  | some b => (b &&& 0xC0) != 0x80

/-- `let mut end = limit; while !notes.is_char_boundary(end) { end -= 1 }` (index 0 is always a boundary) -/
def clipEnd (t : List Nat) : Nat → Nat
  | 0 => 0
  | n + 1 => if isBoundary t (n + 1) then n + 1 else clipEnd t n

/-- the repaired `from_bytes`: notes that do not fit the 16-bit length field are cut at a character boundary -/
def clipNotes (limit : Nat) (t : List Nat) : List Nat :=
  if t.length > limit then t.take (clipEnd t limit) else t

/-- `Td0::from_bytes` of a stream ANOTHER program wrote: the comment bytes go through `String::from_utf8_lossy` first (an
external function: parameter `lossy`, bytes ↦ UTF-8 bytes of the resulting string; the identity on valid UTF-8), then NUL → LF,
then `normalize_notes`.  The notes in memory can be longer (U+FFFD for a code-page byte) or shorter (`\r\0` folded into one
line end) than the comment in the file; the length field of the header object keeps the FILE's value until `to_bytes`.
`fix` = the tree has proposed_fixes/c09-td0-notes-length-limit.diff (notes longer than 65535 bytes are cut; probed by the harness). -/
def fromBytesNormalD (lossy : List Nat → List Nat) (fix : Bool) (bytes : List Nat) : Option Image :=
  if bytes.length < 12 then none else
  if bytes.take 2 ≠ [84, 68] then none else
  let h10 := bytes.take 10
  let hcrc := (bytes.drop 10).take 2
  if hcrc ≠ le16 (crc16 0 h10) then none else
  let hdr := h10.drop 2
  let stepping := hdr.getD 5 0
  let r := bytes.drop 12
  if stepping &&& COMMENT_MASK > 0 then
    match r with
    | c0 :: c1 :: l0 :: l1 :: r2 =>
      if r2.length < 6 then none else
      let stamp := r2.take 6
      let len := unle16 l0 l1
      let r3 := r2.drop 6
      if r3.length < len then none else
      let raw := r3.take len
      if [c0, c1] ≠ le16 (crc16 0 ([l0, l1] ++ stamp ++ raw)) then none else
      let notes := decodeText (lossy raw)
      let notes := if fix then clipNotes 65535 notes else notes
      match readTracks bytes.length (r3.drop len) with
      | some [] => none
      | some ts => some { hdr := hdr, hcrc := hcrc, comment := some { crc := [c0, c1], len := [l0, l1], stamp := stamp, text := notes }, tracks := ts }
      | none => none
    | _ => none
  else
    match readTracks bytes.length r with
    | some [] => none
    | some ts => some { hdr := hdr, hcrc := hcrc, comment := none, tracks := ts }
    | none => none

end A2Verif.Model.C09Td0
