import A2Verif.Gen.C12Flags
/-!
# C12: panic-explicit models of parsing fronts (shared part, `FileImage` version front, FAT boot sector front)

Every front is a total function into `Outcome`: `ok` (a value), `err` (the Rust function returned its error
type, or a probe such as `test_img` said "no"), `panic` (the Rust would panic in the debug profile: index or
slice out of range, `unwrap`/`expect` on `None`/`Err`, arithmetic overflow/underflow, division by zero).

Indexing conventions: `xs[i]?` with `panic` on `none` where the Rust indexes without a guard; `xs[i]'h` with
the proof `h` discharged *inside the definition* from the guard the Rust itself has (then the guard is what
makes the index safe, and removing the guard in the model would not type check).

Each front has an `…Orig` form (the code as at the pinned snapshot) and a `…Fixed` form (the repaired code,
see /verif/proposed_fixes/c12-*.diff); the driver and the theorems about "the code as it is now" select with
the flags generated from the source by translator/gen_c12.py.
-/
namespace A2Verif.Model.Robust

inductive Outcome (α : Type) where
  | ok (a : α)
  | err
  | panic
  deriving DecidableEq, Repr

namespace Outcome
def cls {α : Type} : Outcome α → String
  | ok _ => "ok"
  | err => "err"
  | panic => "panic"

def isPanic {α : Type} : Outcome α → Bool
  | panic => true
  | _ => false
end Outcome

/-! ## `FileImage::version_tuple`, `try_version_tuple`, version logic of `from_json`  (src/fs/fimg.rs:20-23, 157-182)

Strings are lists of UTF-8 bytes.  `'.'` and the ASCII digits are single bytes and never occur inside a
multi-byte character, so splitting and digit tests on bytes agree with the Rust `str` operations. -/

def isDigit (c : Nat) : Bool := 48 ≤ c && c ≤ 57

/-- digits of `usize::from_str` after the optional sign; `none` = `InvalidDigit` -/
def parseDigits : List Nat → Nat → Option Nat
  | [], acc => some acc
  | c :: cs, acc => if isDigit c then parseDigits cs (acc * 10 + (c - 48)) else none

/-- `usize::from_str` (64 bit): optional `+`, at least one digit, no overflow -/
def parseUsize (s : List Nat) : Option Nat :=
  let body := match s with
    | 43 :: rest => rest
    | _ => s
  if body.isEmpty then none
  else match parseDigits body 0 with
    | some v => if v < 2 ^ 64 then some v else none
    | none => none

/-- `str::split(".")`: always at least one piece -/
def splitDot : List Nat → List (List Nat)
  | [] => [[]]
  | c :: cs =>
    if c = 46 then [] :: splitDot cs
    else match splitDot cs with
      | [] => [[c]]
      | seg :: rest => (c :: seg) :: rest

/-- `version_tuple` as written: `expect` on every piece, then `v[0]`, `v[1]`, `v[2]` -/
def versionTupleOrig (s : List Nat) : Outcome (Nat × Nat × Nat) :=
  match (splitDot s).mapM parseUsize with
  | none => .panic
  | some v =>
    match v[0]?, v[1]?, v[2]? with
    | some a, some b, some c => .ok (a, b, c)
    | _, _, _ => .panic

/-- `try_version_tuple` of the repaired code -/
def tryVersionTuple (s : List Nat) : Option (Nat × Nat × Nat) :=
  match (splitDot s).mapM parseUsize with
  | none => none
  | some v =>
    match v[0]?, v[1]?, v[2]? with
    | some a, some b, some c => some (a, b, c)
    | _, _, _ => none

/-- lexicographic `<` of Rust tuples -/
def tupLt (x y : Nat × Nat × Nat) : Bool :=
  x.1 < y.1 || (x.1 == y.1 && (x.2.1 < y.2.1 || (x.2.1 == y.2.1 && x.2.2 < y.2.2)))

/-- What the JSON tree has to say about everything but the version string (abstract parameter: the `json`
crate is not modelled).  `base` = `file_system`, `chunk_len` and the eight hex fields are present and well
formed; `v21` = `accessed` and `full_path` are; `chunks` = every chunk key/value parses. -/
structure FimgRest where
  base : Bool
  v21 : Bool
  chunks : Bool

/-- `FileImage::from_json` after `json::parse` succeeded: `version` is the `fimg_version` string if the key
holds a string. -/
def fromJsonFront (fixed : Bool) (version : Option (List Nat)) (r : FimgRest) : Outcome Unit :=
  match version with
  | none => .err
  | some s =>
    let vt : Outcome (Nat × Nat × Nat) :=
      if fixed then (match tryVersionTuple s with | some t => .ok t | none => .err) else versionTupleOrig s
    match vt with
    | .panic => .panic
    | .err => .err
    | .ok t =>
      if tupLt t (2, 0, 0) then .err
      else if !r.base then .err
      else if !tupLt t (2, 1, 0) && !r.v21 then .err
      else if !r.chunks then .err
      else .ok ()

/-- the front for the code as it is now -/
def fromJsonNow := fromJsonFront Gen.C12Flags.fimgTryVersion

/-! ## FAT boot sector: `BootSector::verify` (src/bios/bpb.rs:345-378), `BPBFoundation::verify` (:149-178),
`BootSector::update_from_bytes` → `fat_type` → `cluster_count_abstract` → `data_rgn_secs` (:268-283, :436-456)

`fatMount` is what `try_img` does with sector 0 of a non-160K/180K image: `fat::Disk::test_img` (= `verify`),
and if that says yes `fat::Disk::from_img(img,None)`, whose only computation on the data is `fat_type()`. -/

structure Bpb where
  bytesPerSec : Nat
  secPerClus : Nat
  resSecs : Nat
  numFats : Nat
  rootEntCnt : Nat
  totSec16 : Nat
  fatSize16 : Nat
  totSec32 : Nat
  fatSize32 : Nat
  sig0 : Nat
  sig1 : Nat

/-- fields of the BPB in a sector of at least 512 bytes (offsets of `BPBFoundation` + 11, `fat_size_32` at 36);
every index is below 512, which is the guard at the head of `verify` -/
def parseBpb (sec : List Nat) (h : 512 ≤ sec.length) : Bpb where
  bytesPerSec := sec[11]'(by omega) + 256 * sec[12]'(by omega)
  secPerClus := sec[13]'(by omega)
  resSecs := sec[14]'(by omega) + 256 * sec[15]'(by omega)
  numFats := sec[16]'(by omega)
  rootEntCnt := sec[17]'(by omega) + 256 * sec[18]'(by omega)
  totSec16 := sec[19]'(by omega) + 256 * sec[20]'(by omega)
  fatSize16 := sec[22]'(by omega) + 256 * sec[23]'(by omega)
  totSec32 := sec[32]'(by omega) + 256 * sec[33]'(by omega) + 65536 * sec[34]'(by omega) + 16777216 * sec[35]'(by omega)
  fatSize32 := sec[36]'(by omega) + 256 * sec[37]'(by omega) + 65536 * sec[38]'(by omega) + 16777216 * sec[39]'(by omega)
  sig0 := sec[510]'(by omega)
  sig1 := sec[511]'(by omega)

namespace Bpb
def totSec (b : Bpb) : Nat := if b.totSec16 = 0 then b.totSec32 else b.totSec16
def fatSecs (b : Bpb) : Nat := if b.fatSize16 = 0 then b.fatSize32 else b.fatSize16
def rootDirSecs (b : Bpb) : Nat :=
  if b.bytesPerSec = 0 then 65535 else (b.rootEntCnt * 32 + b.bytesPerSec - 1) / b.bytesPerSec
/-- sectors in front of the data region -/
def overhead (b : Bpb) : Nat := b.resSecs + b.numFats * b.fatSecs + b.rootDirSecs

/-- `BPBFoundation::verify` -/
def foundationOk (b : Bpb) : Bool :=
  Gen.C12Flags.bpbSecSizes.contains b.bytesPerSec
  && Gen.C12Flags.bpbSecPerClus.contains b.secPerClus
  && b.resSecs != 0
  && b.numFats != 0
  && !(b.bytesPerSec > 0 && (b.rootEntCnt * 32) % b.bytesPerSec != 0)
  && !(b.totSec16 == 0 && b.totSec32 == 0)

/-- `BootSector::verify` after the length test; `andForm` = the foundation test is required (`&=`), otherwise
it is or-ed in as at the snapshot (`|=`) -/
def verify (andForm : Bool) (b : Bpb) : Bool :=
  let a0 := b.sig0 == 0x55 && b.sig1 == 0xAA
  let a1 := if andForm then a0 && b.foundationOk else a0 || b.foundationOk
  let a2 := if b.fatSecs = 0 then false else a1
  if b.totSec ≤ b.overhead then false else a2

/-- `fat_type()`: `data_rgn_secs()` subtracts in `u64` (panic on underflow), `cluster_count_abstract` divides
(panic on zero) -/
def fatType (b : Bpb) : Outcome Nat :=
  if b.totSec < b.overhead then .panic
  else if b.secPerClus = 0 then .panic
  else
    let n := (b.totSec - b.overhead) / b.secPerClus
    .ok (if n < Gen.C12Flags.fat12Cutoff then 12 else if n < Gen.C12Flags.fat16Cutoff then 16 else 32)
end Bpb

/-- identify + mount: `err` = not a FAT boot sector (`test_img` false), `ok t` = mounted with FAT type `t` -/
def fatMount (andForm : Bool) (sec : List Nat) : Outcome Nat :=
  if h : sec.length < 512 then .err
  else
    let b := parseBpb sec (by omega)
    if b.verify andForm then b.fatType else .err

def fatMountNow := fatMount Gen.C12Flags.bpbVerifyAnd

end A2Verif.Model.Robust
