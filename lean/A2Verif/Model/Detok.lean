import A2Verif.Gen.Tokens
/-!
# C14 — executable model of the Applesoft / Integer BASIC detokenizers and of the token-stream framing

Transcribed from `/repo/src/lang/applesoft/tokenizer.rs` (`detokenize`, `tokenize_line`, `tokenize`),
`/repo/src/lang/applesoft/mod.rs` (`bytes_to_escaped_string_ex`), `/repo/src/lang/integer/tokenizer.rs`
(`detokenize`, `tokenize_line`) and `/repo/src/lang/integer/mod.rs` (`bytes_to_escaped_string_ex`).

Bytes are `Nat < 256`; text is a `List Nat` of ASCII codes.  The Rust loops index a slice with an
address `addr`; here the loop state is the *suffix* `img[addr..]` (so `addr+k < img.len()` reads
"the suffix has more than `k` elements") plus the counters the Rust compares against caps.
Loops whose step is "call the escape routine, continue where it stopped" take a fuel argument;
running out of fuel yields `panic`, so the totality theorems also establish that the fuel
`img.length + 1` is always sufficient.

The tree-sitter walks of the tokenizers are *not* modelled (the parser is a parameter); only the
framing they put around a tokenized line is (`assembleA`, `assembleI`).
-/
namespace A2Verif.Detok
open A2Verif.Gen.Tokens

/-- three-way outcome: a value, a refusal (`Err(..)` in the Rust), or a panic (index out of range,
arithmetic overflow in the debug profile) -/
inductive Outcome (α : Type) where
  | ok : α → Outcome α
  | err : Outcome α
  | panic : Outcome α
deriving DecidableEq, Repr

def Outcome.bind {α β : Type} : Outcome α → (α → Outcome β) → Outcome β
  | .ok a, f => f a
  | .err, _ => .err
  | .panic, _ => .panic

def Outcome.map {α β : Type} (f : α → β) : Outcome α → Outcome β
  | .ok a => .ok (f a)
  | .err => .err
  | .panic => .panic

def Outcome.isPanic {α : Type} : Outcome α → Bool
  | .panic => true
  | _ => false

def Outcome.isOk {α : Type} : Outcome α → Bool
  | .ok _ => true
  | _ => false

/-! ## small text helpers -/

def decAux : Nat → Nat → List Nat → List Nat
  | 0, _, acc => acc
  | fuel + 1, n, acc => if n < 10 then (48 + n) :: acc else decAux fuel (n / 10) ((48 + n % 10) :: acc)

/-- `u16::to_string` -/
def dec (n : Nat) : List Nat := decAux (n + 1) n []

def hexLower (d : Nat) : Nat := if d < 10 then 48 + d else 87 + d

/-- `write!("\\x{:02x}", b)` -/
def hexEsc (b : Nat) : List Nat := [92, 120, hexLower (b / 16 % 16), hexLower (b % 16)]

/-- the `is_hex` closure of both escape routines (on positive ASCII) -/
def isHex (x : Nat) : Bool := (48 ≤ x && x ≤ 57) || (65 ≤ x && x ≤ 70) || (97 ≤ x && x ≤ 102)

/-- `str::to_uppercase` on ASCII -/
def upper (s : List Nat) : List Nat := s.map fun c => if 97 ≤ c ∧ c ≤ 122 then c - 32 else c

/-! ## Applesoft -/

inductive Ctx where
  | str | data | rem
deriving DecidableEq, Repr

/-- `applesoft::bytes_to_escaped_string_ex(bytes, offset, escapes, terminator, ctx)` on the suffix
`bytes[offset..]`; returns the escaped text and the suffix starting at the terminator (empty if the
end of the slice was reached).  `quotes` is the running quote count. -/
def escA (ctx : Ctx) (term : List Nat) : List Nat → Nat → List Nat × List Nat
  | [], _ => ([], [])
  | b :: rest, quotes =>
    if ctx = .data ∧ b = 0 then ([], b :: rest)
    else if ctx = .data ∧ quotes % 2 = 0 ∧ term.contains b then ([], b :: rest)
    else if ctx ≠ .data ∧ term.contains b then ([], b :: rest)
    else
      let quotes' := if b = aQuote then quotes + 1 else quotes
      let piece : List Nat :=
        if b = 92 ∧ 3 ≤ rest.length then
          match rest with
          | x :: h1 :: h2 :: _ => if x = 120 ∧ isHex h1 ∧ isHex h2 then [92, 120, 53, 99] else [92]
          | _ => [92]
        else if aEscapes.contains b ∨ b > 126 then hexEsc b
        else [b]
      let r := escA ctx term rest quotes'
      (piece ++ r.1, r.2)

/-- inner `while` of `applesoft::Tokenizer::detokenize` (one line).  `s` = `img[addr..]`,
`n` = `addr - line_addr`.  Returns the text of the line and the suffix at which the loop stopped. -/
def lineA : Nat → List Nat → Nat → Outcome (List Nat × List Nat)
  | 0, _, _ => .panic
  | _ + 1, [], _ => .ok ([], [])
  | fuel + 1, b :: rest, n =>
    if b = 0 ∨ aMaxLineLength ≤ n then .ok ([], b :: rest)
    else if b = aQuote then
      let r := escA .str [34, 0] rest 1
      match r.2 with
      | [] =>
        -- `img[addr]` with `addr == img.len()` (tokenizer.rs:180): index panic, unless the source guards
        -- it with `addr < img.len() &&` (then no closing quote is printed and the loop ends)
        if aQuoteIndexGuarded then .ok ([34] ++ r.1, []) else .panic
      | c :: r' =>
        if c = aQuote then
          (lineA fuel r' (n + ((b :: rest).length - r'.length))).map fun x => ([34] ++ r.1 ++ [34] ++ x.1, x.2)
        else
          (lineA fuel (c :: r') (n + ((b :: rest).length - (c :: r').length))).map fun x => ([34] ++ r.1 ++ x.1, x.2)
    else if b = aRemTok then
      let r := escA .rem [0] rest 0
      (lineA fuel r.2 (n + ((b :: rest).length - r.2.length))).map fun x => ([32, 82, 69, 77, 32] ++ r.1 ++ x.1, x.2)
    else if b = aDataTok then
      let r := escA .data [58, 0] rest 0
      (lineA fuel r.2 (n + ((b :: rest).length - r.2.length))).map fun x => ([32, 68, 65, 84, 65, 32] ++ r.1 ++ x.1, x.2)
    else if b > 127 then
      match applesoftDetok.lookup b with
      | some tok => (lineA fuel rest (n + 1)).map fun x => ([32] ++ upper tok ++ [32] ++ x.1, x.2)
      | none => .err
    else (lineA fuel rest (n + 1)).map fun x => (b :: x.1, x.2)

/-- outer `while` of `applesoft::Tokenizer::detokenize`.  `s` = `img[addr..]` (empty when
`addr ≥ img.len()`), `addr`, `lines` = `line_count`. -/
def progA : Nat → List Nat → Nat → Nat → Outcome (List Nat)
  | 0, _, _, _ => .panic
  | fuel + 1, s, addr, lines =>
    match s with
    | a :: b :: s2 =>
      if addr < 65533 ∧ (a ≠ 0 ∨ b ≠ 0) ∧ lines < aMaxLines then
        match s2 with
        | lo :: hi :: body =>
          (lineA (body.length + 1) body 0).bind fun x =>
            (progA fuel (x.2.drop 1) (addr + 4 + (body.length - x.2.length) + 1) (lines + 1)).map fun tl =>
              dec (lo + 256 * hi) ++ [32] ++ x.1 ++ [10] ++ tl
        | _ => .err                      -- "program ended before end of program marker"
      else .ok []
    | _ => .ok []

/-- `applesoft::Tokenizer::detokenize(img)` with the default settings -/
def detokA (img : List Nat) : Outcome (List Nat) := progA (img.length + 1) img 0 0

/-- a tokenized Applesoft line before framing: line number and the token bytes after it -/
structure Line where
  num : Nat
  body : List Nat
deriving DecidableEq, Repr

/-- `applesoft::Tokenizer::tokenize` framing (`tokenize_line` lines 129-134 + the end marker):
link = `curr_addr + tokenized_line.len() + 3` in `u16` arithmetic (overflow panics in the debug
profile), line number little endian, body, `00`; program terminated by `00 00`. -/
def assembleA (addr : Nat) : List Line → Outcome (List Nat)
  | [] => .ok [0, 0]
  | l :: ls =>
    let next := addr + (2 + l.body.length) + 3
    if 65535 < next then .panic
    else (assembleA next ls).map fun tl =>
      [next % 256, next / 256, l.num % 256, l.num / 256] ++ l.body ++ [0] ++ tl

/-- split off one line body: bytes up to the first `00`; `none` if there is no `00` -/
def splitZero : List Nat → Option (List Nat × List Nat)
  | [] => none
  | b :: rest => if b = 0 then some ([], rest) else (splitZero rest).map fun x => (b :: x.1, x.2)

/-- Structure of an Applesoft token stream loaded at `addr`, found by *scanning* for the `00`
terminators: the lines, provided every link field equals the address of the following line,
addresses stay below 65536 and the stream ends with exactly the `00 00` marker. -/
def scanA : Nat → Nat → List Nat → Option (List Line)
  | 0, _, _ => none
  | fuel + 1, addr, t =>
    match t with
    | [0, 0] => some []
    | lk0 :: lk1 :: n0 :: n1 :: rest =>
      match splitZero rest with
      | some (body, rest') =>
        let next := addr + body.length + 5
        if lk0 + 256 * lk1 = next ∧ next ≤ 65535 ∧ lk0 < 256 ∧ lk1 < 256 ∧ n0 < 256 ∧ n1 < 256 then
          (scanA fuel next rest').map fun ls => { num := n0 + 256 * n1, body := body } :: ls
        else none
      | none => none
    | _ => none

/-- `WF_A addr t`: `t` is structurally what the machine expects at load address `addr` -/
def WF_A (addr : Nat) (t : List Nat) : Bool := (scanA (t.length + 1) addr t).isSome

/-- line numbers in order of appearance -/
def lineNumsA (addr : Nat) (t : List Nat) : List Nat :=
  match scanA (t.length + 1) addr t with
  | some ls => ls.map (·.num)
  | none => []

/-- What the Applesoft ROM does: *follow the link fields* by address arithmetic.  At a line stored at
address `addr` the link `lk` gives the next line at `lk`, i.e. `lk - addr` bytes further on; a link
of `0000` ends the program.  Returns the lines visited (number, bytes between the number and the
last byte before the next line) and requires the byte before the next line to be the `00` terminator
and nothing to follow the end marker. -/
def walkA : Nat → Nat → List Nat → Option (List Line)
  | 0, _, _ => none
  | fuel + 1, addr, t =>
    match t with
    | lk0 :: lk1 :: rest =>
      let lk := lk0 + 256 * lk1
      if lk = 0 then (if rest = [] then some [] else none)
      else if lk < addr + 5 then none
      else
        let d := lk - addr            -- distance to the next line
        match rest with
        | n0 :: n1 :: rest2 =>
          let body := rest2.take (d - 5)
          match rest2.drop (d - 5) with
          | z :: rest3 =>
            if z = 0 then (walkA fuel lk rest3).map fun ls => { num := n0 + 256 * n1, body := body } :: ls
            else none
          | [] => none
        | _ => none
    | _ => none

/-! ## Integer BASIC -/

/-- the `is_hex` closure of `integer::bytes_to_escaped_string_ex` as repaired by
`proposed_fixes/c12-integer-escape-hex-underflow.diff`: a positive byte is not a hex digit (the
unrepaired `x_neg - 128` underflows and panics in the debug profile) -/
def isHexNeg (x : Nat) : Bool := isHex ((x + 128) % 256)

/-- text printed for a literal negative backslash in front of an escape look-alike: `\\xdc` with the repair
`proposed_fixes/c14-integer-backslash-escape.diff` (the unrepaired `\\x5c` re-tokenizes to `5C`, escapes
are not inverted).  Read from the source by the translator. -/
def iBackslashEsc : List Nat := [92, 120] ++ iBackslashEscHex

/-- `integer::bytes_to_escaped_string_ex` on the suffix `bytes[offset..]`, with the repair
`proposed_fixes/c14-integer-escapes.diff`: besides positive ASCII and the configured escapes, negative
NUL, negative lower case and — inside strings — the negative quote are written as `\\xNN`. -/
def escI (term : List Nat) : List Nat → List Nat × List Nat
  | [] => ([], [])
  | b :: rest =>
    if term.contains b then ([], b :: rest)
    else
      let piece : List Nat :=
        if b = 220 ∧ 3 ≤ rest.length then
          match rest with
          | x :: h1 :: h2 :: _ => if x = 248 ∧ isHexNeg h1 ∧ isHexNeg h2 then iBackslashEsc else [92]
          | _ => [92]
        else if iEscapes.contains b ∨ b > 254 ∨ b ≤ 128 ∨ (225 ≤ b ∧ b ≤ 250) ∨ (b = 162 ∧ term.contains iCloseQuote)
          then hexEsc b
        else [b - 128]
      let r := escI term rest
      (piece ++ r.1, r.2)

/-- the `while img[addr]>=128` loop for variable names; `err` when the slice ends -/
def varNameI : List Nat → Outcome (List Nat × List Nat)
  | [] => .err
  | b :: rest =>
    if b ≥ 128 then (varNameI rest).map fun x => ((b - 128) :: x.1, x.2)
    else .ok ([], b :: rest)

def endsBlank (code : List Nat) : Bool := code.getLast? = some 32

def endsWith (tok : List Nat) (c : Nat) : Bool := tok.getLast? = some c

/-- the `for rep in 0..=max_line_length` loop of `integer::Tokenizer::detokenize` (one line).
`code` is the whole text produced so far (the Rust tests `code.ends_with(" ")`).
Returns the extended text and the suffix after the EOL token. -/
def lineI : Nat → Nat → List Nat → List Nat → Outcome (List Nat × List Nat)
  | 0, _, _, _ => .panic
  | fuel + 1, rep, s, code =>
    if rep = iMaxLineLength then .err          -- "integer BASIC line is too long"
    else match s with
    | [] => .err                               -- "program ended while processing line"
    | b :: rest =>
      if b = iEol then .ok (code ++ [10], rest)
      else if b = iOpenQuote then
        let r := escI [iCloseQuote, iEol] rest
          match r.2 with
          | [] =>
            -- `img[addr]` with `addr == img.len()` (tokenizer.rs:190): index panic, unless guarded (then the
            -- next turn of the loop reports "program ended while processing line")
            if iQuoteIndexGuarded then .err else .panic
          | c :: r' =>
            if c = iCloseQuote then lineI fuel (rep + 1) r' (code ++ [34] ++ r.1 ++ [34])
            else lineI fuel (rep + 1) (c :: r') (code ++ [34] ++ r.1)
      else if b = iRemTok then
        let code1 := if endsBlank code then code else code ++ [32]
        let r := escI [iEol] rest
        lineI fuel (rep + 1) r.2 (code1 ++ [82, 69, 77] ++ r.1)
      else if b < 128 then
        match integerDetok.lookup b with
        | some tok =>
          let wordy : Bool := 1 < tok.length && tok != [60, 62]
          let code1 := if wordy && !endsBlank code then code ++ [32] else code
          let code2 := code1 ++ upper tok
          let code3 := if wordy && !endsWith tok 40 && !endsWith tok 61 then code2 ++ [32] else code2
          lineI fuel (rep + 1) rest code3
        | none => .err
      else if 176 ≤ b ∧ b ≤ 185 then
        match rest with
        | lo :: hi :: rest' => lineI fuel (rep + 1) rest' (code ++ dec (lo + 256 * hi))
        | _ => .err                            -- "program ended while processing integer"
      else
        (varNameI (b :: rest)).bind fun r => lineI fuel (rep + 1) r.2 (code ++ r.1)

/-- outer `while` of `integer::Tokenizer::detokenize` -/
def progI : Nat → List Nat → Nat → Nat → List Nat → Outcome (List Nat)
  | 0, _, _, _, _ => .panic
  | fuel + 1, s, addr, lines, code =>
    match s with
    | _ :: lo :: hi :: rest =>
      if addr < 65536 ∧ lines < iMaxLines then
        (lineI (rest.length + 2) 0 rest (code ++ dec (lo + 256 * hi) ++ [32])).bind fun x =>
          progI fuel x.2 (addr + 3 + (rest.length - x.2.length)) (lines + 1) x.1
      else .ok code
    | _ => .ok code

/-- `integer::Tokenizer::detokenize(img)` with the default settings -/
def detokI (img : List Nat) : Outcome (List Nat) := progI (img.length + 1) img 0 0 []

/-- `integer::Tokenizer::tokenize` framing (`tokenize_line` lines 133-138): refusal when the line
(number + body) exceeds 126 bytes, else length byte = `len + 2`, number, body, `01`. No end marker. -/
def assembleI : List Line → Outcome (List Nat)
  | [] => .ok []
  | l :: ls =>
    if 126 < 2 + l.body.length then .err
    else (assembleI ls).map fun tl =>
      [2 + l.body.length + 2, l.num % 256, l.num / 256] ++ l.body ++ [1] ++ tl

/-- Integer BASIC number token as the tokenizer builds it (integer/tokenizer.rs:35-44): header byte
`B0 +` the first decimal digit of the **value** (`i16::to_string(&num).as_bytes()[0] + 128`, i.e. not of
the typed text, which may carry leading zeros or blanks), then the value little endian -/
def firstDigit (v : Nat) : Nat :=
  match dec v with
  | d :: _ => d - 48
  | [] => 0

def numTokI (v : Nat) : List Nat := [176 + firstDigit v, v % 256, v / 256]

/-- Token-level scan of one Integer BASIC line (what the ROM's and a2kit's LIST do: strings run to
the closing quote, REM to the end of line, `B0..B9` introduce a two byte constant, names are runs
of negative ASCII).  Returns the number of bytes up to and including the EOL token, and the rest. -/
def scanLineI : Nat → List Nat → Option (Nat × List Nat)
  | 0, _ => none
  | fuel + 1, s =>
    match s with
    | [] => none
    | b :: rest =>
      if b = iEol then some (1, rest)
      else if b = iOpenQuote then
        -- to the closing quote; an EOL inside the string is malformed
        match rest.dropWhile (fun c => c != iCloseQuote && c != iEol) with
        | c :: r' =>
          if c = iCloseQuote then (scanLineI fuel r').map fun x => (x.1 + ((b :: rest).length - r'.length), x.2)
          else none
        | [] => none
      else if b = iRemTok then
        match rest.dropWhile (fun c => c != iEol) with
        | _ :: r' => some ((b :: rest).length - r'.length, r')
        | [] => none
      else if b < 128 then (scanLineI fuel rest).map fun x => (x.1 + 1, x.2)
      else if 176 ≤ b ∧ b ≤ 185 then
        match rest with
        | lo :: hi :: rest' =>
          -- the header digit must be the first digit of the value (what the ROM's LIST relies on)
          if b = 176 + firstDigit (lo + 256 * hi) then (scanLineI fuel rest').map fun x => (x.1 + 3, x.2) else none
        | _ => none
      else
        let r := rest.dropWhile (fun c => c ≥ 128)
        match r with
        | [] => none
        | _ => (scanLineI fuel r).map fun x => (x.1 + ((b :: rest).length - r.length), x.2)

/-- lines of an Integer BASIC token stream: every length byte equals the number of bytes of its
record as delimited by the token-level scan -/
def scanI : Nat → List Nat → Option (List Line)
  | 0, _ => none
  | fuel + 1, t =>
    match t with
    | [] => some []
    | len :: n0 :: n1 :: rest =>
      match scanLineI (rest.length + 1) rest with
      | some (k, rest') =>
        if len = k + 3 ∧ len < 256 ∧ n0 < 256 ∧ n1 < 256 then
          (scanI fuel rest').map fun ls => { num := n0 + 256 * n1, body := rest.take (k - 1) } :: ls
        else none
      | none => none
    | _ => none

/-- `WF_I t`: Integer BASIC line lengths exact (the length-byte chain and the token-level scan agree) -/
def WF_I (t : List Nat) : Bool := (scanI (t.length + 1) t).isSome

def lineNumsI (t : List Nat) : List Nat :=
  match scanI (t.length + 1) t with
  | some ls => ls.map (·.num)
  | none => []

/-- What the Integer BASIC ROM does to find the next line: add the length byte.  Returns the
records `(number, bytes after the number without the last byte)`; requires each record to end in
the EOL token and the chain to end exactly at the end of the program. -/
def walkI : Nat → List Nat → Option (List Line)
  | 0, _ => none
  | fuel + 1, t =>
    match t with
    | [] => some []
    | len :: rest =>
      if len < 4 then none
      else
        match rest.take (len - 1), rest.drop (len - 1) with
        | n0 :: n1 :: more, rest' =>
          if more.length = len - 3 ∧ more.getLast? = some iEol then
            (walkI fuel rest').map fun ls => { num := n0 + 256 * n1, body := more.dropLast } :: ls
          else none
        | _, _ => none

end A2Verif.Detok
