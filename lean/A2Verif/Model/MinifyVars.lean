import A2Verif.Gen.MinifyGuards
/-!
Model of the variable-shortening rule of the Applesoft minifier
(`/repo/src/lang/applesoft/minifier.rs:185-208`, `needs_guard` `:97-111`) and of the hazard the
guard table (`minify_guards.rs`) exists for: a shortened name that, run together with the token
that follows it, spells a reserved word (`ABC STEP` → `ABSTEP`, the ROM tokenizer sees `ABS`).
Texts are `List Nat` (ASCII bytes).  Core Lean only.
-/
namespace A2Verif.Model.MinifyVars
open A2Verif.Gen.MinifyGuards

/-- kind of the name node: `name_real` (also `name_fn`), `name_str`, `name_int` -/
inductive Kind where
  | real | str | int
deriving DecidableEq, Repr

def parseKind (s : String) : Option Kind :=
  if s == "r" then some .real else if s == "s" then some .str else if s == "i" then some .int else none

/-- the shortened identifier itself (`txt` = node text with blanks removed; for `str`/`int` it
includes the trailing `$`/`%`); `guard` = result of `needs_guard` -/
def shortName (k : Kind) (guard : Bool) (txt : List Nat) : List Nat :=
  match k with
  | .str | .int => if 3 < txt.length then txt.take 2 ++ txt.drop (txt.length - 1) else txt
  | .real => if 2 < txt.length then (if !guard then txt.take 2 else if 4 < txt.length then txt.take 2 else txt) else txt

/-- what is written to the output: long guarded real names are wrapped in parentheses (`:194-198`) -/
def shortText (k : Kind) (guard : Bool) (txt : List Nat) : List Nat :=
  if k = .real ∧ 2 < txt.length ∧ guard = true ∧ 4 < txt.length then [40] ++ txt.take 2 ++ [41]
  else shortName k guard txt

def lower (c : Nat) : Nat := if 65 ≤ c ∧ c ≤ 90 then c + 32 else c
def upper (c : Nat) : Nat := if 97 ≤ c ∧ c ≤ 122 then c - 32 else c

def lookupGuards (key : List Nat) : List (List Nat × List Tok) → List Tok
  | [] => []
  | (k, v) :: rest => if k == key then v else lookupGuards key rest

/-- `needs_guard` once the following named sibling `next` is known:
`self.var_guards[clean_str[0..2].to_lowercase()].contains(next.kind())` -/
def needsGuard (txt : List Nat) (next : Tok) : Bool :=
  (lookupGuards ((txt.take 2).map lower) varGuards).contains next

/-- what `needs_guard` finds when it climbs from the name node to the first ancestor-or-self that
has a next named sibling (`minifier.rs` `needs_guard`, the `while parent.next_named_sibling()==None`
loop) -/
inductive Next where
  /-- no ancestor-or-self has a next named sibling: `return false` -/
  | none
  /-- the next named sibling is a token node (kind `tok_*`) -/
  | tok (t : Tok)
  /-- the next named sibling is the `subscript` of an array reference -/
  | subscript
  /-- any other named node (`fcall`, `sfcall`, `unary_aexpr`, `str`, `var_*`, …); `adjacent` =
  `parent.next_sibling()==Some(next)`, i.e. no anonymous node (`;` `,` `(` `)`) lies between the
  climbed node and it — PRINT items run together -/
  | node (adjacent : Bool)
deriving DecidableEq, Repr

/-- `needs_guard` in full: the adjacency rule first (nothing separates the item that ends in the
name from a following non-token node: always guard), else the table lookup on the node kind, which
can only succeed for token kinds (the translator checks that every value of `VAR_GUARDS_JSON` is a
token kind) -/
def needsGuardNode (txt : List Nat) : Next → Bool
  | .none => false
  | .tok t => needsGuard txt t
  | .subscript => false
  | .node adjacent => adjacent

def parseNext (s : String) : Option Next :=
  if s == "none" then some .none
  else if s == "sub" then some .subscript
  else if s == "node1" then some (.node true)
  else if s == "node0" then some (.node false)
  else match s.toNat? with
    | some c => (Tok.all.find? (fun t => t.code == c)).map Next.tok
    | none => Option.none

def parseFollower (s : String) : Option Tok :=
  match s.toNat? with
  | some c => Tok.all.find? (fun t => t.code == c)
  | none => none

/-- Applesoft's identity of a variable: the first two characters of the name (case-insensitive;
the ROM tokenizer and a2kit's tokenizer upper-case names) and its type -/
def nameSig (k : Kind) (txt : List Nat) : List Nat × Kind :=
  match k with
  | .real => ((txt.take 2).map upper, k)
  | _ => ((txt.dropLast.take 2).map upper, k)

/-- the type suffix (`$`, `%`) of a `str`/`int` name text -/
def suffix (k : Kind) (txt : List Nat) : List Nat :=
  match k with
  | .real => []
  | _ => txt.drop (txt.length - 1)

/-- reserved word `kw` splits as `x ++ y` with `x` = the last `j` characters of `s` and `y` a
non-empty prefix of `n`: written without a blank, `s` followed by `n` contains `kw` across the
boundary (the ROM tokenizer ignores blanks and matches reserved words anywhere) -/
def splitHides (kw s n : List Nat) (j : Nat) : Bool :=
  decide (j < kw.length) && (kw.drop j).isPrefixOf n && (s.drop (s.length - j) == kw.take j)

/-- some reserved word straddles the boundary between the two-character name `s` and `n` -/
def hidden (s n : List Nat) : Bool :=
  Tok.all.any fun t => [1, 2].any fun j => splitHides t.spelling s n j

/-- some reserved word occurs inside `s` -/
def containsKeyword (s : List Nat) : Bool :=
  Tok.all.any fun t => (List.range s.length).any fun i => t.spelling.isPrefixOf (s.drop i)

/-- token kinds that can be the next named sibling of an expression ending in a variable name
(grammar of tree-sitter-applesoft 4.0: FOR/HPLOT `TO`, `STEP`, IF `THEN`/`GOTO`, ON `GOTO`/`GOSUB`,
DRAW/XDRAW/HLIN/VLIN `AT`, and the binary operators) -/
def exprFollowers : List Tok :=
  [.tok_to, .tok_step, .tok_then, .tok_goto, .tok_gosub, .tok_at, .tok_and, .tok_or,
   .tok_plus, .tok_minus, .tok_times, .tok_div, .tok_pow, .tok_eq, .tok_less, .tok_gtr]

/-- all two-character upper-case name prefixes: letter, then letter or digit -/
def prefixes : List (List Nat) :=
  (List.range 26).flatMap fun a => ((List.range 26).map (fun b => [65 + a, 65 + b])) ++
    ((List.range 10).map (fun b => [65 + a, 48 + b]))

end A2Verif.Model.MinifyVars
