/-!
# Protocol model of the three a2kit language servers (property C18)

Transcription of the main loop (`src/bin/server-{applesoft,integerbasic,merlin}/main.rs`), the
notification handlers (`notification.rs`) and the configuration-response handler (`response.rs`)
*as written*.  Threads, the `Mutex` and the client are modelled as events; the scheduler is an
arbitrary interleaving of `acquire / finish / die` over the launched jobs.

What is abstract: document texts, settings and diagnostics are opaque tokens (`Nat`); what a job
computes is a parameter `an : job id → Text → Option Diags` (`none` = `Analysis::analyze` returned
`Err`), so the theorems about this file hold whatever each single job's result depends on.
`Model/SrvCfg.lean` puts the settings and the shared analyzer object on top of this model and
determines the results from them.

Core Lean only.
-/
namespace A2Verif.Srv

abbrev Uri := Nat
/-- `Document::version : Option<i32>`; `didSave` (Merlin) launches with `None` -/
abbrev Ver := Option Nat
abbrev Text := Nat
abbrev Diags := Nat
/-- a settings object as the client sent it (`Settings`, parsed from the `workspace/configuration`
answer); an opaque token like texts -/
abbrev Cfg := Nat

/-- `a2kit::lang::Document` -/
structure Doc where
  uri : Uri
  ver : Ver
  text : Text
deriving DecidableEq, Repr

/-- life of one analysis thread (`launch_analysis_thread`, main.rs:100-117 / merlin 141-184) -/
inductive JobSt
  /-- spawned; has not obtained the mutex yet (running up to, or blocked in, `analyzer.lock()`) -/
  | spawned
  /-- inside the `Ok(mut analyzer)` arm: owns the mutex, analysing -/
  | holding
  /-- closure returned `Some(AnalysisResult)` / `None`; `is_finished()` is true -/
  | done (res : Option Diags)
  /-- closure panicked; `is_finished()` is true, `join()` is `Err` -/
  | dead
deriving DecidableEq, Repr

structure Job where
  id : Nat
  doc : Doc
  /-- launched by the configuration handler with its own `Arc<Mutex<Analyzer>>` (response.rs) -/
  priv : Bool
  st : JobSt
deriving DecidableEq, Repr

/-- state of `tools.analyzer : Arc<Mutex<Analyzer>>` -/
inductive Lock
  | free
  | held (id : Nat)
  | poisoned
deriving DecidableEq, Repr

/-- one `textDocument/publishDiagnostics`; `id` is ghost (which job produced it) -/
structure Pub where
  id : Nat
  uri : Uri
  ver : Ver
  diags : Diags
deriving DecidableEq, Repr

structure State where
  /-- `tools.thread_handles : VecDeque<JoinHandle<..>>`, front first -/
  queue : List Job
  nextId : Nat
  lock : Lock
  /-- `tools.doc_chkpts` (uri ↦ checkpointed document) -/
  docs : List (Uri × Doc)
  /-- `tools.config.diagnostics.live` (Merlin; constantly `true` for the BASIC servers) -/
  live : Bool
  /-- ghost: everything sent with `push_diagnostics`, oldest first -/
  published : List Pub
  /-- ghost: every job ever launched, in launch order -/
  launched : List (Nat × Doc)
  /-- ghost: number of requests answered -/
  answered : Nat
deriving Repr

def init : State :=
  { queue := [], nextId := 0, lock := .free, docs := [], live := true,
    published := [], launched := [], answered := 0 }

inductive Event
  /-- `textDocument/didOpen` -/
  | opn (u : Uri) (v : Nat) (t : Text)
  /-- `textDocument/didChange` with one full-text content change -/
  | chg (u : Uri) (v : Nat) (t : Text)
  /-- `textDocument/didSave` with text (Merlin only) -/
  | save (u : Uri) (t : Text)
  /-- `textDocument/didClose` -/
  | close (u : Uri)
  /-- first half of the handler of the response to the server's `workspace/configuration` request
      (response.rs): `if let Ok(mut mutex) = tools.analyzer.lock() { mutex.set_config(..) }` -/
  | configLock (c : Cfg)
  /-- second half of that handler: the new settings are in `tools.config` and one private-analyzer
      job is launched per checkpoint; `order` is the iteration order of the `doc_chkpts` hash map
      (an oracle, like an allocation policy).  No lock is needed for this part. -/
  | config (c : Cfg) (live : Bool) (order : List Uri)
  /-- job `id` returns from `analyzer.lock()` -/
  | acquire (id : Nat)
  /-- job `id` returns from its closure normally -/
  | finish (id : Nat)
  /-- job `id` panics while analysing -/
  | die (id : Nat)
  /-- harvest part of one pass of the main loop (main.rs:259-271) -/
  | tick
  /-- any client request (hover, completion, …): answered from the checkpoints -/
  | request
deriving DecidableEq, Repr

def lookup (docs : List (Uri × Doc)) (u : Uri) : Option Doc :=
  match docs with
  | [] => none
  | (k, d) :: rest => if k = u then some d else lookup rest u

def erase (docs : List (Uri × Doc)) (u : Uri) : List (Uri × Doc) :=
  docs.filter (fun kd => kd.1 ≠ u)

/-- `HashMap::insert` -/
def insert (docs : List (Uri × Doc)) (u : Uri) (d : Doc) : List (Uri × Doc) :=
  (u, d) :: erase docs u

def keys (docs : List (Uri × Doc)) : List Uri := docs.map (·.1)

/-- `launch_analysis_thread` + `thread_handles.push_back` -/
def launch (s : State) (d : Doc) (priv : Bool) : State :=
  { s with queue := s.queue ++ [{ id := s.nextId, doc := d, priv := priv, st := .spawned }],
           nextId := s.nextId + 1,
           launched := s.launched ++ [(s.nextId, d)] }

def findJob (q : List Job) (id : Nat) : Option Job := q.find? (fun j => j.id = id)

/-- the thread with this id moves on (ids are unique in every reachable state: `Lemmas.Srv`) -/
def updSt (q : List Job) (id : Nat) (f : Job → JobSt) : List Job :=
  q.map (fun j => if j.id = id then { j with st := f j } else j)

/-- the configuration handler's loop over the checkpoints -/
def relaunch (s : State) : List Uri → State
  | [] => s
  | u :: rest =>
    match lookup s.docs u with
    | some d => relaunch (launch s d true) rest
    | none => relaunch s rest

def samePerm (a b : List Uri) : Bool :=
  a.length == b.length && a.all (fun x => b.contains x) && b.all (fun x => a.contains x)

/-- One transition.  `none` = the event is not enabled in this state (a thread event for a job that
is not in the matching state; `acquire` of a job that must keep waiting; `configLock` while a job
holds the mutex — the main thread blocks in `tools.analyzer.lock()`). -/
def step (an : Nat → Text → Option Diags) (s : State) : Event → Option State
  | .opn u v t =>
    -- notification.rs:25-42: checkpoint created/replaced, one job launched
    let d : Doc := { uri := u, ver := some v, text := t }
    some (launch { s with docs := insert s.docs u d } d false)
  | .chg u v t =>
    -- notification.rs:49-71: checkpoint updated only if it exists; job launched regardless
    -- (Merlin: only if `config.diagnostics.live`)
    let d : Doc := { uri := u, ver := some v, text := t }
    let s1 := match lookup s.docs u with
      | some _ => { s with docs := insert s.docs u d }
      | none => s
    if s.live then some (launch s1 d false) else some s1
  | .save u t =>
    -- merlin notification.rs:45-62: no checkpoint update, version `None`
    some (launch s { uri := u, ver := none, text := t } false)
  | .close u =>
    some { s with docs := erase s.docs u }
  | .configLock _ =>
    -- the main thread blocks in `lock()` while a job holds the mutex; a poisoned mutex is skipped;
    -- the guard is released before anything else happens
    match s.lock with
    | .held _ => none
    | _ => some s
  | .config _ live order =>
    if samePerm order (keys s.docs) then some (relaunch { s with live := live } order)
    else none
  | .acquire id =>
    match findJob s.queue id with
    | none => none
    | some j =>
      if j.st ≠ .spawned then none
      else if j.priv then some { s with queue := updSt s.queue id (fun _ => .holding) }
      else match s.lock with
        | .free => some { s with queue := updSt s.queue id (fun _ => .holding), lock := .held id }
        | .held _ => none
        -- `lock()` returns `Err(PoisonError)`: the closure returns `None` at once
        | .poisoned => some { s with queue := updSt s.queue id (fun _ => .done none) }
  | .finish id =>
    match findJob s.queue id with
    | none => none
    | some j =>
      if j.st ≠ .holding then none
      else
        let q := updSt s.queue id (fun j => .done (an j.id j.doc.text))
        if j.priv then some { s with queue := q } else some { s with queue := q, lock := .free }
  | .die id =>
    match findJob s.queue id with
    | none => none
    | some j =>
      if j.st ≠ .holding then none
      else
        let q := updSt s.queue id (fun _ => .dead)
        -- the guard is dropped during unwinding: the shared mutex is poisoned for good
        if j.priv then some { s with queue := q } else some { s with queue := q, lock := .poisoned }
  | .tick =>
    -- main.rs:259-271: only the FRONT handle is looked at; popped only if `is_finished()`;
    -- published iff `join()` is `Ok(Some(result))`, with the job's own uri/version
    match s.queue with
    | [] => some s
    | j :: rest =>
      match j.st with
      | .done (some d) =>
        some { s with queue := rest,
                      published := s.published ++ [{ id := j.id, uri := j.doc.uri, ver := j.doc.ver, diags := d }] }
      | .done none => some { s with queue := rest }
      | .dead => some { s with queue := rest }
      | .spawned => some s
      | .holding => some s
  | .request => some { s with answered := s.answered + 1 }

/-- run a whole event list; `none` as soon as one event is not enabled -/
def run (an : Nat → Text → Option Diags) (s : State) : List Event → Option State
  | [] => some s
  | e :: rest =>
    match step an s e with
    | none => none
    | some s' => run an s' rest

/-- what a launched job publishes when it is harvested after a normal analysis -/
def pubOf (an : Nat → Text → Option Diags) (jd : Nat × Doc) : Option Pub :=
  match an jd.1 jd.2.text with
  | some d => some { id := jd.1, uri := jd.2.uri, ver := jd.2.ver, diags := d }
  | none => none

def qdocs (q : List Job) : List (Nat × Doc) := q.map (fun j => (j.id, j.doc))

def JobSt.finished : JobSt → Bool
  | .done _ => true
  | .dead => true
  | _ => false

/-- last publication for a document -/
def lastPub (ps : List Pub) (u : Uri) : Option Pub :=
  (ps.filter (fun p => p.uri = u)).getLast?

end A2Verif.Srv
