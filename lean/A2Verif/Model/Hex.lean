/-!
Shared helpers for the line protocol of `a2drv`: hex <-> `List Nat` (bytes as naturals `< 256`),
decimal parsing, and small list utilities used by several models.  Core Lean only (no imports), so
that the driver links as a `lean_exe`.
-/
namespace A2Verif.Hex

def hexDigit (n : Nat) : Char :=
  if n < 10 then Char.ofNat (48 + n) else Char.ofNat (55 + n)

def byteToHex (b : Nat) : String :=
  String.ofList [hexDigit ((b / 16) % 16), hexDigit (b % 16)]

/-- upper-case hex, no separators; the empty list is rendered as `-` so that every
protocol field is a non-empty token -/
def toHex (bs : List Nat) : String :=
  if bs.isEmpty then "-" else String.join (bs.map byteToHex)

def hexVal (c : Char) : Option Nat :=
  if '0' ≤ c ∧ c ≤ '9' then some (c.toNat - 48)
  else if 'A' ≤ c ∧ c ≤ 'F' then some (c.toNat - 55)
  else if 'a' ≤ c ∧ c ≤ 'f' then some (c.toNat - 87)
  else none

def ofHexChars : List Char → Option (List Nat)
  | [] => some []
  | [_] => none
  | a :: b :: rest =>
    match hexVal a, hexVal b, ofHexChars rest with
    | some x, some y, some r => some ((16 * x + y) :: r)
    | _, _, _ => none

/-- inverse of `toHex` (`-` is the empty string) -/
def ofHex (s : String) : Option (List Nat) :=
  if s == "-" then some [] else ofHexChars s.toList

def natList (xs : List Nat) : String :=
  if xs.isEmpty then "-" else ",".intercalate (xs.map toString)

def parseNatList (s : String) : Option (List Nat) :=
  if s == "-" then some [] else (s.splitOn ",").mapM (·.toNat?)

end A2Verif.Hex
