/-!
# The abstract volume (`Vol`) — what an *independent reading* of a saved image yields

Every file system reader `A2Verif.Read.<FS>.read : Raw → Except String Vol` (written from the on-disk
format, not from a2kit's code paths) produces this structure; the checks below are the
well-formedness conditions of property C03 and the accounting of C04.  Bytes are `Nat < 256`,
allocation units (`unit`) are: DOS 3.x `track*spt+sector`; ProDOS/Pascal 512-byte block number;
CP/M block number; FAT cluster number.  Core Lean only.
-/
namespace A2Verif

abbrev Bytes := List Nat

/-- one file or directory as found on the volume -/
structure FileRec where
  /-- path as the file system lists it: ASCII codes, `/`-separated below the root for hierarchical FS -/
  path : List Nat
  isDir : Bool := false
  ftype : Nat := 0
  aux : Nat := 0
  /-- raw protection bits of the entry (DOS: bit 7 of type byte as 0/1; ProDOS access byte; CP/M: R/O flag; FAT: attribute byte) -/
  access : Nat := 0
  locked : Bool := false
  eof : Nat := 0
  /-- stored chunks: index ↦ full allocation unit content, ascending indices (holes absent) -/
  chunks : List (Nat × Bytes) := []
  /-- every allocation unit this entry leads to: data and index/T-S-list/extent overhead, directory blocks for a directory -/
  owned : List Nat := []
  deriving Repr, DecidableEq, Inhabited

structure Vol where
  /-- unit numbers valid for files are `lo ≤ u < hi` -/
  lo : Nat
  hi : Nat
  /-- units belonging to fixed system structures (boot, VTOC, catalog track, volume directory, bitmap…) -/
  sys : List Nat
  files : List FileRec
  /-- units the on-disk allocation map (VTOC bitmap, ProDOS bitmap, FAT) marks free; for file systems
  without a map (Pascal, CP/M) the reader computes the complement, so `noLeak` holds trivially there -/
  freeUnits : List Nat
  label : List Nat := []
  deriving Repr, Inhabited

namespace Vol

def allOwned (v : Vol) : List Nat := v.files.flatMap (·.owned)

/-- reported free space should be `|freeUnits|` -/
def free (v : Vol) : Nat := v.freeUnits.length

def range (lo hi : Nat) : List Nat := (List.range (hi - lo)).map (· + lo)

/-- named well-formedness conditions (C03).  Quadratic but directly decidable propositions, so that the
theorems can use them without a soundness proof of a clever checker. -/
def wfConds (v : Vol) : List (String × Bool) :=
  [ ("owned-unit-out-of-range", v.allOwned.all (fun u => decide (v.lo ≤ u) && decide (u < v.hi))),
    ("unit-owned-twice", decide ((v.allOwned ++ v.sys).Nodup)),
    ("owned-unit-marked-free", v.allOwned.all (fun u => !v.freeUnits.contains u)),
    ("system-unit-marked-free", v.sys.all (fun u => !v.freeUnits.contains u)),
    ("free-list-malformed", decide (v.freeUnits.Nodup) && v.freeUnits.all (fun u => decide (v.lo ≤ u) && decide (u < v.hi))),
    ("duplicate-path", decide ((v.files.map (·.path)).Nodup)),
    ("chunk-indices-not-ascending", v.files.all (fun f => decide ((f.chunks.map (·.1)).Pairwise (· < ·)))) ]

def wfB (v : Vol) : Bool := v.wfConds.all (·.2)

/-- C03: structural soundness.  Returns the first reason it is violated. -/
def check (v : Vol) : Except String Unit :=
  match v.wfConds.find? (fun c => !c.2) with
  | some c => .error c.1
  | none => .ok ()

/-- C04 (no leak): every unit of the volume is reachable from a directory, a system unit, or marked free -/
def noLeak (v : Vol) : Bool :=
  (range v.lo v.hi).all (fun u => v.allOwned.contains u || v.sys.contains u || v.freeUnits.contains u)

def lookup (v : Vol) (p : List Nat) : Option FileRec := v.files.find? (·.path == p)

end Vol
end A2Verif
