/-!
# The abstract volume (`Vol`) — what an *independent reading* of a saved image yields

Every file system reader `A2Verif.Read.<FS>.read : Raw → Except String Vol` (written from the on-disk
format, not from a2kit's code paths) produces this structure; the checks below are the
well-formedness conditions of property C03 and the accounting of C04.  Bytes are `Nat < 256`,
allocation units (`unit`) are: DOS 3.x `track*spt+sector`; ProDOS/Pascal 512-byte block number;
CP/M block number; FAT cluster number.  Core Lean only.
-/
namespace A2Verif

abbrev Bytes := List Nat

/-- one file or directory as found on the volume -/
structure FileRec where
  /-- path as the file system lists it: ASCII codes, `/`-separated below the root for hierarchical FS -/
  path : List Nat
  isDir : Bool := false
  ftype : Nat := 0
  aux : Nat := 0
  /-- raw protection bits of the entry (DOS: bit 7 of type byte as 0/1; ProDOS access byte; CP/M: R/O flag; FAT: attribute byte) -/
  access : Nat := 0
  locked : Bool := false
  eof : Nat := 0
  /-- stored chunks: index ↦ full allocation unit content, ascending indices (holes absent) -/
  chunks : List (Nat × Bytes) := []
  /-- every allocation unit this entry leads to: data and index/T-S-list/extent overhead, directory blocks for a directory -/
  owned : List Nat := []
  deriving Repr, DecidableEq, Inhabited

structure Vol where
  /-- unit numbers valid for files are `lo ≤ u < hi` -/
  lo : Nat
  hi : Nat
  /-- units belonging to fixed system structures (boot, VTOC, catalog track, volume directory, bitmap…) -/
  sys : List Nat
  files : List FileRec
  /-- units the on-disk allocation map (VTOC bitmap, ProDOS bitmap, FAT) marks free; for file systems
  without a map (Pascal, CP/M) the reader computes the complement, so `noLeak` holds trivially there -/
  freeUnits : List Nat
  label : List Nat := []
  deriving Repr, Inhabited

namespace Vol

def allOwned (v : Vol) : List Nat := v.files.flatMap (·.owned)

/-- reported free space should be `|freeUnits|` -/
def free (v : Vol) : Nat := v.freeUnits.length

def range (lo hi : Nat) : List Nat := (List.range (hi - lo)).map (· + lo)

/-- no duplicates, decidable and fast enough for the driver (quadratic on small lists is fine;
uses a sorted copy for long ones) -/
def nodupB (xs : List Nat) : Bool :=
  let s := xs.mergeSort (· ≤ ·)
  (s.zip s.tail).all (fun p => p.1 != p.2)

/-- linear merge test on two ascending lists: no common element -/
def disjointSorted : List Nat → List Nat → Nat → Bool
  | [], _, _ => true
  | _, [], _ => true
  | _, _, 0 => true
  | x :: xs, y :: ys, fuel + 1 =>
    if x == y then false
    else if x < y then disjointSorted xs (y :: ys) fuel
    else disjointSorted (x :: xs) ys fuel

def disjointB (xs ys : List Nat) : Bool :=
  disjointSorted (xs.mergeSort (· ≤ ·)) (ys.mergeSort (· ≤ ·)) (xs.length + ys.length + 1)

def pathsUnique (v : Vol) : Bool :=
  let ps := v.files.map (·.path)
  ps.all (fun p => (ps.filter (· == p)).length == 1)

/-- C03: structural soundness.  Returns the first reason it is violated. -/
def check (v : Vol) : Except String Unit := do
  let own := v.allOwned
  if !(own.all (fun u => v.lo ≤ u ∧ u < v.hi)) then throw "owned-unit-out-of-range"
  if !(nodupB (own ++ v.sys)) then throw "unit-owned-twice"
  if !(disjointB own v.freeUnits) then throw "owned-unit-marked-free"
  if !(disjointB v.sys v.freeUnits) then throw "system-unit-marked-free"
  if !(pathsUnique v) then throw "duplicate-path"
  if !(v.files.all (fun f => (f.chunks.map (·.1)).Pairwise (· < ·))) then throw "chunk-indices-not-ascending"
  pure ()

def wfB (v : Vol) : Bool := match v.check with | .ok _ => true | .error _ => false

/-- C04 (no leak): everything not reachable and not system is marked free -/
def noLeak (v : Vol) : Bool :=
  let all := ((v.allOwned ++ v.sys ++ v.freeUnits).filter (fun u => v.lo ≤ u ∧ u < v.hi)).mergeSort (· ≤ ·)
  all.eraseDups.length == v.hi - v.lo

def lookup (v : Vol) (p : List Nat) : Option FileRec := v.files.find? (·.path == p)

end Vol
end A2Verif
