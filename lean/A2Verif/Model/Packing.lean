/-!
# C13 model, part 1: `FileImage` core and the binary / token / raw packers

Transcription of
* `src/fs/fimg.rs`   : `ordered_indices`, `end`, `get_eof`, `sequence`, `sequence_limited`,
                       `desequence`, `fix_le_vec`, `usize_from_truncated_le_bytes`
* `src/fs/<fs>/pack.rs` (`dos3x`, `prodos`, `pascal`, `cpm`, `fat`): `pack_raw/unpack_raw`,
  `pack_bin/unpack_bin`, `pack_tok/unpack_tok`, `get_load_address`
* `src/fs/dos3x/types.rs`: `BinaryData::{pack,to_bytes,from_bytes}`, `TokenizedProgram::{…}`
* `src/lang/applesoft/mod.rs`: `deduce_address` (only because ProDOS `pack_tok` calls it)

Bytes are naturals `< 256` (`List Nat`).  A `HashMap<usize,Vec<u8>>` is a list of `(key, chunk)`
pairs with strictly increasing keys (the code only ever looks at it through `ordered_indices`,
`get`, `insert`).  Errors are collapsed to `Res.err` (the wording is not part of the property);
a Rust panic (index out of range, arithmetic overflow in the checked profile) is `Res.panic`.

Core Lean only.
-/
namespace A2Verif.Packing

abbrev Bytes := List Nat

/-- three-way outcome of a fallible Rust call -/
inductive Res (α : Type) where
  | ok (a : α)
  | err
  | panic
deriving DecidableEq, Repr

def Res.bind {α β : Type} (r : Res α) (f : α → Res β) : Res β :=
  match r with
  | .ok a => f a
  | .err => .err
  | .panic => .panic

/-- `fs::FileImage` (all fields; strings as lists of code points) -/
structure FImg where
  fimgVersion : List Nat
  fileSystem : List Nat
  chunkLen : Nat
  eof : Bytes
  fsType : Bytes
  aux : Bytes
  access : Bytes
  accessed : Bytes
  created : Bytes
  modified : Bytes
  version : Bytes
  minVersion : Bytes
  fullPath : List Nat
  chunks : List (Nat × Bytes)
deriving DecidableEq, Repr

/-! ## little-endian helpers (`fix_le_vec`, `usize_from_truncated_le_bytes`) -/

/-- `n` little-endian bytes of `v` (low bytes first; high part dropped) -/
def leBytes : Nat → Nat → Bytes
  | 0, _ => []
  | n+1, v => v % 256 :: leBytes n (v / 256)

/-- value of a little-endian byte string -/
def leVal : Bytes → Nat
  | [] => 0
  | b :: r => b + 256 * leVal r

/-- `FileImage::fix_le_vec(val, exact_len)`: the 8 bytes of the `usize`, trailing zeros removed,
zero-padded / cut to `exact_len` — i.e. the first `exact_len` little-endian bytes of the 64-bit
value (bytes beyond the eighth are 0 because the value is below `2^64`). -/
def fixLe (val n : Nat) : Bytes := leBytes n (val % 2 ^ 64)

/-- `FileImage::usize_from_truncated_le_bytes`: at most `usize::BITS/8 = 8` bytes are read -/
def truncLe (b : Bytes) : Nat := leVal (b.take 8)

def getEof (f : FImg) : Nat := truncLe f.eof
def getAux (f : FImg) : Nat := truncLe f.aux

/-! ## `sequence`, `sequence_limited`, `desequence` -/

/-- concatenation of the chunks in key order (`ordered_indices` sorts the keys; our list is sorted) -/
def seqChunks : List (Nat × Bytes) → Bytes
  | [] => []
  | (_, c) :: r => c ++ seqChunks r

def sequence (f : FImg) : Bytes := seqChunks f.chunks

def sequenceLimited (f : FImg) (maxLen : Nat) : Bytes :=
  let ans := sequence f
  if maxLen < ans.length then ans.take maxLen else ans

/-- the loop of `desequence` for non-empty data: chunk `idx` gets `dat[mark..min(mark+n,len)]`, stop
when the data is used up.  `fuel` bounds the number of iterations (`dat.length` suffices when
`0 < n`; with `n = 0` the Rust loop never terminates — see `desequenceHangs`). -/
def chunksFrom : Nat → Nat → Nat → Bytes → List (Nat × Bytes)
  | 0, _, _, _ => []
  | fuel+1, n, idx, d =>
    -- `end == dat.len()` after clamping, i.e. nothing is left beyond the next `n` bytes
    if (d.drop n).isEmpty then [(idx, d)]
    else (idx, d.take n) :: chunksFrom fuel n (idx+1) (d.drop n)

/-- `FileImage::desequence`: old chunks are thrown away, eof := data length (cut to the width of the
existing eof field), last chunk is not padded -/
def desequence (f : FImg) (d : Bytes) : FImg :=
  if d = [] then { f with chunks := [], eof := List.replicate f.eof.length 0 }
  else { f with chunks := chunksFrom d.length f.chunkLen 0 d, eof := fixLe d.length f.eof.length }

/-- the one situation in which the Rust `desequence` does not return -/
def desequenceHangs (f : FImg) (d : Bytes) : Bool := f.chunkLen == 0 && d != []

/-- `HashMap::get` on the sorted association list -/
def getChunk : List (Nat × Bytes) → Nat → Option Bytes
  | [], _ => none
  | (k, c) :: r, i => if k = i then some c else getChunk r i

/-! ## file systems, `new_fimg` -/

inductive Fs where
  | dos | prodos | pascal | cpm | fat
deriving DecidableEq, Repr

inductive Lang where
  | applesoft | integer | other
deriving DecidableEq, Repr

def strBytes (s : String) : List Nat := s.toList.map Char.toNat

/-- what each `fs::<x>::new_fimg(chunk_len, set_time=false, path)` returns, for the fields the
packers look at (`FS_NAME`, widths of eof/aux/fs_type/access).  Time stamps with `set_time=false`. -/
def newFimg (fs : Fs) (chunkLen : Nat) (path : List Nat) : FImg :=
  let base : FImg :=
    { fimgVersion := [50,46,49,46,48]
      fileSystem := []
      chunkLen := chunkLen
      eof := []
      fsType := []
      aux := []
      access := []
      accessed := []
      created := []
      modified := []
      version := []
      minVersion := []
      fullPath := path
      chunks := [] }
  match fs with
  | .dos => { base with fileSystem := [97,50,32,100,111,115], fsType := [0] }
  | .prodos => { base with fileSystem := [112,114,111,100,111,115], fsType := [0], aux := [0,0], eof := [0,0,0], created := [0,0,0,0], modified := [0,0,0,0], access := [0], version := [0], minVersion := [0] }
  | .pascal => { base with fileSystem := [97,50,32,112,97,115,99,97,108], fsType := [0,0], eof := [0,0,0,0], modified := [0,0] }
  | .cpm => { base with fileSystem := [99,112,109], eof := [0,0,0,0] }
  | .fat => { base with fileSystem := [102,97,116], fsType := [0,0,0], eof := [0,0,0,0], accessed := [0,0,0,0,0], created := [0,0,0,0,0], modified := [0,0,0,0], access := [0], version := [12], minVersion := [12] }

/-! ## DOS 3.x (`src/fs/dos3x/pack.rs`, `types.rs`) -/

/-- `u16::to_le_bytes(x as u16)`: the cast keeps the low 16 bits -/
def u16le (v : Nat) : Bytes := [v % 256, (v / 256) % 256]

/-- which DOS 3.x length-header behaviour the code exhibits: `wrapping` is `bin.len() as u16` as
written at HEAD (`types.rs:143,279`); `checked` is the repaired code that refuses a length that does
not fit the 16-bit header (`/verif/proposed_fixes/dos3x-length-header-wrap.diff`). -/
inductive DosLen where
  | wrapping | checked
deriving DecidableEq, Repr

/-- `dos3x::Packer::pack_bin`: header = load address, length (both u16 LE), then data, then junk -/
def dosPackBin (v : DosLen) (f : FImg) (d : Bytes) (addr : Option Nat) (trailing : Bytes) : Res FImg :=
  match addr with
  | none => .err
  | some a =>
    if 65536 ≤ a then .err                                   -- u16::try_from(addr)?
    else if v = .checked ∧ 65536 ≤ d.length then .err        -- repaired code only
    else
      let file := u16le a ++ u16le d.length ++ d             -- BinaryData::pack(..).to_bytes()
      .ok { desequence f (file ++ trailing) with fsType := [4] }

/-- `BinaryData::from_bytes(&fimg.sequence())?.data` -/
def dosUnpackBin (f : FImg) : Res Bytes :=
  match sequence f with
  | _ :: _ :: l0 :: l1 :: rest =>
    if rest.length < l0 + 256 * l1 then .err else .ok (rest.take (l0 + 256 * l1))
  | _ => .err

/-- `dos3x::Packer::get_load_address` for a Binary file (types Integer/Text ⇒ 0; Applesoft is
`lang::applesoft::deduce_address`, not part of this property); `none` = panic (`fs_type[0]`) -/
def dosLoadAddrBin (f : FImg) : Option Nat :=
  match f.fsType with
  | [] => none
  | t :: _ =>
    if t % 128 = 4 then
      match getChunk f.chunks 0 with
      | some (c0 :: c1 :: _ :: _) => some (c0 + 256 * c1)
      | _ => some 0
    else some 0

/-- `dos3x::Packer::pack_tok`: header = length (u16 LE) -/
def dosPackTok (v : DosLen) (f : FImg) (tok : Bytes) (lang : Lang) (trailing : Bytes) : Res FImg :=
  if v = .checked ∧ 65536 ≤ tok.length then .err
  else
    let padded := u16le tok.length ++ (tok ++ trailing)
    match lang with
    | .applesoft => .ok { desequence f padded with fsType := [2] }
    | .integer => .ok { desequence f padded with fsType := [1] }
    | .other => .err

def dosUnpackTok (f : FImg) : Res Bytes :=
  match sequence f with
  | l0 :: l1 :: rest =>
    if rest.length < l0 + 256 * l1 then .err else .ok (rest.take (l0 + 256 * l1))
  | _ => .err

def dosPackRaw (f : FImg) (d : Bytes) : Res FImg := .ok { desequence f d with fsType := [0] }
def dosUnpackRaw (f : FImg) (_trunc : Bool) : Res Bytes := .ok (sequence f)

/-! ## ProDOS (`src/fs/prodos/pack.rs`) -/

/-- `STD_ACCESS | DIDCHANGE` -/
def prodosAccess : Nat := 0xE3

/-- which eof behaviour the ProDOS packer exhibits: `wrapping` stores the low 3 bytes of the length
(as written at HEAD: `fix_le_vec(len, 3)`); `checked` refuses data of 2^24 bytes or more (ProDOS
cannot store such a file), `/verif/proposed_fixes/prodos-eof-wrap.diff` -/
inductive EofLen where
  | wrapping | checked
deriving DecidableEq, Repr

def unpackRawEof (f : FImg) (trunc : Bool) : Res Bytes :=
  if trunc then .ok (sequenceLimited f (getEof f)) else .ok (sequence f)

def prodosTooLong (v : EofLen) (n : Nat) : Prop := v = .checked ∧ 2 ^ 24 ≤ n
instance (v : EofLen) (n : Nat) : Decidable (prodosTooLong v n) := by unfold prodosTooLong; infer_instance

def prodosPackRaw (v : EofLen) (f : FImg) (d : Bytes) : Res FImg :=
  if prodosTooLong v d.length then .err
  else .ok { desequence f d with fsType := [4], aux := [0, 0], access := [prodosAccess] }

def prodosPackBin (v : EofLen) (f : FImg) (d : Bytes) (addr : Option Nat) (trailing : Bytes) : Res FImg :=
  if prodosTooLong v (d ++ trailing).length then .err
  else match addr with
  | none => .err
  | some a =>
    if 65536 ≤ a then .err
    else .ok { desequence f (d ++ trailing) with fsType := [6], access := [prodosAccess], aux := u16le a }

def prodosLoadAddr (f : FImg) : Nat := getAux f % 65536

/-- `lang::applesoft::deduce_address`: `none` = panic (index out of range, or u16 underflow in the
overflow-checked profile).  `go` is the `while tokens[line2_rel]>0` loop starting at index 4. -/
def deduceScan : Bytes → Nat → Option Nat
  | [], _ => none
  | b :: r, i => if b > 0 then deduceScan r (i+1) else some i

def deduceAddress (t : Bytes) : Option Nat :=
  match t with
  | t0 :: t1 :: _ :: _ :: rest =>
    match deduceScan rest 4 with
    | some rel => if t0 + 256 * t1 < rel % 65536 + 1 then none else some (t0 + 256 * t1 - rel % 65536 - 1)
    | none => none
  | _ => none

/-- which `deduce_address` the code exhibits: `panicking` is HEAD (unchecked indexing and u16
subtraction); `total` is the repaired function that falls back to 2049 (`$801`) when the address
cannot be deduced (`/verif/proposed_fixes/applesoft-deduce-address-panic.diff`) -/
inductive Deduce where
  | panicking | total
deriving DecidableEq, Repr

def deduceAddressTotal (t : Bytes) : Nat :=
  match t with
  | t0 :: t1 :: _ :: _ :: rest =>
    match deduceScan rest 4 with
    | some rel => if t0 + 256 * t1 < rel + 1 then 2049 else t0 + 256 * t1 - rel - 1
    | none => 2049
  | _ => 2049

def deduce (v : Deduce) (t : Bytes) : Option Nat :=
  match v with
  | .panicking => deduceAddress t
  | .total => some (deduceAddressTotal t)

def prodosPackTok (v : EofLen) (dv : Deduce) (f : FImg) (tok : Bytes) (lang : Lang) (trailing : Bytes) : Res FImg :=
  if prodosTooLong v (tok ++ trailing).length then .err
  else
    let g := { desequence f (tok ++ trailing) with access := [prodosAccess] }
    match lang with
    | .applesoft =>
      match deduce dv tok with
      | some a => .ok { g with fsType := [0xfc], aux := u16le a }
      | none => .panic
    | .integer => .ok { g with fsType := [0xfa], aux := [0, 0] }
    | .other => .err

/-! ## Pascal, CP/M, FAT -/

def pascalPackRaw (f : FImg) (d : Bytes) : Res FImg :=
  .ok { desequence f d with fsType := [3,0], eof := leBytes 4 (d.length % 2 ^ 32) }

def pascalPackBin (f : FImg) (d : Bytes) (_addr : Option Nat) (trailing : Bytes) : Res FImg :=
  .ok { desequence f (d ++ trailing) with fsType := [5,0] }

def plainPackRaw (f : FImg) (d : Bytes) : Res FImg := .ok (desequence f d)
def plainPackBin (f : FImg) (d : Bytes) (_addr : Option Nat) (trailing : Bytes) : Res FImg :=
  .ok (desequence f (d ++ trailing))

/-! ## dispatch (`FileImage::packer()` + the `Packing` trait) -/

/-- behaviour variants exhibited by the code under test (see `DosLen`, `EofLen`) -/
structure Variant where
  dosLen : DosLen
  prodosEof : EofLen
  deduce : Deduce
deriving DecidableEq, Repr

def packRaw (v : Variant) (fs : Fs) (f : FImg) (d : Bytes) : Res FImg :=
  match fs with
  | .dos => dosPackRaw f d
  | .prodos => prodosPackRaw v.prodosEof f d
  | .pascal => pascalPackRaw f d
  | .cpm | .fat => plainPackRaw f d

def unpackRaw (fs : Fs) (f : FImg) (trunc : Bool) : Res Bytes :=
  match fs with
  | .dos => dosUnpackRaw f trunc
  | _ => unpackRawEof f trunc

def packBin (v : Variant) (fs : Fs) (f : FImg) (d : Bytes) (addr : Option Nat) (trailing : Bytes) : Res FImg :=
  match fs with
  | .dos => dosPackBin v.dosLen f d addr trailing
  | .prodos => prodosPackBin v.prodosEof f d addr trailing
  | .pascal => pascalPackBin f d addr trailing
  | .cpm | .fat => plainPackBin f d addr trailing

def unpackBin (fs : Fs) (f : FImg) : Res Bytes :=
  match fs with
  | .dos => dosUnpackBin f
  | _ => .ok (sequenceLimited f (getEof f))

/-- `get_load_address` after a `pack_bin` (`none` = panic) -/
def loadAddr (fs : Fs) (f : FImg) : Option Nat :=
  match fs with
  | .dos => dosLoadAddrBin f
  | .prodos => some (prodosLoadAddr f)
  | _ => some 0

def packTok (v : Variant) (fs : Fs) (f : FImg) (tok : Bytes) (lang : Lang) (trailing : Bytes) : Res FImg :=
  match fs with
  | .dos => dosPackTok v.dosLen f tok lang trailing
  | .prodos => prodosPackTok v.prodosEof v.deduce f tok lang trailing
  | _ => .err

def unpackTok (fs : Fs) (f : FImg) : Res Bytes :=
  match fs with
  | .dos => dosUnpackTok f
  | .prodos => .ok (sequenceLimited f (getEof f))
  | _ => .err

end A2Verif.Packing
