import A2Verif.Model.Packing
/-!
# C13 model, part 2: text converters, sequential text packers, hex-escape codec

Transcription of
* `src/fs/mod.rs`           : `TextConversion::is_terminated`
* `src/fs/dos3x/types.rs`   : `TextConverter::{from_utf8,to_utf8}`, `SequentialText`
* `src/fs/prodos/types.rs`  : the same for ProDOS
* `src/fs/pascal/types.rs`  : `paginate`, `TextConverter`, `SequentialText` (1 KiB pages, DLE indents)
* `src/fs/cpm/types.rs`, `src/fs/fat/types.rs` (FAT re-uses the CP/M converter)
* `src/fs/<fs>/pack.rs`     : `pack_txt` / `unpack_txt`
* `src/lib.rs`              : `escaped_ascii_from_bytes`, `parse_escaped_ascii`

A Rust `&str` is modelled by its UTF-8 bytes; the model functions are total on all byte lists, the
correspondence only ever feeds them valid UTF-8 (that is all a `&str` can hold).
-/
namespace A2Verif.Packing

/-! ## `is_terminated` -/

/-- `TextConversion::is_terminated(bytes, term)` -/
def isTerminated (b t : Bytes) : Bool :=
  if t.length = 0 then true
  else if b.length = 0 ∨ b.length < t.length then false
  else b.drop (b.length - t.length) == t

def terminate (b t : Bytes) : Bytes := if isTerminated b t then b else b ++ t

/-! ## DOS 3.x: negative ASCII, CR (0x8d) line ends, NUL terminator -/

def dosFromLoop : Bytes → Option Bytes
  | [] => some []
  | b :: rest =>
    if b = 0x0d ∧ rest.head? = some 0x0a then dosFromLoop rest               -- CR of CRLF: `continue`
    else if b = 0x0a ∨ b = 0x0d then (dosFromLoop rest).map (0x8d :: ·)
    else if b < 128 then (dosFromLoop rest).map ((b + 0x80) :: ·)
    else none

def dosFromUtf8 (term : Bytes) (txt : Bytes) : Option Bytes :=
  (dosFromLoop txt).map (terminate · term)

def dosToUtf8 (src : Bytes) : Bytes :=
  src.map (fun b => if b = 0x8d then 0x0a else if b > 127 then b - 0x80 else 0)

/-- `dat.split(|x| *x==sep).next()` : everything before the first separator -/
def beforeFirst (sep : Nat) : Bytes → Bytes
  | [] => []
  | b :: r => if b = sep then [] else b :: beforeFirst sep r

def dosPackTxt (f : FImg) (txt : Bytes) : Res FImg :=
  match dosFromUtf8 [0x8d] txt with
  | none => .err
  | some dat => .ok { desequence f (dat ++ [0]) with fsType := [0] }

def dosUnpackTxt (f : FImg) : Res Bytes := .ok (dosToUtf8 (beforeFirst 0 (sequence f)))

/-! ## ProDOS: positive ASCII, CR line ends, length from eof -/

def prodosFromLoop : Bytes → Option Bytes
  | [] => some []
  | b :: rest =>
    if b = 0x0d ∧ rest.head? = some 0x0a then prodosFromLoop rest
    else if b = 0x0a ∨ b = 0x0d then (prodosFromLoop rest).map (0x0d :: ·)
    else if b < 128 then (prodosFromLoop rest).map (b :: ·)
    else none

def prodosFromUtf8 (term : Bytes) (txt : Bytes) : Option Bytes :=
  (prodosFromLoop txt).map (terminate · term)

def prodosToUtf8 (src : Bytes) : Bytes :=
  src.map (fun b => if b = 0x0d then 0x0a else if b < 128 then b else 0)

def prodosPackTxt (v : EofLen) (f : FImg) (txt : Bytes) : Res FImg :=
  match prodosFromUtf8 [0x0d] txt with
  | none => .err
  | some dat =>
    if prodosTooLong v dat.length then .err
    else .ok { desequence f dat with access := [prodosAccess], fsType := [4], aux := [0, 0] }

def prodosUnpackTxt (f : FImg) : Res Bytes :=
  .ok (prodosToUtf8 (beforeFirst 0 (sequenceLimited f (getEof f))))

/-! ## CP/M and FAT: CRLF line ends, 0x1A terminator (CP/M pads to a 128-byte record) -/

def cpmFromLoop : Bytes → Option Bytes
  | [] => some []
  | b :: rest =>
    if b = 0x0d ∧ rest.head? = some 0x0a then cpmFromLoop rest
    else if b = 0x0a ∨ b = 0x0d then (cpmFromLoop rest).map (fun r => 0x0d :: 0x0a :: r)
    else if b < 128 then (cpmFromLoop rest).map (b :: ·)
    else none

def cpmFromUtf8 (term : Bytes) (txt : Bytes) : Option Bytes :=
  (cpmFromLoop txt).map (terminate · term)

/-- CR dropped, high bytes nulled, stop at 0x1A -/
def cpmToUtf8 : Bytes → Bytes
  | [] => []
  | b :: r =>
    if b = 0x0d then cpmToUtf8 r
    else if b > 127 then 0 :: cpmToUtf8 r
    else if b = 0x1a then []
    else b :: cpmToUtf8 r

/-- `SequentialText::to_bytes` for CP/M: terminator, then pad with 0x1A to a multiple of 128 -/
def cpmToBytes (text : Bytes) : Bytes :=
  let a := text ++ [0x1a]
  a ++ List.replicate ((128 - a.length % 128) % 128) 0x1a

def cpmPackTxt (f : FImg) (txt : Bytes) : Res FImg :=
  match cpmFromUtf8 [] txt with
  | none => .err
  | some dat => .ok (desequence f (cpmToBytes dat))

def fatPackTxt (f : FImg) (txt : Bytes) : Res FImg :=
  match cpmFromUtf8 [] txt with
  | none => .err
  | some dat => .ok (desequence f (dat ++ [0x1a]))

def cpmUnpackTxt (f : FImg) : Res Bytes := .ok (cpmToUtf8 (beforeFirst 0x1a (sequence f)))

/-! ## Pascal: 1 KiB pages, DLE (0x10) + indent count -/

def textPage : Nat := 1024

/-- index of the last CR (0x0d) in a list (`for i in (0..TEXT_PAGE).rev()` stops at the first hit
from the top, i.e. the highest index holding a CR) -/
def lastCrAux : Bytes → Nat → Option Nat → Option Nat
  | [], _, acc => acc
  | b :: r, i, acc => lastCrAux r (i+1) (if b = 0x0d then some i else acc)

def lastCr (pg : Bytes) : Option Nat := lastCrAux pg 0 none

/-- `paginate(ans, page, count_on_page)`: `ok (ans', page')`, `err` (no CR on the page),
`panic` (`ans[offset+i]` out of range; the first index tried is `offset+1023`) -/
def paginate (ans : Bytes) (page count : Nat) : Res (Bytes × Nat) :=
  if count ≥ textPage then
    let offset := page * textPage
    if ans.length < offset + textPage then .panic
    else
      match lastCr ((ans.drop offset).take textPage) with
      | some i =>
        .ok (ans.take (offset + i + 1) ++ List.replicate (1023 - i) 0 ++ ans.drop (offset + i + 1), page + 1)
      | none => .err
  else .ok (ans, page)

structure PState where
  ans : Bytes
  startingLine : Bool
  indenting : Nat
  page : Nat
  count : Nat
deriving Repr

/-- `\n` or `\r` -/
def isEol (b : Nat) : Bool := b = 0x0a || b = 0x0d

/-- body of the `for i in 0..src.len()` loop up to (not including) pagination; `first` is `i == 0`;
`none` = `return None` -/
def pasStep (first : Bool) (b : Nat) (s : PState) : Option PState :=
  if s.startingLine then
    if !first ∧ b = 0x20 then
      some { s with indenting := s.indenting + 1, startingLine := false }
    else
      let ans1 := if !first then s.ans ++ [0x10, 0x20] else s.ans
      let c1 := if !first then s.count + 2 else s.count
      if !isEol b then some { s with ans := ans1 ++ [b], startingLine := false, count := c1 + 1 }
      else some { s with ans := ans1 ++ [0x0d], count := c1 + 1 }
  else if s.indenting > 0 then
    if b = 0x20 ∧ s.indenting + 0x20 < 0xff then some { s with indenting := s.indenting + 1 }
    else
      let ans1 := s.ans ++ [0x10, 0x20 + s.indenting]
      if !isEol b then some { s with ans := ans1 ++ [b], indenting := 0, count := s.count + 3 }
      else some { s with ans := ans1 ++ [0x0d], startingLine := true, indenting := 0, count := s.count + 3 }
  else if isEol b then some { s with ans := s.ans ++ [0x0d], count := s.count + 1, startingLine := true }
  else if b < 128 then some { s with ans := s.ans ++ [b], count := s.count + 1, startingLine := false }
  else none

def pasLoop : Bool → Bytes → PState → Res PState
  | _, [], s => .ok s
  | first, b :: rest, s =>
    if b = 0x0d ∧ rest.head? = some 0x0a then pasLoop false rest s
    else
      match pasStep first b s with
      | none => .err
      | some s1 =>
        match paginate s1.ans s1.page s1.count with
        | .ok (ans, page) => pasLoop false rest { s1 with ans := ans, page := page, count := s1.count % textPage }
        | .err => .err
        | .panic => .panic

def padToPage (ans : Bytes) : Bytes := ans ++ List.replicate ((textPage - ans.length % textPage) % textPage) 0

/-- Pascal `TextConverter::from_utf8` -/
def pasFromUtf8 (term : Bytes) (txt : Bytes) : Res Bytes :=
  match pasLoop true txt { ans := [], startingLine := true, indenting := 0, page := 0, count := 0 } with
  | .ok s =>
    let (ans1, c1) :=
      if !isTerminated s.ans term ∧ term.length > 0 then (s.ans ++ term, s.count + 1) else (s.ans, s.count)
    match paginate ans1 s.page c1 with
    | .ok (ans2, _) => .ok (padToPage ans2)
    | .err => .err
    | .panic => .panic
  | .err => .err
  | .panic => .panic

/-- Pascal `TextConverter::to_utf8`; `none` = panic (`src[i]-32` underflows in the checked profile) -/
def pasToLoop : Bool → Bytes → Option Bytes
  | _, [] => some []
  | true, b :: r => if b < 32 then none else (pasToLoop false r).map (List.replicate (b - 32) 0x20 ++ ·)
  | false, b :: r =>
    if b = 0x0d then (pasToLoop false r).map (0x0a :: ·)
    else if b = 0x10 then pasToLoop true r
    else if b < 127 ∧ b > 0 then (pasToLoop false r).map (b :: ·)
    else pasToLoop false r

def pasToUtf8 (src : Bytes) : Option Bytes := pasToLoop false src

/-- `SequentialText::create_header()` -/
def pasHeader : Bytes :=
  [1] ++ List.replicate 0x6f 0 ++
  [0x00, 0x00, 0x01, 0x00, 0x00, 0x00, 0x01, 0x00, 0x00, 0x00, 0x4F, 0x00, 0x05, 0x00, 0x5E, 0x00] ++
  [0x13, 0xA3, 0x13, 0xA3, 0x00, 0x00, 0x00, 0x00, 0x00, 0x00, 0x00, 0x00, 0x00, 0x00, 0x00, 0x00] ++
  List.replicate (1024 - 0x90) 0

/-- number of trailing zero bytes -/
def trailingZeros (d : Bytes) : Nat := (d.reverse.takeWhile (· = 0)).length

def pascalPackTxt (f : FImg) (txt : Bytes) : Res FImg :=
  match pasFromUtf8 [0x0d] txt with
  | .ok text =>
    let dat := pasHeader ++ text
    let rem := trailingZeros dat
    .ok { desequence f dat with fsType := [3, 0], eof := leBytes 4 ((dat.length - 512 * (rem / 512)) % 2 ^ 32) }
  | .err => .err
  | .panic => .panic

def pascalUnpackTxt (f : FImg) : Res Bytes :=
  let dat := sequenceLimited f (getEof f)
  if dat.length < textPage + 1 then .err
  else
    match pasToUtf8 (dat.drop textPage) with
    | some s => .ok s
    | none => .panic

/-! ## dispatch -/

def packTxt (v : Variant) (fs : Fs) (f : FImg) (txt : Bytes) : Res FImg :=
  match fs with
  | .dos => dosPackTxt f txt
  | .prodos => prodosPackTxt v.prodosEof f txt
  | .pascal => pascalPackTxt f txt
  | .cpm => cpmPackTxt f txt
  | .fat => fatPackTxt f txt

def unpackTxt (fs : Fs) (f : FImg) : Res Bytes :=
  match fs with
  | .dos => dosUnpackTxt f
  | .prodos => prodosUnpackTxt f
  | .pascal => pascalUnpackTxt f
  | .cpm | .fat => cpmUnpackTxt f

/-! ## hex escapes (`src/lib.rs`) -/

def hexUp (n : Nat) : Nat := if n < 10 then 48 + n else 55 + n

/-- `escaped_ascii_from_bytes(bytes, escape_cc, inverted)` as ASCII code points.  `escBs` says
whether a literal backslash is itself escaped (`false` = as written at HEAD, `true` = repaired,
`/verif/proposed_fixes/escaped-ascii-backslash.diff`). -/
def escapeByte (escBs escapeCc inverted : Bool) (b : Nat) : Bytes :=
  let (lb, ub) := match escapeCc, inverted with
    | true, false => (0x20, 0x7e)
    | false, false => (0x00, 0x7f)
    | true, true => (0xa0, 0xfe)
    | false, true => (0x80, 0xff)
  let backslash := if inverted then 0xdc else 0x5c
  if lb ≤ b ∧ b ≤ ub ∧ ¬ (escBs = true ∧ b = backslash) then (if inverted then [b - 0x80] else [b])
  else [0x5c, 0x78, hexUp (b / 16), hexUp (b % 16)]

def escapeBytes (escBs escapeCc inverted : Bool) (bytes : Bytes) : Bytes :=
  bytes.flatMap (escapeByte escBs escapeCc inverted)

def hexDig (c : Nat) : Option Nat :=
  if 48 ≤ c ∧ c ≤ 57 then some (c - 48)
  else if 65 ≤ c ∧ c ≤ 70 then some (c - 55)
  else if 97 ≤ c ∧ c ≤ 102 then some (c - 87)
  else none

def upcase (c : Nat) : Nat := if 97 ≤ c ∧ c ≤ 122 then c - 32 else c

def plainChar (inverted caps : Bool) (c : Nat) : Nat :=
  (if caps then upcase c else c) + (if inverted then 128 else 0)

/-- `parse_escaped_ascii(s, inverted, caps)` for an ASCII string `s` (code points < 128): leftmost
non-overlapping `\xHH` are decoded, every other character is copied (upper-cased if `caps`, +128 if
`inverted`).  `fuel` = length of the string. -/
def parseEscapedLoop (inverted caps : Bool) : Nat → Bytes → Bytes
  | 0, _ => []
  | _, [] => []
  | fuel+1, c :: rest =>
    if c = 0x5c then
      match rest with
      | x :: h :: l :: rest' =>
        if x = 0x78 then
          match hexDig h, hexDig l with
          | some a, some b => (16 * a + b) :: parseEscapedLoop inverted caps fuel rest'
          | _, _ => plainChar inverted caps c :: parseEscapedLoop inverted caps fuel rest
        else plainChar inverted caps c :: parseEscapedLoop inverted caps fuel rest
      | _ => plainChar inverted caps c :: parseEscapedLoop inverted caps fuel rest
    else plainChar inverted caps c :: parseEscapedLoop inverted caps fuel rest

def parseEscaped (inverted caps : Bool) (s : Bytes) : Bytes := parseEscapedLoop inverted caps s.length s

end A2Verif.Packing
