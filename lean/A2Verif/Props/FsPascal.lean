import A2Verif.Lemmas.FsPascalPut
import A2Verif.Lemmas.FsPascalFormat
import A2Verif.Lemmas.FsPascalQuery
import A2Verif.Props.C01
import A2Verif.Props.C03
import A2Verif.Props.C04
import A2Verif.Props.C05
/-!
# The concrete Pascal file-system model refines the abstract volume specification

`Model/Fs/Pascal.lean` transcribes a2kit's Pascal code (byte-exact; tied to the real code unit for unit
by the harness, `Drv/FsPascal.lean`).  Here: under the decidable on-disk invariant `Inv` the independent
reader reads the image as the well-formed volume `volOf r`; every operation of the concrete model
preserves `Inv` and is a step the abstract specification allows (`stepOk`); hence every history of
concrete operations is a `validFrom` trace, and **all history-level theorems of `Props/C01 … C05` hold for
the concrete Pascal model** — stated as explicit corollaries below.  Also the acceptance clause of C04,
which the abstract specification cannot express.

No side condition on arguments: what the 16-bit directory fields cannot record (65536 or more chunks, a chunk
longer than a block, a logical length more than 65535 bytes short of the block total) is refused by `write_file`
before anything is written (repair `pascal-put-bounds`, found by this proof), and a refused step changes nothing.
-/
namespace A2Verif.FsPascal
open A2Verif.Fs.Pascal

/-- under the invariant the independent reader succeeds, and what it reads is well-formed (C03) and
leak-free (C04) -/
theorem inv_reads_well_formed {r : Raw} (h : Inv r) :
    Read.Pascal.read r = .ok (volOf r) ∧ (volOf r).wfB = true ∧ (volOf r).noLeak = true :=
  ⟨read_eq h, volOf_wf h, volOf_noLeak r⟩

/-- `format` establishes the invariant: whenever a2kit's `format` (as modelled) reports success — valid volume
name, a 280-block image — the formatted image satisfies `Inv` (whatever the fill byte, the date and the
boot blocks are) -/
theorem format_establishes_inv {r r' : Raw} {v date b0 b1 : Bytes} {fill : Nat}
    (h : Fs.Pascal.format r v fill date b0 b1 = (.ok (), r')) : Inv r' :=
  format_inv h

/-! ## operations of the concrete model -/

inductive Op where
  | put (f : FImg) (date : Bytes)
  | delete (name : Bytes)
  | rename (old new : Bytes)
  | retype (name : Bytes) (ty : Option Nat)

/-- run one operation on an image: (did it report success, the image afterwards) -/
def Op.run (r : Raw) : Op → Bool × Raw
  | .put f date => (okB (Fs.Pascal.put r f date).1, (Fs.Pascal.put r f date).2)
  | .delete name => (okB (Fs.Pascal.delete r name).1, (Fs.Pascal.delete r name).2)
  | .rename old new => (okB (Fs.Pascal.rename r old new).1, (Fs.Pascal.rename r old new).2)
  | .retype name ty => (okB (Fs.Pascal.retype r name ty).1, (Fs.Pascal.retype r name ty).2)

/-- the abstract operation a concrete one stands for (names are stored upper-cased) -/
def Op.abs : Op → FsOp
  | .put f _ => .put (upper f.fullPath) (putChunks f) f.eof f.fsType 0
  | .delete name => .delete (upper name)
  | .rename old new => .rename (upper old) (upper new)
  | .retype name _ => .retype (upper name)

/-- **Refinement, one step**: every operation of the concrete model preserves the invariant and is a
transition the abstract specification allows between the readings before and after -/
theorem step_refines {r : Raw} (h : Inv r) (op : Op) :
    Inv (op.run r).2 ∧ stepOk pascalParams (volOf r) op.abs (op.run r).1 (volOf (op.run r).2) = true := by
  cases op with
  | put f date => exact put_refines h rfl
  | delete name => exact delete_refines h rfl
  | rename old new => exact rename_refines h rfl
  | retype name ty => exact retype_refines h rfl

/-- the same in the form "if the operation returns `(res, r')` …" for each operation -/
theorem put_step {r r' : Raw} {f : FImg} {date : Bytes} {res : R Nat} (h : Inv r)
    (hop : Fs.Pascal.put r f date = (res, r')) :
    Inv r' ∧ stepOk pascalParams (volOf r) (.put (upper f.fullPath) (putChunks f) f.eof f.fsType 0) (okB res) (volOf r') = true :=
  put_refines h hop
theorem delete_step {r r' : Raw} {name : Bytes} {res : R Unit} (h : Inv r) (hop : Fs.Pascal.delete r name = (res, r')) :
    Inv r' ∧ stepOk pascalParams (volOf r) (.delete (upper name)) (okB res) (volOf r') = true :=
  delete_refines h hop
theorem rename_step {r r' : Raw} {old new : Bytes} {res : R Unit} (h : Inv r) (hop : Fs.Pascal.rename r old new = (res, r')) :
    Inv r' ∧ stepOk pascalParams (volOf r) (.rename (upper old) (upper new)) (okB res) (volOf r') = true :=
  rename_refines h hop
theorem retype_step {r r' : Raw} {name : Bytes} {ty : Option Nat} {res : R Unit} (h : Inv r)
    (hop : Fs.Pascal.retype r name ty = (res, r')) :
    Inv r' ∧ stepOk pascalParams (volOf r) (.retype (upper name)) (okB res) (volOf r') = true :=
  retype_refines h hop

/-! ## histories -/

/-- the checked steps a history of concrete operations produces: abstract operation, reported result, and
the (independent) reading of the image after the step -/
def trace : Raw → List Op → List Step
  | _, [] => []
  | r, op :: ops => ⟨op.abs, (op.run r).1, volOf (op.run r).2⟩ :: trace (op.run r).2 ops

/-- the image after the history -/
def finalRaw : Raw → List Op → Raw
  | r, [] => r
  | r, op :: ops => finalRaw (op.run r).2 ops

/-- **Refinement, histories**: every history of concrete operations, started from an image satisfying the
invariant, is a valid trace of the abstract specification; the invariant holds at the end and the final
reading is the reading of the final image -/
theorem history_refines : ∀ (ops : List Op) {r : Raw}, Inv r →
    validFrom pascalParams (volOf r) (trace r ops) ∧ Inv (finalRaw r ops) ∧
    finalVol (volOf r) (trace r ops) = volOf (finalRaw r ops) := by
  intro ops
  induction ops with
  | nil => intro r h; exact ⟨trivial, h, rfl⟩
  | cons op ops ih =>
    intro r h
    obtain ⟨h1, h2⟩ := step_refines h op
    obtain ⟨a, b, c⟩ := ih h1
    refine ⟨⟨h2, a⟩, b, ?_⟩
    show finalVol (volOf r) (⟨op.abs, (op.run r).1, volOf (op.run r).2⟩ :: trace (op.run r).2 ops) = _
    rw [finalVol_cons]
    exact c

theorem mem_trace : ∀ {ops : List Op} {r : Raw} {s : Step}, s ∈ trace r ops → ∃ op ∈ ops, s.op = op.abs := by
  intro ops
  induction ops with
  | nil => intro r s hs; cases hs
  | cons op ops ih =>
    intro r s hs
    rcases List.mem_cons.1 hs with rfl | hs
    · exact ⟨op, List.mem_cons_self, rfl⟩
    · obtain ⟨o, ho, e⟩ := ih hs
      exact ⟨o, List.mem_cons_of_mem _ ho, e⟩

/-- every state a history passes through satisfies the invariant, hence is read by the independent reader -/
theorem mem_trace_inv : ∀ {ops : List Op} {r : Raw} {s : Step}, Inv r → s ∈ trace r ops →
    ∃ r', Inv r' ∧ s.post = volOf r' := by
  intro ops
  induction ops with
  | nil => intro r s _ hs; cases hs
  | cons op ops ih =>
    intro r s h hs
    obtain ⟨h1, _⟩ := step_refines h op
    rcases List.mem_cons.1 hs with rfl | hs
    · exact ⟨_, h1, rfl⟩
    · exact ih h1 hs

/-! ## the history-level theorems of C01 … C05, for the concrete Pascal model -/

/-- C01 for the concrete model: after an accepted `put`, and any further history of concrete operations
that does not name the file, the file the reader finds holds the stored chunks (index for index, each
beginning with the stored bytes), the stored logical length and type -/
theorem pascal_get_returns_last_put {r r1 : Raw} {f : FImg} {date : Bytes} {n : Nat} (h : Inv r)
    (hput : Fs.Pascal.put r f date = (.ok n, r1)) {ops : List Op}
    (hq : ∀ op ∈ ops, upper f.fullPath ∉ op.abs.targets) :
    ∃ g, Read.Pascal.read (finalRaw r1 ops) = .ok (volOf (finalRaw r1 ops)) ∧
      (volOf (finalRaw r1 ops)).lookup (upper f.fullPath) = some g ∧
      chunksMatch (putChunks f) g.chunks = true ∧ g.eof = f.eof ∧ g.ftype = f.fsType ∧ g.isDir = false := by
  obtain ⟨h1, hstep⟩ := put_refines h hput
  obtain ⟨hv, hfin, heq⟩ := history_refines ops h1
  obtain ⟨g, hg, _, hc, he, hd, ht, _⟩ := C01.get_returns_last_put hstep hv (fun s hs => by
    obtain ⟨op, ho, e⟩ := mem_trace hs
    rw [e]; exact hq op ho)
  rw [heq] at hg
  exact ⟨g, read_eq hfin, hg, hc, he, ht rfl, hd⟩

/-- an accepted `put` had a valid name -/
theorem put_ok_valid {r r1 : Raw} {f : FImg} {date : Bytes} {n : Nat} (hput : Fs.Pascal.put r f date = (.ok n, r1)) :
    isNameValid f.fullPath false = true := by
  by_cases hv : isNameValid f.fullPath false = true
  · exact hv
  · exfalso
    unfold Fs.Pascal.put at hput
    by_cases c1 : f.fsOk = true
    case neg => rw [if_pos (by simp [c1])] at hput; cases hput
    rw [if_neg (by simp [c1])] at hput
    by_cases c2 : f.chunkLen ≠ blockSize
    case pos => rw [if_pos c2] at hput; cases hput
    rw [if_neg c2] at hput
    dsimp only at hput
    by_cases c3 : f.chunks.length = 0
    case pos => rw [if_pos c3] at hput; cases hput
    rw [if_neg c3, if_pos (by simp [hv])] at hput
    cases hput

/-- C01 for the concrete model, in terms of the model's own `get` (a2kit's `read_file`): after an accepted
`put` and any further history that does not name the file, **`get` returns** the stored chunks (index for
index, each beginning with the stored bytes), the stored logical length and the stored type -/
theorem pascal_get_after_history {r r1 : Raw} {f : FImg} {date : Bytes} {n : Nat} (h : Inv r)
    (hput : Fs.Pascal.put r f date = (.ok n, r1)) {ops : List Op}
    (hq : ∀ op ∈ ops, upper f.fullPath ∉ op.abs.targets) :
    ∃ got, Fs.Pascal.get (finalRaw r1 ops) f.fullPath = .ok got ∧
      chunksMatch (putChunks f) got.chunks = true ∧ got.eof = f.eof ∧ got.fsType = f.fsType := by
  obtain ⟨g, _, hg, hc, he, ht, _⟩ := pascal_get_returns_last_put h hput hq
  obtain ⟨h1, _⟩ := put_refines h hput
  obtain ⟨_, hfin, _⟩ := history_refines ops h1
  obtain ⟨m, hm⟩ := get_spec hfin (put_ok_valid hput) hg
  exact ⟨_, hm, hc, he, ht⟩

/-- `get` is the reading: it returns the record the independent reader finds (type, length, every block) -/
theorem pascal_get_is_reading {r : Raw} (h : Inv r) {name : Bytes} (hv : isNameValid name false = true) {g : FileRec}
    (hg : (volOf r).lookup (upper name) = some g) :
    ∃ m, Fs.Pascal.get r name = .ok { fsType := g.ftype, eof := g.eof, chunks := g.chunks, modified := m } :=
  get_spec h hv hg

/-- `stat().free_blocks` is the number of units the reader finds free (C04: the reported free space) -/
theorem pascal_stat_free_is_reading {r : Raw} (h : Inv r) : Fs.Pascal.statFree r = .ok (volOf r).free :=
  statFree_spec h

/-- the catalog lists exactly the files the reader finds, in directory order (C05) -/
theorem pascal_catalog_is_reading {r : Raw} (h : Inv r) :
    ∃ rows, Fs.Pascal.catalog r = .ok rows ∧ rows.map (·.1) = (volOf r).paths :=
  catalog_names h

/-- C02 for the concrete model: a file that no operation of the history names is found bit-identical
(content, length, type, blocks) in the reading of the final image -/
theorem pascal_bystanders_survive {r : Raw} (h : Inv r) {ops : List Op}
    {q : Bytes} {g : FileRec} (hg : (volOf r).lookup q = some g) (hq : ∀ op ∈ ops, q ∉ op.abs.targets) :
    (volOf (finalRaw r ops)).lookup q = some g := by
  obtain ⟨hv, _, heq⟩ := history_refines ops h
  have hd : g.isDir = false := by
    have hm := (lookup_some hg).1
    rw [volOf_files] at hm
    obtain ⟨e, _, rfl⟩ := List.mem_map.1 hm
    rfl
  have := C02.bystanders_survive_history hv (fun s hs => by
    obtain ⟨op, ho, e⟩ := mem_trace hs
    rw [e]; exact hq op ho) hg hd
  rw [heq] at this
  exact this

/-- C03 for the concrete model: the image after **every** step of every history, successful or refused,
is read by the independent reader as a well-formed volume -/
theorem pascal_states_well_formed {r : Raw} (h : Inv r) {ops : List Op} :
    (∀ s ∈ trace r ops, s.post.wfB = true) ∧
    Read.Pascal.read (finalRaw r ops) = .ok (volOf (finalRaw r ops)) ∧ (volOf (finalRaw r ops)).wfB = true := by
  obtain ⟨hv, hfin, _⟩ := history_refines ops h
  exact ⟨C03.every_state_well_formed hv, read_eq hfin, volOf_wf hfin⟩

/-- C04 for the concrete model: in every state of every history `free + owned + system = size` -/
theorem pascal_free_accounting {r : Raw} (h : Inv r) {ops : List Op} :
    (∀ s ∈ trace r ops, s.post.free + s.post.allOwned.length + s.post.sys.length = s.post.hi - s.post.lo) ∧
    (volOf (finalRaw r ops)).free + (volOf (finalRaw r ops)).allOwned.length + (volOf (finalRaw r ops)).sys.length =
      total (finalRaw r ops) := by
  have key : ∀ {r' : Raw}, Inv r' →
      (volOf r').free + (volOf r').allOwned.length + (volOf r').sys.length = (volOf r').hi - (volOf r').lo := by
    intro r' h'
    apply C04.free_accounting (volOf_wf h') (volOf_noLeak r')
    intro u hu
    have : u ∈ Vol.range 0 (dirEnd r') := hu
    have := mem_vrange.1 this
    have := h'.d.dirEnd_total
    exact ⟨Nat.zero_le _, by show u < total r'; unfold total dirEnd at *; omega⟩
  obtain ⟨_, hfin, _⟩ := history_refines ops h
  refine ⟨fun s hs => ?_, key hfin⟩
  obtain ⟨r', h', e⟩ := mem_trace_inv h hs
  rw [e]; exact key h'

/-- C05 for the concrete model: the names the reader lists after a history are exactly the fold of the
history over the initial listing (accepted puts add, accepted deletes remove, accepted renames replace,
everything else — and every refusal — changes nothing), and they are pairwise different -/
theorem pascal_listing_is_history_fold {r : Raw} (h : Inv r) {ops : List Op} (q : Bytes) :
    (q ∈ (volOf (finalRaw r ops)).paths ↔ q ∈ foldPaths (volOf r).paths (trace r ops)) ∧
    (volOf (finalRaw r ops)).paths.Nodup := by
  obtain ⟨hv, hfin, heq⟩ := history_refines ops h
  have := C05.listing_is_history_fold' hv q
  rw [heq] at this
  exact ⟨this, wfB_paths_nodup (volOf_wf hfin)⟩

/-- C04, acceptance clause (not expressible in the abstract specification): a file that the directory can
record (`PutArgsOk`: fewer than 65536 chunks, no chunk longer than a block, length within 65535 bytes of the
block total) with a valid, fresh
name, a known type, no hole, for which a directory slot is free and a contiguous run of `n` free blocks
exists anywhere in the volume, **is accepted** — `put` returns `Ok(n)` -/
theorem pascal_fits_is_accepted {r : Raw} (h : Inv r) {f : FImg} {date : Bytes} (ha : PutArgsOk f)
    (hfs : f.fsOk = true) (hcl : f.chunkLen = 512) (hn0 : f.chunks.length ≠ 0)
    (hv : isNameValid f.fullPath false = true) (hfresh : upper f.fullPath ∉ (volOf r).paths)
    (hty : f.fsType ≤ 8) (hslot : numFiles r < (allEntries r).length)
    (hholes : ∀ b, b < f.chunks.length → (f.chunks.lookup b).isSome = true) (heof : f.eof ≤ 512 * f.chunks.length)
    (hrun : ∃ s, s + f.chunks.length ≤ total r ∧
      ∀ j, j < f.chunks.length → isBlockFree (s + j) { header := hdr r, entries := allEntries r } = true) :
    (Fs.Pascal.put r f date).1 = .ok f.chunks.length := by
  obtain ⟨r2, h1, _, _⟩ := put_accepts h (date := date) ha hfs hcl hn0 hv hfresh hty hslot hholes heof hrun
  rw [h1]

/-- "free" in the hypothesis above is what the abstract volume calls free: a block `is_block_free` accepts
is one of the reader's free units, and conversely -/
theorem isBlockFree_iff_freeUnit {r : Raw} {b : Nat} (hb : b < total r) :
    isBlockFree b { header := hdr r, entries := allEntries r } = true ↔ b ∈ (volOf r).freeUnits := by
  rw [isBlockFree_iff]
  show _ ↔ b ∈ (Vol.range 0 (total r)).filter (fun u => !((volOf r).allOwned ++ (volOf r).sys).contains u)
  rw [List.mem_filter, mem_vrange]
  have hsys : ∀ u, u ∈ (volOf r).sys ↔ u < dirEnd r := by
    intro u
    show u ∈ Vol.range 0 (dirEnd r) ↔ _
    rw [mem_vrange]; omega
  simp only [Bool.not_eq_true', List.contains_eq_mem, decide_eq_false_iff_not, List.mem_append, not_or, hsys,
    allOwned_volOf, mem_ownedOf]
  constructor
  · rintro ⟨a, c⟩
    exact ⟨⟨Nat.zero_le _, hb⟩, fun ⟨e, he, x⟩ => c e he x, by omega⟩
  · rintro ⟨_, c, a⟩
    exact ⟨by omega, fun e he x => c ⟨e, he, x⟩⟩

/-! ## non-vacuity: a concrete image and a concrete history

`exImg`: a 12-block image formatted by the model (the model refuses to put boot code on anything but a
280-block disk, but the volume structures are complete).  `exOps`: store `a` (two chunks, given out of
order, lower-case name), store `B.X`, a refused second store of `a`, a refused store of an image whose length
exceeds its chunks, rename `A`→`C`, retype `C`, delete
`b.x` (lower-case spelling), a refused delete of a missing file. -/

def exImg : Raw :=
  (Fs.Pascal.format { unitLen := 512, units := Array.replicate 12 (List.replicate 512 0) } [86] 238 [17, 0] [] []).2

def exA : FImg := { fullPath := [97], fsType := 5, eof := 700, chunks := [(1, [9, 8, 7]), (0, List.replicate 512 3)] }
def exB : FImg := { fullPath := [66, 46, 88], fsType := 3, eof := 5, chunks := [(0, [1, 2, 3, 4, 5])] }
/-- a file image whose logical length exceeds its chunks: refused, nothing written -/
def exBad : FImg := { fullPath := [88], fsType := 5, eof := 9999, chunks := [(0, [1])] }
def exOps : List Op :=
  [.put exA [17, 0], .put exB [17, 0], .put exA [17, 0], .put exBad [17, 0], .rename [65] [67], .retype [67] (some 2), .delete [98, 46, 120], .delete [90]]

set_option maxRecDepth 100000 in
theorem exImg_inv : Inv exImg := by decide +kernel

set_option maxRecDepth 100000 in
/-- what the concrete model answers on the example history -/
example : (trace exImg exOps).map (·.ok) = [true, true, false, false, true, true, true, false] := by decide +kernel

example : validFrom pascalParams (volOf exImg) (trace exImg exOps) := (history_refines exOps exImg_inv).1
example : ∀ s ∈ trace exImg exOps, s.post.wfB = true := (pascal_states_well_formed exImg_inv).1
example (q : Bytes) : q ∈ (volOf (finalRaw exImg exOps)).paths ↔ q ∈ foldPaths (volOf exImg).paths (trace exImg exOps) :=
  (pascal_listing_is_history_fold exImg_inv q).1

theorem okB_unit {x : R Unit} (h : okB x = true) : x = .ok () := by
  cases x with
  | ok u => rfl
  | error e => cases h

set_option maxRecDepth 100000 in
/-- `format` on a 280-block image reports success, hence (`format_establishes_inv`) the result satisfies `Inv` -/
example : Inv (Fs.Pascal.format { unitLen := 512, units := Array.replicate 280 [] } [86, 69, 82, 73, 70] 238 [17, 0] [1] [2]).2 :=
  format_establishes_inv (r := { unitLen := 512, units := Array.replicate 280 [] }) (v := [86, 69, 82, 73, 70]) (fill := 238)
    (date := [17, 0]) (b0 := [1]) (b1 := [2]) (Prod.ext (okB_unit (by decide +kernel)) rfl)

end A2Verif.FsPascal
