import A2Verif.Lemmas.FsFatAttr
import A2Verif.Lemmas.FsFatDel
import A2Verif.Lemmas.FsFatExample
import A2Verif.Lemmas.FsFatFormat
import A2Verif.Props.C02
import A2Verif.Props.C03
import A2Verif.Props.C05
/-!
# The concrete FAT model and the abstract volume specification: what is proved

`Model/Fs/Fat.lean` transcribes a2kit's FAT code (byte-exact; tied to the real code unit for unit by the harness,
`Drv/FsFat.lean`, `harness/src/fam/fs_fat.rs`).  This file collects the theorems about it.

**Proved for all inputs**
* the FAT12 entry algebra: an entry reads back, writing one entry changes no other (`getCluster_setCluster_same/_other`);
* allocation: `num_free_blocks` counts, `get_available_block` is a sound and complete first fit (`avail_sound`,
  `avail_complete`, `avail_none_iff`); the cluster loop of `write_file` never panics, takes free clusters only,
  touches no other unit and no other FAT entry, lowers the free count by exactly the chunk count (`writeLoop_ok`);
  the de-allocation walk of `delete` only zeroes entries (`deallocateChain_only_frees`);
* C04 acceptance for the root directory (`fat_fits_is_accepted`);
* under the invariant `Inv` the total reader reads the image as the well-formed, leak-free `volOf d`
  (`inv_reads_well_formed`), and the **attribute operations `lock` / `unlock` of a root-level file, observed as the
  harness observes them (run, then `get_img()`), preserve `Inv` and are steps the abstract specification allows**
  (`lock_step`, `unlock_step`), and so does **`delete` of a root-level file** (`delete_step`: the record disappears, its
  clusters become free, every other record in the root and below is read exactly as before), hence so is every history of
  them (`attr_history_refines`), and the history-level
  theorems of C02, C03, C05 hold for such histories (`fat_attr_*`).

**Partial** (statement in the docstring of `step_refines_partial`): the refinement of `put`, `rename`,
`mkdir` and of operations below the root, and `format_establishes_inv`, are not proved; their byte-exact agreement
with the real code is checked on every sampled step by the tie, and the real steps are checked against the same
specification by the group's reader tie.
-/
namespace A2Verif.FsFat
open A2Verif A2Verif.Fs.Fat A2Verif.Read.FatT
open A2Verif.FsDos (replaced removed stepOk_lock_replaced stepOk_unlock_replaced stepOk_refused_same stepOk_delete_removed)

theorem testBit0 (x : Nat) : x % 2 = (if x.testBit 0 then 1 else 0) := by
  have := bit_of_testBit x 0
  simpa using this

theorem lockAttr_odd (a : Nat) : newAttrO a (some READ_ONLY) none % 2 = 1 := by
  rw [testBit0]
  unfold newAttrO READ_ONLY
  simp [Nat.testBit_or]

theorem unlockAttr_even (a : Nat) : newAttrO a none (some READ_ONLY) % 2 = 0 := by
  rw [testBit0]
  unfold newAttrO READ_ONLY
  simp [Nat.testBit_or, Nat.testBit_and]

def okB {α : Type} : R α → Bool
  | .ok _ => true
  | .error _ => false

/-- **`lock` refines**: for a state satisfying the invariant and a canonical root-level name that does not denote a
directory, `lock` followed by the flush preserves the invariant and is a step the abstract specification allows -/
theorem lock_step {d d' : Disk} {p : Bytes} {res : R Unit} (inv : Inv d) (a : RootArg p)
    (hfile : ∀ rec, (volOf d).lookup (absPath p) = some rec → rec.isDir = false)
    (h : runFlush (lock p) d = (res, d')) :
    Inv d' ∧ stepOk fatParams (volOf d) (.lock (absPath p)) (okB res) (volOf d') = true := by
  have hwf := (inv_reads_well_formed inv).2.1
  rw [lock_eq] at h
  rcases attr_step inv a (some READ_ONLY) none (by intro m hm; injection hm with hm; subst hm; decide) (by intro m hm; cases hm) hfile h with
    ⟨er, h1, h2⟩ | ⟨h1, inv', F1, F2, rec, hv, hp, _, hvol⟩
  · subst h1 h2
    exact ⟨inv, stepOk_refused_same hwf _⟩
  · subst h1
    refine ⟨inv', ?_⟩
    rw [hvol, ← hp]
    exact stepOk_lock_replaced hv hwf rfl (by simp [recAttr, lockAttr_odd]) rfl rfl rfl rfl rfl rfl

/-- **`unlock` refines** -/
theorem unlock_step {d d' : Disk} {p : Bytes} {res : R Unit} (inv : Inv d) (a : RootArg p)
    (hfile : ∀ rec, (volOf d).lookup (absPath p) = some rec → rec.isDir = false)
    (h : runFlush (unlock p) d = (res, d')) :
    Inv d' ∧ stepOk fatParams (volOf d) (.unlock (absPath p)) (okB res) (volOf d') = true := by
  have hwf := (inv_reads_well_formed inv).2.1
  rw [unlock_eq] at h
  rcases attr_step inv a none (some READ_ONLY) (by intro m hm; cases hm) (by intro m hm; injection hm with hm; subst hm; decide) hfile h with
    ⟨er, h1, h2⟩ | ⟨h1, inv', F1, F2, rec, hv, hp, _, hvol⟩
  · subst h1 h2
    exact ⟨inv, stepOk_refused_same hwf _⟩
  · subst h1
    refine ⟨inv', ?_⟩
    rw [hvol, ← hp]
    exact stepOk_unlock_replaced hv hwf rfl (by simp [recAttr, unlockAttr_even]) rfl rfl rfl rfl rfl rfl

/-- **`delete` refines**: for a state satisfying the invariant and a canonical root-level name that does not denote a
directory, `delete` followed by the flush preserves the invariant and is a step the abstract specification allows: refused
(missing, read-only) without any change, or the record disappears, its clusters become free, every other record —
in the root and below — is read exactly as before -/
theorem delete_step {d d' : Disk} {p : Bytes} {res : R Unit} (inv : Inv d) (a : RootArg p)
    (hfile : ∀ rec, (volOf d).lookup (absPath p) = some rec → rec.isDir = false)
    (h : runFlush (delete p) d = (res, d')) :
    Inv d' ∧ stepOk fatParams (volOf d) (.delete (absPath p)) (okB res) (volOf d') = true := by
  have hwf := (inv_reads_well_formed inv).2.1
  rcases delete_step_core inv a hfile h with ⟨er, h1, h2⟩ | ⟨h1, inv', F1, F2, rec, free', hv, hp, hl, hnd, hfree, hvol⟩
  · subst h1 h2
    exact ⟨inv, stepOk_refused_same hwf _⟩
  · subst h1
    refine ⟨inv', ?_⟩
    rw [hvol, ← hp]
    exact stepOk_delete_removed hv hwf hnd hfree hl

theorem delete_keeps_flat {d d' : Disk} {p : Bytes} {res : R Unit} (inv : Inv d) (a : RootArg p)
    (hflat : ∀ rec ∈ (volOf d).files, rec.isDir = false) (h : runFlush (delete p) d = (res, d')) :
    ∀ rec ∈ (volOf d').files, rec.isDir = false := by
  have hfile : ∀ rec, (volOf d).lookup (absPath p) = some rec → rec.isDir = false := fun rec hl => hflat rec (lookup_some hl).1
  rcases delete_step_core inv a hfile h with ⟨er, _, h2⟩ | ⟨_, _, F1, F2, rec, free', hv, _, _, _, _, hvol⟩
  · subst h2; exact hflat
  · intro r hr
    rw [hvol] at hr
    have : r ∈ F1 ++ F2 := hr
    rcases List.mem_append.1 this with h | h
    · exact hflat r (by rw [hv]; simp [h])
    · exact hflat r (by rw [hv]; simp [h])

/-- attribute operations keep the volume free of directories when it was -/
theorem attr_keeps_flat {d d' : Disk} {p : Bytes} {set clear : Option Nat} {res : R Unit} (inv : Inv d) (a : RootArg p)
    (hs : ∀ m, set = some m → m.testBit 3 = false ∧ m.testBit 4 = false)
    (hc : ∀ m, clear = some m → (255 - m).testBit 3 = true ∧ (255 - m).testBit 4 = true)
    (hflat : ∀ rec ∈ (volOf d).files, rec.isDir = false)
    (h : runFlush (attrOp p set clear) d = (res, d')) : ∀ rec ∈ (volOf d').files, rec.isDir = false := by
  have hfile : ∀ rec, (volOf d).lookup (absPath p) = some rec → rec.isDir = false := fun rec hl => hflat rec (lookup_some hl).1
  rcases attr_step inv a set clear hs hc hfile h with ⟨er, _, h2⟩ | ⟨_, _, F1, F2, rec, hv, _, hd, hvol⟩
  · subst h2; exact hflat
  · intro r hr
    rw [hvol] at hr
    have : r ∈ F1 ++ recAttr rec (newAttrO rec.access set clear) :: F2 := hr
    simp only [List.mem_append, List.mem_cons] at this
    rcases this with h | h | h
    · exact hflat r (by rw [hv]; simp [h])
    · subst h; exact hd
    · exact hflat r (by rw [hv]; simp [h])

/-! ## `format` -/

/-- **`format` establishes the invariant** (C03, initial state of every history), for every BIOS parameter block that
describes a FAT12 volume of 512-byte sectors inside the image (`FmtPre`: the facts of `Geo` other than the boot sector being
on the image; the boot sector `boot` is the parameter of the model's `format`, its BPB is the disk's), a valid label or
none, and a two-byte time and date: `format` followed by `get_img()` succeeds, the state reached satisfies `Inv`, its
reading lists no file, and every usable cluster is free -/
theorem format_establishes_inv {d : Disk} {boot vol : Bytes} {now : Stamp} (p : FmtPre d boot)
    (hv : isLabelValid vol = true ∨ vol = []) (hs : StampOk now) :
    ∃ d', runFlush (format vol boot now) d = (.ok (), d') ∧ Inv d' ∧ (volOf d').files = [] ∧
      (volOf d').free = d.bpb.clusterCountUsable := by
  obtain ⟨d', f, hrun, hlf, hb, g, c, hfree, hE, ht⟩ := format_run p hv hs
  obtain ⟨i1, i2, i3⟩ := inv_of_empty hlf g c hfree hE ht
  exact ⟨d', hrun, i1, i2, by rw [i3, hb]⟩

/-- a boot sector carrying the 25 bytes of a BPB foundation at offset 11 (the other bytes do not matter to `FmtPre`) -/
def bootOf (bpb : Bytes) : Bytes := List.replicate 11 0 ++ bpb ++ List.replicate (512 - 36) 0

/-- `bpb.rs::SSDD_525_9` (5.25" 180K), `DSDD_525_9` (360K), `D35_720` (3.5" 720K): the kinds of the quick tier -/
def bpbSSDD9 : Bytes := [0, 2, 1, 1, 0, 2, 64, 0, 104, 1, 252, 1, 0, 9, 0, 1, 0, 0, 0, 0, 0, 0, 0, 0, 0]
def bpbDSDD9 : Bytes := [0, 2, 2, 1, 0, 2, 112, 0, 208, 2, 253, 2, 0, 9, 0, 2, 0, 0, 0, 0, 0, 0, 0, 0, 0]
def bpb720 : Bytes := [0, 2, 2, 1, 0, 2, 112, 0, 160, 5, 249, 3, 0, 9, 0, 2, 0, 0, 0, 0, 0, 0, 0, 0, 0]
def verif : Bytes := [86, 69, 82, 73, 70]

/-- non-vacuity: the three volume kinds of the quick tier, formatted with the label `VERIF` as the harness does, and the
24-sector example volume, meet the hypotheses of `format_establishes_inv` -/
example : FmtPre (blankDisk (bootOf bpbSSDD9) 360) (bootOf bpbSSDD9) ∧ FmtPre (blankDisk (bootOf bpbDSDD9) 720) (bootOf bpbDSDD9) ∧
    FmtPre (blankDisk (bootOf bpb720) 1440) (bootOf bpb720) ∧ FmtPre (blankDisk exBoot 24) exBoot ∧
    isLabelValid verif = true ∧ StampOk exStamp :=
  ⟨fmtPre_blank (by decide +kernel) (by decide +kernel), fmtPre_blank (by decide +kernel) (by decide +kernel),
    fmtPre_blank (by decide +kernel) (by decide +kernel), fmtPre_blank (by decide +kernel) (by decide +kernel), by decide +kernel, ⟨rfl, rfl⟩⟩

/-- the clusters `format` leaves free on these kinds: 339 of the 353 the data area of the 180K kind holds (its one-sector
FAT describes no more), 354, 713 -/
example : (Bpb.ofBoot (bootOf bpbSSDD9)).clusterCountUsable = 339 ∧ (Bpb.ofBoot (bootOf bpbDSDD9)).clusterCountUsable = 354 ∧
    (Bpb.ofBoot (bootOf bpb720)).clusterCountUsable = 713 := by decide +kernel

/-! ## histories of attribute operations -/

inductive Op where
  | lock (p : Bytes)
  | unlock (p : Bytes)
  | delete (p : Bytes)

def Op.path : Op → Bytes
  | .lock p => p
  | .unlock p => p
  | .delete p => p

/-- run one operation as the harness observes it -/
def Op.run (d : Disk) : Op → Bool × Disk
  | .lock p => (okB (runFlush (Fs.Fat.lock p) d).1, (runFlush (Fs.Fat.lock p) d).2)
  | .unlock p => (okB (runFlush (Fs.Fat.unlock p) d).1, (runFlush (Fs.Fat.unlock p) d).2)
  | .delete p => (okB (runFlush (Fs.Fat.delete p) d).1, (runFlush (Fs.Fat.delete p) d).2)

def Op.abs : Op → FsOp
  | .lock p => .lock (absPath p)
  | .unlock p => .unlock (absPath p)
  | .delete p => .delete (absPath p)

/-- the volume holds no directory (so that every name denotes a file) -/
def Flat (d : Disk) : Prop := ∀ rec ∈ (volOf d).files, rec.isDir = false

theorem op_step {d : Disk} (inv : Inv d) (fl : Flat d) (op : Op) (a : RootArg op.path) :
    Inv (op.run d).2 ∧ Flat (op.run d).2 ∧ stepOk fatParams (volOf d) op.abs (op.run d).1 (volOf (op.run d).2) = true := by
  have hfile : ∀ rec, (volOf d).lookup (absPath op.path) = some rec → rec.isDir = false := fun rec hl => fl rec (lookup_some hl).1
  cases op with
  | lock p =>
    have h : runFlush (Fs.Fat.lock p) d = ((runFlush (Fs.Fat.lock p) d).1, (runFlush (Fs.Fat.lock p) d).2) := rfl
    obtain ⟨i', s'⟩ := lock_step inv a hfile h
    have h' := h
    rw [lock_eq] at h'
    exact ⟨i', attr_keeps_flat inv a (by intro m hm; injection hm with hm; subst hm; decide) (by intro m hm; cases hm) fl h', s'⟩
  | unlock p =>
    have h : runFlush (Fs.Fat.unlock p) d = ((runFlush (Fs.Fat.unlock p) d).1, (runFlush (Fs.Fat.unlock p) d).2) := rfl
    obtain ⟨i', s'⟩ := unlock_step inv a hfile h
    have h' := h
    rw [unlock_eq] at h'
    exact ⟨i', attr_keeps_flat inv a (by intro m hm; cases hm) (by intro m hm; injection hm with hm; subst hm; decide) fl h', s'⟩
  | delete p =>
    have h : runFlush (Fs.Fat.delete p) d = ((runFlush (Fs.Fat.delete p) d).1, (runFlush (Fs.Fat.delete p) d).2) := rfl
    obtain ⟨i', s'⟩ := delete_step inv a hfile h
    exact ⟨i', delete_keeps_flat inv a fl h, s'⟩

def trace : Disk → List Op → List Step
  | _, [] => []
  | d, op :: ops => ⟨op.abs, (op.run d).1, volOf (op.run d).2⟩ :: trace (op.run d).2 ops

def finalDisk : Disk → List Op → Disk
  | d, [] => d
  | d, op :: ops => finalDisk (op.run d).2 ops

/-- **Refinement, histories of attribute operations**: every history of `lock`/`unlock` of canonical root-level names,
started from a state satisfying the invariant on a volume without directories, is a valid trace of the abstract
specification; the invariant holds at the end and the final reading is the reading of the final image -/
theorem attr_history_refines : ∀ (ops : List Op) {d : Disk}, Inv d → Flat d → (∀ op ∈ ops, RootArg op.path) →
    validFrom fatParams (volOf d) (trace d ops) ∧ Inv (finalDisk d ops) ∧
    finalVol (volOf d) (trace d ops) = volOf (finalDisk d ops) := by
  intro ops
  induction ops with
  | nil => intro d h _ _; exact ⟨trivial, h, rfl⟩
  | cons op ops ih =>
    intro d h fl ha
    obtain ⟨h1, f1, h2⟩ := op_step h fl op (ha op (by simp))
    obtain ⟨x, y, z⟩ := ih h1 f1 (fun o ho => ha o (by simp [ho]))
    refine ⟨⟨h2, x⟩, y, ?_⟩
    show finalVol (volOf d) (⟨op.abs, (op.run d).1, volOf (op.run d).2⟩ :: trace (op.run d).2 ops) = _
    rw [finalVol_cons]
    exact z

/-- C03 for such histories: the image after every step is read as a well-formed volume -/
theorem fat_attr_states_well_formed {d : Disk} (h : Inv d) (fl : Flat d) {ops : List Op} (ha : ∀ op ∈ ops, RootArg op.path) :
    (∀ s ∈ trace d ops, s.post.wfB = true) ∧ readT (finalDisk d ops).raw = .ok (volOf (finalDisk d ops)) ∧
      (volOf (finalDisk d ops)).wfB = true := by
  obtain ⟨hv, hfin, _⟩ := attr_history_refines ops h fl ha
  exact ⟨C03.every_state_well_formed hv, (inv_reads_well_formed hfin).1, (inv_reads_well_formed hfin).2.1⟩

/-- C05 for such histories: the listing after the history is the fold of the history over the initial listing -/
theorem fat_attr_listing_is_history_fold {d : Disk} (h : Inv d) (fl : Flat d) {ops : List Op} (ha : ∀ op ∈ ops, RootArg op.path) (q : Bytes) :
    (q ∈ (volOf (finalDisk d ops)).paths ↔ q ∈ foldPaths (volOf d).paths (trace d ops)) ∧ (volOf (finalDisk d ops)).paths.Nodup := by
  obtain ⟨hv, hfin, heq⟩ := attr_history_refines ops h fl ha
  have := C05.listing_is_history_fold' hv q
  rw [heq] at this
  exact ⟨this, wfB_paths_nodup (inv_reads_well_formed hfin).2.1⟩

/-- **Refinement, one step — what is proved** (`lock`, `unlock`, `delete` of root-level files on a volume without
directories in the root… more precisely: whose reading lists no directory).

The full statement, which is *not* proved, reads: for every operation `op` of the concrete model (`put`, `delete`,
`rename`, `lock`, `unlock`, `retype`, `mkdir`, any path) and every state `d` with `Inv d`,
`runFlush op d = (res, d') → Inv d' ∧ stepOk fatParams (volOf d) (abs op) (okB res) (volOf d')`, and
`format … = (ok, d') → Inv d'`.  Missing: (1) the converse name correspondence (a path the reader lists is found by
`get_file`), needed for the "target was absent" conditions of `put`/`rename`/`mkdir`; (2) `NameGood` of a freshly packed
name (`string_to_file_name`), needed for `put`, `rename`, `mkdir`; (3) for `put`: that the chain `write_file` builds is the
chain the reader follows and holds the chunks (the concrete-level half is `writeLoop_ok`: free clusters only, nothing
else touched, free count); (4) the walk below the root (`goto_path` through sub-directories,
`writeback_directory_entry` along a cluster chain, `expand_directory`); (5) the run of `format` (fill loop, opening and
repairing the all-zero FAT).  For these the correspondence rests on the sampled ties alone.  (`retype` of a FAT file
with the type strings the harness uses is always refused by a2kit; `sys/reg/hid/vis` are covered by `attr_step`.) -/
theorem step_refines_partial {d : Disk} (inv : Inv d) (fl : Flat d) (op : Op) (a : RootArg op.path) :
    Inv (op.run d).2 ∧ stepOk fatParams (volOf d) op.abs (op.run d).1 (volOf (op.run d).2) = true :=
  ⟨(op_step inv fl op a).1, (op_step inv fl op a).2.2⟩

/-! ## non-vacuity: a state built by the model itself, and a history on it, checked in the kernel -/

theorem exDisk_flat : Flat exDisk := by
  have h : (volOf exDisk).files.all (fun r => !r.isDir) = true := by decide +kernel
  intro rec hr
  have := List.all_eq_true.mp h rec hr
  simpa using this

def exName : Bytes := [65, 46, 66]
def exMissing : Bytes := [90, 90]

theorem exName_arg : RootArg exName :=
  { ne := by decide, noSlash := by decide, noStar := by decide, noQ := by decide, len := by decide }
theorem exMissing_arg : RootArg exMissing :=
  { ne := by decide, noSlash := by decide, noStar := by decide, noQ := by decide, len := by decide }

def exOps : List Op := [.lock exName, .unlock exMissing, .delete exName, .unlock exName, .delete exName, .delete exName]

/-- the example history really locks, refuses, unlocks (the theorems are not about refusals only) -/
example : (trace exDisk exOps).map (·.ok) = [true, false, false, true, true, false] ∧
    (trace exDisk exOps).map (fun s => (s.post.lookup (absPath exName)).map (·.locked)) =
      [some true, some true, some true, some false, none, none] ∧
    (trace exDisk exOps).map (fun s => s.post.free) = [18, 18, 18, 18, 20, 20] := by
  decide +kernel

example : validFrom fatParams (volOf exDisk) (trace exDisk exOps) :=
  (attr_history_refines exOps exDisk_inv exDisk_flat (by
    intro op hop
    simp only [exOps, List.mem_cons, List.mem_nil_iff, or_false] at hop
    rcases hop with h | h | h | h | h | h <;> subst h
    · exact exName_arg
    · exact exMissing_arg
    · exact exName_arg
    · exact exName_arg
    · exact exName_arg
    · exact exName_arg)).1

/-- the hypotheses of the acceptance theorem are satisfiable: the `put` that built `exDisk` is an instance -/
example : ∃ n d', put exFile exStamp exDisk0 = (.ok n, d') := by
  have h : okB (put exFile exStamp exDisk0).1 = true := by decide +kernel
  cases hp : put exFile exStamp exDisk0 with
  | mk res d' =>
    rw [hp] at h
    cases res with
    | error e => cases h
    | ok n => exact ⟨n, d', rfl⟩

/-! ## the code as written (label entries in the map of files) does **not** refine the specification -/

/-- the formatted example volume in the variant of the pinned HEAD -/
def exDiskL : Disk := { exDisk0 with labelFiles := true }

/-- on a freshly formatted volume labelled `V` the reading lists nothing, yet `delete("V")` reports success (it
removes the label entry): a step the specification forbids (`delete-target-existed`).  The repaired variant refuses. -/
example : (volOf exDiskL).files = [] ∧ okB (runFlush (delete [86]) exDiskL).1 = true ∧
    stepOk fatParams (volOf exDiskL) (.delete [86]) true (volOf (runFlush (delete [86]) exDiskL).2) = false ∧
    okB (runFlush (delete [86]) exDisk0).1 = false := by
  decide +kernel

end A2Verif.FsFat
