import A2Verif.Lemmas.FsFatAttr
import A2Verif.Lemmas.FsFatDel
import A2Verif.Lemmas.FsFatExample
import A2Verif.Lemmas.FsFatFormat
import A2Verif.Lemmas.FsFatPutStep
import A2Verif.Lemmas.FsFatRetype
import A2Verif.Lemmas.FsFatSubDir
import A2Verif.Lemmas.FsFatMkdirStep
import A2Verif.Lemmas.FsFatSubPutStep
import A2Verif.Props.C01
import A2Verif.Props.C04
import A2Verif.Props.C19
import A2Verif.Props.C02
import A2Verif.Props.C03
import A2Verif.Props.C05
/-!
# The concrete FAT model and the abstract volume specification: what is proved

`Model/Fs/Fat.lean` transcribes a2kit's FAT code (byte-exact; tied to the real code unit for unit by the harness,
`Drv/FsFat.lean`, `harness/src/fam/fs_fat.rs`).  This file collects the theorems about it.

**Proved for all inputs**
* the FAT12 entry algebra: an entry reads back, writing one entry changes no other (`getCluster_setCluster_same/_other`);
* allocation: `num_free_blocks` counts, `get_available_block` is a sound and complete first fit (`avail_sound`,
  `avail_complete`, `avail_none_iff`); the cluster loop of `write_file` never panics, takes free clusters only,
  touches no other unit and no other FAT entry, lowers the free count by exactly the chunk count (`writeLoop_ok`), builds
  a link chain ending in an end mark and stores chunk `j` in its `j`-th cluster (`writeLoop_chain`);
  the de-allocation walk of `delete` only zeroes entries (`deallocateChain_only_frees`);
* C04 acceptance for the root directory (`fat_fits_is_accepted`);
* `format` establishes the invariant for every FAT12 BPB with 512-byte sectors (`format_establishes_inv`);
* under the invariant `Inv` the total reader reads the image as the well-formed, leak-free `volOf d`
  (`inv_reads_well_formed`), and **every root-level file operation, observed as the harness observes it (run, then
  `get_img()`), accepted or refused, preserves `Inv` and is a step the abstract specification allows**: `put_step`,
  `delete_step`, `rename_step`, `lock_step`, `unlock_step`, `retype_step` (`fop_step`); hence every history of them is a valid
  trace (`history_refines`; directories may exist in the volume, they are just not the targets of delete / rename /
  lock / unlock), and the history-level theorems of C01–C05 and C19 hold for the concrete model (`fat_*`).
* the name correspondence in both directions: found by `get_file` ⇒ listed under `absPath p` (`entName_of_key`), not found ⇒
  not listed (`not_listed`), a freshly packed name is well named (`fresh_name`).

**`put_step` has no hypothesis on the file image** since fix 7da7b06 (found by this proof: before it the theorem needed
every chunk `0 ..< end` present, no chunk longer than `chunk_len`, length ≤ `end · chunk_len`, and at each excluded point the
real code misbehaved: clusters leaked by a refused put; silent truncation; an entry whose size exceeds its chain).

**Directories** (first level): `mkdir_step` (`create` of a root-level directory; the new directory is well formed,
`SubDirOk`), `delete_sub_step` (`delete("D/X")`), `put_sub_step` (`put` of any file image under `D/X`, **including the growth
of `D` into a further cluster**, applied repeatedly: second, third, … cluster), each preserving `Inv` and `SubDirOk` and being
a step the specification allows; `subdir_writeback_exact`: `writeback_directory_entry` writes the 32 bytes of entry `idx`
into cluster `idx / entries-per-cluster` of the chain at its own offset and nothing else, for every index.

**Partial** (statement in the docstring of `step_refines_partial`): histories that mix root-level and first-level operations
(the step theorems compose — `exPuts_ok` is such a composition — but `history_refines` is stated for the root-level
operations), `rename` / `lock` / `unlock` / `retype` below the root, deeper levels, and `delete` / `rename` / `lock` / `unlock`
of a directory are not proved; their byte-exact agreement with the real code is checked on every sampled step by the tie,
and the real steps are checked against the same specification by the group's reader tie.
-/
namespace A2Verif.FsFat
open A2Verif A2Verif.Fs.Fat A2Verif.Read.FatT
open A2Verif.FsDos (replaced removed inserted stepOk_lock_replaced stepOk_unlock_replaced stepOk_refused_same stepOk_delete_removed
  stepOk_put_inserted stepOk_rename_replaced stepOk_retype_replaced)

theorem testBit0 (x : Nat) : x % 2 = (if x.testBit 0 then 1 else 0) := by
  have := bit_of_testBit x 0
  simpa using this

theorem lockAttr_odd (a : Nat) : newAttrO a (some READ_ONLY) none % 2 = 1 := by
  rw [testBit0]
  unfold newAttrO READ_ONLY
  simp [Nat.testBit_or]

theorem unlockAttr_even (a : Nat) : newAttrO a none (some READ_ONLY) % 2 = 0 := by
  rw [testBit0]
  unfold newAttrO READ_ONLY
  simp [Nat.testBit_or, Nat.testBit_and]

def okB {α : Type} : R α → Bool
  | .ok _ => true
  | .error _ => false

/-- **`lock` refines**: for a state satisfying the invariant and a canonical root-level name that does not denote a
directory, `lock` followed by the flush preserves the invariant and is a step the abstract specification allows -/
theorem lock_step {d d' : Disk} {p : Bytes} {res : R Unit} (inv : Inv d) (a : RootArg p)
    (hfile : ∀ rec, (volOf d).lookup (absPath p) = some rec → rec.isDir = false)
    (h : runFlush (lock p) d = (res, d')) :
    Inv d' ∧ stepOk fatParams (volOf d) (.lock (absPath p)) (okB res) (volOf d') = true := by
  have hwf := (inv_reads_well_formed inv).2.1
  rw [lock_eq] at h
  rcases attr_step inv a (some READ_ONLY) none (by intro m hm; injection hm with hm; subst hm; decide) (by intro m hm; cases hm) hfile h with
    ⟨er, h1, h2⟩ | ⟨h1, inv', F1, F2, rec, hv, hp, _, hvol⟩
  · subst h1 h2
    exact ⟨inv, stepOk_refused_same hwf _⟩
  · subst h1
    refine ⟨inv', ?_⟩
    rw [hvol, ← hp]
    exact stepOk_lock_replaced hv hwf rfl (by simp [recAttr, lockAttr_odd]) rfl rfl rfl rfl rfl rfl

/-- **`unlock` refines** -/
theorem unlock_step {d d' : Disk} {p : Bytes} {res : R Unit} (inv : Inv d) (a : RootArg p)
    (hfile : ∀ rec, (volOf d).lookup (absPath p) = some rec → rec.isDir = false)
    (h : runFlush (unlock p) d = (res, d')) :
    Inv d' ∧ stepOk fatParams (volOf d) (.unlock (absPath p)) (okB res) (volOf d') = true := by
  have hwf := (inv_reads_well_formed inv).2.1
  rw [unlock_eq] at h
  rcases attr_step inv a none (some READ_ONLY) (by intro m hm; cases hm) (by intro m hm; injection hm with hm; subst hm; decide) hfile h with
    ⟨er, h1, h2⟩ | ⟨h1, inv', F1, F2, rec, hv, hp, _, hvol⟩
  · subst h1 h2
    exact ⟨inv, stepOk_refused_same hwf _⟩
  · subst h1
    refine ⟨inv', ?_⟩
    rw [hvol, ← hp]
    exact stepOk_unlock_replaced hv hwf rfl (by simp [recAttr, unlockAttr_even]) rfl rfl rfl rfl rfl rfl

/-- **`delete` refines**: for a state satisfying the invariant and a canonical root-level name that does not denote a
directory, `delete` followed by the flush preserves the invariant and is a step the abstract specification allows: refused
(missing, read-only) without any change, or the record disappears, its clusters become free, every other record —
in the root and below — is read exactly as before -/
theorem delete_step {d d' : Disk} {p : Bytes} {res : R Unit} (inv : Inv d) (a : RootArg p)
    (hfile : ∀ rec, (volOf d).lookup (absPath p) = some rec → rec.isDir = false)
    (h : runFlush (delete p) d = (res, d')) :
    Inv d' ∧ stepOk fatParams (volOf d) (.delete (absPath p)) (okB res) (volOf d') = true := by
  have hwf := (inv_reads_well_formed inv).2.1
  rcases delete_step_core inv a hfile h with ⟨er, h1, h2⟩ | ⟨h1, inv', F1, F2, rec, free', hv, hp, hl, hnd, hfree, hvol⟩
  · subst h1 h2
    exact ⟨inv, stepOk_refused_same hwf _⟩
  · subst h1
    refine ⟨inv', ?_⟩
    rw [hvol, ← hp]
    exact stepOk_delete_removed hv hwf hnd hfree hl

theorem delete_keeps_flat {d d' : Disk} {p : Bytes} {res : R Unit} (inv : Inv d) (a : RootArg p)
    (hflat : ∀ rec ∈ (volOf d).files, rec.isDir = false) (h : runFlush (delete p) d = (res, d')) :
    ∀ rec ∈ (volOf d').files, rec.isDir = false := by
  have hfile : ∀ rec, (volOf d).lookup (absPath p) = some rec → rec.isDir = false := fun rec hl => hflat rec (lookup_some hl).1
  rcases delete_step_core inv a hfile h with ⟨er, _, h2⟩ | ⟨_, _, F1, F2, rec, free', hv, _, _, _, _, hvol⟩
  · subst h2; exact hflat
  · intro r hr
    rw [hvol] at hr
    have : r ∈ F1 ++ F2 := hr
    rcases List.mem_append.1 this with h | h
    · exact hflat r (by rw [hv]; simp [h])
    · exact hflat r (by rw [hv]; simp [h])

/-- attribute operations keep the volume free of directories when it was -/
theorem attr_keeps_flat {d d' : Disk} {p : Bytes} {set clear : Option Nat} {res : R Unit} (inv : Inv d) (a : RootArg p)
    (hs : ∀ m, set = some m → m.testBit 3 = false ∧ m.testBit 4 = false)
    (hc : ∀ m, clear = some m → (255 - m).testBit 3 = true ∧ (255 - m).testBit 4 = true)
    (hflat : ∀ rec ∈ (volOf d).files, rec.isDir = false)
    (h : runFlush (attrOp p set clear) d = (res, d')) : ∀ rec ∈ (volOf d').files, rec.isDir = false := by
  have hfile : ∀ rec, (volOf d).lookup (absPath p) = some rec → rec.isDir = false := fun rec hl => hflat rec (lookup_some hl).1
  rcases attr_step inv a set clear hs hc hfile h with ⟨er, _, h2⟩ | ⟨_, _, F1, F2, rec, hv, _, hd, hvol⟩
  · subst h2; exact hflat
  · intro r hr
    rw [hvol] at hr
    have : r ∈ F1 ++ recAttr rec (newAttrO rec.access set clear) :: F2 := hr
    simp only [List.mem_append, List.mem_cons] at this
    rcases this with h | h | h
    · exact hflat r (by rw [hv]; simp [h])
    · subst h; exact hd
    · exact hflat r (by rw [hv]; simp [h])

/-- **`put` refines** (C01 content, C02 frame, C03, C04 free units only, C05 listing): for a state satisfying the
invariant, a root-level path in any spelling of case and a two-byte clock, `put` of **any** file image followed by the
flush preserves the invariant and is a step the abstract specification allows — whether it is accepted or refused, for
**every** refusal (wrong file system, chunk length, label/directory attribute, a hole / an oversized chunk / a length beyond
the chunks, invalid name, unreadable directory, duplicate name, root directory full, metadata vectors too short, not enough
free clusters): refused without any change; accepted: exactly one new record under `absPath p`, a file owning previously
free clusters, whose chunks begin with the stored chunks and whose length is the file image's; every other record, in the
root and below, is read exactly as before.  (Before fix 7da7b06 the theorem needed three hypotheses on the file image, and
a2kit misbehaved at each excluded point: `design/FsFat.md`.) -/
theorem put_step {d d' : Disk} {fi : FImg} {now : Stamp} {res : R Nat} (inv : Inv d) (a : RootArg fi.fullPath)
    (hs : StampOk now) (h : runFlush (put fi now) d = (res, d')) :
    Inv d' ∧ stepOk fatParams (volOf d) (.put (absPath fi.fullPath) (chunksOf fi) (le32 fi.eof 0) 0 0) (okB res) (volOf d') = true := by
  have hwf := (inv_reads_well_formed inv).2.1
  rcases put_step_core inv a hs h with ⟨er, h1, h2⟩ |
    ⟨⟨n, h1⟩, inv', F1, F2, rec, free', hv, hp, hd, hgn, hgf, hnd, hfree, hpn, hc, hcm, he, hvol⟩
  · subst h1 h2
    exact ⟨inv, stepOk_refused_same hwf _⟩
  · subst h1
    refine ⟨inv', ?_⟩
    rw [hvol, ← hp]
    exact stepOk_put_inserted hv hwf hgn hgf hnd hfree hpn hc hd hcm he (fun h => by cases h) (fun h => by cases h)

/-- the statement that was proved for `put` with the proposed repair before the repair was in the tree (kept under its name:
it is registered for C04): the repaired `put` — now the code — refines for every file image -/
theorem putRepaired_step {d d' : Disk} {fi : FImg} {now : Stamp} {res : R Nat} (inv : Inv d) (a : RootArg fi.fullPath)
    (hs : StampOk now) (h : runFlush (put fi now) d = (res, d')) :
    Inv d' ∧ stepOk fatParams (volOf d) (.put (absPath fi.fullPath) (chunksOf fi) (le32 fi.eof 0) 0 0) (okB res) (volOf d') = true :=
  put_step inv a hs h

/-- **`rename` refines** (C02, C05, C19): for a state satisfying the invariant and a root-level name (any case) that does not
denote a directory, `rename(p, q)` followed by the flush preserves the invariant and is a step the specification allows:
refused without any change (invalid new name, source missing, new name in use — also in another spelling of case or
padding —, source read-only), or exactly one record changes its path to `absPath q`, keeping content, length, clusters and
protection; every other record is read as before -/
theorem rename_step {d d' : Disk} {p q : Bytes} {res : R Unit} (inv : Inv d) (a : RootArg p)
    (hfile : ∀ rec, (volOf d).lookup (absPath p) = some rec → rec.isDir = false)
    (h : runFlush (rename p q) d = (res, d')) :
    Inv d' ∧ stepOk fatParams (volOf d) (.rename (absPath p) (absPath q)) (okB res) (volOf d') = true := by
  have hwf := (inv_reads_well_formed inv).2.1
  rcases rename_step_core inv a hfile h with ⟨er, h1, h2⟩ | ⟨h1, inv', F1, F2, rec, hv, hp, hd, hl, hev, hpn, hvol⟩
  · subst h1 h2
    exact ⟨inv, stepOk_refused_same hwf _⟩
  · subst h1
    refine ⟨inv', ?_⟩
    rw [hvol, ← hp]
    have hl' : (recRen rec (absPath q) (rec.access ||| 32)).locked = rec.locked := by
      rw [hl]
      show decide ((rec.access ||| 32) % 2 = 1) = false
      have := or32_bit rec.access 0 (by omega)
      simp only [Nat.pow_zero, Nat.div_one] at this
      rw [this]
      exact decide_eq_false (by omega)
    exact stepOk_rename_replaced (g := recRen rec (absPath q) (rec.access ||| 32)) hv hwf hpn hl hl' rfl rfl rfl rfl

/-- **`retype` refines** (C02): for a state satisfying the invariant and a root-level name, `retype(p, sys|reg|hid|vis|other)`
followed by the flush preserves the invariant and is a step the specification allows: refused without a change (missing, a
directory, an unknown type — which is every type string the harness uses), or the system/hidden bit of exactly one
record's attribute byte changes, content, length, clusters and path being kept -/
theorem retype_step {d d' : Disk} {p : Bytes} {t : NewType} {res : R Unit} (inv : Inv d) (a : RootArg p)
    (h : runFlush (retype p t) d = (res, d')) :
    Inv d' ∧ stepOk fatParams (volOf d) (.retype (absPath p)) (okB res) (volOf d') = true := by
  have hwf := (inv_reads_well_formed inv).2.1
  obtain ⟨f, c⟩ := inv.coh
  have g := inv.geo
  rcases retype_eq g a t with ⟨er, hrun⟩ | ⟨set, clear, E1, e, E2, nm, ty, hm, heq, hE, hE1, hin, hn, hk, hbit⟩
  · unfold runFlush at h
    rw [hrun] at h
    simp only [flush_noop g c] at h
    injection h with h1 h2
    subst h1 h2
    exact ⟨inv, stepOk_refused_same hwf _⟩
  · rw [inv.lf] at hin
    have hfile := hfile_of_entry inv hE hE1 hin hn hk hbit
    have h' : runFlush (attrOp p set clear) d = (res, d') := by
      unfold runFlush at h ⊢
      rw [← heq]; exact h
    have hmasks : (∀ m, set = some m → m.testBit 3 = false ∧ m.testBit 4 = false) ∧
        (∀ m, clear = some m → (255 - m).testBit 3 = true ∧ (255 - m).testBit 4 = true) := by
      cases t with
      | other => simp [retypeMasks] at hm
      | sys =>
        simp only [retypeMasks, Option.some.injEq, Prod.mk.injEq] at hm
        obtain ⟨rfl, rfl⟩ := hm
        exact ⟨fun m hm' => (by injection hm' with hm'; subst hm'; decide), fun m hm' => (by cases hm')⟩
      | reg =>
        simp only [retypeMasks, Option.some.injEq, Prod.mk.injEq] at hm
        obtain ⟨rfl, rfl⟩ := hm
        exact ⟨fun m hm' => (by cases hm'), fun m hm' => (by injection hm' with hm'; subst hm'; decide)⟩
      | hid =>
        simp only [retypeMasks, Option.some.injEq, Prod.mk.injEq] at hm
        obtain ⟨rfl, rfl⟩ := hm
        exact ⟨fun m hm' => (by injection hm' with hm'; subst hm'; decide), fun m hm' => (by cases hm')⟩
      | vis =>
        simp only [retypeMasks, Option.some.injEq, Prod.mk.injEq] at hm
        obtain ⟨rfl, rfl⟩ := hm
        exact ⟨fun m hm' => (by cases hm'), fun m hm' => (by injection hm' with hm'; subst hm'; decide)⟩
    rcases attr_step inv a set clear hmasks.1 hmasks.2 hfile h' with ⟨er, h1, h2⟩ | ⟨h1, inv', F1, F2, rec, hv, hp, _, hvol⟩
    · subst h1 h2
      exact ⟨inv, stepOk_refused_same hwf _⟩
    · subst h1
      refine ⟨inv', ?_⟩
      rw [hvol, ← hp]
      exact stepOk_retype_replaced (g := recAttr rec (newAttrO rec.access set clear)) hv hwf rfl rfl rfl rfl rfl

/-! ## `format` -/

/-- **`format` establishes the invariant** (C03, initial state of every history), for every BIOS parameter block that
describes a FAT12 volume of 512-byte sectors inside the image (`FmtPre`: the facts of `Geo` other than the boot sector being
on the image; the boot sector `boot` is the parameter of the model's `format`, its BPB is the disk's), a valid label or
none, and a two-byte time and date: `format` followed by `get_img()` succeeds, the state reached satisfies `Inv`, its
reading lists no file, and every usable cluster is free -/
theorem format_establishes_inv {d : Disk} {boot vol : Bytes} {now : Stamp} (p : FmtPre d boot)
    (hv : isLabelValid vol = true ∨ vol = []) (hs : StampOk now) :
    ∃ d', runFlush (format vol boot now) d = (.ok (), d') ∧ Inv d' ∧ (volOf d').files = [] ∧
      (volOf d').free = d.bpb.clusterCountUsable := by
  obtain ⟨d', f, hrun, hlf, hb, g, c, hfree, hE, ht⟩ := format_run p hv hs
  obtain ⟨i1, i2, i3⟩ := inv_of_empty hlf g c hfree hE ht
  exact ⟨d', hrun, i1, i2, by rw [i3, hb]⟩

/-- a boot sector carrying the 25 bytes of a BPB foundation at offset 11 (the other bytes do not matter to `FmtPre`) -/
def bootOf (bpb : Bytes) : Bytes := List.replicate 11 0 ++ bpb ++ List.replicate (512 - 36) 0

/-- `bpb.rs::SSDD_525_9` (5.25" 180K), `DSDD_525_9` (360K), `D35_720` (3.5" 720K): the kinds of the quick tier -/
def bpbSSDD9 : Bytes := [0, 2, 1, 1, 0, 2, 64, 0, 104, 1, 252, 1, 0, 9, 0, 1, 0, 0, 0, 0, 0, 0, 0, 0, 0]
def bpbDSDD9 : Bytes := [0, 2, 2, 1, 0, 2, 112, 0, 208, 2, 253, 2, 0, 9, 0, 2, 0, 0, 0, 0, 0, 0, 0, 0, 0]
def bpb720 : Bytes := [0, 2, 2, 1, 0, 2, 112, 0, 160, 5, 249, 3, 0, 9, 0, 2, 0, 0, 0, 0, 0, 0, 0, 0, 0]
def verif : Bytes := [86, 69, 82, 73, 70]

/-- non-vacuity: the three volume kinds of the quick tier, formatted with the label `VERIF` as the harness does, and the
24-sector example volume, meet the hypotheses of `format_establishes_inv` -/
example : FmtPre (blankDisk (bootOf bpbSSDD9) 360) (bootOf bpbSSDD9) ∧ FmtPre (blankDisk (bootOf bpbDSDD9) 720) (bootOf bpbDSDD9) ∧
    FmtPre (blankDisk (bootOf bpb720) 1440) (bootOf bpb720) ∧ FmtPre (blankDisk exBoot 24) exBoot ∧
    isLabelValid verif = true ∧ StampOk exStamp :=
  ⟨fmtPre_blank (by decide +kernel) (by decide +kernel), fmtPre_blank (by decide +kernel) (by decide +kernel),
    fmtPre_blank (by decide +kernel) (by decide +kernel), fmtPre_blank (by decide +kernel) (by decide +kernel), by decide +kernel, ⟨rfl, rfl⟩⟩

/-- the clusters `format` leaves free on these kinds: 339 of the 353 the data area of the 180K kind holds (its one-sector
FAT describes no more), 354, 713 -/
example : (Bpb.ofBoot (bootOf bpbSSDD9)).clusterCountUsable = 339 ∧ (Bpb.ofBoot (bootOf bpbDSDD9)).clusterCountUsable = 354 ∧
    (Bpb.ofBoot (bootOf bpb720)).clusterCountUsable = 713 := by decide +kernel

/-! ## histories of attribute operations -/

inductive Op where
  | lock (p : Bytes)
  | unlock (p : Bytes)
  | delete (p : Bytes)

def Op.path : Op → Bytes
  | .lock p => p
  | .unlock p => p
  | .delete p => p

/-- run one operation as the harness observes it -/
def Op.run (d : Disk) : Op → Bool × Disk
  | .lock p => (okB (runFlush (Fs.Fat.lock p) d).1, (runFlush (Fs.Fat.lock p) d).2)
  | .unlock p => (okB (runFlush (Fs.Fat.unlock p) d).1, (runFlush (Fs.Fat.unlock p) d).2)
  | .delete p => (okB (runFlush (Fs.Fat.delete p) d).1, (runFlush (Fs.Fat.delete p) d).2)

def Op.abs : Op → FsOp
  | .lock p => .lock (absPath p)
  | .unlock p => .unlock (absPath p)
  | .delete p => .delete (absPath p)

/-- the volume holds no directory (so that every name denotes a file) -/
def Flat (d : Disk) : Prop := ∀ rec ∈ (volOf d).files, rec.isDir = false

theorem op_step {d : Disk} (inv : Inv d) (fl : Flat d) (op : Op) (a : RootArg op.path) :
    Inv (op.run d).2 ∧ Flat (op.run d).2 ∧ stepOk fatParams (volOf d) op.abs (op.run d).1 (volOf (op.run d).2) = true := by
  have hfile : ∀ rec, (volOf d).lookup (absPath op.path) = some rec → rec.isDir = false := fun rec hl => fl rec (lookup_some hl).1
  cases op with
  | lock p =>
    have h : runFlush (Fs.Fat.lock p) d = ((runFlush (Fs.Fat.lock p) d).1, (runFlush (Fs.Fat.lock p) d).2) := rfl
    obtain ⟨i', s'⟩ := lock_step inv a hfile h
    have h' := h
    rw [lock_eq] at h'
    exact ⟨i', attr_keeps_flat inv a (by intro m hm; injection hm with hm; subst hm; decide) (by intro m hm; cases hm) fl h', s'⟩
  | unlock p =>
    have h : runFlush (Fs.Fat.unlock p) d = ((runFlush (Fs.Fat.unlock p) d).1, (runFlush (Fs.Fat.unlock p) d).2) := rfl
    obtain ⟨i', s'⟩ := unlock_step inv a hfile h
    have h' := h
    rw [unlock_eq] at h'
    exact ⟨i', attr_keeps_flat inv a (by intro m hm; cases hm) (by intro m hm; injection hm with hm; subst hm; decide) fl h', s'⟩
  | delete p =>
    have h : runFlush (Fs.Fat.delete p) d = ((runFlush (Fs.Fat.delete p) d).1, (runFlush (Fs.Fat.delete p) d).2) := rfl
    obtain ⟨i', s'⟩ := delete_step inv a hfile h
    exact ⟨i', delete_keeps_flat inv a fl h, s'⟩

def trace : Disk → List Op → List Step
  | _, [] => []
  | d, op :: ops => ⟨op.abs, (op.run d).1, volOf (op.run d).2⟩ :: trace (op.run d).2 ops

def finalDisk : Disk → List Op → Disk
  | d, [] => d
  | d, op :: ops => finalDisk (op.run d).2 ops

/-- **Refinement, histories of attribute operations**: every history of `lock`/`unlock` of canonical root-level names,
started from a state satisfying the invariant on a volume without directories, is a valid trace of the abstract
specification; the invariant holds at the end and the final reading is the reading of the final image -/
theorem attr_history_refines : ∀ (ops : List Op) {d : Disk}, Inv d → Flat d → (∀ op ∈ ops, RootArg op.path) →
    validFrom fatParams (volOf d) (trace d ops) ∧ Inv (finalDisk d ops) ∧
    finalVol (volOf d) (trace d ops) = volOf (finalDisk d ops) := by
  intro ops
  induction ops with
  | nil => intro d h _ _; exact ⟨trivial, h, rfl⟩
  | cons op ops ih =>
    intro d h fl ha
    obtain ⟨h1, f1, h2⟩ := op_step h fl op (ha op (by simp))
    obtain ⟨x, y, z⟩ := ih h1 f1 (fun o ho => ha o (by simp [ho]))
    refine ⟨⟨h2, x⟩, y, ?_⟩
    show finalVol (volOf d) (⟨op.abs, (op.run d).1, volOf (op.run d).2⟩ :: trace (op.run d).2 ops) = _
    rw [finalVol_cons]
    exact z

/-- C03 for such histories: the image after every step is read as a well-formed volume -/
theorem fat_attr_states_well_formed {d : Disk} (h : Inv d) (fl : Flat d) {ops : List Op} (ha : ∀ op ∈ ops, RootArg op.path) :
    (∀ s ∈ trace d ops, s.post.wfB = true) ∧ readT (finalDisk d ops).raw = .ok (volOf (finalDisk d ops)) ∧
      (volOf (finalDisk d ops)).wfB = true := by
  obtain ⟨hv, hfin, _⟩ := attr_history_refines ops h fl ha
  exact ⟨C03.every_state_well_formed hv, (inv_reads_well_formed hfin).1, (inv_reads_well_formed hfin).2.1⟩

/-- C05 for such histories: the listing after the history is the fold of the history over the initial listing -/
theorem fat_attr_listing_is_history_fold {d : Disk} (h : Inv d) (fl : Flat d) {ops : List Op} (ha : ∀ op ∈ ops, RootArg op.path) (q : Bytes) :
    (q ∈ (volOf (finalDisk d ops)).paths ↔ q ∈ foldPaths (volOf d).paths (trace d ops)) ∧ (volOf (finalDisk d ops)).paths.Nodup := by
  obtain ⟨hv, hfin, heq⟩ := attr_history_refines ops h fl ha
  have := C05.listing_is_history_fold' hv q
  rw [heq] at this
  exact ⟨this, wfB_paths_nodup (inv_reads_well_formed hfin).2.1⟩

/-- **Refinement, one step — the three-operation form kept for the record** (`lock`, `unlock`, `delete` of root-level files
on a volume whose reading lists no directory); the general root-level statement is `fop_step` / `history_refines`.

The full statement, which is *not* proved, reads: for every operation `op` of the concrete model (`put`, `delete`,
`rename`, `lock`, `unlock`, `retype`, `mkdir`, any path) and every state `d` with `Inv d`,
`runFlush op d = (res, d') → Inv d' ∧ stepOk fatParams (volOf d) (abs op) (okB res) (volOf d')`.  Proved: all six file
operations on root-level paths (`fop_step`), `format` (`format_establishes_inv`), `mkdir` of a root-level directory
(`mkdir_step`), and `delete` and `put` in a first-level directory — `goto_path` through it, `writeback_directory_entry` along
its cluster chain, `expand_directory` — (`delete_sub_step`, `put_sub_step`).  Missing: `rename` / `lock` / `unlock` / `retype`
below the root; `mkdir` below the root and every deeper level; `delete` / `rename` / `lock` / `unlock` whose target is a
directory (the reader reports no protection flag for a directory, and the specification's `rename` is for files).  For these
the correspondence rests on the sampled ties alone. -/
theorem step_refines_partial {d : Disk} (inv : Inv d) (fl : Flat d) (op : Op) (a : RootArg op.path) :
    Inv (op.run d).2 ∧ stepOk fatParams (volOf d) op.abs (op.run d).1 (volOf (op.run d).2) = true :=
  ⟨(op_step inv fl op a).1, (op_step inv fl op a).2.2⟩

/-! ## histories of all root-level file operations: put, delete, rename, lock, unlock, retype -/

inductive FOp where
  | put (fi : FImg) (now : Stamp)
  | delete (p : Bytes)
  | rename (p q : Bytes)
  | lock (p : Bytes)
  | unlock (p : Bytes)
  | retype (p : Bytes) (t : NewType)

/-- run one operation as the harness observes it (run, then `get_img()`) -/
def FOp.run (d : Disk) : FOp → Bool × Disk
  | .put fi now => (okB (runFlush (Fs.Fat.put fi now) d).1, (runFlush (Fs.Fat.put fi now) d).2)
  | .delete p => (okB (runFlush (Fs.Fat.delete p) d).1, (runFlush (Fs.Fat.delete p) d).2)
  | .rename p q => (okB (runFlush (Fs.Fat.rename p q) d).1, (runFlush (Fs.Fat.rename p q) d).2)
  | .lock p => (okB (runFlush (Fs.Fat.lock p) d).1, (runFlush (Fs.Fat.lock p) d).2)
  | .unlock p => (okB (runFlush (Fs.Fat.unlock p) d).1, (runFlush (Fs.Fat.unlock p) d).2)
  | .retype p t => (okB (runFlush (Fs.Fat.retype p t) d).1, (runFlush (Fs.Fat.retype p t) d).2)

/-- the operation as the abstract specification sees it -/
def FOp.abs : FOp → FsOp
  | .put fi _ => .put (absPath fi.fullPath) (chunksOf fi) (le32 fi.eof 0) 0 0
  | .delete p => .delete (absPath p)
  | .rename p q => .rename (absPath p) (absPath q)
  | .lock p => .lock (absPath p)
  | .unlock p => .unlock (absPath p)
  | .retype p _ => .retype (absPath p)

/-- the conditions on the arguments that do not depend on the state: a root-level path; for `put` a two-byte clock -/
def FOp.StaticOk : FOp → Prop
  | .put fi now => RootArg fi.fullPath ∧ StampOk now
  | .delete p => RootArg p
  | .rename p _ => RootArg p
  | .lock p => RootArg p
  | .unlock p => RootArg p
  | .retype p _ => RootArg p

/-- the path whose record must not be a directory (`delete`, `rename`, `lock`, `unlock` of a directory are outside the
root-level file operations: they belong to the operations on directories) -/
def FOp.fileTarget : FOp → Option Bytes
  | .put _ _ => none
  | .delete p => some (absPath p)
  | .rename p _ => some (absPath p)
  | .lock p => some (absPath p)
  | .unlock p => some (absPath p)
  | .retype _ _ => none

def FOp.ArgOk (d : Disk) (op : FOp) : Prop :=
  op.StaticOk ∧ ∀ p, op.fileTarget = some p → ∀ rec, (volOf d).lookup p = some rec → rec.isDir = false

/-- every operation of the history has admissible arguments in the state it is applied to: directories may be listed
anywhere in the volume, they are just not the targets -/
def Admissible : Disk → List FOp → Prop
  | _, [] => True
  | d, op :: ops => op.ArgOk d ∧ Admissible (op.run d).2 ops

/-- **Refinement, one step, all root-level file operations** -/
theorem fop_step {d : Disk} (inv : Inv d) (op : FOp) (ha : op.ArgOk d) :
    Inv (op.run d).2 ∧ stepOk fatParams (volOf d) op.abs (op.run d).1 (volOf (op.run d).2) = true := by
  obtain ⟨hs, hf⟩ := ha
  cases op with
  | put fi now => exact put_step inv hs.1 hs.2 (prod_eta _)
  | delete p => exact delete_step inv hs (hf _ rfl) (prod_eta _)
  | rename p q => exact rename_step inv hs (hf _ rfl) (prod_eta _)
  | lock p => exact lock_step inv hs (hf _ rfl) (prod_eta _)
  | unlock p => exact unlock_step inv hs (hf _ rfl) (prod_eta _)
  | retype p t => exact retype_step inv hs (prod_eta _)

def ftrace : Disk → List FOp → List Step
  | _, [] => []
  | d, op :: ops => ⟨op.abs, (op.run d).1, volOf (op.run d).2⟩ :: ftrace (op.run d).2 ops

def ffinal : Disk → List FOp → Disk
  | d, [] => d
  | d, op :: ops => ffinal (op.run d).2 ops

/-- **Refinement, histories** (C01–C05, C19): every history of `put`, `delete`, `rename`, `lock`, `unlock`, `retype` of
root-level files — accepted or refused, in any interleaving, directories being allowed to exist in the volume — started
from a state that satisfies the invariant is a valid trace of the abstract specification; the invariant holds at the
end and the final reading is the reading of the final image -/
theorem history_refines : ∀ (ops : List FOp) {d : Disk}, Inv d → Admissible d ops →
    validFrom fatParams (volOf d) (ftrace d ops) ∧ Inv (ffinal d ops) ∧
    finalVol (volOf d) (ftrace d ops) = volOf (ffinal d ops) := by
  intro ops
  induction ops with
  | nil => intro d h _; exact ⟨trivial, h, rfl⟩
  | cons op ops ih =>
    intro d h ha
    obtain ⟨h1, h2⟩ := fop_step h op ha.1
    obtain ⟨x, y, z⟩ := ih h1 ha.2
    refine ⟨⟨h2, x⟩, y, ?_⟩
    show finalVol (volOf d) (⟨op.abs, (op.run d).1, volOf (op.run d).2⟩ :: ftrace (op.run d).2 ops) = _
    rw [finalVol_cons]
    exact z

/-- every state of such a history satisfies the invariant -/
theorem history_inv : ∀ (ops : List FOp) {d : Disk}, Inv d → Admissible d ops → ∀ k, Inv (ffinal d (ops.take k)) := by
  intro ops
  induction ops with
  | nil => intro d h _ k; simpa [ffinal] using h
  | cons op ops ih =>
    intro d h ha k
    cases k with
    | zero => simpa [ffinal] using h
    | succ k => exact ih (fop_step h op ha.1).1 ha.2 k

/-- a root-level file operation keeps a volume free of directories -/
theorem fop_keeps_flat {d : Disk} (inv : Inv d) (fl : Flat d) (op : FOp) (hs : op.StaticOk) : Flat (op.run d).2 := by
  have hfile : ∀ p rec, (volOf d).lookup p = some rec → rec.isDir = false := fun p rec hl => fl rec (lookup_some hl).1
  have keep2 : ∀ {F1 F2 : List FileRec} {rec : FileRec}, (volOf d).files = F1 ++ rec :: F2 → ∀ r ∈ F1 ++ F2, r.isDir = false := by
    intro F1 F2 rec hv r hr
    rcases List.mem_append.1 hr with h | h
    · exact fl r (by rw [hv]; simp [h])
    · exact fl r (by rw [hv]; simp [h])
  cases op with
  | put fi now =>
    rcases put_step_core inv hs.1 hs.2 (prod_eta _) with ⟨_, _, h2⟩ | ⟨_, _, F1, F2, rec, free', hv, _, hd, _, _, _, _, _, _, _, _, hvol⟩
    · show Flat (runFlush (Fs.Fat.put fi now) d).2
      rw [h2]; exact fl
    · intro r hr
      have hr' : r ∈ (volOf (runFlush (Fs.Fat.put fi now) d).2).files := hr
      rw [hvol] at hr'
      have : r ∈ F1 ++ rec :: F2 := hr'
      simp only [List.mem_append, List.mem_cons] at this
      rcases this with h | h | h
      · exact fl r (by rw [hv]; simp [h])
      · rw [h]; exact hd
      · exact fl r (by rw [hv]; simp [h])
  | delete p => exact delete_keeps_flat inv hs fl (prod_eta _)
  | rename p q =>
    rcases rename_step_core inv hs (hfile _) (prod_eta _) with ⟨_, _, h2⟩ | ⟨_, _, F1, F2, rec, hv, _, hd, _, _, _, hvol⟩
    · show Flat (runFlush (Fs.Fat.rename p q) d).2
      rw [h2]; exact fl
    · intro r hr
      have hr' : r ∈ (volOf (runFlush (Fs.Fat.rename p q) d).2).files := hr
      rw [hvol] at hr'
      have : r ∈ F1 ++ recRen rec (absPath q) (rec.access ||| 32) :: F2 := hr'
      simp only [List.mem_append, List.mem_cons] at this
      rcases this with h | h | h
      · exact fl r (by rw [hv]; simp [h])
      · rw [h]; exact hd
      · exact fl r (by rw [hv]; simp [h])
  | lock p =>
    exact attr_keeps_flat (set := some READ_ONLY) (clear := none) inv hs (by intro m hm; injection hm with hm; subst hm; decide)
      (by intro m hm; cases hm) fl (by rw [← lock_eq]; exact prod_eta _)
  | unlock p =>
    exact attr_keeps_flat (set := none) (clear := some READ_ONLY) inv hs (by intro m hm; cases hm)
      (by intro m hm; injection hm with hm; subst hm; decide) fl (by rw [← unlock_eq]; exact prod_eta _)
  | retype p t =>
    have hst := retype_step inv hs (t := t) (prod_eta _)
    have hold := (inv_reads_well_formed inv).2.1
    -- the listing of directories is a function of the records; `retype` keeps `isDir` of every record
    intro r hr
    by_cases hok : (FOp.run d (.retype p t)).1 = true
    · have hso : stepOk fatParams (volOf d) (.retype (absPath p)) true (volOf (FOp.run d (.retype p t)).2) = true := by
        have := hst.2
        have e : okB (runFlush (Fs.Fat.retype p t) d).1 = true := hok
        rw [e] at this
        exact this
      obtain ⟨⟨f0, g0, hf0, hg0, _, _, _, hd0⟩, hby⟩ := stepOk_retype hso
      by_cases hrp : r.path = absPath p
      · have nd := wfB_paths_nodup (stepOk_wf hso)
        have : (volOf (FOp.run d (.retype p t)).2).lookup r.path = some r := find_path_of_mem nd hr
        rw [hrp, hg0] at this
        injection this with this
        rw [← this, hd0]
        exact fl f0 (lookup_some hf0).1
      · have hmem : r ∈ without (volOf (FOp.run d (.retype p t)).2).files [absPath p] := by
          rw [without_mem]; exact ⟨hr, by simpa using hrp⟩
        obtain ⟨_, hb2⟩ := sameFiles_iff.1 hby
        have := hb2 r hmem
        obtain ⟨r0, hr0⟩ := Option.isSome_iff_exists.mp this
        have hr0' := find_path_some hr0
        obtain ⟨hb1, _⟩ := sameFiles_iff.1 hby
        obtain ⟨g1, hg1, hs1⟩ := hb1 r0 hr0'.1
        have hr0m : r0 ∈ (volOf d).files := (without_mem.1 hr0'.1).1
        have hr0d := fl r0 hr0m
        have hg1e := sameRec_file hr0d hs1
        have nd' := FsDos.without_nodup (wfB_paths_nodup (stepOk_wf hso)) [absPath p]
        have hrl : (without (volOf (FOp.run d (.retype p t)).2).files [absPath p]).find? (·.path == r0.path) = some r := by
          rw [hr0'.2]
          exact find_path_of_mem nd' hmem
        rw [hrl] at hg1
        injection hg1 with hg1
        rw [hg1, hg1e]
        exact hr0d
    · have hso : stepOk fatParams (volOf d) (.retype (absPath p)) false (volOf (FOp.run d (.retype p t)).2) = true := by
        have := hst.2
        have e : okB (runFlush (Fs.Fat.retype p t) d).1 = false := Bool.eq_false_iff.mpr hok
        rw [e] at this
        exact this
      have hsf := stepOk_refused hso
      obtain ⟨_, hb2⟩ := sameFiles_iff.1 hsf
      have := hb2 r hr
      obtain ⟨r0, hr0⟩ := Option.isSome_iff_exists.mp this
      have hr0' := find_path_some hr0
      obtain ⟨hb1, _⟩ := sameFiles_iff.1 hsf
      obtain ⟨g1, hg1, hs1⟩ := hb1 r0 hr0'.1
      have hr0d := fl r0 hr0'.1
      have hg1e := sameRec_file hr0d hs1
      have nd' := wfB_paths_nodup (stepOk_wf hso)
      have hrl : (volOf (FOp.run d (.retype p t)).2).files.find? (·.path == r0.path) = some r := by
        rw [hr0'.2]
        exact find_path_of_mem nd' hr
      rw [hrl] at hg1
      injection hg1 with hg1
      rw [hg1, hg1e]
      exact hr0d

/-- on a volume without directories the state-dependent side condition is void -/
theorem admissible_of_flat : ∀ (ops : List FOp) {d : Disk}, Inv d → Flat d → (∀ op ∈ ops, op.StaticOk) → Admissible d ops := by
  intro ops
  induction ops with
  | nil => intro _ _ _ _; trivial
  | cons op ops ih =>
    intro d inv fl hs
    have ha : op.ArgOk d := ⟨hs op (by simp), fun p _ rec hl => fl rec (lookup_some hl).1⟩
    exact ⟨ha, ih (fop_step inv op ha).1 (fop_keeps_flat inv fl op (hs op (by simp))) (fun o ho => hs o (by simp [ho]))⟩

/-! ### the history-level properties for the concrete FAT model -/

theorem mem_ftrace : ∀ (ops : List FOp) {d : Disk} {s : Step}, s ∈ ftrace d ops → ∃ op ∈ ops, s.op = op.abs := by
  intro ops
  induction ops with
  | nil => intro d s h; cases h
  | cons op ops ih =>
    intro d s h
    rcases List.mem_cons.1 h with h | h
    · exact ⟨op, by simp, by rw [h]⟩
    · obtain ⟨o, ho, he⟩ := ih h
      exact ⟨o, by simp [ho], he⟩

/-- C03: the image after every step of such a history is read as a well-formed volume, and the final image is read as
the final abstract volume -/
theorem fat_states_well_formed {d : Disk} (h : Inv d) {ops : List FOp} (ha : Admissible d ops) :
    (∀ s ∈ ftrace d ops, s.post.wfB = true) ∧ readT (ffinal d ops).raw = .ok (volOf (ffinal d ops)) ∧
      (volOf (ffinal d ops)).wfB = true ∧ (volOf (ffinal d ops)).noLeak = true := by
  obtain ⟨hv, hfin, _⟩ := history_refines ops h ha
  exact ⟨C03.every_state_well_formed hv, (inv_reads_well_formed hfin).1, (inv_reads_well_formed hfin).2.1, (inv_reads_well_formed hfin).2.2⟩

/-- C05: the listing after the history is the fold of the history over the initial listing; names are unique -/
theorem fat_listing_is_history_fold {d : Disk} (h : Inv d) {ops : List FOp} (ha : Admissible d ops) (q : Bytes) :
    (q ∈ (volOf (ffinal d ops)).paths ↔ q ∈ foldPaths (volOf d).paths (ftrace d ops)) ∧ (volOf (ffinal d ops)).paths.Nodup := by
  obtain ⟨hv, hfin, heq⟩ := history_refines ops h ha
  have := C05.listing_is_history_fold' hv q
  rw [heq] at this
  exact ⟨this, wfB_paths_nodup (inv_reads_well_formed hfin).2.1⟩

/-- C02: a file that no operation of the history names — accepted or refused — is read bit for bit identical (content,
length, attribute byte, clusters) from the final image -/
theorem fat_bystanders_survive {d : Disk} (h : Inv d) {ops : List FOp} (ha : Admissible d ops) {q : Bytes} {f : FileRec}
    (hq : ∀ op ∈ ops, q ∉ op.abs.targets) (hf : (volOf d).lookup q = some f) (hd : f.isDir = false) :
    (volOf (ffinal d ops)).lookup q = some f := by
  obtain ⟨hv, _, heq⟩ := history_refines ops h ha
  rw [← heq]
  refine C02.bystanders_survive_history hv ?_ hf hd
  intro s hs
  obtain ⟨op, hop, he⟩ := mem_ftrace ops hs
  rw [he]; exact hq op hop

/-- C01: what an accepted `put` stored is what the reader finds — right after it and after any further history that does
not name the path: chunk for chunk (each stored chunk is the beginning of the cluster read back), same length -/
theorem fat_get_returns_last_put {d : Disk} (h : Inv d) {fi : FImg} {now : Stamp} (hs : (FOp.put fi now).StaticOk)
    (hok : ((FOp.put fi now).run d).1 = true) {ops : List FOp} (ha : Admissible ((FOp.put fi now).run d).2 ops)
    (hq : ∀ op ∈ ops, absPath fi.fullPath ∉ op.abs.targets) :
    ∃ f, (volOf (ffinal ((FOp.put fi now).run d).2 ops)).lookup (absPath fi.fullPath) = some f ∧
      chunksMatch (chunksOf fi) f.chunks = true ∧ f.eof = le32 fi.eof 0 ∧ f.isDir = false := by
  have hargs : (FOp.put fi now).ArgOk d := ⟨hs, fun p hp => by cases hp⟩
  obtain ⟨inv1, hstep⟩ := fop_step h (.put fi now) hargs
  rw [hok] at hstep
  obtain ⟨hv, _, heq⟩ := history_refines ops inv1 ha
  have hq' : ∀ s ∈ ftrace ((FOp.put fi now).run d).2 ops, absPath fi.fullPath ∉ s.op.targets := by
    intro s hs'
    obtain ⟨op, hop, he⟩ := mem_ftrace ops hs'
    rw [he]; exact hq op hop
  obtain ⟨f, hf, _, hc, he, hd, _⟩ := C01.get_returns_last_put hstep hv hq'
  rw [heq] at hf
  exact ⟨f, hf, hc, he, hd⟩

/-- C04: in every state of such a history free + owned clusters = all usable clusters (FAT has no system units among the
clusters), and `stat().free_blocks` of the model is the number of free clusters of the reading -/
theorem fat_free_accounting {d : Disk} (h : Inv d) {ops : List FOp} (ha : Admissible d ops) :
    (volOf (ffinal d ops)).free + (volOf (ffinal d ops)).allOwned.length = (volOf (ffinal d ops)).hi - (volOf (ffinal d ops)).lo ∧
    statFree (ffinal d ops) = (.ok (volOf (ffinal d ops)).free, ffinal d ops) := by
  obtain ⟨_, hfin, _⟩ := history_refines ops h ha
  obtain ⟨hread, hwf, hnl⟩ := inv_reads_well_formed hfin
  obtain ⟨f, c⟩ := hfin.coh
  have hsys : (volOf (ffinal d ops)).sys = [] := by
    rw [readT_eq hfin.geo c, readFrom_iff] at hread
    obtain ⟨R, _, hv⟩ := hread
    rw [hv]; rfl
  have := C04.free_accounting hwf hnl (by rw [hsys]; simp)
  rw [hsys] at this
  exact ⟨by simpa using this, statFree_is_reading hfin⟩

/-- C19: a read-only file cannot be deleted, renamed or overwritten until it is unlocked: along any such history in which
nobody locks, unlocks or retypes `q`, the protected file `q` is found identical at the end, and every `delete`, `rename`
and `put` that named it was refused — as the code does (`delete` and `rename` test the read-only bit, `put` refuses the
duplicate name) -/
theorem fat_protected_file_survives {d : Disk} (h : Inv d) {ops : List FOp} (ha : Admissible d ops) {q : Bytes} {f : FileRec}
    (hf : (volOf d).lookup q = some f) (hl : f.locked = true) (hd : f.isDir = false)
    (hop : ∀ op ∈ ops, op.abs ≠ .lock q ∧ op.abs ≠ .unlock q ∧ op.abs ≠ .retype q) :
    (volOf (ffinal d ops)).lookup q = some f ∧
    ∀ s ∈ ftrace d ops, (s.op = .delete q ∨ (∃ r, s.op = .rename q r) ∨ (∃ cs e t a, s.op = .put q cs e t a)) → s.ok = false := by
  obtain ⟨hv, _, heq⟩ := history_refines ops h ha
  have hop' : ∀ s ∈ ftrace d ops, s.op ≠ .lock q ∧ s.op ≠ .unlock q ∧ s.op ≠ .retype q := by
    intro s hs
    obtain ⟨op, ho, he⟩ := mem_ftrace ops hs
    rw [he]; exact hop op ho
  refine ⟨?_, C19.attempts_on_protected_file_refused hv hf hl hd hop'⟩
  rw [← heq]
  exact C19.protected_file_survives hv hf hl hd hop'

/-! ## non-vacuity: states built by the model itself, and a history on them, checked in the kernel -/

theorem exDisk0_flat : Flat exDisk0 := by
  intro rec hr
  rw [exDisk0_empty] at hr
  cases hr

/-- the hypotheses of `put_step` (and of `fop_step` for a `put`) are satisfiable: the formatted example volume and the file
image that `exDisk` is built with -/
theorem exPut_static : (FOp.put exFile exStamp).StaticOk := ⟨exFile_arg, exStamp_ok⟩

example : Inv exDisk0 ∧ RootArg exFile.fullPath ∧ StampOk exStamp := ⟨exDisk0_inv, exPut_static⟩

theorem FOp.run_put (d : Disk) (fi : FImg) (now : Stamp) : ((FOp.put fi now).run d).2 = (runFlush (Fs.Fat.put fi now) d).2 := rfl

theorem exDisk_flat : Flat exDisk := by
  have h := fop_keeps_flat exDisk0_inv exDisk0_flat (.put exFile exStamp) exPut_static
  rw [FOp.run_put] at h
  unfold exDisk
  exact h

def exName : Bytes := [65, 46, 66]
def exMissing : Bytes := [90, 90]

theorem exName_arg : RootArg exName :=
  { ne := by decide, noSlash := by decide, noStar := by decide, noQ := by decide, len := by decide }
theorem exMissing_arg : RootArg exMissing :=
  { ne := by decide, noSlash := by decide, noStar := by decide, noQ := by decide, len := by decide }

def exOps : List Op := [.lock exName, .unlock exMissing, .delete exName, .unlock exName, .delete exName, .delete exName]

example : validFrom fatParams (volOf exDisk) (trace exDisk exOps) :=
  (attr_history_refines exOps exDisk_inv exDisk_flat (by
    intro op hop
    simp only [exOps, List.mem_cons, List.mem_nil_iff, or_false] at hop
    rcases hop with h | h | h | h | h | h <;> subst h
    · exact exName_arg
    · exact exMissing_arg
    · exact exName_arg
    · exact exName_arg
    · exact exName_arg
    · exact exName_arg)).1

/-- a history of all six operations on the formatted example volume, names in both cases: `put A.B`, `lock a.b`,
`put A.B` again, `delete A.B`, `rename A.B C.D`, `unlock A.B`, `rename a.b c.d`, `retype C.D sys`, `retype C.D <other>`,
`delete A.B`, `delete c.d` -/
def exLower : Bytes := [97, 46, 98]
def exNew : Bytes := [67, 46, 68]
def exNewLower : Bytes := [99, 46, 100]
def exOps2 : List FOp := [.put exFile exStamp, .lock exLower, .put exFile exStamp, .delete exName, .rename exName exNew,
  .unlock exName, .rename exLower exNewLower, .retype exNew .sys, .retype exNew .other, .delete exName, .delete exNewLower]

/-- the example history really stores, protects, refuses (duplicate, read-only ×2, unknown type, missing), renames,
retypes and deletes: the theorems are not about refusals only -/
example : (ftrace exDisk0 exOps2).map (·.ok) = [true, true, false, false, false, true, true, true, false, false, true] := by
  decide +kernel

/-- the reading after the eighth step (`retype C.D sys`): one file `C.D`, attribute byte archive + system, 18 of 20 clusters free -/
example : (ftrace exDisk0 exOps2)[7]?.map (fun s => (s.post.paths, s.post.files.map (·.access), s.post.free)) = some ([exNew], [36], 18) := by
  decide +kernel

theorem exOps2_static : ∀ op ∈ exOps2, op.StaticOk := by
  have hl : RootArg exLower := { ne := by decide, noSlash := by decide, noStar := by decide, noQ := by decide, len := by decide }
  have hn : RootArg exNew := { ne := by decide, noSlash := by decide, noStar := by decide, noQ := by decide, len := by decide }
  have hnl : RootArg exNewLower := { ne := by decide, noSlash := by decide, noStar := by decide, noQ := by decide, len := by decide }
  intro op hop
  simp only [exOps2, List.mem_cons, List.mem_nil_iff, or_false] at hop
  rcases hop with h | h | h | h | h | h | h | h | h | h | h <;> subst h
  · exact exPut_static
  · exact hl
  · exact exPut_static
  · exact exName_arg
  · exact exName_arg
  · exact exName_arg
  · exact hl
  · exact hn
  · exact hn
  · exact exName_arg
  · exact hnl

/-- that history is a valid trace of the abstract specification (`history_refines`, no evaluation) -/
example : validFrom fatParams (volOf exDisk0) (ftrace exDisk0 exOps2) ∧ Inv (ffinal exDisk0 exOps2) :=
  let h := history_refines exOps2 exDisk0_inv (admissible_of_flat exOps2 exDisk0_inv exDisk0_flat exOps2_static)
  ⟨h.1, h.2.1⟩

/-- the hypotheses of the acceptance theorem are satisfiable: the `put` that built `exDisk` is accepted -/
example : ∃ n d', put exFile exStamp exDisk0 = (.ok n, d') := by
  have h : okB (put exFile exStamp exDisk0).1 = true := by decide +kernel
  cases hp : put exFile exStamp exDisk0 with
  | mk res d' =>
    rw [hp] at h
    cases res with
    | error e => cases h
    | ok n => exact ⟨n, d', rfl⟩

/-! ## sub-directories: the write-back of one entry -/

/-- **`writeback_directory_entry` of a sub-directory entry** (C02; the obligation behind "FAT sub-directory write-back follows
the cluster chain"): for a state with `Geo` and an open FAT12 buffer, a directory whose clusters `cl` form a link chain from
`c1`, **every** entry index `idx` of its buffer (in the first, second, third … cluster) and a 32-byte entry `e'`: the
write-back succeeds, rewrites only the units of the one cluster `cl[idx / entries_per_cluster]`, touches no FAT entry, and
the directory read afterwards along the chain is the old one with exactly entry `idx` replaced by `e'` -/
theorem subdir_writeback_exact {d : Disk} {f : Array Nat} (g : Geo d) (w : WOk d f) {c1 : Nat} {cl : List Nat}
    (h : IsChain f (hiOf d.bpb) c1 cl) (hnd : cl.Nodup) {idx : Nat} (hidx : idx < (dirOfBytes (chainData d cl)).length)
    {e' : Bytes} (he : e'.length = 32) :
    ∃ d' c, writebackDirectoryEntry (some c1) idx (dirOfBytes (chainData d cl)) e' d = (.ok (), d') ∧ d'.fat = d.fat ∧ d'.bpb = d.bpb ∧
      cl[idx / epcOf d.bpb]? = some c ∧
      (∀ u, u ∉ List.range' (d.bpb.firstClusterSec c) d.bpb.spc → d'.raw.units[u]? = d.raw.units[u]?) ∧
      dirOfBytes (chainData d' cl) = (dirOfBytes (chainData d cl)).set idx e' := by
  obtain ⟨r', c, h1, _, _, h4, h5, h6, _⟩ := writebackSub_spec g w h hnd hidx he
  exact ⟨{ d with raw := r' }, c, h1, rfl, rfl, h4, h5, h6⟩

/-- non-vacuity, without evaluation: the cluster loop of a three-chunk `put` on the formatted example volume leaves a state
with `Geo`, an open FAT and a three-cluster link chain (`writeLoop_chain`); read as a directory it has 48 entries, and entry
40 lies in its third cluster -/
example : ∃ (d : Disk) (f : Array Nat) (c1 : Nat) (cl : List Nat), Geo d ∧ WOk d f ∧ IsChain f (hiOf d.bpb) c1 cl ∧ cl.Nodup ∧
    cl.length = 3 ∧ 40 < (dirOfBytes (chainData d cl)).length ∧ 40 / epcOf d.bpb = 2 := by
  have inv := exDisk0_inv
  obtain ⟨f, c⟩ := inv.coh
  have g := inv.geo
  have w := wok_of g c
  have hfree : 3 ≤ freeCount exDisk0.bpb f := by
    have h1 := (format_establishes_inv (vol := [86]) (now := exStamp) exBlank_pre (Or.inl (by decide)) exStamp_ok)
    obtain ⟨d', hrun, _, _, hfr⟩ := h1
    have hd : exDisk0 = d' := by unfold exDisk0; rw [hrun]
    have hs := statFree_is_reading inv
    unfold statFree at hs
    rw [M_bind_apply, getRootDir_eq g] at hs
    simp only [] at hs
    rw [numFreeBlocks_open w] at hs
    injection hs with hs _
    injection hs with hs
    rw [hs, hd, hfr]
    have : exBlank.bpb.clusterCountUsable = 20 := by decide +kernel
    rw [this]; omega
  let chunks : List (Nat × Bytes) := [(0, [1]), (1, [2]), (2, [3])]
  obtain ⟨entry', d1, f1, cl, hrun, o⟩ := writeLoop_chain chunks 3 0 exDisk0 f [] 0 w g.ulen (hiOf_le g)
    (by intro k _ hk; have : k = 0 ∨ k = 1 ∨ k = 2 := by omega
        rcases this with h | h | h <;> subst h <;> rfl) hfree (Or.inl (by omega))
  obtain ⟨g1, _, _⟩ := geo_of_wrOut g o
  obtain ⟨c0, rest, hcl⟩ : ∃ c0 rest, cl = c0 :: rest := by
    cases hc : cl with
    | nil => have := o.len; rw [hc] at this; simp at this
    | cons c0 rest => exact ⟨c0, rest, rfl⟩
  have hchain := (o.chain c0 rest hcl).1
  have hb : d1.bpb = exDisk0.bpb := o.bpb
  have hspc : exDisk0.bpb.spc = 1 := by rw [exDisk0_bpb]; decide +kernel
  have hcl1 : ∀ x ∈ cl, clusInRng d1.bpb x = true := by rw [hb]; exact fun x hx => (o.wasFree x hx).1
  have hlen := (chainDir_spec g1 hcl1).2.1
  refine ⟨d1, f1, c0, cl, g1, o.wok, by rw [hb]; exact hchain, o.nodup, o.len, ?_, ?_⟩
  · rw [hlen, o.len]; unfold epcOf; rw [hb, hspc]; omega
  · unfold epcOf; rw [hb, hspc]

/-! ## directories: `create` at root level, `delete` of a file in a first-level directory -/

/-- **`create` (mkdir) refines** (C02, C03, C04, C05): for a state satisfying the invariant, a root-level name (any case) that
is not blank (`absPath p ≠ []`: the reader lists the files of a directory without a name as if they were in the root) and
a two-byte clock, `create(p)` followed by the flush preserves the invariant and is a step the specification allows: refused
without any change (invalid name, unreadable root, name in use, root directory full, no free cluster), or exactly one new
record — a directory under `absPath p` owning one previously free cluster, nothing below it — and the new directory is a
well-formed first-level directory (`SubDirOk`: its entry is found under its key, its cluster is a one-element link chain,
its entries are `.`, `..` and end marks) -/
theorem mkdir_step {d d' : Disk} {p : Bytes} {now : Stamp} {res : R Unit} (inv : Inv d) (a : RootArg p) (hs : StampOk now)
    (hname : absPath p ≠ []) (h : runFlush (mkdir p now) d = (res, d')) :
    Inv d' ∧ stepOk fatParams (volOf d) (.mkdir (absPath p)) (okB res) (volOf d') = true ∧
      (okB res = true → ∃ f' E1 e' E2 nc, SubDirOk d' p f' E1 e' E2 [nc]) := by
  have hwf := (inv_reads_well_formed inv).2.1
  rcases mkdir_step_core inv a hs hname h with ⟨er, h1, h2⟩ |
    ⟨h1, inv', f', E1, e', E2, nc, F1, F2, free', sd, hv, hgf, hnd, hfree, hpn, hpath, hvol⟩
  · subst h1 h2
    exact ⟨inv, stepOk_refused_same hwf _, fun hc => by cases hc⟩
  · subst h1
    refine ⟨inv', ?_, fun _ => ⟨f', E1, e', E2, nc, sd⟩⟩
    rw [hvol, ← hpath]
    exact stepOk_mkdir_inserted (g := dirRecOf e' [nc]) hv hwf (by simp [dirRecOf])
      (by intro x hx; simp [dirRecOf] at hx; rw [hx]; exact hgf) hnd hfree (by show entPath [] e' ∉ _; rw [hpath]; exact hpn)
      (by simp [dirRecOf]) rfl

/-- **`delete` of a file in a first-level directory refines** (C02, C04, C05): for a state satisfying the invariant in which
`D` is a well-formed first-level directory (`SubDirOk`; `mkdir_step` establishes it, this theorem and the `put` below keep it),
names `D`, `X` in any case (`SubArg`), the record `D/X` not being a directory: `delete("D/X")` followed by the flush preserves
the invariant and `SubDirOk`, and is a step the specification allows: refused without any change (`X` missing, read-only, the
directory unreadable), or the entry is erased **in its own cluster of `D`** (`subdir_writeback_exact`), its clusters become
free, and every other record — in the root, in `D`, elsewhere — and the record of `D` itself are read exactly as before -/
theorem delete_sub_step {d d' : Disk} {D X : Bytes} {res : R Unit} (inv : Inv d) (a : SubArg D X) {f : Array Nat}
    {E1 E2 : List Bytes} {eD : Bytes} {cl : List Nat} (sd : SubDirOk d D f E1 eD E2 cl)
    (hfile : ∀ rec, (volOf d).lookup (absPath D ++ 47 :: absPath X) = some rec → rec.isDir = false)
    (h : runFlush (delete (subPath D X)) d = (res, d')) :
    Inv d' ∧ (∃ f', SubDirOk d' D f' E1 eD E2 cl) ∧
      stepOk fatParams (volOf d) (.delete (absPath D ++ 47 :: absPath X)) (okB res) (volOf d') = true := by
  have hwf := (inv_reads_well_formed inv).2.1
  rcases delete_sub_step_core inv a sd hfile h with ⟨er, h1, h2⟩ | ⟨h1, inv', sd', F1, F2, rec, free', hv, hp, hl, hnd, hfree, hvol⟩
  · subst h1 h2
    exact ⟨inv, ⟨f, sd⟩, stepOk_refused_same hwf _⟩
  · subst h1
    refine ⟨inv', sd', ?_⟩
    rw [hvol, ← hp]
    exact stepOk_delete_removed hv hwf hnd hfree hl

/-- **`put` of a file into a first-level directory refines, including the growth of the directory** (C01 content, C02 frame,
C03, C04, C05): for a state satisfying the invariant in which `D` is a well-formed first-level directory (`SubDirOk`), names
`D`, `X` in any case (`SubArg`), a two-byte clock and **any** file image with the path `D/X`: `put` followed by the flush
preserves the invariant, keeps `D` a well-formed directory — along its old chain, or along the chain extended by one cluster
when `D` had no free slot — and is a step the specification allows:
* refused without any change (every refusal of `put_step`; `X` in use in `D`; `D` full and no free cluster for it);
* refused after `D` grew (no cluster left for the data): the record of `D` owns one more, previously free, zeroed cluster and
  nothing else differs — the specification lets a refused step grow a directory;
* accepted: exactly one new record `D/X`, a file owning previously free clusters, whose chunks begin with the stored chunks and
  whose length is the file image's, its entry written **in the slot's own cluster of `D`** (`subdir_writeback_exact`: the
  first slot of the new cluster when `D` grew); every other record — in the root, in `D`, elsewhere — is read as before, the
  record of `D` with its possibly extended list of clusters.
Applied again to the state it yields, it covers the growth into the third and every further cluster. -/
theorem put_sub_step {d d' : Disk} {D X : Bytes} {fi : FImg} {now : Stamp} {res : R Nat} (inv : Inv d) (a : SubArg D X)
    {f : Array Nat} {E1 E2 : List Bytes} {eD : Bytes} {cl : List Nat} (sd : SubDirOk d D f E1 eD E2 cl)
    (hpath : fi.fullPath = subPath D X) (hs : StampOk now) (h : runFlush (put fi now) d = (res, d')) :
    Inv d' ∧ (∃ f' cl', SubDirOk d' D f' E1 eD E2 cl' ∧ (cl' = cl ∨ ∃ nc, cl' = cl ++ [nc])) ∧
      stepOk fatParams (volOf d) (.put (absPath D ++ 47 :: absPath X) (chunksOf fi) (le32 fi.eof 0) 0 0) (okB res) (volOf d') = true := by
  have hwf := (inv_reads_well_formed inv).2.1
  rcases put_sub_step_core inv a sd hpath hs h with ⟨er, h1, h2⟩ | ⟨vg, clg, f', via, inv', sd', hres⟩
  · subst h1 h2
    exact ⟨inv, ⟨f, cl, sd, Or.inl rfl⟩, stepOk_refused_same hwf _⟩
  rcases via with ⟨e1, e2⟩ | ⟨nc, F1, F2, free', hclg, hfv, hnc, hnd, hfr, evg⟩
  · subst e1 e2
    refine ⟨inv', ⟨f', _, sd', Or.inl rfl⟩, ?_⟩
    rcases hres with ⟨er, h1, hvol, hne⟩ | ⟨n, G1, G2, rec, free'', h1, hv, hp, hd, hgn, hgf, hnd, hfree, hpn, hc, hcm, he, hvol⟩
    · exact absurd rfl hne
    · subst h1
      rw [hvol, ← hp]
      exact stepOk_put_inserted hv hwf hgn hgf hnd hfree hpn hc hd hcm he (fun h => by cases h) (fun h => by cases h)
  · refine ⟨inv', ⟨f', _, sd', Or.inr ⟨nc, hclg⟩⟩, ?_⟩
    have hdir : (dirRecOf eD cl).isDir = true := rfl
    rcases hres with ⟨er, h1, hvol, hne⟩ | ⟨n, G1, G2, rec, free'', h1, hv, hp, hd, hgn, hgf, hnd', hfree, hpn, hc, hcm, he, hvol⟩
    · subst h1
      rw [hvol, evg]
      exact stepOk_refused_grown hfv hwf hdir hnc hnd hfr _
    · subst h1
      rw [hvol, ← hp]
      subst evg
      exact stepOk_put_via (sameFiles_grown hfv hwf hdir) (by rw [grown_paths, ← hfv]; rfl)
        (fun x hx => ((hfr x).mp hx).1) hv (wfB_grown hfv hwf hnc hnd hfr) hgn hgf hnd' hfree hpn hc hd hcm he
        (fun h => by cases h) (fun h => by cases h)

/-- non-vacuity: `mkdir D` on the formatted example volume is accepted (one kernel evaluation of the run), so `mkdir_step`
yields a state with `Inv` in which `D` is a well-formed first-level directory — the hypotheses of `delete_sub_step` for
`D/A.B` -/
def exD : Bytes := [68]
def exDiskD : Disk := (runFlush (mkdir exD exStamp) exDisk0).2

theorem exD_arg : RootArg exD := { ne := by decide, noSlash := by decide, noStar := by decide, noQ := by decide, len := by decide }

theorem exDiskD_ok : Inv exDiskD ∧ ∃ f' E1 e' E2 nc, SubDirOk exDiskD exD f' E1 e' E2 [nc] := by
  have hacc : okB (runFlush (mkdir exD exStamp) exDisk0).1 = true := by decide +kernel
  have h := mkdir_step exDisk0_inv exD_arg exStamp_ok (by decide +kernel) (prod_eta (runFlush (mkdir exD exStamp) exDisk0))
  exact ⟨h.1, h.2.2 hacc⟩

example : SubArg exD exName := { aD := exD_arg, aX := exName_arg, len := by decide, keyX := by decide +kernel }

/-! ### `put` into the directory until it grows into a second and a third cluster -/

/-- an empty file `D/F<k>` (two letters `A`…`P` encode `k < 256`) -/
def exSub (k : Nat) : FImg := { exFile with fullPath := [68, 47, 70, 65 + k / 16, 65 + k % 16], chunks := [], eof := [0, 0, 0, 0] }

/-- `put` of `exSub k` for every `k` of the list, each observed as the harness observes it -/
def putsFrom (d : Disk) : List Nat → Disk
  | [] => d
  | k :: ks => putsFrom (runFlush (put (exSub k) exStamp) d).2 ks

theorem exSub_arg : ∀ k, k < 31 → SubArg exD [70, 65 + k / 16, 65 + k % 16] := by
  have h : ∀ k, k < 31 → 47 ∉ [70, 65 + k / 16, 65 + k % 16] ∧ 42 ∉ [70, 65 + k / 16, 65 + k % 16] ∧
      63 ∉ [70, 65 + k / 16, 65 + k % 16] ∧ (keyOf [70, 65 + k / 16, 65 + k % 16]).head? ≠ some 46 := by decide +kernel
  intro k hk
  obtain ⟨h1, h2, h3, h4⟩ := h k hk
  exact { aD := exD_arg, aX := { ne := by simp, noSlash := h1, noStar := h2, noQ := h3, len := by simp },
          len := by simp [exD], keyX := h4 }

/-- the hypotheses of `put_sub_step` are satisfiable, and it applies again to the state it yields: after any sequence of these
`put`s on the example volume with the directory `D` the invariant holds and `D` is a well-formed directory (no evaluation) -/
theorem exPuts_ok : ∀ (ks : List Nat) (d : Disk), (∀ k ∈ ks, k < 31) → Inv d → (∃ f E1 eD E2 cl, SubDirOk d exD f E1 eD E2 cl) →
    Inv (putsFrom d ks) ∧ ∃ f E1 eD E2 cl, SubDirOk (putsFrom d ks) exD f E1 eD E2 cl := by
  intro ks
  induction ks with
  | nil => intro d _ inv sd; exact ⟨inv, sd⟩
  | cons k ks ih =>
    intro d hk inv sd
    obtain ⟨f, E1, eD, E2, cl, sd⟩ := sd
    obtain ⟨inv', ⟨f', cl', sd', _⟩, _⟩ := put_sub_step inv (exSub_arg k (hk k (by simp))) sd (fi := exSub k) rfl exStamp_ok
      (prod_eta (runFlush (put (exSub k) exStamp) d))
    exact ih _ (fun k' hk' => hk k' (by simp [hk'])) inv' ⟨f', E1, eD, E2, cl', sd'⟩

example : Inv (putsFrom exDiskD (List.range 31)) :=
  (exPuts_ok _ _ (by simp) exDiskD_ok.1 (by obtain ⟨f, E1, e, E2, nc, sd⟩ := exDiskD_ok.2; exact ⟨f, E1, e, E2, [nc], sd⟩)).1

/-- growth into the second cluster (kernel evaluation): `D` holds `.`, `..` and 14 free slots in its one cluster; after 15
`put`s of empty files the reading lists `D` and the 15 files, and `D` owns clusters 2 and 3; 18 of 20 clusters are free -/
example : (fun v : Vol => (v.files.length, (v.lookup [68]).map (·.owned), v.free)) (volOf (putsFrom exDiskD (List.range 15))) =
    (16, some [2, 3], 18) := by
  decide +kernel

/-- growth into the third cluster (kernel evaluation of the runs only): after 31 `put`s of empty files `stat()` reports 17 of
the 20 clusters free — the three others are those of `D` (by `exPuts_ok` the image is read as a well-formed, leak-free volume) -/
example : (match (statFree (putsFrom exDiskD (List.range 31))).1 with | .ok n => n | .error _ => 0) = 17 := by
  decide +kernel

/-! ## a file image with a hole is refused before anything is written (fix 7da7b06) -/

/-- a file image whose chunk 1 is missing (`end` = 3) -/
def exHole : FImg := { exFile with fullPath := [72], chunks := [(0, [1]), (2, [2])], eof := [0, 0, 0, 0] }

/-- `put` of the file image with a hole is refused and the reading is what it was: no file, all 20 clusters free, no leak.
Before the fix the cluster loop had taken a cluster for chunk 0 when it met the hole: refused, free 20 → 19, `noLeak = false`
(on the real code, 180K volume, chunks 0, 1, 3: `stat().free_blocks` 339 → 337) -/
example : okB (runFlush (put exHole exStamp) exDisk0).1 = false ∧
    (fun v : Vol => (v.files, v.free, v.noLeak)) (volOf (runFlush (put exHole exStamp) exDisk0).2) = ([], 20, true) := by
  decide +kernel

/-! ## the code as written (label entries in the map of files) does **not** refine the specification -/

/-- the formatted example volume in the variant of the pinned HEAD -/
def exDiskL : Disk := { exDisk0 with labelFiles := true }

/-- on a freshly formatted volume labelled `V` the reading lists nothing, yet `delete("V")` reports success (it
removes the label entry): a step the specification forbids (`delete-target-existed`).  The repaired variant refuses. -/
example : (volOf exDiskL).files = [] ∧ okB (runFlush (delete [86]) exDiskL).1 = true ∧
    stepOk fatParams (volOf exDiskL) (.delete [86]) true (volOf (runFlush (delete [86]) exDiskL).2) = false ∧
    okB (runFlush (delete [86]) exDisk0).1 = false := by
  decide +kernel

end A2Verif.FsFat
