import A2Verif.Lemmas.VolSpec
import A2Verif.Model.Raw
import A2Verif.Model.Read.Pascal
import A2Verif.Model.Read.Dos3x
import A2Verif.Model.Read.Prodos
import A2Verif.Model.Read.Cpm
import A2Verif.Model.Read.Fat
/-!
# C06 — a saved image reloads to the same volume

The content of C06 is a statement about a2kit's save path (write-back of the buffered VTOC / bitmap / FAT,
`to_bytes`/`from_bytes` of each container, the identification order of `create_fs_from_bytestream`).  It is
established by the correspondence run of the harness (`fam/fs.rs`, `check_reload`: after every generated
history the image is serialised, reloaded with and without the extension hint, and `stat`, `tree` and every
`get` are compared with the values before saving) and by the container round-trip theorems of C09.

What can be said at the level of the abstract volume is small, and stated here as what it is: two
congruence facts.  Everything the harness compares after the reload — listing, each entry's kind, type, aux,
length, protection and chunks, the free count — is a function (`observe`) of the `Vol` the independent
reader returns, which in turn is a function of the raw units of the saved image; so two images with the same
units cannot differ in any of these, i.e. nothing the comparison sees lives outside the saved bytes.
-/
namespace A2Verif.C06

/-- C06 (congruence only — see the module text): for every reader, in particular the five independent readers
`Read.*.read`, images with equal unit length and equal units give the same outcome and, when readable, the
same observations. -/
theorem reading_determines_observations (rd : Raw → Except String Vol) (r1 r2 : Raw)
    (hlen : r1.unitLen = r2.unitLen) (hunits : r1.units = r2.units) :
    (rd r1).map observe = (rd r2).map observe := by
  have : r1 = r2 := by
    cases r1; cases r2; simp only at hlen hunits; rw [hlen, hunits]
  rw [this]

/-- the instances for the five readers (DOS 3.x and CP/M take the parameters the harness fixes per volume) -/
theorem readers_determine_observations (r1 r2 : Raw) (hlen : r1.unitLen = r2.unitLen) (hunits : r1.units = r2.units)
    (sysBase : Option (List Nat)) (dpb : Read.Cpm.Dpb) :
    (Read.Dos3x.read r1 sysBase).map observe = (Read.Dos3x.read r2 sysBase).map observe ∧
    (Read.Prodos.read r1).map observe = (Read.Prodos.read r2).map observe ∧
    (Read.Pascal.read r1).map observe = (Read.Pascal.read r2).map observe ∧
    (Read.Cpm.read r1 dpb).map observe = (Read.Cpm.read r2 dpb).map observe ∧
    (Read.Fat.read r1).map observe = (Read.Fat.read r2).map observe :=
  ⟨reading_determines_observations (fun r => Read.Dos3x.read r sysBase) r1 r2 hlen hunits,
   reading_determines_observations Read.Prodos.read r1 r2 hlen hunits,
   reading_determines_observations Read.Pascal.read r1 r2 hlen hunits,
   reading_determines_observations (fun r => Read.Cpm.read r dpb) r1 r2 hlen hunits,
   reading_determines_observations Read.Fat.read r1 r2 hlen hunits⟩

/-- C06, the other half of the congruence: `observe` keeps everything a listing, a `get` of any path and a
`stat` can show — equal observations give the same listing, the same free count, and for EVERY path the same
answer (absent, or present with the same kind, type, aux, length, protection and chunks). -/
theorem observations_determine_answers {v w : Vol} (h : observe v = observe w) :
    v.paths = w.paths ∧ v.free = w.free ∧
    ∀ q, (v.lookup q).map entryObs = (w.lookup q).map entryObs := by
  have h1 : v.paths = w.paths := congrArg Obs.listing h
  have h2 : v.free = w.free := congrArg Obs.free h
  have h3 : v.files.map entryObs = w.files.map entryObs := congrArg Obs.entries h
  refine ⟨h1, h2, fun q => ?_⟩
  have key : ∀ l : List FileRec,
      (l.find? (·.path == q)).map entryObs = (l.map entryObs).find? (fun e => e.1 == q) := by
    intro l
    rw [List.find?_map]
    rfl
  unfold Vol.lookup
  rw [key, key, h3]

/-! ## non-vacuity -/
open VolExample

/-- the observations of the example volume after `put B` -/
example : (observe v1).listing = [[65], [66]] ∧ (observe v1).free = 3 := by decide

/-- two readings that differ only in a field nobody observes (the label) have equal observations, hence give
the same answer for every path -/
example : ∀ q, (v1.lookup q).map entryObs = (({ v1 with label := [1] } : Vol).lookup q).map entryObs :=
  (observations_determine_answers (v := v1) (w := { v1 with label := [1] }) rfl).2.2

end A2Verif.C06
