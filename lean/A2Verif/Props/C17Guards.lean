import A2Verif.Model.MinifyVars
/-!
# C17, table part — "shortened variable names never create a reserved word"

Kept in its own module so that an incomplete guard table (a defect of the *data* in
`minify_guards.rs`) breaks exactly these two theorems and not the structural ones in
`A2Verif.Props.C17`.  Everything here is re-proved against the tables regenerated from the source
on every run (`A2Verif.Gen.MinifyGuards`).
-/
namespace A2Verif.C17
open A2Verif.Model.MinifyVars A2Verif.Gen.MinifyGuards

/-- finite check over the generated tables, ordered so that the kernel only looks at the few
(follower, reserved word, split) triples that can straddle at all -/
theorem guards_table_check :
    (exprFollowers.all fun f => Tok.all.all fun t => [1, 2].all fun j =>
      !(decide (j < t.spelling.length) && (t.spelling.drop j).isPrefixOf f.spelling) ||
      prefixes.all fun s => !(s.drop (s.length - j) == t.spelling.take j) ||
        containsKeyword s || needsGuard s f) = true := by
  decide +kernel

/-- **No new reserved word**: for every two-character name prefix that is itself keyword-free and
every token kind that can follow an expression, if the guard table asks for no guard then no
reserved word straddles the boundary between the short name and the token.  Re-proved against
`minify_guards.rs` / `token_maps.rs` on every run. -/
theorem guards_complete (s : List Nat) (hs : s ∈ prefixes) (f : Tok) (hf : f ∈ exprFollowers)
    (hk : containsKeyword s = false) (hg : needsGuard s f = false) : hidden s f.spelling = false := by
  have h := guards_table_check
  rw [List.all_eq_true] at h
  have h1 := h f hf
  rw [List.all_eq_true] at h1
  apply Bool.eq_false_iff.mpr
  intro hh
  unfold hidden at hh
  rw [List.any_eq_true] at hh
  obtain ⟨t, ht, hh⟩ := hh
  rw [List.any_eq_true] at hh
  obtain ⟨j, hj, hh⟩ := hh
  have h2 := h1 t ht
  rw [List.all_eq_true] at h2
  have h3 := h2 j hj
  unfold splitHides at hh
  simp only [Bool.and_eq_true] at hh
  obtain ⟨⟨hh1, hh2⟩, hh3⟩ := hh
  simp only [hh1, hh2, Bool.and_self, Bool.not_true, Bool.false_or] at h3
  rw [List.all_eq_true] at h3
  have h4 := h3 s hs
  simp [hh3, hk, hg] at h4

/-- where a reserved word can sit in `[a, b] ++ n`: inside the two-character name, inside `n`, or
across the boundary (then `splitHides` sees it) -/
theorem occurrence_cases (a b : Nat) (n kw : List Nat) (i : Nat) (hk : kw ≠ [])
    (h : kw.isPrefixOf (([a, b] ++ n).drop i) = true) :
    (i < 2 ∧ kw.isPrefixOf (([a, b] : List Nat).drop i) = true) ∨
    (2 ≤ i ∧ kw.isPrefixOf (n.drop (i - 2)) = true) ∨
    (∃ j, (j = 1 ∨ j = 2) ∧ splitHides kw [a, b] n j = true) := by
  match i with
  | 0 =>
    match kw with
    | [] => exact absurd rfl hk
    | [k0] => left; simpa [List.isPrefixOf] using h
    | [k0, k1] => left; simpa [List.isPrefixOf] using h
    | k0 :: k1 :: k2 :: r =>
      right; right
      refine ⟨2, Or.inr rfl, ?_⟩
      simp [List.isPrefixOf] at h
      simp [splitHides, h]
  | 1 =>
    match kw with
    | [] => exact absurd rfl hk
    | [k0] => left; simpa [List.isPrefixOf] using h
    | k0 :: k1 :: r =>
      right; right
      refine ⟨1, Or.inl rfl, ?_⟩
      simp [List.isPrefixOf] at h
      simp [splitHides, h]
  | i + 2 =>
    right; left
    exact ⟨by omega, by simpa using h⟩

theorem spelling_ne_nil : ∀ t ∈ Tok.all, t.spelling ≠ [] := by decide +kernel

/-- **No new reserved word**, stated on occurrences: let `v` be a variable name (blanks removed)
whose first two characters `[a, b]` are keyword-free, followed by token `f`, and suppose the guard
table asks for no guard.  Then every reserved word occurring in `short ++ f` (short = `[a, b]`) lies
entirely inside `f` — where it was before shortening as well. -/
theorem no_new_keyword (a b : Nat) (hs : [a, b] ∈ prefixes) (f : Tok) (hf : f ∈ exprFollowers)
    (hk : containsKeyword [a, b] = false) (hg : needsGuard [a, b] f = false)
    (t : Tok) (ht : t ∈ Tok.all) (i : Nat)
    (h : t.spelling.isPrefixOf (([a, b] ++ f.spelling).drop i) = true) :
    2 ≤ i ∧ t.spelling.isPrefixOf (f.spelling.drop (i - 2)) = true := by
  rcases occurrence_cases a b f.spelling t.spelling i (spelling_ne_nil t ht) h with h1 | h2 | ⟨j, hj, h3⟩
  · exfalso
    have : containsKeyword [a, b] = true := by
      unfold containsKeyword
      rw [List.any_eq_true]
      refine ⟨t, ht, ?_⟩
      rw [List.any_eq_true]
      exact ⟨i, by simp; omega, h1.2⟩
    rw [hk] at this
    exact Bool.false_ne_true this
  · exact h2
  · exfalso
    have hh : hidden [a, b] f.spelling = true := by
      unfold hidden
      rw [List.any_eq_true]
      refine ⟨t, ht, ?_⟩
      rw [List.any_eq_true]
      refine ⟨j, ?_, h3⟩
      rcases hj with rfl | rfl <;> simp
    rw [guards_complete [a, b] hs f hf hk hg] at hh
    exact Bool.false_ne_true hh


/-! ### PRINT items run together: the adjacency rule of `needs_guard` -/

/-- the adjacency rule: a following non-token node with nothing in between always asks for a guard,
whatever the table says … -/
theorem adjacent_always_guards (txt : List Nat) : needsGuardNode txt (.node true) = true := rfl

/-- … a subscript never does, and with no following node at all there is no guard -/
theorem subscript_never_guards (txt : List Nat) :
    needsGuardNode txt .subscript = false ∧ needsGuardNode txt .none = false := ⟨rfl, rfl⟩

/-- for a following token the answer is the table's -/
theorem token_guard_is_table (txt : List Nat) (t : Tok) : needsGuardNode txt (.tok t) = needsGuard txt t := rfl

/-- what a guarded real name is written as: unchanged (up to 4 characters), or its first two
characters in parentheses -/
theorem guarded_text (txt : List Nat) :
    shortText .real true txt = txt ∨
    (4 < txt.length ∧ shortText .real true txt = [40] ++ txt.take 2 ++ [41]) := by
  unfold shortText
  split
  · rename_i h; right; exact ⟨h.2.2.2, rfl⟩
  · rename_i h
    left
    simp only [shortName]
    split
    · rename_i h2
      have h4 : ¬ 4 < txt.length := fun h4 => h ⟨rfl, h2, rfl, h4⟩
      simp [h4]
    · rfl

/-- finite facts about the regenerated reserved-word table: no reserved word contains `)` and none
starts with `(` -/
theorem spelling_no_paren :
    (Tok.all.all fun t => !t.spelling.contains 41 && !(t.spelling.head? == some 40)) = true := by
  decide +kernel

/-- where a word that contains no `)` and does not start with `(` can sit in `"(" a b ")" ++ n`:
inside the two characters, or entirely in `n` -/
theorem paren_occurrence (a b : Nat) (n kw : List Nat) (i : Nat) (hk : kw ≠ [])
    (h41 : kw.contains 41 = false) (h40 : (kw.head? == some 40) = false)
    (h : kw.isPrefixOf (([40, a, b, 41] ++ n).drop i) = true) :
    (0 < i ∧ i < 3 ∧ kw.isPrefixOf (([a, b] : List Nat).drop (i - 1)) = true) ∨
    (4 ≤ i ∧ kw.isPrefixOf (n.drop (i - 4)) = true) := by
  match i with
  | 0 =>
    match kw with
    | [] => exact absurd rfl hk
    | k0 :: r =>
      simp [List.isPrefixOf] at h
      simp [h.1] at h40
  | 1 =>
    match kw with
    | [] => exact absurd rfl hk
    | [k0] => left; simpa [List.isPrefixOf] using h
    | [k0, k1] => left; simpa [List.isPrefixOf] using h
    | k0 :: k1 :: k2 :: r =>
      simp [List.isPrefixOf] at h
      simp [h.2.2.1] at h41
  | 2 =>
    match kw with
    | [] => exact absurd rfl hk
    | [k0] => left; simpa [List.isPrefixOf] using h
    | k0 :: k1 :: r =>
      simp [List.isPrefixOf] at h
      simp [h.2.1] at h41
  | 3 =>
    match kw with
    | [] => exact absurd rfl hk
    | k0 :: r =>
      simp [List.isPrefixOf] at h
      simp [h.1] at h41
  | i + 4 =>
    right
    exact ⟨by omega, by simpa using h⟩

/-- **No new reserved word, juxtaposed items**: a parenthesised keyword-free short name `(ab)`
followed by anything: every reserved word occurring in the text lies entirely in what follows. -/
theorem no_new_keyword_paren (a b : Nat) (hk : containsKeyword [a, b] = false) (n : List Nat)
    (t : Tok) (ht : t ∈ Tok.all) (i : Nat)
    (h : t.spelling.isPrefixOf (([40, a, b, 41] ++ n).drop i) = true) :
    4 ≤ i ∧ t.spelling.isPrefixOf (n.drop (i - 4)) = true := by
  have hp := spelling_no_paren
  rw [List.all_eq_true] at hp
  have hpt := hp t ht
  simp only [Bool.and_eq_true, Bool.not_eq_true'] at hpt
  rcases paren_occurrence a b n t.spelling i (spelling_ne_nil t ht) hpt.1 hpt.2 h with ⟨h0, h3, hin⟩ | h2
  · exfalso
    have : containsKeyword [a, b] = true := by
      unfold containsKeyword
      rw [List.any_eq_true]
      refine ⟨t, ht, ?_⟩
      rw [List.any_eq_true]
      exact ⟨i - 1, by simp; omega, hin⟩
    rw [hk] at this
    exact Bool.false_ne_true this
  · exact h2

/-- the clause for a variable that ends a PRINT item which is followed, with no separator, by a
non-token node (function call, string function, `NOT …`, string, …): `needs_guard` answers yes
(`adjacent_always_guards`), so the name is either written unchanged, or as `(ab)` — and then every
reserved word in `written ++ rest` lies entirely inside `rest`, where it was before.  This holds
wherever the variable sits in the item (alone, tail of a binary or unary expression): the model
takes the *climbed* node's adjacency, as the code does. -/
theorem juxtaposed_item_safe (txt rest : List Nat)
    (hk : containsKeyword (txt.take 2) = false) (t : Tok) (ht : t ∈ Tok.all) (i : Nat)
    (h : t.spelling.isPrefixOf
      ((shortText .real (needsGuardNode txt (.node true)) txt ++ rest).drop i) = true) :
    shortText .real (needsGuardNode txt (.node true)) txt = txt ∨
    (4 ≤ i ∧ t.spelling.isPrefixOf (rest.drop (i - 4)) = true) := by
  rw [adjacent_always_guards] at h ⊢
  rcases guarded_text txt with h1 | ⟨hlen, h2⟩
  · exact Or.inl h1
  · right
    match txt, hlen with
    | a :: b :: r, _ =>
      rw [h2] at h
      simp only [List.take_succ_cons, List.take_zero] at h hk
      exact no_new_keyword_paren a b hk rest t ht i (by simpa using h)

/-- the hazard the rule exists for: `COUNT` before `SIN(` would read `COSIN(`, `XIB` before `FRE(`
would read `XIFRE(` -/
example : hidden [67, 79] Tok.tok_sin.spelling = true ∧ hidden [88, 73] Tok.tok_fre.spelling = true := by
  decide +kernel

/-- why the table alone is not enough there: in `PRINT XIB FRE(0)` the next sibling is an `fcall`
node, not a token, so no table entry can match, and `XI`+`FRE` hides `IF` -/
example : hidden [88, 73] Tok.tok_fre.spelling = true := by decide +kernel


/-- the hazard the table exists for: `ABC STEP` would become `ABSTEP` (`ABS`), and is guarded -/
example : hidden [65, 66] Tok.tok_step.spelling = true ∧ needsGuard [65, 66] .tok_step = true := by
  decide +kernel

/-! ### the adjacency rule as it is in the source, against the grammar

What a shortened name runs into, when the next PRINT item follows with nothing in between, is the FIRST TERMINAL of that
item — not its node kind: `TAN(X)*2` is a `binary_aexpr` that begins with the letters `TAN`.  `printItemKinds`
(regenerated from tree-sitter-applesoft's `grammar.json`: every visible alternative of `_expr`, with "its first character
may be a letter" computed from FIRST sets) and the rule extracted from `needs_guard` (`adjacentGuardsAllBut` /
`adjacentKindList`) are compared here. -/

/-- does the adjacency rule of the current source guard a following node of this kind? -/
def adjacentGuards (kind : List Nat) : Bool :=
  if adjacentGuardsAllBut then !([116, 111, 107, 95].isPrefixOf kind) && !adjacentKindList.contains kind
  else adjacentKindList.contains kind

/-- **The guard covers every item that can begin with a letter**: for every node kind that can be a PRINT item and whose
first terminal may start with a letter (function call, string function call, `NOT …`, variables, and the BINARY
expressions whose left-most leaf is one of these), the rule of `needs_guard` for an item that follows with nothing in
between asks for a guard.  Fails when the rule is narrowed to a list of node kinds that forgets a composite kind. -/
theorem guard_table_complete :
    (printItemKinds.all fun k => !k.2 || adjacentGuards k.1) = true ∧
    (printItemKinds.any fun k => k.2 && k.1 == [98, 105, 110, 97, 114, 121, 95, 97, 101, 120, 112, 114]) = true := by
  decide +kernel

/-- the model's rule (`needsGuardNode … (.node true) = true`: every adjacent non-token, non-subscript node) is the rule
of the current source -/
theorem adjacent_rule_current_tree :
    adjacentGuardsAllBut = true ∧ adjacentKindList = [[115, 117, 98, 115, 99, 114, 105, 112, 116]] := by
  decide

/-- the narrowed rule of the seeded change (`fcall`, `sfcall`, `unary_aexpr` only) leaves `binary_aexpr` unguarded -/
example : ([[102, 99, 97, 108, 108], [115, 102, 99, 97, 108, 108], [117, 110, 97, 114, 121, 95, 97, 101, 120, 112, 114]] : List (List Nat)).contains
    [98, 105, 110, 97, 114, 121, 95, 97, 101, 120, 112, 114] = false := by decide

end A2Verif.C17
