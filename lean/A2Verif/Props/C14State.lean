import A2Verif.Lemmas.ToolState
/-!
# C14, tool objects — a tokenizer's answer does not depend on what it tokenized before

"For every source that a2kit accepts, the tokenized form is faithful": the language servers keep ONE `Tokenizer` per
session, and a program that is rejected on a late line returns early with the lines tokenized so far still in the
object.  The theorems here are about the tokenizers as state machines (`Model/ToolState.lean`): with the reset at the
head of `tokenize` the answer after EVERY history of calls — accepted, rejected on the first line, rejected on a later
line, panicked — is the answer of a fresh object, which is the pure framing (`assembleI` / `assembleA`) the other C14
theorems are about.  Whether the reset is there is read from the current source by the translator
(`Gen.ToolState`), and the `…_current_tree` theorems begin with `flag = true := by decide`.
-/
namespace A2Verif.C14
open A2Verif.ToolState A2Verif.Detok

/-! ## generic: what the extracted read/reset sets buy -/

/-- **History independence** (all tools, all entry points).  Let `tool` be any family of entry points that do what
their extracted signatures say (`Respects`: output depends on the entry state through `carried` only, fields outside
`writes` are left alone — also by failing calls), and `cfg` a set of fields that none of them writes.  If everything an
entry point may read from an earlier call lies in `cfg`, then after every sequence of prior calls its output equals its
output on the initial object.  Induction over the call history (`runHist_frame`). -/
theorem history_independent {I O : Type} (tool : List (Entry I O)) (cfg : List Nat)
    (hresp : ∀ e, e ∈ tool → e.Respects)
    (hcfg : ∀ e, e ∈ tool → ∀ f, f ∈ cfg → f ∉ e.sig.writes)
    (e : Entry I O) (he : e ∈ tool) (hcar : ∀ f, f ∈ e.sig.carried → f ∈ cfg)
    (s0 : St) (h : Hist I) (i : I) :
    (e.run (runHist tool s0 h) i).2 = (e.run s0 i).2 :=
  A2Verif.ToolState.history_independent tool cfg hresp hcfg e he hcar s0 h i

/-- rows of the generated table that belong to tool `t` and still have an unreviewed carried field -/
def unexplainedOf (t : Nat) : List (Nat × Nat × Nat) :=
  A2Verif.Gen.ToolState.unexplainedCarry.filter fun r => r.1 == t

/-- **The three tokenizers on the current tree**: the generated table is consistent (configuration fields are written
by no entry point, ids in range), and no entry point of `integer::Tokenizer`, `applesoft::Tokenizer`,
`merlin::Tokenizer` may read a non-configuration field an earlier call left behind, except the reviewed ones
(`translator/toolstate_carry.json`: Merlin's `line_sep` for `detokenize`, documented; the Merlin parser object).
Fails to check when a reset disappears from the source or a new carried field appears. -/
theorem tokenizers_current_tree :
    tableConsistent = true ∧
    unexplainedOf A2Verif.Gen.ToolState.toolIntegerTokenizer = [] ∧
    unexplainedOf A2Verif.Gen.ToolState.toolApplesoftTokenizer = [] ∧
    unexplainedOf A2Verif.Gen.ToolState.toolMerlinTokenizer = [] ∧
    historyFields A2Verif.Gen.ToolState.toolIntegerTokenizer A2Verif.Gen.ToolState.entryIntegerTokenizer_tokenize = [] ∧
    historyFields A2Verif.Gen.ToolState.toolIntegerTokenizer A2Verif.Gen.ToolState.entryIntegerTokenizer_detokenize = [] ∧
    historyFields A2Verif.Gen.ToolState.toolApplesoftTokenizer A2Verif.Gen.ToolState.entryApplesoftTokenizer_tokenize = [] ∧
    historyFields A2Verif.Gen.ToolState.toolApplesoftTokenizer A2Verif.Gen.ToolState.entryApplesoftTokenizer_detokenize = [] := by
  decide +kernel

/-! ## Integer BASIC -/

/-- with the reset, `tokenize` answers the same in every state of the object -/
theorem integer_tokenize_state_independent (v : IVariant) (hv : v.resetAtTop = true) (s t : TokSt) (ls : List LineIn) :
    (tokenizeI v s ls).2 = (tokenizeI v t ls).2 :=
  tokenizeI_reset_independent v hv s t ls

/-- **Integer BASIC `tokenize` is history independent**: after every session on the same object (`hist`: any
programs, accepted or rejected on any line) the answer is that of a fresh tokenizer. -/
theorem integer_tokenize_history_independent (v : IVariant) (hv : v.resetAtTop = true)
    (hist : List (List LineIn)) (ls : List LineIn) :
    (tokenizeI v (sessionI v TokSt.fresh hist) ls).2 = (tokenizeI v TokSt.fresh ls).2 :=
  tokenizeI_reset_independent v hv _ _ ls

/-- … and for an accepted program that answer is the pure framing the structure theorems are about
(`integer_line_lengths_exact`) -/
theorem integer_tokenize_is_assembleI (v : IVariant) (hv : v.resetAtTop = true) (hist : List (List LineIn))
    (ls : List LineIn) (lines : List Line) (h : allOk ls = some lines) (hne : assembleI lines ≠ .panic) :
    (tokenizeI v (sessionI v TokSt.fresh hist) ls).2 = assembleI lines := by
  rw [integer_tokenize_history_independent v hv]
  exact tokenizeI_fresh_eq_assembleI v ls lines h hne

/-- the same for the code as it is now (variant read from the current source) -/
theorem integer_tokenize_current_tree (hist : List (List LineIn)) (ls : List LineIn) :
    (tokenizeI IVariant.current (sessionI IVariant.current TokSt.fresh hist) ls).2
      = (tokenizeI IVariant.current TokSt.fresh ls).2 := by
  have hv : IVariant.current.resetAtTop = true := by decide
  exact integer_tokenize_history_independent _ hv hist ls

/-- the concrete machine does what its row of the generated table says (this ties `Respects` for this tool to the
transcribed code instead of trusting the translator): field 1 = `tokenized_program`, field 2 = `tokenized_line` -/
def integerEntry (v : IVariant) : Entry (List LineIn) (Outcome (List Nat)) where
  sig := tableSig A2Verif.Gen.ToolState.toolIntegerTokenizer A2Verif.Gen.ToolState.entryIntegerTokenizer_tokenize
  run := fun s ls =>
    let r := tokenizeI v ⟨s 1, s 2⟩ ls
    (fun f => if f = 1 then r.1.prog else if f = 2 then r.1.line else s f, r.2)

theorem integerEntry_respects (v : IVariant) (hv : v.resetAtTop = true) : (integerEntry v).Respects where
  out_dep := fun s t i _ => tokenizeI_reset_independent v hv _ _ i
  frame := by
    intro s i f hf
    have h1 : (1 : Nat) ∈ (tableSig A2Verif.Gen.ToolState.toolIntegerTokenizer A2Verif.Gen.ToolState.entryIntegerTokenizer_tokenize).writes := by
      decide +kernel
    have h2 : (2 : Nat) ∈ (tableSig A2Verif.Gen.ToolState.toolIntegerTokenizer A2Verif.Gen.ToolState.entryIntegerTokenizer_tokenize).writes := by
      decide +kernel
    have n1 : f ≠ 1 := fun h => hf (h ▸ h1)
    have n2 : f ≠ 2 := fun h => hf (h ▸ h2)
    simp [integerEntry, n1, n2]

/-! ### the seeded form: result taken, reset dropped -/

/-- `10 TEXT / 20 PRINT "START" / 30 A=40000`: rejected on its third line -/
def rejectedLate : List LineIn := [.ok ⟨10, [0x4B]⟩, .ok ⟨20, [0x61, 0x28, 0xD3, 0x29]⟩, .rej, .ok ⟨40, [0x51]⟩]
/-- `100 END` -/
def accepted : List LineIn := [.ok ⟨100, [0x51]⟩]

/-- on a fresh object: one record -/
example : (tokenizeI IVariant.takeNoReset TokSt.fresh accepted).2 = .ok [5, 100, 0, 0x51, 1] := by decide
/-- after the rejected program the same source "tokenizes" to three records: the two lines of the REJECTED program
come first (line numbers 10, 20, 100 instead of 100) -/
example : (tokenizeI IVariant.takeNoReset (sessionI IVariant.takeNoReset TokSt.fresh [rejectedLate]) accepted).2
    = .ok [5, 10, 0, 0x4B, 1, 8, 20, 0, 0x61, 0x28, 0xD3, 0x29, 1, 5, 100, 0, 0x51, 1] := by decide

/-- **"take the result, drop the reset" is NOT history independent** -/
theorem take_without_reset_carries :
    ¬ ∀ (hist : List (List LineIn)) (ls : List LineIn),
        (tokenizeI IVariant.takeNoReset (sessionI IVariant.takeNoReset TokSt.fresh hist) ls).2
          = (tokenizeI IVariant.takeNoReset TokSt.fresh ls).2 := by
  intro h
  have := h [rejectedLate] accepted
  revert this
  decide

/-- … although it is for every history of SUCCESSFUL calls (why no test that only feeds accepted programs sees it):
the buffer is empty after every successful call, by induction over the history -/
theorem take_without_reset_ok_histories (hist : List (List LineIn)) (ls : List LineIn)
    (hok : allCallsOk (sessionOutI IVariant.takeNoReset TokSt.fresh hist) = true) :
    (tokenizeI IVariant.takeNoReset (sessionI IVariant.takeNoReset TokSt.fresh hist) ls).2
      = (tokenizeI IVariant.takeNoReset TokSt.fresh ls).2 :=
  tokenizeI_nil_prog _ _ (sessionI_take_clean hist TokSt.fresh rfl hok) ls

/-- rejection on the FIRST line leaves nothing behind either -/
example : (sessionI IVariant.takeNoReset TokSt.fresh [[.rej, .ok ⟨20, [0x51]⟩]]).prog = [] := by decide
/-- the code at the pinned commit on the same session: clean -/
example : (tokenizeI IVariant.pinned (sessionI IVariant.pinned TokSt.fresh [rejectedLate]) accepted).2
    = .ok [5, 100, 0, 0x51, 1] := by decide
/-- the state after the failed call really holds the two tokenized lines (early return) -/
example : (sessionI IVariant.pinned TokSt.fresh [rejectedLate]).prog = [5, 10, 0, 0x4B, 1, 8, 20, 0, 0x61, 0x28, 0xD3, 0x29, 1] := by
  decide

/-! ## Applesoft -/

/-- **Applesoft `tokenize` is history independent** (both resets present): after every session — including calls that
panicked on the 16-bit link overflow in the middle of a program — the answer is that of a fresh tokenizer … -/
theorem applesoft_tokenize_history_independent (v : AVariant) (hp : v.resetProg = true) (ha : v.resetAddr = true)
    (hist : List (Nat × List LineIn)) (addr : Nat) (ls : List LineIn) :
    (tokenizeA v (sessionA v ATokSt.fresh hist) addr ls).2 = (tokenizeA v ATokSt.fresh addr ls).2 :=
  tokenizeA_reset_independent v hp ha _ _ addr ls

/-- … which for an accepted program is the framing of `link_field_law` -/
theorem applesoft_tokenize_is_assembleA (v : AVariant) (hp : v.resetProg = true) (ha : v.resetAddr = true)
    (hist : List (Nat × List LineIn)) (addr : Nat) (ls : List LineIn) (lines : List Line) (h : allOk ls = some lines) :
    (tokenizeA v (sessionA v ATokSt.fresh hist) addr ls).2 = assembleA addr lines :=
  tokenizeA_eq_assembleA v hp ha _ addr ls lines h

theorem applesoft_tokenize_current_tree (hist : List (Nat × List LineIn)) (addr : Nat) (ls : List LineIn) :
    (tokenizeA AVariant.current (sessionA AVariant.current ATokSt.fresh hist) addr ls).2
      = (tokenizeA AVariant.current ATokSt.fresh addr ls).2 := by
  have hp : AVariant.current.resetProg = true := by decide
  have ha : AVariant.current.resetAddr = true := by decide
  exact applesoft_tokenize_history_independent _ hp ha hist addr ls

/-- without the reset of `tokenized_program` the NEXT program is appended after the end marker of the previous one -/
example : (tokenizeA ⟨false, true⟩ (sessionA ⟨false, true⟩ ATokSt.fresh [(2049, [.ok ⟨10, [0x80]⟩])]) 2049 [.ok ⟨20, [0x80]⟩]).2
    = .ok [7, 8, 10, 0, 0x80, 0, 0, 0, 7, 8, 20, 0, 0x80, 0, 0, 0] := by decide
/-- a panic in the middle (load address near 64K) leaves the first line in the buffer; the reset makes it harmless -/
example : (sessionA AVariant.pinned ATokSt.fresh [(65520, [.ok ⟨10, [0x80]⟩, .ok ⟨20, [0x80, 0x80, 0x80, 0x80, 0x80, 0x80]⟩])]).prog
    = [246, 255, 10, 0, 0x80, 0] := by decide

end A2Verif.C14
