import A2Verif.Model.AddrMap
import A2Verif.Lemmas.C07Store
import A2Verif.Lemmas.C07Apple
import A2Verif.Lemmas.C07Zones
import A2Verif.Lemmas.C07Ibm
import A2Verif.Lemmas.C07IbmSector
import A2Verif.Lemmas.C07D13
import A2Verif.Lemmas.C07Flat
/-!
# Property C07 — volume content does not depend on the container format

The table and address-map theorems live (so that `lake` checks them in parallel) in
* `Lemmas/C07Apple.lean` — `dos_skew_inverse`, `prodos_block_maps_inverse`, `cpm_tables_consistent`,
  `cpm_records_cover_track`, `do_offset_norm_inverse`, `po_offset_norm_inverse`,
  `prodos_block_same_place`, `dos_sector_same_place`, `cpm_block_same_place`, `woz_sector_identity`,
  `norm_addresses_valid`;
* `Lemmas/C07Zones.lean` — `zone_bounds_consistent`, `zone_bounds_total`, `blocks_400_bijection`,
  `blocks_800_bijection`, `woz35_pieces`;
* `Lemmas/C07Ibm.lean` — `imd_td0_same_skew`, `imd_td0_same_geometry`,
  `imd_td0_same_pieces`, `imd_td0_same_sectors`, `img_imd_same_layout`, `fat_chs_same`,
  `img_imd_same_sectors_partial`, `cpm_blocks_addressable`;
* `Lemmas/C07IbmSector.lean` — `img_imd_same_sectors` (every cylinder / sector id), `img_imd_same_fat_pieces`
  (every FAT cluster address), by a general lemma on "regular" geometries;
* `Lemmas/C07D13.lean` — `d13_sector_same_place`, `dos32_physical_permutation`;
* `Lemmas/C07Store.lean` — `same_view_after_any_history`, `same_reads_after_any_history`.

This file combines them into the statements of the property itself: for the Apple 5.25 inch kind
(DO / PO / nibble containers) and for the IBM kinds (IMD / TD0), *any* history of block writes leaves
the same content in every normal-form unit and every block read returns the same bytes — given the
per-address store laws of the two containers (hypotheses here; they are property C08).
-/
namespace A2Verif.C07
open A2Verif.Gen A2Verif.Model.AddrMap
open A2Verif.Gen.C07 (LayoutName)
open A2Verif.Model.AddrMap.Out (ok err panic)

def toOpt {α : Type} : Out α → Option α
  | ok a => some a
  | _ => none

/-! ## Apple 5.25 inch, 16 sectors -/

/-- the three address maps: DO (also 2MG wrapping DO), PO, nibble (NIB, WOZ1, WOZ2, 2MG wrapping NIB) -/
inductive Fmt525 where
  | dsk | po | nib
deriving DecidableEq, Repr

/-- block addresses a file system on this kind of disk can issue to container `f`:
ProDOS/Pascal blocks `< 280` (every container), DOS 3.3 sectors and CP/M blocks of the Apple DPB
(every container except PO, which refuses them) -/
def Supported (f : Fmt525) : Block → Prop
  | .po b => b < 280
  | .dos t s => f ≠ .po ∧ t < 35 ∧ s < 16
  | .cpm b bsh off => f ≠ .po ∧ b < 128 ∧ bsh = appleDpb.1 ∧ off = appleDpb.2.1
  | _ => False

instance (f : Fmt525) (blk : Block) : Decidable (Supported f blk) := by
  cases blk <;> unfold Supported <;> infer_instance

/-- normal-form address map of container `f` (restricted to supported addresses) -/
def locate525 (f : Fmt525) (blk : Block) : Option (List NAddr) :=
  if Supported f blk then
    match f with
    | .dsk => toOpt (doNorm blk)
    | .po => toOpt (poNorm blk)
    | .nib => toOpt (nibNorm blk)
  else none

/-- every supported block is located at the nibble container's addresses, whichever container -/
theorem locate525_eq_nib (f : Fmt525) (blk : Block) (h : Supported f blk) :
    locate525 f blk = toOpt (nibNorm blk) := by
  unfold locate525
  rw [if_pos h]
  cases blk with
  | po b =>
    have hb : b < 280 := h
    have := prodos_block_same_place ⟨b, hb⟩
    cases f <;> simp only [this.2.1, this.2.2]
  | dos t s =>
    obtain ⟨hf, ht, hs⟩ := h
    have := dos_sector_same_place ⟨t, ht⟩ ⟨s, hs⟩
    cases f
    · simp only [this.2.1]
    · exact absurd rfl hf
    · rfl
  | cpm b bsh off =>
    obtain ⟨hf, hb, h1, h2⟩ := h
    subst h1 h2
    have := cpm_block_same_place.2 ⟨b, hb⟩
    cases f
    · simp only [this.2]
    · exact absurd rfl hf
    · rfl
  | d13 t s => exact absurd h (by simp [Supported])
  | fat a n => exact absurd h (by simp [Supported])

/-- **skew agreement between every pair of formats**: two containers that both accept a block
address locate it at the same physical (track, sector, half) units in the same order -/
theorem locate525_agree (f g : Fmt525) (blk : Block) (hf : Supported f blk) (hg : Supported g blk) :
    locate525 f blk = locate525 g blk := by
  rw [locate525_eq_nib f blk hf, locate525_eq_nib g blk hg]

theorem allValid_spec (o : Out (List NAddr)) (h : allValid o = true) (as : List NAddr)
    (ho : toOpt o = some as) : ∀ a ∈ as, Valid525 a := by
  cases o with
  | ok xs =>
    simp [toOpt] at ho
    subst ho
    intro a ha
    have := (List.all_eq_true.mp h) a ha
    simpa [validB, Valid525] using this
  | err => simp [toOpt] at ho
  | panic => simp [toOpt] at ho

/-- supported blocks are located at addresses that exist -/
theorem locate525_valid (f : Fmt525) (blk : Block) (as : List NAddr) (h : locate525 f blk = some as) :
    ∀ a ∈ as, Valid525 a := by
  by_cases hs : Supported f blk
  · rw [locate525_eq_nib f blk hs] at h
    cases blk with
    | po b => exact allValid_spec _ (norm_addresses_valid.1 ⟨b, hs⟩) as h
    | dos t s => exact allValid_spec _ (norm_addresses_valid.2.1 ⟨t, hs.2.1⟩ ⟨s, hs.2.2⟩) as h
    | cpm b bsh off =>
      obtain ⟨_, hb, h1, h2⟩ := hs
      subst h1 h2
      exact allValid_spec _ (norm_addresses_valid.2.2 ⟨b, hb⟩) as h
    | d13 t s => exact absurd hs (by simp [Supported])
    | fat a n => exact absurd hs (by simp [Supported])
  · simp [locate525, hs] at h

/-- **C07 for the Apple 5.25 inch kind, every history.**  Let `C` and `D` be containers of formats
`f` and `g` (any two of DO, PO, NIB/WOZ1/WOZ2, 2MG) that satisfy the per-address store laws over the
35×16×2 normal-form units and whose address maps are the transcribed ones.  If they start with the
same content, then after any history of block writes that both accept, every unit holds the same
bytes in both, and every block read returns the same bytes. -/
theorem apple525_content_independent (f g : Fmt525) (C D : Container NAddr Block)
    (hC : C.locate = locate525 f) (hD : D.locate = locate525 g)
    (hvC : ∀ a, C.valid a ↔ Valid525 a) (hvD : ∀ a, D.valid a ↔ Valid525 a)
    (hist : List (Block × List Nat))
    (hsup : ∀ op ∈ hist, Supported f op.1 ∧ Supported g op.1)
    (s : C.St) (t : D.St) (h0 : SameView C D s t) :
    SameView C D (C.run 128 s hist) (D.run 128 t hist) ∧
    ∀ blk, Supported f blk → Supported g blk →
      C.read (C.run 128 s hist) blk = D.read (D.run 128 t hist) blk := by
  have hv : ∀ a, C.valid a ↔ D.valid a := fun a => (hvC a).trans (hvD a).symm
  have hloc : ∀ op ∈ hist, C.locate op.1 = D.locate op.1 := by
    intro op hop
    rw [hC, hD]
    exact locate525_agree f g op.1 (hsup op hop).1 (hsup op hop).2
  refine ⟨same_view_after_any_history C D hv 128 hist hloc s t h0, ?_⟩
  intro blk hf hg
  apply same_reads_after_any_history C D hv 128 hist hloc s t h0 blk
  rw [hC, hD]
  exact locate525_agree f g blk hf hg

/-- a store with the DO address map and one with the nibble address map (non-vacuity: the
hypotheses of `apple525_content_independent` are satisfiable) -/
def sample525 (f : Fmt525) : Container NAddr Block :=
  funContainer Valid525 (locate525 f) (locate525_valid f)

example :
    let C := sample525 .dsk
    let D := sample525 .nib
    let hist : List (Block × List Nat) := [(.po 1, List.replicate 512 7), (.dos 17 5, [1, 2, 3]), (.cpm 4 3 3, List.replicate 1024 9)]
    SameView C D (C.run 128 (fun _ => []) hist) (D.run 128 (fun _ => []) hist) :=
  (apple525_content_independent .dsk .nib (sample525 .dsk) (sample525 .nib) rfl rfl
    (fun _ => Iff.rfl) (fun _ => Iff.rfl) _ (by decide) _ _ (fun _ _ => rfl)).1

/-- the sample history really writes something: block 1 lands in physical sectors 4 and 6 of track 0 -/
example : locate525 .dsk (.po 1) = some [(0, 4, 0), (0, 4, 1), (0, 6, 0), (0, 6, 1)] := by decide +kernel

/-! ### DO vs PO without hypotheses: the flat containers as concrete stores -/

/-- a DO image: 4480 units indexed through `DO::read_sector`, address map of dsk_do.rs -/
def doStore : Container NAddr Block := unitStore doUnitIndex (locate525 .dsk) (locate525_valid .dsk)
/-- a PO image: 4480 units indexed through the ProDOS interleave, address map of dsk_po.rs -/
def poStore : Container NAddr Block := unitStore poUnitIndex (locate525 .po) (locate525_valid .po)

/-- freshly created image: all zero (`DO::create`, `PO::create`) -/
def blankUnits (N : Nat) : { s : List (List Nat) // s.length = N } :=
  ⟨List.replicate N (List.replicate 128 0), by simp⟩

theorem blank_sameView : SameView doStore poStore (blankUnits 4480) (blankUnits 4480) := by
  intro a ha
  obtain ⟨i, hi⟩ := doUnitIndex.total a ha
  obtain ⟨j, hj⟩ := poUnitIndex.total a ha
  have hib := doUnitIndex.bound a i hi
  have hjb := poUnitIndex.bound a j hj
  show (match doUnitIndex.idx a with
        | some i => ((blankUnits 4480).val[i]?).getD []
        | none => []) =
       (match poUnitIndex.idx a with
        | some i => ((blankUnits 4480).val[i]?).getD []
        | none => [])
  have e1 : doUnitIndex.N = 4480 := rfl
  have e2 : poUnitIndex.N = 4480 := rfl
  rw [hi, hj]
  simp only [blankUnits]
  rw [List.getElem?_replicate, List.getElem?_replicate, if_pos (by omega), if_pos (by omega)]

/-- **C07 for DO vs PO, no hypotheses left**: starting from freshly created images, after ANY history of
ProDOS/Pascal block writes (`b < 280`, data of any length) every physical (track, sector, half) unit
holds the same bytes in the DO image and in the PO image, and every block read returns the same bytes. -/
theorem do_po_content_independent (hist : List (Block × List Nat))
    (hsup : ∀ op ∈ hist, ∃ b, op.1 = .po b ∧ b < 280) :
    SameView doStore poStore (doStore.run 128 (blankUnits 4480) hist) (poStore.run 128 (blankUnits 4480) hist) ∧
    ∀ b, b < 280 →
      doStore.read (doStore.run 128 (blankUnits 4480) hist) (.po b) =
      poStore.read (poStore.run 128 (blankUnits 4480) hist) (.po b) := by
  have hs : ∀ op ∈ hist, Supported .dsk op.1 ∧ Supported .po op.1 := by
    intro op hop
    obtain ⟨b, hb, hlt⟩ := hsup op hop
    rw [hb]
    exact ⟨hlt, hlt⟩
  have := apple525_content_independent .dsk .po doStore poStore rfl rfl (fun _ => Iff.rfl) (fun _ => Iff.rfl)
    hist hs (blankUnits 4480) (blankUnits 4480) blank_sameView
  exact ⟨this.1, fun b hb => this.2 (.po b) hb hb⟩

/-- what the theorem says on a concrete history: block 1 written with 512 bytes `7` is read back as such
from the PO store (and therefore from the DO store) -/
example : poStore.read (poStore.run 128 (blankUnits 4480) [(.po 1, List.replicate 512 7)]) (.po 1)
    = some (List.replicate 512 7) := by decide +kernel

/-! ## IBM kinds: IMD vs TD0 -/

abbrev CHS := Nat × Nat × Nat

/-- address map of an IMD / TD0 image created for layout `ln`: (cylinder, head, sector id) list -/
def locateIbm (c : Ibm) (ln : LayoutName) (blk : Block) : Option (List CHS) :=
  (toOpt (ibmPieces c ln blk)).map fun ps => ps.map fun p => (p.1, p.2.1, p.2.2.1)

/-- **C07 for IMD vs TD0, every history, every block address** (CP/M and FAT; no range restriction:
out-of-range addresses are refused by both).  `unit` is the sector size of the layout. -/
theorem imd_td0_content_independent (ln : LayoutName) (hln : ln ∈ ibmLayouts) (unit : Nat)
    (C D : Container CHS Block)
    (hC : C.locate = locateIbm .imd ln) (hD : D.locate = locateIbm .td0 ln)
    (hv : ∀ a, C.valid a ↔ D.valid a)
    (hist : List (Block × List Nat)) (s : C.St) (t : D.St) (h0 : SameView C D s t) :
    SameView C D (C.run unit s hist) (D.run unit t hist) ∧
    ∀ blk, C.read (C.run unit s hist) blk = D.read (D.run unit t hist) blk := by
  have hl : ∀ blk, C.locate blk = D.locate blk := by
    intro blk
    rw [hC, hD]
    simp only [locateIbm, imd_td0_same_pieces ln hln blk]
  exact ⟨same_view_after_any_history C D hv unit hist (fun op _ => hl op.1) s t h0,
         fun blk => same_reads_after_any_history C D hv unit hist (fun op _ => hl op.1) s t h0 blk (hl blk)⟩

/-- FAT cluster addresses are resolved alike by IMG, IMD and TD0 (any two of them) -/
theorem locateIbm_fat_agree (ln : LayoutName) (hln : ln ∈ C07.ibmPatterns) (c d : Ibm) (s n : Nat) :
    locateIbm c ln (.fat s n) = locateIbm d ln (.fat s n) := by
  have h1 := img_imd_same_fat_pieces ln hln s n
  have h2 := imd_td0_same_pieces ln (List.mem_append_left _ hln) (.fat s n)
  unfold locateIbm
  cases c <;> cases d <;> simp only [h1, h2] <;> rw [← h2]

/-- **C07 for the IBM FAT kinds, every history**: any two of IMG, IMD, TD0 created for the same
`ibm_patterns` layout, any history of FAT cluster writes (in range or not): same content in every
sector, same bytes from every cluster read. -/
theorem ibm_fat_content_independent (ln : LayoutName) (hln : ln ∈ C07.ibmPatterns) (c d : Ibm) (unit : Nat)
    (C D : Container CHS Block)
    (hC : C.locate = locateIbm c ln) (hD : D.locate = locateIbm d ln)
    (hv : ∀ a, C.valid a ↔ D.valid a)
    (hist : List (Block × List Nat)) (hfat : ∀ op ∈ hist, ∃ s n, op.1 = .fat s n)
    (s : C.St) (t : D.St) (h0 : SameView C D s t) :
    SameView C D (C.run unit s hist) (D.run unit t hist) ∧
    ∀ a n, C.read (C.run unit s hist) (.fat a n) = D.read (D.run unit t hist) (.fat a n) := by
  have hl : ∀ a n, C.locate (.fat a n) = D.locate (.fat a n) := by
    intro a n
    rw [hC, hD]
    exact locateIbm_fat_agree ln hln c d a n
  have hloc : ∀ op ∈ hist, C.locate op.1 = D.locate op.1 := by
    intro op hop
    obtain ⟨a, n, h⟩ := hfat op hop
    rw [h]
    exact hl a n
  exact ⟨same_view_after_any_history C D hv unit hist hloc s t h0,
         fun a n => same_reads_after_any_history C D hv unit hist hloc s t h0 _ (hl a n)⟩

example : locateIbm .img .IBM_DSDD_9 (.fat 17 2) = some [(0, 1, 9), (1, 0, 1)] := by decide +kernel

example : locateIbm .imd .KAYPRO4 (.cpm 5 4 1) = some [(1, 1, 10), (1, 1, 11), (1, 1, 12), (1, 1, 13)] ∧
    locateIbm .td0 .KAYPRO4 (.cpm 5 4 1) = some [(1, 1, 10), (1, 1, 11), (1, 1, 12), (1, 1, 13)] := by
  decide +kernel

example : LayoutName.KAYPRO4 ∈ ibmLayouts := by decide

end A2Verif.C07
