import A2Verif.Model.RobustTrack
/-!
# C12 — nibble track access never leaves the bit buffer and never stalls (WOZ1, WOZ2, NIB), `Woz1::from_bytes`

"Given arbitrary or corrupted bytes as a disk image … it does not panic, … index out of range, loop forever" for the
track level of the nibble containers: every read of track bits goes through the cursor `(bit_count, bit_ptr)` of
`disk525::TrackBits`, which indexes `bits[bit_ptr/8]` and wraps at `bit_count`.  The gates `get_trk_ref` /
`get_trk_bits_rng` / `new_rw_obj` decide which `bit_count` meets which buffer.  Theorems are for **all** field values,
**all** buffers and **all** finite sequences of cursor operations.
-/
namespace A2Verif.C12Woz
open A2Verif.Model.Robust

/-- the cursor stays inside a buffer of `bitsLen` bytes and can wrap -/
def Inv (bitsLen : Nat) (c : Cursor) : Prop := 0 < c.bitCount ∧ c.bitPtr < c.bitCount ∧ c.bitCount ≤ 8 * bitsLen

theorem shiftFwd_inv {bitsLen : Nat} {c : Cursor} (h : Inv bitsLen c) (n : Nat) : ∃ c', shiftFwd c n = .ok c' ∧ Inv bitsLen c' := by
  obtain ⟨h0, h1, h2⟩ := h
  unfold shiftFwd
  rw [if_neg (by omega)]
  exact ⟨_, rfl, h0, Nat.mod_lt _ h0, h2⟩

theorem shiftRev_inv {bitsLen : Nat} {c : Cursor} (h : Inv bitsLen c) (n : Nat) : ∃ c', shiftRev c n = .ok c' ∧ Inv bitsLen c' := by
  obtain ⟨h0, h1, h2⟩ := h
  unfold shiftRev
  split
  · refine ⟨_, rfl, h0, ?_, h2⟩
    show c.bitPtr - n < c.bitCount
    omega
  · rw [if_neg (by omega)]
    refine ⟨_, rfl, h0, ?_, h2⟩
    show c.bitCount - 1 - (n - c.bitPtr - 1) % c.bitCount < c.bitCount
    omega

theorem step_inv {bitsLen : Nat} {c : Cursor} (h : Inv bitsLen c) (op : Op) : ∃ c', step bitsLen c op = .ok c' ∧ Inv bitsLen c' := by
  cases op with
  | next =>
    show ∃ c', (if c.bitPtr / 8 < bitsLen then shiftFwd c 1 else .panic) = .ok c' ∧ Inv bitsLen c'
    have : c.bitPtr / 8 < bitsLen := by
      obtain ⟨_, h1, h2⟩ := h
      omega
    rw [if_pos this]
    exact shiftFwd_inv h 1
  | fwd n => exact shiftFwd_inv h n
  | rev n => exact shiftRev_inv h n

/-- **the cursor lemma**: from a cursor inside its buffer, every finite sequence of `next` / `shift_fwd` / `shift_rev`
runs to the end — no index out of range, no stalled wrap loop — and ends inside the buffer -/
theorem run_inv {bitsLen : Nat} : ∀ (ops : List Op) (c : Cursor), Inv bitsLen c → ∃ c', run bitsLen ops c = .ok c' ∧ Inv bitsLen c' := by
  intro ops
  induction ops with
  | nil => intro c h; exact ⟨c, rfl, h⟩
  | cons op rest ih =>
    intro c h
    obtain ⟨c1, h1, hi1⟩ := step_inv h op
    unfold run
    rw [h1]
    exact ih c1 hi1

theorem newCursor_inv {bitCount head bitsLen : Nat} (h0 : bitCount ≠ 0) (h : bitCount ≤ 8 * bitsLen) : Inv bitsLen (newCursor bitCount head) := by
  unfold newCursor Inv
  refine ⟨by show 0 < bitCount; omega, ?_, h⟩
  show (if head < bitCount then head else 0) < bitCount
  split <;> omega

/-- **C12 / WOZ1 (the guard as on HEAD), `woz1_track_access_no_panic`: for ALL `bytes_used`, `bit_count`, buffer sizes,
saved head positions and operation sequences, a track access neither panics nor hangs** — it is refused (`BadTrack`)
or runs to the end.  The bound of `get_trk_ref` is the length of the buffer the cursor will index, not another field of
the entry. -/
theorem woz1_track_access_no_panic (bytesUsed bitCount bufLen head : Nat) (ops : List Op) :
    woz1TrackAccess .buffer bytesUsed bitCount bufLen head ops ≠ .panic ∧
    woz1TrackAccess .buffer bytesUsed bitCount bufLen head ops ≠ .hang := by
  unfold woz1TrackAccess
  split
  · rename_i hacc
    unfold woz1Accepts at hacc
    simp only [Bool.and_eq_true, ne_eq, decide_eq_true_eq, bne_iff_ne] at hacc
    obtain ⟨c', hr, _⟩ := run_inv (bitsLen := bufLen) ops (newCursor bitCount head) (newCursor_inv hacc.1 (by omega))
    rw [hr]
    exact ⟨by simp, by simp⟩
  · exact ⟨by simp, by simp⟩

/-- … and `get_trk_idx` stays inside the 160-byte TMAP for every track a 5.25 inch image has (`track < 40`;
`from_bytes` only accepts disk type 1, whose `track_count` is 35) -/
theorem woz1_trkIdx_no_panic (map : List Nat) (hm : map.length = 160) (track : Nat) (ht : track < 40) : woz1TrkIdx map track ≠ .panic := by
  unfold woz1TrkIdx
  simp only []
  have h0 : track * 4 < map.length := by omega
  have h2 : track * 4 + 1 < map.length := by omega
  rw [List.getElem?_eq_getElem h0, List.getElem?_eq_getElem h2]
  simp only []
  split
  · simp
  · by_cases hk : track * 4 ≠ 0
    · have h1 : track * 4 - 1 < map.length := by omega
      rw [if_pos hk, List.getElem?_eq_getElem h1]
      simp only []
      split
      · simp
      · split
        · split <;> simp
        · simp
    · rw [if_neg hk]
      simp only []
      split
      · simp
      · split
        · split <;> simp
        · simp

/-- **the seeded change C12-8 in the model**: bounding `bit_count` by the entry's own `bytes_used` accepts
`bytes_used = 8000, bit_count = 64000` on the 6646-byte buffer; with the head left at bit 53168 by the previous track the
very next bit read indexes `bits[6646]`.  (From position 0 it takes 53 169 reads, which every whole-track search performs:
`chss_map` on load, the 13-sector probe on mount.)  Each field alone is harmless. -/
example : woz1TrackAccess .bytesUsed 8000 64000 6646 53168 [.next] = .panic ∧
    woz1TrackAccess .buffer 8000 64000 6646 53168 [.next] = .err ∧
    woz1TrackAccess .bytesUsed 6646 64000 6646 53168 [.next] = .err ∧
    (woz1TrackAccess .bytesUsed 8000 53168 6646 53167 [.next, .next]) = .ok ⟨53168, 1⟩ := by decide +kernel
/-- the zero bit count that `get_trk_ref` refuses would stall the wrap loop -/
example : run 6646 [.next] ⟨0, 0⟩ = .hang ∧ woz1TrackAccess .buffer 0 0 6646 0 [.next] = .err := by decide +kernel

/-- **C12 / WOZ2: the same for `get_trk_ref` + `get_trk_bits_rng` + `new_rw_obj`** — for all starting blocks, block
counts, bit counts, TRKS offsets and buffer sizes: the slice `bits[begin..end]` is inside the TRKS buffer and the bit
count inside the slice, or the track is refused. -/
theorem woz2_track_access_no_panic (startBlock blockCount bitCount offset bitsLen head : Nat) (ops : List Op) :
    woz2TrackAccess true startBlock blockCount bitCount offset bitsLen head ops ≠ .panic ∧
    woz2TrackAccess true startBlock blockCount bitCount offset bitsLen head ops ≠ .hang ∧
    (∀ b e, woz2Range true startBlock blockCount bitCount offset bitsLen = .ok (b, e) → b ≤ e ∧ e ≤ bitsLen) := by
  have key : ∀ b e, woz2Range true startBlock blockCount bitCount offset bitsLen = .ok (b, e) →
      b ≤ e ∧ e ≤ bitsLen ∧ bitCount ≠ 0 ∧ bitCount ≤ 8 * (e - b) := by
    intro b e h
    unfold woz2Range at h
    split at h
    · cases h
    · rename_i h0
      split at h
      · simp at h
      · simp only [if_true] at h
        split at h
        · cases h
        · rename_i hg
          simp only [Outcome.ok.injEq, Prod.mk.injEq] at h
          obtain ⟨rfl, rfl⟩ := h
          refine ⟨by omega, by omega, h0, by omega⟩
  refine ⟨?_, ?_, fun b e h => ⟨(key b e h).1, (key b e h).2.1⟩⟩
  all_goals
    unfold woz2TrackAccess
    cases hr : woz2Range true startBlock blockCount bitCount offset bitsLen with
    | err => simp
    | panic =>
      exfalso
      unfold woz2Range at hr
      split at hr
      · cases hr
      · split at hr
        · simp at hr
        · simp only [if_true] at hr
          split at hr <;> cases hr
    | ok p =>
      obtain ⟨b, e⟩ := p
      obtain ⟨_, _, h0, hb⟩ := key b e hr
      obtain ⟨c', hrun, _⟩ := run_inv (bitsLen := e - b) ops (newCursor bitCount head) (newCursor_inv h0 hb)
      simp only [hrun]
      simp

/-- without the range tests (the code before repair #24) a bit count above the track's blocks leaves the slice -/
example : woz2TrackAccess false 3 1 4097 1536 512 4096 [.next] = .panic ∧ woz2TrackAccess true 3 1 4097 1536 512 4096 [.next] = .err := by
  decide +kernel

/-- **C12 / NIB**: the cursor's bit count is eight times the length of the track slice, so no operation sequence leaves
it (a track capacity of 0 does not occur: `from_bytes` only accepts the two known capacities) -/
theorem nib_track_access_no_panic (trkCap head : Nat) (hc : 0 < trkCap) (ops : List Op) :
    nibTrackAccess trkCap head ops ≠ .panic ∧ nibTrackAccess trkCap head ops ≠ .hang := by
  unfold nibTrackAccess
  obtain ⟨c', hr, _⟩ := run_inv (bitsLen := trkCap) ops (newCursor (trkCap * 8) head) (newCursor_inv (by omega) (by omega))
  rw [hr]
  exact ⟨by simp, by simp⟩

/-! ## `Woz1::from_bytes` -/

theorem woz1Loop_no_panic (buf : List Nat) : ∀ (n ptr : Nat) (st : Woz1State), buf.length - ptr ≤ n → woz1Loop buf ptr st ≠ .panic := by
  intro n
  induction n with
  | zero =>
    intro ptr st h
    unfold woz1Loop
    split
    · simp
    · rename_i hp
      simp only []
      have hc := getNextChunk_next ptr buf
      cases hw : woz1Chunk st (getNextChunk ptr buf) with
      | err => simp
      | panic =>
        exfalso
        unfold woz1Chunk at hw
        split at hw
        · cases hw
        · split at hw
          · split at hw <;> cases hw
          · split at hw
            · split at hw <;> cases hw
            · split at hw <;> cases hw
      | ok st' =>
        simp only []
        split
        · simp
        · exfalso; omega
  | succ n ih =>
    intro ptr st h
    unfold woz1Loop
    split
    · simp
    · simp only []
      have hc := getNextChunk_next ptr buf
      cases hw : woz1Chunk st (getNextChunk ptr buf) with
      | err => simp
      | panic =>
        exfalso
        unfold woz1Chunk at hw
        split at hw
        · cases hw
        · split at hw
          · split at hw <;> cases hw
          · split at hw
            · split at hw <;> cases hw
            · split at hw <;> cases hw
      | ok st' =>
        simp only []
        split
        · simp
        · exact ih _ _ (by omega)

/-- **C12 / `Woz1::from_bytes` (guard as on HEAD): for every byte string and whatever `get_track_solution(0)` does with
the cursor, loading a WOZ1 file neither panics nor hangs**; the chunk walk terminates (`woz1Loop` recurses on the bytes
left, as `getNextChunk_next` guarantees), `Trks::update_from_bytes` slices inside the chunk, the TMAP lookup of track 0
reads `map[0]` and `map[1]` of a 160-byte map. -/
theorem woz1FromBytes_no_panic (buf : List Nat) (ops0 : List Op) :
    woz1FromBytes .buffer buf ops0 ≠ .panic ∧ woz1FromBytes .buffer buf ops0 ≠ .hang := by
  unfold woz1FromBytes
  split
  · exact ⟨by simp, by simp⟩
  · split
    · exact ⟨by simp, by simp⟩
    · have hl := woz1Loop_no_panic buf (buf.length - 12) 12 {} (Nat.le_refl _)
      cases hw : woz1Loop buf 12 {} with
      | err => exact ⟨by simp, by simp⟩
      | panic => exact absurd hw hl
      | ok st =>
        simp only []
        cases st.infoAt with
        | none => exact ⟨by simp, by simp⟩
        | some io =>
          cases st.tmapAt with
          | none => exact ⟨by simp, by simp⟩
          | some to =>
            cases st.trksAt with
            | none => exact ⟨by simp, by simp⟩
            | some k =>
              obtain ⟨ko, kl⟩ := k
              simp only []
              split
              · -- the track-0 step
                unfold woz1Solve0
                simp only []
                have hmap : (((buf.drop (to + 8)).take 160) ++ List.replicate (160 - ((buf.drop (to + 8)).take 160).length) 0).length = 160 := by
                  have : ((buf.drop (to + 8)).take 160).length ≤ 160 := by simp only [List.length_take]; omega
                  simp only [List.length_append, List.length_replicate]
                  omega
                have hni := woz1_trkIdx_no_panic _ hmap 0 (by decide)
                cases hidx : woz1TrkIdx (((buf.drop (to + 8)).take 160) ++ List.replicate (160 - ((buf.drop (to + 8)).take 160).length) 0) 0 with
                | err => exact ⟨by simp, by simp⟩
                | panic => exact absurd hidx hni
                | ok idx =>
                  simp only []
                  split
                  · have := woz1_track_access_no_panic
                      (buf.getD (ko + 8 + woz1TrkLen * idx + 6646) 0 + 256 * buf.getD (ko + 8 + woz1TrkLen * idx + 6647) 0)
                      (buf.getD (ko + 8 + woz1TrkLen * idx + 6648) 0 + 256 * buf.getD (ko + 8 + woz1TrkLen * idx + 6649) 0) woz1BufLen 0 ops0
                    split
                    · rename_i hp; exact absurd hp this.1
                    · rename_i hp; exact absurd hp this.2
                    · exact ⟨by simp, by simp⟩
                  · exact ⟨by simp, by simp⟩
              · exact ⟨by simp, by simp⟩

end A2Verif.C12Woz
