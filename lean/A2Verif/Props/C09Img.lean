import A2Verif.Lemmas.C08Imd
import A2Verif.Lemmas.C08Td0
/-!
# Property C09 (and the image half of C06) at OBJECT level: IMD / TD0 images that were loaded with mixed record types,
written to, and whose metadata was edited, still serialise to bytes that load back to the same object

`to_bytes` takes `&mut self`; for TD0 it rewrites fields of the object (comment flag, header CRC, comment length and CRC).
The comment length is a stored field that is STALE between `put_metadata` and the next `to_bytes`: the theorems below are
about every history of notes edits, saves and sector writes, not about freshly created images only.
-/
namespace A2Verif.C09
open A2Verif.Model

section td0
open A2Verif.Model.C09Td0 A2Verif.Model.C08Td0 A2Verif.Model.C09Crc
open A2Verif.Lemmas.C09Td0 A2Verif.Lemmas.C08Td0

/-- **C09 / C06, TD0 comment block: `to_bytes` as written** (length first, then the CRC over the header fields as they
are at that moment) produces exactly the container bytes of `td0_fromBytes_toBytes`, whatever length and CRC the object
held before — in particular a stale length after the notes were replaced, or `[0,0]` in a header that `put_metadata` just
created. -/
theorem td0_save_bytes (x : Image) : (saveImg x).1 = toBytesNormal x := saveImg_bytes x

/-- **the C06-4 clause**: the bytes of the first save after any notes edit load again, and what loads is the object with
consistent integrity fields (`canon`): header flag and CRC, comment LENGTH and CRC recomputed from the current notes. -/
theorem td0_saved_image_reloads (x : Image) (h : ImageWf x) : fromBytesNormal (saveImg x).1 = some (canon x) := by
  rw [saveImg_bytes]; exact A2Verif.Lemmas.C09Td0.td0_fromBytes_toBytes x h

/-- `put_metadata` of the notes keeps the object one that round-trips: the notes in memory have no NUL and no CR LF (they
are the fixpoint of `normalize_notes`), a header created on the spot gets the 6-byte time stamp; the text must fit the
16-bit length field (a2kit does not check this: `data_length as u16` — outside the theorem). -/
theorem td0_put_notes_wf (x x' : Image) (h : ImageWf x) (stamp v : List Nat) (hs : stamp.length = 6)
    (hl : (encodeText (normalizeNotes v)).length < 65536) (hp : putNotesImg stamp x v = some x') :
    ImageWf x' ∧ x'.comment.map (·.text) = some (normalizeNotes v) ∧ x'.tracks = x.tracks ∧ x'.hdr = x.hdr := by
  simp only [putNotesImg, putNotesC] at hp
  by_cases h0 : 0 ∈ v
  · simp [h0] at hp
  · rw [if_neg h0] at hp
    simp only [Option.map_some, Option.some.injEq] at hp
    subst hp
    obtain ⟨hn1, hn2⟩ := normalizeNotes_spec v h0
    refine ⟨⟨h.hdr, h.nonempty, h.tracks, ?_⟩, ?_, rfl, rfl⟩
    · intro c hc
      simp only [Option.some.injEq] at hc
      subst hc
      cases hcx : x.comment with
      | none => exact ⟨hs, hl, hn2, hn1⟩
      | some c0 => exact ⟨(h.comment c0 hcx).1, hl, hn2, hn1⟩
    · cases x.comment <;> rfl

/-- a refused edit (NUL in the notes) changes nothing -/
theorem td0_put_notes_refused (stamp v : List Nat) (x : Image) (h0 : 0 ∈ v) : putNotesImg stamp x v = none := by
  simp [putNotesImg, putNotesC, h0]

/-- the object after `to_bytes(&mut self)` is still one that round-trips, with the same notes, stamp and tracks -/
theorem td0_save_wf (x : Image) (h : ImageWf x) :
    ImageWf (saveImg x).2 ∧ (saveImg x).2.comment.map (·.text) = x.comment.map (·.text) ∧ (saveImg x).2.tracks = x.tracks := by
  rw [saveImg_obj]
  refine ⟨⟨?_, h.nonempty, h.tracks, ?_⟩, ?_, rfl⟩
  · simp only [canon]; exact syncHdr_length x.hdr _ h.hdr
  · intro c hc
    simp only [canon, Option.map_eq_some_iff] at hc
    obtain ⟨c0, hc0, he⟩ := hc
    subst he
    exact h.comment c0 hc0
  · simp only [canon]; cases x.comment <;> rfl

/-- one step of the life of a TD0 object: a notes edit that is accepted, a save, or a change of the tracks that keeps them
well formed (sector writes: `C08.td0_write_keeps_track_wf`) -/
inductive Td0Step : Image → Image → Prop
  | notes (x x' : Image) (stamp v : List Nat) (hs : stamp.length = 6)
      (hl : (encodeText (normalizeNotes v)).length < 65536) (hp : putNotesImg stamp x v = some x') : Td0Step x x'
  | save (x : Image) : Td0Step x (saveImg x).2
  | tracks (x : Image) (ts : List Track) (hne : ts ≠ []) (hw : ∀ t ∈ ts, TrackWf t) : Td0Step x { x with tracks := ts }

inductive Td0Reach : Image → Image → Prop
  | refl (x : Image) : Td0Reach x x
  | step (x y z : Image) : Td0Reach x y → Td0Step y z → Td0Reach x z

theorem td0_step_wf (x y : Image) (h : ImageWf x) (s : Td0Step x y) : ImageWf y := by
  cases s with
  | notes _ stamp v hs hl hp => exact (td0_put_notes_wf x y h stamp v hs hl hp).1
  | save => exact (td0_save_wf x h).1
  | tracks ts hne hw => exact ⟨h.hdr, hne, hw, h.comment⟩

/-- **C09 / C06, TD0, every history**: starting from any image a2kit can hold (created, or loaded with flagged sectors
and foreign encodings), after ANY sequence of notes edits, saves and sector writes, the bytes of the next save load again
and give the object with the notes as last edited; length and CRC of the comment header in the file are those of the
current notes. -/
theorem td0_any_history_reloads (x y : Image) (h : ImageWf x) (r : Td0Reach x y) :
    ImageWf y ∧ fromBytesNormal (saveImg y).1 = some (canon y) ∧
      (canon y).comment.map (·.text) = y.comment.map (·.text) ∧
      (∀ c, (canon y).comment = some c → c.len = le16 ((encodeText c.text).length % 65536) ∧
        c.crc = le16 (crc16 0 (c.len ++ c.stamp ++ encodeText c.text))) := by
  have hy : ImageWf y := by
    induction r with
    | refl => exact h
    | step y z _ s ih => exact td0_step_wf y z ih s
  refine ⟨hy, td0_saved_image_reloads y hy, ?_, ?_⟩
  · simp only [canon]; cases y.comment <;> rfl
  · intro c hc
    simp only [canon, Option.map_eq_some_iff] at hc
    obtain ⟨c0, _, he⟩ := hc
    subst he
    simp [commentBody]

/-- a one-track image WITHOUT comment block; notes are added (header created with length `[0,0]`), saved, replaced by a
longer text, saved again -/
def exTd0NoComment : Image where
  hdr := [0, 0, 0x15, 0, 1, 0, 0, 1]
  hcrc := [0, 0]
  comment := none
  tracks := [{ nsec := 1, cyl := 0, head := 0, crc := 0, sectors :=
    [{ cyl := 0, head := 0, id := 1, shift := 0, flags := 0x20, crc := 0, data := [] }] }]

/-- non-vacuity on the executable model: both saves load and return the notes of the moment; the length field in the
file follows the notes (1, then 5) although the object held 0, then 1 -/
example :
    let x1 := (putNotesImg [100, 1, 1, 0, 0, 0] exTd0NoComment [97]).getD exTd0NoComment
    let s1 := saveImg x1
    let x2 := (putNotesImg [0, 0, 0, 0, 0, 0] s1.2 [98, 13, 10, 99, 10, 100]).getD exTd0NoComment
    let s2 := saveImg x2
    x1.comment.map (·.len) = some [0, 0] ∧ (fromBytesNormal s1.1).map (fun y => y.comment.map (fun c => (c.len, c.text))) = some (some ([1, 0], [97])) ∧
    x2.comment.map (·.len) = some [1, 0] ∧ (fromBytesNormal s2.1).map (fun y => y.comment.map (fun c => (c.len, c.text))) = some (some ([5, 0], [98, 10, 99, 10, 100])) ∧
    fromBytesNormal s2.1 = some (canon x2) := by decide +kernel

end td0

section imd
open A2Verif.Model.C09Imd A2Verif.Model.C08Imd A2Verif.Lemmas.C09Imd A2Verif.Lemmas.C08Imd

/-- **C09 / C06, IMD object**: an object all of whose tracks are expanded tracks of well-formed records — any mix of
unavailable, normal, deleted-data and error records, as loaded from a foreign dump and after any writes
(`C08.imd_write_keeps_track_wf`) — saves to bytes that load to the same header, comment and tracks, with every head back
at record 0. -/
theorem imd_saved_object_reloads (o : Obj) (h : ImageWf o.image) :
    o.save.bind load = some (some (Obj.mk o.header o.comment ((o.tracks.map (·.trk)).map (fun t => TrackSt.mk t 0 0)))) := by
  have hrt := A2Verif.Lemmas.C09Imd.imd_fromBytes_toBytes o.image h
  simp only [Obj.save]
  cases hb : toBytes o.image with
  | none => simp [hb] at hrt
  | some b =>
    simp only [hb, Option.bind] at hrt ⊢
    simp only [load, hrt, Obj.image]

/-- `put_metadata` of the IMD comment: the terminator byte is refused, any other text is kept as it is and the object
still round-trips -/
theorem imd_put_comment_wf (o : Obj) (h : ImageWf o.image) (v : List Nat) (hv : 0x1A ∉ v) :
    ImageWf ({ o with comment := v } : Obj).image :=
  ⟨h.hlen, h.sig, fun _ hb he => hv (he ▸ hb), h.some, h.tracks⟩

end imd

end A2Verif.C09
