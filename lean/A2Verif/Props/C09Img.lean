import A2Verif.Lemmas.C08Imd
import A2Verif.Lemmas.C08Td0
import A2Verif.Model.C09Meta
import A2Verif.Gen.C09Const
/-!
# Property C09 (and the image half of C06) at OBJECT level: IMD / TD0 images that were loaded with mixed record types,
written to, and whose metadata was edited, still serialise to bytes that load back to the same object

`to_bytes` takes `&mut self`; for TD0 it rewrites fields of the object (comment flag, header CRC, comment length and CRC).
The comment length is a stored field that is STALE between `put_metadata` and the next `to_bytes`: the theorems below are
about every history of notes edits, saves and sector writes, not about freshly created images only.
-/
namespace A2Verif.C09
open A2Verif.Model

section td0
open A2Verif.Model.C09Td0 A2Verif.Model.C08Td0 A2Verif.Model.C09Crc
open A2Verif.Lemmas.C09Td0 A2Verif.Lemmas.C08Td0

/-- **C09 / C06, TD0 comment block: `to_bytes` as written** (length first, then the CRC over the header fields as they
are at that moment) produces exactly the container bytes of `td0_fromBytes_toBytes`, whatever length and CRC the object
held before — in particular a stale length after the notes were replaced, or `[0,0]` in a header that `put_metadata` just
created. -/
theorem td0_save_bytes (x : Image) : (saveImg x).1 = toBytesNormal x := saveImg_bytes x

/-- **the C06-4 clause**: the bytes of the first save after any notes edit load again, and what loads is the object with
consistent integrity fields (`canon`): header flag and CRC, comment LENGTH and CRC recomputed from the current notes. -/
theorem td0_saved_image_reloads (x : Image) (h : ImageWf x) : fromBytesNormal (saveImg x).1 = some (canon x) := by
  rw [saveImg_bytes]; exact A2Verif.Lemmas.C09Td0.td0_fromBytes_toBytes x h

/-- `put_metadata` of the notes keeps the object one that round-trips: the notes in memory have no NUL and no CR LF (they
are the fixpoint of `normalize_notes`), a header created on the spot gets the 6-byte time stamp; the text must fit the
16-bit length field (a2kit does not check this: `data_length as u16` — outside the theorem). -/
theorem td0_put_notes_wf (x x' : Image) (h : ImageWf x) (stamp v : List Nat) (hs : stamp.length = 6)
    (hl : (encodeText (normalizeNotes v)).length < 65536) (hp : putNotesImg stamp x v = some x') :
    ImageWf x' ∧ x'.comment.map (·.text) = some (normalizeNotes v) ∧ x'.tracks = x.tracks ∧ x'.hdr = x.hdr := by
  simp only [putNotesImg, putNotesC] at hp
  by_cases h0 : 0 ∈ v
  · simp [h0] at hp
  · rw [if_neg h0] at hp
    simp only [Option.map_some, Option.some.injEq] at hp
    subst hp
    obtain ⟨hn1, hn2⟩ := normalizeNotes_spec v h0
    refine ⟨⟨h.hdr, h.nonempty, h.tracks, ?_⟩, ?_, rfl, rfl⟩
    · intro c hc
      simp only [Option.some.injEq] at hc
      subst hc
      cases hcx : x.comment with
      | none => exact ⟨hs, hl, hn2, hn1⟩
      | some c0 => exact ⟨(h.comment c0 hcx).1, hl, hn2, hn1⟩
    · cases x.comment <;> rfl

/-- a refused edit (NUL in the notes) changes nothing -/
theorem td0_put_notes_refused (stamp v : List Nat) (x : Image) (h0 : 0 ∈ v) : putNotesImg stamp x v = none := by
  simp [putNotesImg, putNotesC, h0]

/-- the object after `to_bytes(&mut self)` is still one that round-trips, with the same notes, stamp and tracks -/
theorem td0_save_wf (x : Image) (h : ImageWf x) :
    ImageWf (saveImg x).2 ∧ (saveImg x).2.comment.map (·.text) = x.comment.map (·.text) ∧ (saveImg x).2.tracks = x.tracks := by
  rw [saveImg_obj]
  refine ⟨⟨?_, h.nonempty, h.tracks, ?_⟩, ?_, rfl⟩
  · simp only [canon]; exact syncHdr_length x.hdr _ h.hdr
  · intro c hc
    simp only [canon, Option.map_eq_some_iff] at hc
    obtain ⟨c0, hc0, he⟩ := hc
    subst he
    exact h.comment c0 hc0
  · simp only [canon]; cases x.comment <;> rfl

/-- one step of the life of a TD0 object: a notes edit that is accepted, a save, or a change of the tracks that keeps them
well formed (sector writes: `C08.td0_write_keeps_track_wf`) -/
inductive Td0Step : Image → Image → Prop
  | notes (x x' : Image) (stamp v : List Nat) (hs : stamp.length = 6)
      (hl : (encodeText (normalizeNotes v)).length < 65536) (hp : putNotesImg stamp x v = some x') : Td0Step x x'
  | save (x : Image) : Td0Step x (saveImg x).2
  | tracks (x : Image) (ts : List Track) (hne : ts ≠ []) (hw : ∀ t ∈ ts, TrackWf t) : Td0Step x { x with tracks := ts }

inductive Td0Reach : Image → Image → Prop
  | refl (x : Image) : Td0Reach x x
  | step (x y z : Image) : Td0Reach x y → Td0Step y z → Td0Reach x z

theorem td0_step_wf (x y : Image) (h : ImageWf x) (s : Td0Step x y) : ImageWf y := by
  cases s with
  | notes _ stamp v hs hl hp => exact (td0_put_notes_wf x y h stamp v hs hl hp).1
  | save => exact (td0_save_wf x h).1
  | tracks ts hne hw => exact ⟨h.hdr, hne, hw, h.comment⟩

/-- **C09 / C06, TD0, every history**: starting from any image a2kit can hold (created, or loaded with flagged sectors
and foreign encodings), after ANY sequence of notes edits, saves and sector writes, the bytes of the next save load again
and give the object with the notes as last edited; length and CRC of the comment header in the file are those of the
current notes. -/
theorem td0_any_history_reloads (x y : Image) (h : ImageWf x) (r : Td0Reach x y) :
    ImageWf y ∧ fromBytesNormal (saveImg y).1 = some (canon y) ∧
      (canon y).comment.map (·.text) = y.comment.map (·.text) ∧
      (∀ c, (canon y).comment = some c → c.len = le16 ((encodeText c.text).length % 65536) ∧
        c.crc = le16 (crc16 0 (c.len ++ c.stamp ++ encodeText c.text))) := by
  have hy : ImageWf y := by
    induction r with
    | refl => exact h
    | step y z _ s ih => exact td0_step_wf y z ih s
  refine ⟨hy, td0_saved_image_reloads y hy, ?_, ?_⟩
  · simp only [canon]; cases y.comment <;> rfl
  · intro c hc
    simp only [canon, Option.map_eq_some_iff] at hc
    obtain ⟨c0, _, he⟩ := hc
    subst he
    simp [commentBody]

/-- **C09, TD0, files written by other programs** (the gap the seeded change C09-7 lived in).  For EVERY byte string that
`from_bytes` accepts and EVERY outcome of the lossy UTF-8 conversion of its comment bytes (`lossy` is an arbitrary function:
code-page bytes become replacement characters, anything may get longer or shorter), the object is well formed: the notes in
memory have no NUL and no CR LF pair — whatever `\r\0`, CR LF, lone CR / LF or NULs the file had —, they fit the 16-bit
length field (repaired tree: over-long notes are cut at a character boundary), the time stamp has 6 bytes, every track has the
sectors its count byte says, every sector record a right length word.  The length and CRC fields of the comment header
object still hold the FILE's values — which `to_bytes` must not trust (`td0_foreign_history_reloads`). -/
theorem td0_foreign_wf (lossy : List Nat → List Nat) (b : List Nat) (x : Image)
    (h : fromBytesNormalD lossy true b = some x) : ImageWf x := by
  unfold fromBytesNormalD at h
  simp only [↓reduceIte] at h
  split at h
  · simp at h
  · rename_i hlen
    split at h
    · simp at h
    · split at h
      · simp at h
      · have hhdr : ((b.take 10).drop 2).length = 8 := by simp only [List.length_drop, List.length_take]; omega
        split at h
        · -- with a comment block
          split at h
          · rename_i c0 c1 l0 l1 r2 hr
            split at h
            · simp at h
            · rename_i h6
              split at h
              · simp at h
              · split at h
                · simp at h
                · split at h
                  · simp at h
                  · rename_i ts hne hts
                    simp only [Option.some.injEq] at h
                    subst h
                    have hd := decodeText_spec (lossy ((r2.drop 6).take (unle16 l0 l1)))
                    have hcl := clipNotes_spec 65535 _ hd.1 hd.2
                    refine ⟨hhdr, ?_, readTracks_wf _ _ _ hts, ?_⟩
                    · intro h0; exact hne h0
                    · intro c hc
                      simp only [Option.some.injEq] at hc
                      subst hc
                      refine ⟨by simp only [List.length_take]; omega, ?_, hcl.2, hcl.1⟩
                      rw [encodeText_length _ hcl.1]
                      have := clipNotes_length 65535 (decodeText (lossy ((r2.drop 6).take (unle16 l0 l1))))
                      omega
                  · simp at h
          · simp at h
        · split at h
          · simp at h
          · rename_i ts hne hts
            simp only [Option.some.injEq] at h
            subst h
            refine ⟨hhdr, ?_, readTracks_wf _ _ _ hts, ?_⟩
            · intro h0; exact hne h0
            · intro c hc; simp at hc
          · simp at h

/-- **C09 / C06, TD0, every history of a LOADED foreign object**: load any accepted byte string, then any sequence of notes edits,
saves and sector writes — also none at all: the save of the untouched object — and the next save loads again with the notes the
object shows; the comment length in the file is the length of those notes, not the length the foreign file declared. -/
theorem td0_foreign_history_reloads (lossy : List Nat → List Nat) (b : List Nat) (x y : Image)
    (h : fromBytesNormalD lossy true b = some x) (r : Td0Reach x y) :
    fromBytesNormal (saveImg y).1 = some (canon y) ∧ (canon y).comment.map (·.text) = y.comment.map (·.text) ∧
      (∀ c, (canon y).comment = some c → c.len = le16 ((encodeText c.text).length % 65536)) := by
  obtain ⟨_, h2, h3, h4⟩ := td0_any_history_reloads x y (td0_foreign_wf lossy b x h) r
  exact ⟨h2, h3, fun c hc => (h4 c hc).1⟩

/-- `put_metadata` of the notes in the repaired tree needs no side condition: what it accepts fits the length field. -/
theorem td0_put_notes_limited (x x' : Image) (h : ImageWf x) (stamp v : List Nat) (hs : stamp.length = 6)
    (hp : putNotesImgL true stamp x v = some x') : ImageWf x' ∧ Td0Step x x' := by
  simp only [putNotesImgL, putNotesCL] at hp
  split at hp
  · simp at hp
  · rename_i hlim
    have hp' : putNotesImg stamp x v = some x' := hp
    by_cases h0 : 0 ∈ v
    · simp [putNotesImg, putNotesC, h0] at hp'
    · have hl : (encodeText (normalizeNotes v)).length < 65536 := by
        rw [encodeText_length _ (normalizeNotes_spec v h0).1]
        have : ¬ ((normalizeNotes v).length > 65535) := fun hgt => hlim ⟨trivial, hgt⟩
        omega
      exact ⟨(td0_put_notes_wf x x' h stamp v hs hl hp').1, Td0Step.notes x x' stamp v hs hl hp'⟩

/-- a one-track image WITHOUT comment block; notes are added (header created with length `[0,0]`), saved, replaced by a
longer text, saved again -/
def exTd0NoComment : Image where
  hdr := [0, 0, 0x15, 0, 1, 0, 0, 1]
  hcrc := [0, 0]
  comment := none
  tracks := [{ nsec := 1, cyl := 0, head := 0, crc := 0, sectors :=
    [{ cyl := 0, head := 0, id := 1, shift := 0, flags := 0x20, crc := 0, data := [] }] }]

/-- non-vacuity on the executable model: both saves load and return the notes of the moment; the length field in the
file follows the notes (1, then 5) although the object held 0, then 1 -/
example :
    let x1 := (putNotesImg [100, 1, 1, 0, 0, 0] exTd0NoComment [97]).getD exTd0NoComment
    let s1 := saveImg x1
    let x2 := (putNotesImg [0, 0, 0, 0, 0, 0] s1.2 [98, 13, 10, 99, 10, 100]).getD exTd0NoComment
    let s2 := saveImg x2
    x1.comment.map (·.len) = some [0, 0] ∧ (fromBytesNormal s1.1).map (fun y => y.comment.map (fun c => (c.len, c.text))) = some (some ([1, 0], [97])) ∧
    x2.comment.map (·.len) = some [1, 0] ∧ (fromBytesNormal s2.1).map (fun y => y.comment.map (fun c => (c.len, c.text))) = some (some ([5, 0], [98, 10, 99, 10, 100])) ∧
    fromBytesNormal s2.1 = some (canon x2) := by decide +kernel

end td0

section imd
open A2Verif.Model.C09Imd A2Verif.Model.C08Imd A2Verif.Lemmas.C09Imd A2Verif.Lemmas.C08Imd

/-- **C09 / C06, IMD object**: an object all of whose tracks are expanded tracks of well-formed records — any mix of
unavailable, normal, deleted-data and error records, as loaded from a foreign dump and after any writes
(`C08.imd_write_keeps_track_wf`) — saves to bytes that load to the same header, comment and tracks, with every head back
at record 0. -/
theorem imd_saved_object_reloads (o : Obj) (h : ImageWf o.image) :
    o.save.bind load = some (some (Obj.mk o.header o.comment ((o.tracks.map (·.trk)).map (fun t => TrackSt.mk t 0 0)))) := by
  have hrt := A2Verif.Lemmas.C09Imd.imd_fromBytes_toBytes o.image h
  simp only [Obj.save]
  cases hb : toBytes o.image with
  | none => simp [hb] at hrt
  | some b =>
    simp only [hb, Option.bind] at hrt ⊢
    simp only [load, hrt, Obj.image]

/-- `put_metadata` of the IMD comment: the terminator byte is refused, any other text is kept as it is and the object
still round-trips -/
theorem imd_put_comment_wf (o : Obj) (h : ImageWf o.image) (v : List Nat) (hv : 0x1A ∉ v) :
    ImageWf ({ o with comment := v } : Obj).image :=
  ⟨h.hlen, h.sig, fun _ hb he => hv (he ▸ hb), h.some, h.tracks⟩

end imd

section wozkind
open A2Verif.Gen.C09Const A2Verif.Model.C09Meta

/-- `Woz2::from_bytes`, the disk kind: a first guess from the INFO chunk (`disk_type`, `boot_sector_format`, `disk_sides`),
then — `solves` = the translator found the `get_track_solution(0)` test standing first and alone — the solution of track 0
replaces it.  With something in front of that test (the seeded change C09-8: "INFO says which format, no need to search") the
editable item `boot_sector_format` decides. -/
def wozKindAfterLoad (solves : Bool) (infoGuess bsf : Nat) (track0 : Option Nat) : Nat :=
  if solves then track0.getD infoGuess
  else if bsf = 1 ∨ bsf = 2 then infoGuess else track0.getD infoGuess

/-- **C09, kind after reload is a function of the track data** (`…_current_tree`: re-extracted from src/img/woz2.rs and
woz1.rs on every run).  In the tree being checked `from_bytes` solves track 0 unconditionally; hence for a track that solves,
the kind after loading is the same whatever the INFO items say — in particular whatever value `put_metadata` stored in
`boot_sector_format` before the save. -/
theorem woz_kind_from_tracks_current_tree :
    WOZ2_KIND_SOLVES_TRACK0 = 1 ∧ WOZ1_KIND_SOLVES_TRACK0 = 1 ∧
    ∀ guess guess' bsf bsf' k, wozKindAfterLoad (WOZ2_KIND_SOLVES_TRACK0 == 1) guess bsf (some k) =
      wozKindAfterLoad (WOZ2_KIND_SOLVES_TRACK0 == 1) guess' bsf' (some k) := by
  refine ⟨by decide, by decide, ?_⟩
  intro g g' b b' k
  have : (WOZ2_KIND_SOLVES_TRACK0 == 1) = true := by decide
  simp [wozKindAfterLoad, this]

/-- what goes wrong without it: with the test guarded by INFO, a 16-sector disk saved with `boot_sector_format = 2` loads as the
kind INFO suggests, not the one on its tracks -/
example : wozKindAfterLoad false 13 2 (some 16) = 13 ∧ wozKindAfterLoad true 13 2 (some 16) = 16 := by decide

/-- **C09, metadata value domains** (`…_current_tree`): the values `Info::verify_value` of the current source enumerates for the
one-byte INFO items are exactly the spellings the Lean key tables (`Model.C09Meta.table`) accept — so `meta_put_get_partial`
speaks about the domain the code has now (the harness offers all 256 values of every one-byte item to the real code and to
the tables: `metaput`). -/
theorem woz_verify_domains_current_tree :
    WOZ2_OK_WRITE_PROTECTED = [0, 1] ∧ WOZ2_OK_SYNCHRONIZED = [0, 1] ∧ WOZ2_OK_CLEANED = [0, 1] ∧
    WOZ2_OK_BOOT_SECTOR_FORMAT = [0, 1, 2, 3] ∧ WOZ2_OK_DISK_TYPE = [1, 2] ∧ WOZ2_OK_DISK_SIDES = [1, 2] ∧
    WOZ1_OK_WRITE_PROTECTED = [0, 1] ∧ WOZ1_OK_SYNCHRONIZED = [0, 1] ∧ WOZ1_OK_CLEANED = [0, 1] ∧ WOZ1_OK_DISK_TYPE = [1, 2] ∧
    (∀ v : Fin 256, (accept (.hexOneOf 1 [sp "00", sp "01", sp "02", sp "03"]) (encodeHex [v.val])).isSome =
      WOZ2_OK_BOOT_SECTOR_FORMAT.contains v.val) ∧
    (∀ v : Fin 256, (accept (.hexOneOf 1 b01) (encodeHex [v.val])).isSome = WOZ2_OK_WRITE_PROTECTED.contains v.val) := by
  refine ⟨by decide, by decide, by decide, by decide, by decide, by decide, by decide, by decide, by decide, by decide, ?_, ?_⟩ <;>
    decide +kernel

end wozkind

end A2Verif.C09
