import A2Verif.Lemmas.C07LawsFlat
import A2Verif.Lemmas.C07LawsNib
import A2Verif.Lemmas.C07LawsImd
import A2Verif.Lemmas.C07LawsImg
import A2Verif.Props.C07
/-!
# Property C07, round 3 — container independence with the store laws of EVERY container proved

`Props/C07.lean` shows: equal address maps + per-address store laws ⇒ equal content after any history, with the store
laws as hypotheses for every format but DO/PO.  This file discharges them.  `Lemmas/C07Laws.lean` is the abstract part
(`SecStore`, `SecLaws`, `run_ref`, `sector_independence`, `wrBlock`, `block_independence`); the instances are
* NIB, WOZ1, WOZ2 (16 sectors 6&2, 13 sectors 5&3): `nibStore`, `nib_laws`, `nib_create_shows` — from
  `C08Track.image_read / image_write / image_invalid_refused / create_holds` (whole images at the bit level);
* DO, D13, 2MG(DO): `doSecStore`, `d13SecStore`, `mgDoSecStore` — from the `StoreLaws` / `Refuses` of `Props/C08.lean`;
* IMG: `imgSecStore` (`Lemmas/C07LawsImg.lean`, from `IbmImg.sector_laws`); IMD: `imdStore` (`Lemmas/C07LawsImd.lean`: per-track laws
  from `C08.imd_read_sector / imd_write_sector / imd_absent_refused`, lifted to the whole object by `multi_laws`,
  `Lemmas/C07LawsMulti.lean`).  TD0: the per-track laws are `C08.td0_read_after_write_and_frame`; their lifting through
  `multi_laws` is not done (see design/C07.md).

The theorems below have NO hypothesis about the formats: every store is the executable model of the container itself,
every initial state is the model of its `create`.
-/
namespace A2Verif.C07All
open A2Verif.Model.TrackImg
open A2Verif.Model.AddrMap (Block AKind wozPieces)

/-! ## Apple 5.25 inch, 16 sectors (`A2_DOS33_KIND`): DO, NIB, WOZ1, WOZ2, 2MG(DO) — sector level

(PO and 2MG(PO) have no sector interface — `PO::read_sector` is an error; they enter at the block level.) -/

inductive Fmt16
  | dsk | nib | woz1 | woz2 | mgdo
deriving DecidableEq, Repr

/-- the model of the container; `vol` is the volume number of the address fields (nibble formats only) -/
def store16 (vol : Nat) : Fmt16 → SecStore
  | .dsk => doSecStore
  | .mgdo => mgDoSecStore
  | .nib => nibStore .nib true vol
  | .woz1 => nibStore .woz1 true vol
  | .woz2 => nibStore .woz2 true vol

/-- the freshly created image: `DO::create(35,16)`, `Dot2mg` around it, `Nib::create`, `Woz1::create`, `Woz2::create` -/
def fresh16 (vol : Nat) : (f : Fmt16) → (store16 vol f).St
  | .dsk => doBlank
  | .mgdo => ⟨false, .dos doBlank⟩
  | .nib => create Model.Track.Trk .nib true vol
  | .woz1 => create Model.Track.Trk .woz1 true vol
  | .woz2 => create Model.Track.Trk .woz2 true vol

/-- **store laws of every 16-sector container** (no hypothesis) -/
theorem laws16 (vol : Nat) (f : Fmt16) : SecLaws (store16 vol f) := by
  cases f
  · exact do_laws
  · exact nib_laws .nib true vol
  · exact nib_laws .woz1 true vol
  · exact nib_laws .woz2 true vol
  · exact mg_do_laws

theorem fresh16_shows (vol : Nat) (hv : vol < 256) (f : Fmt16) :
    Shows (store16 vol f) (fresh16 vol f) (zeros fun _ => 256) := by
  cases f
  · exact do_blank_shows
  · exact nib_create_shows .nib true vol hv
  · exact nib_create_shows .woz1 true vol hv
  · exact nib_create_shows .woz2 true vol hv
  · exact mg_do_blank_shows

theorem valid16 (vol : Nat) (f : Fmt16) : (store16 vol f).valid = validNib true ∧ (store16 vol f).unit = fun _ => 256 := by
  cases f <;> exact ⟨rfl, rfl⟩

/-- **C07, sector level, 5.25 inch 16 sectors, every pair of formats, no hypotheses.**  Take any two of DO, NIB,
WOZ1, WOZ2, 2MG(DO), freshly created (volume numbers may even differ), and apply the same history of physical sector
reads and writes — valid or invalid addresses, byte data of any length, any order.  Then every operation returns the
same result on both (same data, or refused by both), and afterwards every physical sector `(track, 0, sector)` reads
the same bytes from both. -/
theorem container_independence_sectors_525_16 (vol vol' : Nat) (hv : vol < 256) (hv' : vol' < 256) (f g : Fmt16)
    (ops : List SOp) (hb : ∀ op ∈ ops, op.Bytes) :
    ((store16 vol f).run (fresh16 vol f) ops).1 = ((store16 vol' g).run (fresh16 vol' g) ops).1 ∧
    ∀ a, validNib true a = true →
      ((store16 vol f).rd ((store16 vol f).run (fresh16 vol f) ops).2 a).1 =
      ((store16 vol' g).rd ((store16 vol' g).run (fresh16 vol' g) ops).2 a).1 := by
  have hvf := valid16 vol f
  have hvg := valid16 vol' g
  obtain ⟨e, m', h1, h2⟩ := sector_independence (store16 vol f) (store16 vol' g) (laws16 vol f) (laws16 vol' g)
    (fun a => by rw [hvf.1, hvg.1]) (fun a _ => by rw [hvf.2, hvg.2]) _ _ _
    (fresh16_shows vol hv f) (fresh16_shows vol' hv' g) ops hb
  refine ⟨e, fun a ha => ?_⟩
  exact shows_same_reads h1 h2 (fun a => by rw [hvf.1, hvg.1]) a (by rw [hvf.1]; exact ha)

/-! ## Apple 5.25 inch, 13 sectors (`A2_DOS32_KIND`): D13, NIB, WOZ1, WOZ2 — sector level -/

inductive Fmt13
  | d13 | nib | woz1 | woz2
deriving DecidableEq, Repr

def store13 (vol : Nat) : Fmt13 → SecStore
  | .d13 => d13SecStore
  | .nib => nibStore .nib false vol
  | .woz1 => nibStore .woz1 false vol
  | .woz2 => nibStore .woz2 false vol

def fresh13 (vol : Nat) : (f : Fmt13) → (store13 vol f).St
  | .d13 => d13Blank
  | .nib => create Model.Track.Trk .nib false vol
  | .woz1 => create Model.Track.Trk .woz1 false vol
  | .woz2 => create Model.Track.Trk .woz2 false vol

theorem laws13 (vol : Nat) (f : Fmt13) : SecLaws (store13 vol f) := by
  cases f
  · exact d13_laws
  · exact nib_laws .nib false vol
  · exact nib_laws .woz1 false vol
  · exact nib_laws .woz2 false vol

theorem fresh13_shows (vol : Nat) (hv : vol < 256) (f : Fmt13) :
    Shows (store13 vol f) (fresh13 vol f) (zeros fun _ => 256) := by
  cases f
  · exact d13_blank_shows
  · exact nib_create_shows .nib false vol hv
  · exact nib_create_shows .woz1 false vol hv
  · exact nib_create_shows .woz2 false vol hv

theorem valid13 (vol : Nat) (f : Fmt13) : (store13 vol f).valid = validNib false ∧ (store13 vol f).unit = fun _ => 256 := by
  cases f <;> exact ⟨rfl, rfl⟩

/-- **C07, sector level, 5.25 inch 13 sectors, every pair of D13, NIB, WOZ1, WOZ2, no hypotheses** (the nibble
formats write their first data fields here: the 13-sector formatter leaves the data areas empty). -/
theorem container_independence_sectors_525_13 (vol vol' : Nat) (hv : vol < 256) (hv' : vol' < 256) (f g : Fmt13)
    (ops : List SOp) (hb : ∀ op ∈ ops, op.Bytes) :
    ((store13 vol f).run (fresh13 vol f) ops).1 = ((store13 vol' g).run (fresh13 vol' g) ops).1 ∧
    ∀ a, validNib false a = true →
      ((store13 vol f).rd ((store13 vol f).run (fresh13 vol f) ops).2 a).1 =
      ((store13 vol' g).rd ((store13 vol' g).run (fresh13 vol' g) ops).2 a).1 := by
  have hvf := valid13 vol f
  have hvg := valid13 vol' g
  obtain ⟨e, m', h1, h2⟩ := sector_independence (store13 vol f) (store13 vol' g) (laws13 vol f) (laws13 vol' g)
    (fun a => by rw [hvf.1, hvg.1]) (fun a _ => by rw [hvf.2, hvg.2]) _ _ _
    (fresh13_shows vol hv f) (fresh13_shows vol' hv' g) ops hb
  refine ⟨e, fun a ha => ?_⟩
  exact shows_same_reads h1 h2 (fun a => by rw [hvf.1, hvg.1]) a (by rw [hvf.1]; exact ha)

/-! ## block level on the nibble containers: `woz::read_block` / `write_block` (shared by NIB, WOZ1, WOZ2)

`get_ts_list` (`AddrMap.wozTsList` / `wozPieces`: DOS 3.3 skew, ProDOS block → two sectors, CP/M records → sectors,
`track >= num_tracks` refused) gives the ordered (track, sector id) list; `write_block` quantizes the data to
`len·256` bytes and calls `write_sector` once per entry with consecutive 256-byte chunks — `wrBlock` of
`Lemmas/C07Laws.lean` over `locNibRaw`.  (The Rust loop calls the track-level routine with `(track as u8, sector as u8)`;
`DiskImage::write_sector`, which `nibStore.wr` models, adds `cyl_head_to_track` with head 0, the `sector > 255` test and
`quantize_block(.., 256)`, all identities on the arguments the loop passes once its own `track >= num_tracks` test
passed.  The address maps are tied to the real `write_block` by the `c07 pieces` requests.) -/

def locNibRaw (kind : AKind) (blk : Block) : Option (List CHS) :=
  match wozPieces 35 kind blk with
  | .ok (ts, len) => if len = 256 then some (ts.map fun p => (p.1, 0, p.2)) else none
  | _ => none

/-- block addresses a file system can issue on this kind of disk (as in `Props/C07.lean`): ProDOS / Pascal blocks
`< 280`, DOS 3.3 sectors, CP/M blocks of the Apple DPB -/
def locNib16 (blk : Block) : Option (List CHS) :=
  if A2Verif.C07.Supported .nib blk then locNibRaw .dos33 blk else none

/-- DOS 3.2 sectors `t < 35`, `s < 13` -/
def locNib13 : Block → Option (List CHS)
  | .d13 t s => if t < 35 ∧ s < 13 then locNibRaw .dos32 (.d13 t s) else none
  | _ => none

def allValidB (six : Bool) : Option (List CHS) → Bool
  | some as => as.all (validNib six)
  | none => true

theorem allValidB_spec (six : Bool) (o : Option (List CHS)) (h : allValidB six o = true) (as : List CHS)
    (ho : o = some as) : ∀ a ∈ as, validNib six a = true := by
  subst ho
  exact fun a ha => (List.all_eq_true.mp h) a ha

theorem locNib16_table :
    (∀ b : Fin 280, allValidB true (locNibRaw .dos33 (.po b.val)) = true) ∧
    (∀ t : Fin 35, ∀ s : Fin 16, allValidB true (locNibRaw .dos33 (.dos t.val s.val)) = true) ∧
    (∀ b : Fin 128, allValidB true (locNibRaw .dos33 (.cpm b.val A2Verif.C07.appleDpb.1 A2Verif.C07.appleDpb.2.1)) = true) := by
  decide +kernel

theorem locNib13_table : ∀ t : Fin 35, ∀ s : Fin 13, allValidB false (locNibRaw .dos32 (.d13 t.val s.val)) = true := by
  decide +kernel

/-- every supported block is located at physical sectors that exist -/
theorem locNib16_valid (blk : Block) (as : List CHS) (h : locNib16 blk = some as) : ∀ a ∈ as, validNib true a = true := by
  unfold locNib16 at h
  by_cases hs : A2Verif.C07.Supported .nib blk
  · rw [if_pos hs] at h
    cases blk with
    | po b => exact allValidB_spec true _ (locNib16_table.1 ⟨b, hs⟩) as h
    | dos t s => exact allValidB_spec true _ (locNib16_table.2.1 ⟨t, hs.2.1⟩ ⟨s, hs.2.2⟩) as h
    | cpm b bsh off =>
      obtain ⟨_, hb, h1, h2⟩ := hs
      subst h1 h2
      exact allValidB_spec true _ (locNib16_table.2.2 ⟨b, hb⟩) as h
    | d13 t s => exact absurd hs (by simp [A2Verif.C07.Supported])
    | fat a n => exact absurd hs (by simp [A2Verif.C07.Supported])
  · rw [if_neg hs] at h; cases h

theorem locNib13_valid (blk : Block) (as : List CHS) (h : locNib13 blk = some as) : ∀ a ∈ as, validNib false a = true := by
  cases blk with
  | d13 t s =>
    simp only [locNib13] at h
    by_cases hs : t < 35 ∧ s < 13
    · rw [if_pos hs] at h
      exact allValidB_spec false _ (locNib13_table ⟨t, hs.1⟩ ⟨s, hs.2⟩) as h
    · rw [if_neg hs] at h; cases h
  | _ => simp [locNib13] at h

/-- the skew really is in the map: ProDOS block 1 = physical sectors 4 and 6 of track 0; DOS 3.3 sector 1 of track 17 =
physical sector 13; a 13-sector "block" is the sector itself -/
example : locNib16 (.po 1) = some [(0, 0, 4), (0, 0, 6)] ∧ locNib16 (.dos 17 1) = some [(17, 0, 13)] ∧
    locNib13 (.d13 3 7) = some [(3, 0, 7)] ∧ locNib16 (.po 280) = none := by decide +kernel

inductive NibFmt
  | nib | woz1 | woz2
deriving DecidableEq, Repr

def NibFmt.to16 : NibFmt → Fmt16
  | .nib => .nib | .woz1 => .woz1 | .woz2 => .woz2
def NibFmt.to13 : NibFmt → Fmt13
  | .nib => .nib | .woz1 => .woz1 | .woz2 => .woz2

/-- **C07, block level, nibble containers, 16 sectors**: any two of NIB, WOZ1, WOZ2 freshly created, the same
history of BLOCK reads/writes (ProDOS/Pascal blocks, DOS 3.3 sectors, CP/M blocks — skew applied by `get_ts_list`)
mixed with physical SECTOR reads/writes: every operation returns the same, afterwards every physical sector and every
block read the same.  Against a DO / 2MG(DO) image the same holds for the sector operations and the sector content
(`container_independence_sectors_525_16`); the DO/PO side of the block maps is `C07.locate525_agree` +
`C07.do_po_content_independent`. -/
theorem container_independence_blocks_nib16 (vol vol' : Nat) (hv : vol < 256) (hv' : vol' < 256) (f g : NibFmt)
    (ops : List (BOp Block)) (hb : ∀ op ∈ ops, op.Bytes) :
    (brun (store16 vol f.to16) locNib16 (fresh16 vol f.to16) ops).1 =
      (brun (store16 vol' g.to16) locNib16 (fresh16 vol' g.to16) ops).1 ∧
    (∀ a, validNib true a = true →
      ((store16 vol f.to16).rd (brun (store16 vol f.to16) locNib16 (fresh16 vol f.to16) ops).2 a).1 =
      ((store16 vol' g.to16).rd (brun (store16 vol' g.to16) locNib16 (fresh16 vol' g.to16) ops).2 a).1) ∧
    ∀ blk, (rdBlock (store16 vol f.to16) locNib16 (brun (store16 vol f.to16) locNib16 (fresh16 vol f.to16) ops).2 blk).1 =
      (rdBlock (store16 vol' g.to16) locNib16 (brun (store16 vol' g.to16) locNib16 (fresh16 vol' g.to16) ops).2 blk).1 := by
  have hvf := valid16 vol f.to16
  have hvg := valid16 vol' g.to16
  obtain ⟨e, ⟨m', h1, h2⟩, hr⟩ := block_independence (store16 vol f.to16) (store16 vol' g.to16) (laws16 vol _) (laws16 vol' _)
    (fun a => by rw [hvf.1, hvg.1]) (fun a _ => by rw [hvf.2, hvg.2]) locNib16 locNib16
    (by rw [hvf.1]; exact locNib16_valid) (by rw [hvg.1]; exact locNib16_valid) _ _ _
    (fresh16_shows vol hv f.to16) (fresh16_shows vol' hv' g.to16)
    ops hb (fun _ _ _ _ => rfl)
  exact ⟨e, fun a ha => shows_same_reads h1 h2 (fun a => by rw [hvf.1, hvg.1]) a (by rw [hvf.1]; exact ha),
         fun blk => hr blk rfl⟩

/-- … and what a block write does to the sectors, on EVERY 16-sector sector store (DO and 2MG(DO) included, if their
blocks are written through the sector interface): the results and the final content are those of the reference map
under `locNib16` -/
theorem blocks16_ref (vol : Nat) (hv : vol < 256) (f : Fmt16) (ops : List (BOp Block)) (hb : ∀ op ∈ ops, op.Bytes) :
    (brun (store16 vol f) locNib16 (fresh16 vol f) ops).1 =
      (refBRun (validNib true) (fun _ => 256) locNib16 (zeros fun _ => 256) ops).1 ∧
    Shows (store16 vol f) (brun (store16 vol f) locNib16 (fresh16 vol f) ops).2
      (refBRun (validNib true) (fun _ => 256) locNib16 (zeros fun _ => 256) ops).2 := by
  have hvf := valid16 vol f
  have := brun_ref (laws16 vol f) locNib16 (by rw [hvf.1]; exact locNib16_valid) ops (fresh16 vol f) _
    (fresh16_shows vol hv f) hb
  rw [hvf.1, hvf.2] at this
  exact this

/-- **C07, block level, 13 sectors**: any two of D13, NIB, WOZ1, WOZ2 (a DOS 3.2 "block" `[t, s]` is physical sector
`s` of track `t` in all four: `C07.d13_sector_same_place`). -/
theorem container_independence_blocks_13 (vol vol' : Nat) (hv : vol < 256) (hv' : vol' < 256) (f g : Fmt13)
    (ops : List (BOp Block)) (hb : ∀ op ∈ ops, op.Bytes) :
    (brun (store13 vol f) locNib13 (fresh13 vol f) ops).1 = (brun (store13 vol' g) locNib13 (fresh13 vol' g) ops).1 ∧
    (∀ a, validNib false a = true →
      ((store13 vol f).rd (brun (store13 vol f) locNib13 (fresh13 vol f) ops).2 a).1 =
      ((store13 vol' g).rd (brun (store13 vol' g) locNib13 (fresh13 vol' g) ops).2 a).1) ∧
    ∀ blk, (rdBlock (store13 vol f) locNib13 (brun (store13 vol f) locNib13 (fresh13 vol f) ops).2 blk).1 =
      (rdBlock (store13 vol' g) locNib13 (brun (store13 vol' g) locNib13 (fresh13 vol' g) ops).2 blk).1 := by
  have hvf := valid13 vol f
  have hvg := valid13 vol' g
  obtain ⟨e, ⟨m', h1, h2⟩, hr⟩ := block_independence (store13 vol f) (store13 vol' g) (laws13 vol _) (laws13 vol' _)
    (fun a => by rw [hvf.1, hvg.1]) (fun a _ => by rw [hvf.2, hvg.2]) locNib13 locNib13
    (by rw [hvf.1]; exact locNib13_valid) (by rw [hvg.1]; exact locNib13_valid) _ _ _
    (fresh13_shows vol hv f) (fresh13_shows vol' hv' g)
    ops hb (fun _ _ _ _ => rfl)
  exact ⟨e, fun a ha => shows_same_reads h1 h2 (fun a => by rw [hvf.1, hvg.1]) a (by rw [hvf.1]; exact ha),
         fun blk => hr blk rfl⟩

/-! ## non-vacuity: a concrete history on a DO image (evaluated) and on a WOZ2 image (by the theorems) -/

def exOps : List (BOp Block) :=
  [.wb (.po 1) (List.replicate 300 7), .ws (17, 0, 5) [1, 2, 3], .wb (.dos 17 1) [9], .rs (0, 0, 4), .wb (.po 999) [1]]

/-- the reference run: ProDOS block 1 lands in physical sectors 4 and 6 of track 0 (256 + 44 bytes of `7`), the
DOS 3.3 block `[17, 1]` in physical sector 13 of track 17, the sector write in sector 5; block 999 is refused -/
example :
    (refBRun (validNib true) (fun _ => 256) locNib16 (zeros fun _ => 256) exOps).1 =
      [some [], some [], some [], some (List.replicate 256 7), none] ∧
    (refBRun (validNib true) (fun _ => 256) locNib16 (zeros fun _ => 256) exOps).2 (0, 0, 6) =
      List.replicate 44 7 ++ List.replicate 212 0 ∧
    (refBRun (validNib true) (fun _ => 256) locNib16 (zeros fun _ => 256) exOps).2 (17, 0, 5) =
      [1, 2, 3] ++ List.replicate 253 0 ∧
    (refBRun (validNib true) (fun _ => 256) locNib16 (zeros fun _ => 256) exOps).2 (17, 0, 13) =
      9 :: List.replicate 255 0 := by decide +kernel

/-- … which is what the WOZ2 image (bit tracks, TMAP, TRKS) returns, by `blocks16_ref` -/
example : (brun (store16 254 .woz2) locNib16 (fresh16 254 .woz2) exOps).1 =
    [some [], some [], some [], some (List.replicate 256 7), none] := by
  rw [(blocks16_ref 254 (by decide) .woz2 exOps (by decide +kernel)).1]
  decide +kernel

/-- … and what the executable DO model returns when evaluated directly on the 143 360-byte buffer (sector interface) -/
example : (doSecStore.run doBlank [.w (0, 0, 4) (List.replicate 300 7), .r (0, 0, 4), .r (0, 0, 5), .r (35, 0, 0)]).1 =
    [some [], some (List.replicate 256 7), some (List.replicate 256 0), none] := by decide +kernel

/-! ## IBM kinds (every `ibm_patterns` layout): IMG and IMD -/

section ibm
open A2Verif.Gen.C07 (LayoutName)
open A2Verif.Model.AddrMap (geom lat Ibm)

inductive FmtIbm
  | img | imd
deriving DecidableEq, Repr

def szOf (ln : LayoutName) : Nat := lat ln.layout.sectorSize 0

def storeIbm (ln : LayoutName) : FmtIbm → SecStore
  | .img => imgSecStore (geom .imd ln) (szOf ln) (lat ln.layout.cylinders 0) ln.layout.sidesMax (lat ln.layout.sectors 0)
  | .imd => imdStore (geom .imd ln) (fun _ => szOf ln)

/-- `Img::create(kind)` / `Imd::create(kind)` -/
def freshIbm (ln : LayoutName) : (f : FmtIbm) → (storeIbm ln f).St
  | .img => imgBlank (szOf ln) (lat ln.layout.cylinders 0) ln.layout.sidesMax (lat ln.layout.sectors 0)
  | .imd => imdCreate (geom .imd ln)

/-- heads below 16 (so `HEAD_MASK` changes nothing) and pairwise different sector ids on every track, every layout -/
theorem ibm_geom_fine : ∀ ln ∈ A2Verif.Gen.C07.ibmPatterns, geomFineB (geom .imd ln) = true := by decide +kernel

theorem lawsIbm (ln : LayoutName) (hln : ln ∈ A2Verif.Gen.C07.ibmPatterns) (f : FmtIbm) : SecLaws (storeIbm ln f) := by
  have hreg := A2Verif.C07.imd_geometry_regular ln hln
  cases f
  · exact img_laws _ _ _ _ _ (A2Verif.C07.img_imd_same_sectors ln hln).1 hreg (A2Verif.C07.img_imd_same_layout ln hln).2.2.1
  · exact multi_laws imdMulti ImdTInv _ _ imd_multi_ok imd_trk_laws (geomOk_regular _ _ _ _ hreg)
      (fun i hi _ => ((hreg i hi).2.2.2).symm)

theorem freshIbm_shows (ln : LayoutName) (hln : ln ∈ A2Verif.Gen.C07.ibmPatterns) (f : FmtIbm) :
    Shows (storeIbm ln f) (freshIbm ln f) (zeros fun _ => szOf ln) := by
  have hreg := A2Verif.C07.imd_geometry_regular ln hln
  cases f
  · exact img_blank_shows _ _ _ _ _ (A2Verif.C07.img_imd_same_sectors ln hln).1 hreg (A2Verif.C07.img_imd_same_layout ln hln).2.2.1
  · exact imd_create_shows _ _ (geomOk_regular _ _ _ _ hreg) (ibm_geom_fine ln hln) (fun i hi _ => ((hreg i hi).2.2.2).symm)

theorem validIbm (ln : LayoutName) (f : FmtIbm) :
    (storeIbm ln f).valid = validG (geom .imd ln) ∧ (storeIbm ln f).unit = fun _ => szOf ln := by
  cases f <;> exact ⟨rfl, rfl⟩

/-- **C07, sector level, IBM kinds: IMG vs IMD, every `ibm_patterns` layout, no hypotheses.**  The flat sector dump
and the IMD object (track records searched with a rotating head and a cached buffer offset), freshly created for the
same layout: every history of physical sector reads and writes (any cylinder / head / sector id, valid or not) returns
the same on both, and afterwards every physical sector reads the same bytes. -/
theorem container_independence_sectors_ibm (ln : LayoutName) (hln : ln ∈ A2Verif.Gen.C07.ibmPatterns) (f g : FmtIbm)
    (ops : List SOp) (hb : ∀ op ∈ ops, op.Bytes) :
    ((storeIbm ln f).run (freshIbm ln f) ops).1 = ((storeIbm ln g).run (freshIbm ln g) ops).1 ∧
    ∀ a, validG (geom .imd ln) a = true →
      ((storeIbm ln f).rd ((storeIbm ln f).run (freshIbm ln f) ops).2 a).1 =
      ((storeIbm ln g).rd ((storeIbm ln g).run (freshIbm ln g) ops).2 a).1 := by
  have hvf := validIbm ln f
  have hvg := validIbm ln g
  obtain ⟨e, m', h1, h2⟩ := sector_independence (storeIbm ln f) (storeIbm ln g) (lawsIbm ln hln f) (lawsIbm ln hln g)
    (fun a => by rw [hvf.1, hvg.1]) (fun a _ => by rw [hvf.2, hvg.2]) _ _ _
    (freshIbm_shows ln hln f) (freshIbm_shows ln hln g) ops hb
  refine ⟨e, fun a ha => ?_⟩
  exact shows_same_reads h1 h2 (fun a => by rw [hvf.1, hvg.1]) a (by rw [hvf.1]; exact ha)

/-- FAT cluster → sectors: `Img::write_block` / `Imd::write_block` (`get_lsecs`, `fat_blocking`, per-sector checks:
`C07.locateIbm`), then one `write_sector` per sector.  The guard "every located sector exists" is redundant — each
piece passed `imgSector` / `geomSector` inside `ibmPieces` — and is only there to spare the proof of that. -/
def locFat (c : Ibm) (ln : LayoutName) (blk : Block) : Option (List CHS) :=
  match A2Verif.C07.locateIbm c ln blk with
  | some as => if as.all (validG (geom .imd ln)) then some as else none
  | none => none

theorem locFat_valid (c : Ibm) (ln : LayoutName) (blk : Block) (as : List CHS) (h : locFat c ln blk = some as) :
    ∀ a ∈ as, validG (geom .imd ln) a = true := by
  unfold locFat at h
  split at h
  · split at h
    · rename_i hall
      simp only [Option.some.injEq] at h
      subst h
      exact fun a ha => (List.all_eq_true.mp hall) a ha
    · cases h
  · cases h

def FmtIbm.ibm : FmtIbm → Ibm
  | .img => .img
  | .imd => .imd

/-- **C07, block level, IBM FAT kinds: IMG vs IMD**: the same history of FAT cluster reads/writes (and sector
operations) on both containers: same results, same content in every sector, same bytes from every cluster. -/
theorem container_independence_blocks_ibm_fat (ln : LayoutName) (hln : ln ∈ A2Verif.Gen.C07.ibmPatterns) (f g : FmtIbm)
    (ops : List (BOp Block)) (hb : ∀ op ∈ ops, op.Bytes) (hfat : ∀ op ∈ ops, ∀ r ∈ op.blocks, ∃ s n, r = .fat s n) :
    (brun (storeIbm ln f) (locFat f.ibm ln) (freshIbm ln f) ops).1 =
      (brun (storeIbm ln g) (locFat g.ibm ln) (freshIbm ln g) ops).1 ∧
    (∀ a, validG (geom .imd ln) a = true →
      ((storeIbm ln f).rd (brun (storeIbm ln f) (locFat f.ibm ln) (freshIbm ln f) ops).2 a).1 =
      ((storeIbm ln g).rd (brun (storeIbm ln g) (locFat g.ibm ln) (freshIbm ln g) ops).2 a).1) ∧
    ∀ s n, (rdBlock (storeIbm ln f) (locFat f.ibm ln) (brun (storeIbm ln f) (locFat f.ibm ln) (freshIbm ln f) ops).2 (.fat s n)).1 =
      (rdBlock (storeIbm ln g) (locFat g.ibm ln) (brun (storeIbm ln g) (locFat g.ibm ln) (freshIbm ln g) ops).2 (.fat s n)).1 := by
  have hvf := validIbm ln f
  have hvg := validIbm ln g
  have hagree : ∀ s n, locFat f.ibm ln (.fat s n) = locFat g.ibm ln (.fat s n) := by
    intro s n
    unfold locFat
    rw [A2Verif.C07.locateIbm_fat_agree ln hln f.ibm g.ibm s n]
  obtain ⟨e, ⟨m', h1, h2⟩, hr⟩ := block_independence (storeIbm ln f) (storeIbm ln g) (lawsIbm ln hln f) (lawsIbm ln hln g)
    (fun a => by rw [hvf.1, hvg.1]) (fun a _ => by rw [hvf.2, hvg.2]) (locFat f.ibm ln) (locFat g.ibm ln)
    (by rw [hvf.1]; exact locFat_valid f.ibm ln) (by rw [hvg.1]; exact locFat_valid g.ibm ln) _ _ _
    (freshIbm_shows ln hln f) (freshIbm_shows ln hln g) ops hb
    (fun op hop r hr => by obtain ⟨s, n, rfl⟩ := hfat op hop r hr; exact hagree s n)
  exact ⟨e, fun a ha => shows_same_reads h1 h2 (fun a => by rw [hvf.1, hvg.1]) a (by rw [hvf.1]; exact ha),
         fun s n => hr _ (hagree s n)⟩

/-- non-vacuity: a FAT cluster crossing a track boundary on a 360K disk, located alike by both, guard passed -/
example : locFat .img .IBM_DSDD_9 (.fat 17 2) = some [(0, 1, 9), (1, 0, 1)] ∧
    locFat .imd .IBM_DSDD_9 (.fat 17 2) = some [(0, 1, 9), (1, 0, 1)] ∧
    LayoutName.IBM_DSDD_9 ∈ A2Verif.Gen.C07.ibmPatterns := by decide +kernel

/-- … and the executable IMD object evaluated directly: write sector 9 of cylinder 0 head 1, read it back with the
head standing behind it, read a neighbour, ask for a sector id that is not on the track -/
example : ((storeIbm .IBM_DSDD_9 .imd).run (freshIbm .IBM_DSDD_9 .imd)
      [.w (0, 1, 9) [5, 6], .r (0, 1, 9), .r (0, 1, 1), .r (0, 1, 10), .r (40, 0, 1)]).1 =
    [some [], some ([5, 6] ++ List.replicate 510 0), some (List.replicate 512 0), none, none] := by decide +kernel

end ibm

end A2Verif.C07All
